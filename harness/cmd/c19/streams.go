package main

import (
	"context"
	"fmt"
	"sort"
	"strings"
	"sync"
	"sync/atomic"
	"time"

	"github.com/smart-core-os/sc-api/go/traits"
	"github.com/smart-core-os/sc-api/go/types"
	"github.com/smart-core-os/sc-golang/pkg/resource"
	"github.com/smart-core-os/sc-golang/pkg/trait/electricpb"
	"github.com/smart-core-os/sc-golang/verifharness/lib"
)

// collector drains a subscription continuously (so the model never waits for the harness) and lets
// the harness wait for a known number of events.
type collector[T any] struct {
	mu    sync.Mutex
	items []T
	ping  chan struct{}
}

func newCollector[T any]() *collector[T] { return &collector[T]{ping: make(chan struct{}, 1)} }

func (c *collector[T]) push(x T) {
	c.mu.Lock()
	c.items = append(c.items, x)
	c.mu.Unlock()
	select {
	case c.ping <- struct{}{}:
	default:
	}
}

// take waits (bounded) until n events are there and removes them; ok=false on timeout.
func (c *collector[T]) take(n int, timeout time.Duration) (out []T, ok bool) {
	deadline := time.NewTimer(timeout)
	defer deadline.Stop()
	for {
		c.mu.Lock()
		if len(c.items) >= n {
			out = append(out, c.items[:n]...)
			c.items = c.items[n:]
			c.mu.Unlock()
			return out, true
		}
		c.mu.Unlock()
		select {
		case <-c.ping:
		case <-deadline.C:
			return nil, false
		}
	}
}

func (c *collector[T]) pending() int {
	c.mu.Lock()
	defer c.mu.Unlock()
	return len(c.items)
}

// streams are the two subscriptions a world keeps from its creation (updates only, lossless).
type streams struct {
	cancel context.CancelFunc
	modes  *collector[electricpb.PullModesChange]
	active *collector[electricpb.PullActiveModeChange]
	view   map[string]*traits.ElectricMode // the subscriber's folded view of the modes
	// a second subscriber that joins both streams later, NOT updates-only: it is seeded with the stored modes and
	// the active mode, then follows the same events
	lateModes  *collector[electricpb.PullModesChange]
	lateActive *collector[electricpb.PullActiveModeChange]
	lateCancel context.CancelFunc
}

// joinLate subscribes the late subscriber and checks what it is seeded with against the model's listing and active
// mode at this moment (plain reads of the real model are the oracle).
func (w *world) joinLate(m *lib.Monitor, input any) {
	st := w.streams
	if st == nil || st.lateModes != nil || m == nil {
		return
	}
	ctx, cancel := context.WithCancel(context.Background())
	st.lateCancel = cancel
	st.lateModes = newCollector[electricpb.PullModesChange]()
	st.lateActive = newCollector[electricpb.PullActiveModeChange]()
	now := w.snapshot()
	mch := w.model.PullModes(ctx, resource.WithBackpressure(true))
	ach := w.model.PullActiveMode(ctx, resource.WithBackpressure(true))
	lm, la := st.lateModes, st.lateActive
	go func() {
		for e := range mch {
			lm.push(e)
		}
	}()
	go func() {
		for e := range ach {
			la.push(e)
		}
	}()
	seeds, ok := st.lateModes.take(len(now.Modes), eventTimeout())
	var got []string
	for _, e := range seeds {
		got = append(got, showModeEvent(e))
	}
	var want []string
	for _, x := range now.Modes {
		want = append(want, "A"+showMode(x))
	}
	if !ok {
		missingEvents.Add(1)
		got = []string{"MISSING"}
	}
	if strings.Join(got, ";") != strings.Join(want, ";") {
		m.Violate("C19/pull/late-seed-not-the-modes", "a PullModes subscriber that joined later was not seeded with the stored modes (one ADD each, in listing order)", input, strings.Join(want, ";"), strings.Join(got, ";"))
	}
	as, ok := st.lateActive.take(1, eventTimeout())
	gotA := "MISSING"
	if ok {
		gotA = showMode(as[0].ActiveMode)
	} else {
		missingEvents.Add(1)
	}
	if gotA != showMode(now.Active) {
		m.Violate("C19/pull/late-seed-not-the-active-mode", "a PullActiveMode subscriber that joined later was not seeded with the active mode", input, showMode(now.Active), gotA)
	}
}

// lateEvents: what the late subscriber must have been sent for the last operation - the PullModes events of the
// first subscriber, and the active mode when a Set succeeded with a value that differs from the one it saw last.
func (w *world) lateEvents(m *lib.Monitor, input any, o op, before, after snap, err error, ms []string) {
	st := w.streams
	if st.lateModes == nil {
		return
	}
	if m == nil {
		return // not judged any more (the collectors keep draining, nothing blocks)
	}
	evs, ok := st.lateModes.take(len(ms), eventTimeout())
	var got []string
	for _, e := range evs {
		got = append(got, showModeEvent(e))
	}
	if !ok {
		missingEvents.Add(1)
		got = []string{"MISSING"}
	}
	if strings.Join(got, ";") != strings.Join(ms, ";") {
		m.Violate("C19/pull/late-subscriber-events-differ/"+o.Kind, "a PullModes subscriber that joined later was not sent the events the first subscriber was sent", input, strings.Join(ms, ";"), strings.Join(got, ";"))
	}
	wantActive := 0
	switch o.Kind {
	case "setactive", "change", "clear", "s.change", "s.clear":
		if err == nil && showMode(before.Active) != showMode(after.Active) {
			wantActive = 1
		}
	}
	aevs, ok := st.lateActive.take(wantActive, eventTimeout())
	if !ok {
		missingEvents.Add(1)
		m.Violate("C19/pull/late-active-event-missing/"+o.Kind, "the active mode changed but the PullActiveMode subscriber that joined later was sent nothing", input, showMode(after.Active), "none within 10s")
	}
	for _, e := range aevs {
		if showMode(e.ActiveMode) != showMode(after.Active) {
			m.Violate("C19/pull/late-active-event-not-the-active-mode/"+o.Kind, "the PullActiveMode event of the subscriber that joined later is not the model's active mode", input, showMode(after.Active), showMode(e.ActiveMode))
		}
	}
}

func (w *world) subscribe(cfg config) {
	ctx, cancel := context.WithCancel(context.Background())
	st := &streams{cancel: cancel, modes: newCollector[electricpb.PullModesChange](), active: newCollector[electricpb.PullActiveModeChange](), view: map[string]*traits.ElectricMode{}}
	for _, m := range cfg.Modes {
		st.view[m.ID] = m.proto()
	}
	for _, r := range cfg.Recs {
		st.view[r.Mode.ID] = r.Mode.proto()
	}
	mch := w.model.PullModes(ctx, resource.WithUpdatesOnly(true), resource.WithBackpressure(true))
	ach := w.model.PullActiveMode(ctx, resource.WithUpdatesOnly(true), resource.WithBackpressure(true))
	go func() {
		for e := range mch {
			st.modes.push(e)
		}
	}()
	go func() {
		for e := range ach {
			st.active.push(e)
		}
	}()
	w.streams = st
}

func showModeEvent(e electricpb.PullModesChange) string {
	switch e.Type {
	case types.ChangeType_ADD:
		return "A" + showMode(e.NewValue)
	case types.ChangeType_UPDATE:
		return "U" + showMode(e.OldValue) + ">" + showMode(e.NewValue)
	case types.ChangeType_REMOVE:
		return "R" + showMode(e.OldValue)
	}
	return "?" + e.Type.String()
}

// eventTimeout is generous on purpose (a missing event is a violation, never a timing matter); once a
// few events have gone missing in a run the wait is cut so that a broken tree cannot stall the check.
var missingEvents atomic.Int32

func eventTimeout() time.Duration {
	if missingEvents.Load() >= 3 {
		return 20 * time.Millisecond
	}
	return 10 * time.Second
}

// collectEvents gathers the events the last operation must have published. How many to wait for is
// decided from the observable state alone: one PullModes event iff the mode list changed; one
// PullActiveMode event iff a Set succeeded and the value differs from the one published before.
func (w *world) collectEvents(m *lib.Monitor, input any, o op, before, after snap, err error, hadActiveEvent *bool) string {
	st := w.streams
	if o.untame() != "" || w.untamed {
		m = nil // the state-level monitor reports this operation; the events still go to the tie
	}
	wantModes := 0
	if strings.Join(modeStrings(before), ";") != strings.Join(modeStrings(after), ";") {
		wantModes = 1
	}
	wantActive := 0
	switch o.Kind {
	case "setactive", "change", "clear", "s.change", "s.clear":
		if err == nil && (!*hadActiveEvent || showMode(before.Active) != showMode(after.Active)) {
			wantActive = 1
			*hadActiveEvent = true
		}
	}
	var ms, as []string
	evs, ok := st.modes.take(wantModes, eventTimeout())
	if !ok {
		missingEvents.Add(1)
		ms = append(ms, "MISSING")
		if m != nil {
			m.Violate("C19/pull/modes-event-missing/"+o.Kind, "the mode list changed but PullModes delivered no event", input, "1 event", "none within 10s")
		}
	}
	for _, e := range evs {
		ms = append(ms, showModeEvent(e))
		// fold into the subscriber's view and check the invariants at this event boundary
		switch e.Type {
		case types.ChangeType_ADD, types.ChangeType_UPDATE:
			st.view[e.NewValue.Id] = e.NewValue
		case types.ChangeType_REMOVE:
			delete(st.view, e.OldValue.Id)
		}
		normals := 0
		for _, v := range st.view {
			if v.Normal {
				normals++
			}
		}
		if normals > 1 && m != nil {
			m.Violate("C19/pull/view-more-than-one-normal-mode/"+o.Kind, "a PullModes subscriber's folded view shows more than one normal mode", input, "at most 1", fmt.Sprint(normals))
		}
	}
	aevs, ok := st.active.take(wantActive, eventTimeout())
	if !ok {
		missingEvents.Add(1)
		as = append(as, "MISSING")
		if m != nil {
			m.Violate("C19/pull/active-event-missing/"+o.Kind, "the active mode was set but PullActiveMode delivered no event", input, "1 event", "none within 10s")
		}
	}
	for _, e := range aevs {
		as = append(as, showMode(e.ActiveMode))
		if m != nil && showMode(e.ActiveMode) != showMode(after.Active) {
			m.Violate("C19/pull/active-event-not-the-active-mode/"+o.Kind, "the PullActiveMode event is not the model's active mode", input, showMode(after.Active), showMode(e.ActiveMode))
		}
		if m != nil && !after.has(e.ActiveMode.Id) {
			m.Violate("C19/pull/active-event-not-in-modes/"+o.Kind, "a PullActiveMode subscriber was told of an active mode that is not stored", input, "id in modes", e.ActiveMode.Id)
		}
	}
	// at the operation boundary the folded view is the model's mode list
	if m != nil {
		var vs []string
		ids := make([]string, 0, len(st.view))
		for id := range st.view {
			ids = append(ids, id)
		}
		sort.Strings(ids)
		for _, id := range ids {
			vs = append(vs, showMode(st.view[id]))
		}
		if strings.Join(vs, ";") != strings.Join(modeStrings(after), ";") {
			m.Violate("C19/pull/view-differs-from-modes/"+o.Kind, "folding the PullModes events does not give the model's mode list", input, strings.Join(modeStrings(after), ";"), strings.Join(vs, ";"))
		}
	}
	w.lateEvents(m, input, o, before, after, err, ms)
	return fmt.Sprintf(" events=[%s] active-events=[%s]", strings.Join(ms, ";"), strings.Join(as, ";"))
}
