package main

import (
	"context"
	"encoding/base64"
	"encoding/hex"
	"fmt"
	"sort"
	"strconv"
	"strings"
	"sync"
	"sync/atomic"
	"time"

	"google.golang.org/grpc/codes"
	"google.golang.org/grpc/status"
	"google.golang.org/protobuf/proto"
	"google.golang.org/protobuf/types/known/fieldmaskpb"
	"google.golang.org/protobuf/types/known/timestamppb"

	"github.com/smart-core-os/sc-api/go/traits"
	"github.com/smart-core-os/sc-golang/pkg/resource"
	"github.com/smart-core-os/sc-golang/pkg/time/clock"
	"github.com/smart-core-os/sc-golang/pkg/trait/electricpb"
	"github.com/smart-core-os/sc-golang/verifharness/lib"
)

// mode is an ElectricMode reduced to the modelled fields (start_time in whole seconds, 0 = absent).
type mode struct {
	ID     string `json:"id"`
	Title  string `json:"title"`
	Normal bool   `json:"normal"`
	Start  int64  `json:"start,omitempty"`
	Desc   string `json:"description,omitempty"`
	Volt   int    `json:"voltage,omitempty"`  // whole volts
	Segs   []int  `json:"segments,omitempty"` // magnitude of each segment (whole numbers, non-zero)
}

func (m mode) proto() *traits.ElectricMode {
	p := &traits.ElectricMode{Id: m.ID, Title: m.Title, Normal: m.Normal, Description: m.Desc, Voltage: float32(m.Volt)}
	if m.Start != 0 {
		p.StartTime = &timestamppb.Timestamp{Seconds: m.Start}
	}
	for _, g := range m.Segs {
		p.Segments = append(p.Segments, &traits.ElectricMode_Segment{Magnitude: float32(g)})
	}
	return p
}

func hexs(s string) string { return hex.EncodeToString([]byte(s)) }

func showMode(p *traits.ElectricMode) string {
	if p == nil {
		return "nil"
	}
	st := "-"
	if p.StartTime != nil {
		st = strconv.FormatInt(p.StartTime.Seconds, 10)
		if p.StartTime.Nanos != 0 {
			st += "." + strconv.Itoa(int(p.StartTime.Nanos))
		}
	}
	n := "0"
	if p.Normal {
		n = "1"
	}
	volt := strconv.FormatFloat(float64(p.Voltage), 'f', -1, 32)
	segs := "-"
	extra := ""
	if len(p.Segments) > 0 {
		xs := make([]string, len(p.Segments))
		for i, g := range p.Segments {
			xs[i] = strconv.FormatFloat(float64(g.GetMagnitude()), 'f', -1, 32)
			if g.GetLength() != nil || g.GetFixed() != 0 || g.GetShape() != nil {
				extra = "+unmodelled-segment-fields"
			}
		}
		segs = strings.Join(xs, ",")
	}
	return "m:" + hexs(p.Id) + ":" + hexs(p.Title) + ":" + n + ":" + st + ":" + hexs(p.Description) + ":" + volt + ":" + segs + extra
}

func (m mode) String() string { return showMode(m.proto()) }

// op is one operation on the electric model or its servers.
type op struct {
	Kind         string   `json:"kind"` // create add update delete setactive change clear s.create s.update s.delete s.change s.clear
	Mode         *mode    `json:"mode,omitempty"`
	ID           string   `json:"id,omitempty"`
	Mask         []string `json:"mask,omitempty"`
	HasMask      bool     `json:"has_mask,omitempty"`
	AllowMissing bool     `json:"allow_missing,omitempty"`
	Now          int64    `json:"now,omitempty"`
	Cands        []string `json:"cands,omitempty"` // ids the scripted RNG yields, try by try
	// Model-level write options of UpdateMode / DeleteMode (the servers cannot pass them)
	CreateIfAbsent bool  `json:"create_if_absent,omitempty"` // resource.WithCreateIfAbsent()
	ExpectAbsent   bool  `json:"expect_absent,omitempty"`    // resource.WithExpectAbsent()
	Expected       *mode `json:"expected,omitempty"`         // resource.WithExpectedValue(mode)
	// the caller's own code and the reset mask among the options of UpdateMode (options.go)
	Reset    []string `json:"reset,omitempty"`     // resource.WithResetPaths
	HasReset bool     `json:"has_reset,omitempty"` //
	Check    string   `json:"check,omitempty"`     // resource.WithExpectedCheck(namedCheck); also on DeleteMode
	Before   string   `json:"before,omitempty"`    // resource.InterceptBefore(namedIcpt)
	After    string   `json:"after,omitempty"`     // resource.InterceptAfter(namedIcpt)
	// NilMode: the request of an RPC (s.create, s.update, s.change) carries no mode message at all
	NilMode bool `json:"nil_mode,omitempty"`
}

// reqMode is the mode message of an RPC request: nil when the request carries none.
func (o op) reqMode() *traits.ElectricMode {
	if o.NilMode || o.Mode == nil {
		return nil
	}
	return o.Mode.proto()
}

func (o op) hasWriteOpts() bool {
	return o.CreateIfAbsent || o.ExpectAbsent || o.Expected != nil || o.hasCallerCode()
}

func (o op) expectedToken() string {
	if o.Expected == nil {
		return "-"
	}
	return o.Expected.String()
}

func b01(b bool) string {
	if b {
		return "1"
	}
	return "0"
}

// line renders the op for the Lean driver.
func (o op) line() string {
	mask := "nil"
	if o.HasMask {
		mask = "p:" + strings.Join(o.Mask, ",")
	}
	cands := "c"
	if len(o.Cands) > 0 {
		hs := make([]string, len(o.Cands))
		for i, c := range o.Cands {
			hs[i] = hexs(c)
		}
		cands = "c" + strings.Join(hs, ",")
	}
	m := ""
	if o.Mode != nil {
		m = o.Mode.String()
	}
	if o.NilMode {
		// a request without a mode message: for UpdateMode / UpdateActiveMode that is the empty id; CreateMode has its
		// own operation in the model
		switch o.Kind {
		case "s.create":
			return "s.create nil " + cands
		case "s.update":
			return "s.update " + mode{}.String() + " " + mask
		case "s.change":
			return fmt.Sprintf("s.change i %d", o.Now)
		}
	}
	switch o.Kind {
	case "create", "s.create":
		return o.Kind + " " + m + " " + cands
	case "add", "setactive":
		return o.Kind + " " + m
	case "update", "s.update":
		if o.Kind == "update" && o.hasCallerCode() {
			reset := "nil"
			if o.HasReset {
				reset = "p:" + strings.Join(o.Reset, ",")
			}
			return o.Kind + " " + m + " " + mask + " w" + b01(o.CreateIfAbsent) + b01(o.ExpectAbsent) + " " + o.expectedToken() +
				" " + reset + " " + dash(o.Check) + " " + dash(o.Before) + " " + dash(o.After)
		}
		if o.Kind == "update" && o.hasWriteOpts() {
			return o.Kind + " " + m + " " + mask + " w" + b01(o.CreateIfAbsent) + b01(o.ExpectAbsent) + " " + o.expectedToken()
		}
		return o.Kind + " " + m + " " + mask
	case "delete", "s.delete":
		if o.Kind == "delete" && o.Check != "" {
			return o.Kind + " i" + hexs(o.ID) + " " + b01(o.AllowMissing) + " " + o.expectedToken() + " " + o.Check
		}
		if o.Kind == "delete" && o.Expected != nil {
			return o.Kind + " i" + hexs(o.ID) + " " + b01(o.AllowMissing) + " " + o.expectedToken()
		}
		return o.Kind + " i" + hexs(o.ID) + " " + b01(o.AllowMissing)
	case "change", "s.change":
		return fmt.Sprintf("%s i%s %d", o.Kind, hexs(o.ID), o.Now)
	case "clear", "s.clear":
		return fmt.Sprintf("%s %d", o.Kind, o.Now)
	case "find":
		return "find i" + hexs(o.ID)
	}
	return "unknown-op"
}

// fakeClock is the injected model clock.
type fakeClock struct{ now atomic.Int64 }

func (c *fakeClock) Now() time.Time { return time.Unix(c.now.Load(), 0) }
func (c *fakeClock) At(t time.Time) <-chan time.Time {
	ch := make(chan time.Time, 1)
	ch <- t
	return ch
}
func (c *fakeClock) After(d time.Duration) <-chan time.Time { return c.At(c.Now().Add(d)) }
func (c *fakeClock) Every(d time.Duration) clock.Ticker     { return nopTicker{} }

type nopTicker struct{}

func (nopTicker) C() <-chan time.Time { return nil }
func (nopTicker) Stop()               {}

// scriptReader is the injected RNG: each Read returns the next scripted chunk.
type scriptReader struct {
	mu    sync.Mutex
	queue [][]byte
	fall  byte
}

func (r *scriptReader) Read(p []byte) (int, error) {
	r.mu.Lock()
	defer r.mu.Unlock()
	if len(r.queue) > 0 && len(r.queue[0]) == len(p) {
		copy(p, r.queue[0])
		r.queue = r.queue[1:]
		return len(p), nil
	}
	// not scripted (or the code asks for a different length): deterministic filler
	for i := range p {
		r.fall++
		p[i] = r.fall
	}
	return len(p), nil
}

func (r *scriptReader) script(cands []string) {
	r.mu.Lock()
	defer r.mu.Unlock()
	r.queue = nil
	for _, c := range cands {
		b, err := base64.RawURLEncoding.DecodeString(c)
		if err != nil {
			b = []byte(c)
		}
		r.queue = append(r.queue, b)
	}
}

// candidate ids: try i reads 6+i bytes; variant j picks the byte pattern.
func cand(i, j int) string {
	b := make([]byte, 6+i)
	for k := range b {
		b[k] = byte(17*j + 3*k + i)
	}
	return base64.RawURLEncoding.EncodeToString(b)
}

type world struct {
	model   *electricpb.Model
	server  *electricpb.ModelServer
	clk     *fakeClock
	rng     *scriptReader
	chMu    sync.Mutex
	changed bool
	streams *streams
	// untamed: an UpdateMode with options outside WOpts.Tame has succeeded (records may no longer carry their keys:
	// from then on the run feeds the tie only)
	untamed bool
	// foreign: the model was configured with a record under a key it does not carry
	foreign bool
	// icpt: the mode collection has an id interceptor (config.Icpt): the listing is in key order, not in id order
	icpt string
	// park, when set, is the WithExpectedCheck callback of a DeleteMode / UpdateMode whose check is named "pk" (forced.go)
	park func(proto.Message) error
}

// config is how the model is constructed: NewModel(WithInitialMode(Modes…), WithInitialActiveMode(Active)).
// The zero config is NewModel() (no modes, blank placeholder active mode).
type config struct {
	Modes  []mode `json:"modes,omitempty"`
	Active *mode  `json:"active,omitempty"`
	// Recs: initial records given directly, WithModeOption(resource.WithInitialRecord(key, mode)); used instead of Modes
	Recs []keyed `json:"records,omitempty"`
	// Icpt: "lower" = the mode collection is configured with WithModeOption(resource.WithIDInterceptor(strings.ToLower))
	// (icpt.go: own operation alphabet, own monitor with an oracle that compares ids up to spelling)
	Icpt string `json:"id_interceptor,omitempty"`
	// ActiveWritable: the active mode resource is configured with
	// WithActiveModeOption(resource.WithWritablePaths(&traits.ElectricMode{}, paths...)) (resopts.go: the state
	// clauses are evaluated by the plain-Go monitor, no model tie)
	ActiveWritable []string `json:"active_writable,omitempty"`
}

// keyed is an initial record: a mode stored under a key of the caller's choosing.
type keyed struct {
	Key  string `json:"key"`
	Mode mode   `json:"mode"`
}

// foreign: some initial record does not carry the key it is stored under (a configuration error the
// constructor does not check; outside the hypothesis of C19_keyed_inv: such runs feed the tie only).
func (c config) foreign() bool {
	for _, r := range c.Recs {
		if r.Key != r.Mode.ID {
			return true
		}
	}
	return false
}

func (c config) placeholderID() string {
	if c.Active != nil {
		return c.Active.ID
	}
	return ""
}

// line renders the configuration for the Lean driver.
func (c config) line() string {
	if c.Active == nil && len(c.Modes) == 0 && len(c.Recs) == 0 && c.Icpt == "" && len(c.ActiveWritable) == 0 {
		return "reset"
	}
	a := mode{}
	if c.Active != nil {
		a = *c.Active
	}
	if c.Icpt != "" {
		rs := "-"
		if len(c.Recs) > 0 {
			xs := make([]string, len(c.Recs))
			for i, r := range c.Recs {
				xs[i] = "k" + hexs(r.Key) + "=" + r.Mode.String()
			}
			rs = strings.Join(xs, ";")
		}
		return "iconfig " + c.Icpt + " " + a.String() + " " + rs
	}
	if len(c.Recs) > 0 {
		xs := make([]string, len(c.Recs))
		for i, r := range c.Recs {
			xs[i] = "k" + hexs(r.Key) + "=" + r.Mode.String()
		}
		return "kconfig " + a.String() + " " + strings.Join(xs, ";")
	}
	ms := "-"
	if len(c.Modes) > 0 {
		xs := make([]string, len(c.Modes))
		for i, m := range c.Modes {
			xs[i] = m.String()
		}
		ms = strings.Join(xs, ";")
	}
	if len(c.ActiveWritable) > 0 {
		return "awconfig p:" + strings.Join(c.ActiveWritable, ",") + " " + a.String() + " " + ms
	}
	return "config " + a.String() + " " + ms
}

// invalid: the construction panics (WithInitialMode on a mode without id; resource.WithInitialRecord on an id
// configured twice).
func (c config) invalid() bool {
	seen := map[string]bool{}
	for _, m := range c.Modes {
		if m.ID == "" || seen[m.ID] {
			return true
		}
		seen[m.ID] = true
	}
	for _, r := range c.Recs {
		// (an initial record is kept under the id interceptor's image of its key, 215ba16)
		if seen[c.canon(r.Key)] {
			return true
		}
		seen[c.canon(r.Key)] = true
	}
	return false
}

func newWorld() *world { return newWorldCfg(config{}) }

func newWorldCfg(c config) *world {
	w := &world{clk: &fakeClock{}, rng: &scriptReader{}, foreign: c.foreign(), icpt: c.Icpt}
	opts := []resource.Option{electricpb.WithClock(w.clk), resource.WithRNG(w.rng)}
	if c.Icpt == "lower" {
		opts = append(opts, electricpb.WithModeOption(resource.WithIDInterceptor(strings.ToLower)))
	}
	if c.Icpt == "ns" {
		opts = append(opts, electricpb.WithModeOption(resource.WithIDInterceptor(nsPrefix)))
	}
	if len(c.ActiveWritable) > 0 {
		opts = append(opts, electricpb.WithActiveModeOption(resource.WithWritablePaths(&traits.ElectricMode{}, c.ActiveWritable...)))
	}
	if len(c.Modes) > 0 {
		ms := make([]*traits.ElectricMode, len(c.Modes))
		for i, m := range c.Modes {
			ms[i] = m.proto()
		}
		// WithInitialMode is additive: the first mode through one option, the others through a second one
		opts = append(opts, electricpb.WithInitialMode(ms[:1]...))
		if len(ms) > 1 {
			opts = append(opts, electricpb.WithInitialMode(ms[1:]...))
		}
	}
	for _, r := range c.Recs {
		opts = append(opts, electricpb.WithModeOption(resource.WithInitialRecord(r.Key, r.Mode.proto())))
	}
	if c.Active != nil {
		opts = append(opts, electricpb.WithInitialActiveMode(c.Active.proto()))
	}
	w.model = electricpb.NewModel(opts...)
	w.server = electricpb.NewModelServer(w.model)
	return w
}

var bg = context.Background()

func codeName(err error) string {
	if s, ok := status.FromError(err); ok {
		return s.Code().String()
	}
	return codes.Unknown.String()
}

func res(m *traits.ElectricMode, withMode bool, err error) string {
	if err != nil {
		return "err:" + codeName(err)
	}
	if withMode {
		return "OK=" + showMode(m)
	}
	return "OK"
}

func (o op) writeOpts() []resource.WriteOption { return o.writeOptsWith(nil) }

func (o op) writeOptsWith(park func(proto.Message) error) []resource.WriteOption {
	var opts []resource.WriteOption
	if o.HasMask {
		opts = append(opts, resource.WithUpdateMask(&fieldmaskpb.FieldMask{Paths: append([]string{}, o.Mask...)}))
	}
	if o.CreateIfAbsent {
		opts = append(opts, resource.WithCreateIfAbsent())
	}
	if o.ExpectAbsent {
		opts = append(opts, resource.WithExpectAbsent())
	}
	if o.Expected != nil {
		opts = append(opts, resource.WithExpectedValue(o.Expected.proto()))
	}
	return append(opts, o.callerOptsWith(park)...)
}

func (o op) fieldMask() *fieldmaskpb.FieldMask {
	if o.HasMask {
		return &fieldmaskpb.FieldMask{Paths: append([]string{}, o.Mask...)}
	}
	return nil
}

// apply runs one op on the real code and returns its canonical result.
func (w *world) apply(o op) (out string, err error, panicked bool) {
	w.clk.now.Store(o.Now)
	w.rng.script(o.Cands)
	return w.exec(o)
}

// exec runs one op without touching the injected clock or the RNG script (concurrent use, and
// sequential reference runs that share one script across operations).
func (w *world) exec(o op) (out string, err error, panicked bool) {
	p, msg := lib.Catch(func() {
		var m *traits.ElectricMode
		switch o.Kind {
		case "create":
			m, err = w.model.CreateMode(o.Mode.proto())
			out = res(m, true, err)
		case "add":
			err = w.model.AddMode(o.Mode.proto())
			out = res(nil, false, err)
		case "update":
			m, err = w.model.UpdateMode(o.Mode.proto(), o.writeOptsWith(w.park)...)
			out = res(m, true, err)
		case "delete":
			dopts := []resource.WriteOption{resource.WithAllowMissing(o.AllowMissing)}
			if o.Expected != nil {
				dopts = append(dopts, resource.WithExpectedValue(o.Expected.proto()))
			}
			if o.Check == "pk" && w.park != nil {
				// forced-overlap rounds: the caller's check parks the delete inside Collection.Delete
				dopts = append(dopts, resource.WithExpectedCheck(w.park))
			} else if o.Check != "" {
				dopts = append(dopts, resource.WithExpectedCheck(namedCheck(o.Check)))
			}
			err = w.model.DeleteMode(o.ID, dopts...)
			out = res(nil, false, err)
		case "setactive":
			err = w.model.SetActiveMode(o.Mode.proto())
			out = res(nil, false, err)
		case "change":
			m, err = w.model.ChangeActiveMode(o.ID)
			out = res(m, true, err)
		case "clear":
			m, err = w.model.ChangeToNormalMode()
			out = res(m, true, err)
		case "find":
			var ok bool
			m, ok = w.model.FindMode(o.ID)
			if ok {
				out = res(m, true, nil)
			} else {
				out = "err:NotFound" // FindMode reports absence by ok == false
			}
		case "s.create":
			m, err = w.server.CreateMode(bg, &electricpb.CreateModeRequest{Mode: o.reqMode()})
			out = res(m, true, err)
		case "s.update":
			m, err = w.server.UpdateMode(bg, &electricpb.UpdateModeRequest{Mode: o.reqMode(), UpdateMask: o.fieldMask()})
			out = res(m, true, err)
		case "s.delete":
			_, err = w.server.DeleteMode(bg, &electricpb.DeleteModeRequest{Id: o.ID, AllowMissing: o.AllowMissing})
			out = res(nil, false, err)
		case "s.change":
			am := &traits.ElectricMode{Id: o.ID}
			if o.NilMode {
				am = nil
			}
			m, err = w.server.UpdateActiveMode(bg, &traits.UpdateActiveModeRequest{ActiveMode: am})
			out = res(m, true, err)
		case "s.clear":
			m, err = w.server.ClearActiveMode(bg, &traits.ClearActiveModeRequest{})
			out = res(m, true, err)
		default:
			out = "unknown-op"
		}
	})
	if p {
		return "panic", fmt.Errorf("panic: %s", msg), true
	}
	if err == nil {
		switch o.Kind {
		case "setactive", "change", "clear", "s.change", "s.clear":
			w.chMu.Lock()
			w.changed = true
			w.chMu.Unlock()
		}
	}
	return out, err, false
}

// snapshot of the observable state
type snap struct {
	Modes  []*traits.ElectricMode
	Active *traits.ElectricMode
	Normal *traits.ElectricMode
	// Orphans: the ids of listed modes that a lookup of that id does not find (the record does not carry the
	// key it is stored under)
	Orphans []string
}

func (w *world) snapshot() snap {
	s := snap{Modes: w.model.Modes(), Active: w.model.ActiveMode()}
	if n, ok := w.model.NormalMode(); ok {
		s.Normal = n
	}
	for _, m := range s.Modes {
		if f, ok := w.model.FindMode(m.Id); !ok || f.Id != m.Id {
			s.Orphans = append(s.Orphans, m.Id)
		}
	}
	return s
}

func (s snap) has(id string) bool {
	for _, m := range s.Modes {
		if m.Id == id {
			return true
		}
	}
	return false
}

func (s snap) normals() []string {
	var ids []string
	for _, m := range s.Modes {
		if m.Normal {
			ids = append(ids, m.Id)
		}
	}
	return ids
}

func (w *world) stateString(s snap) string {
	ms := make([]string, len(s.Modes))
	for i, m := range s.Modes {
		ms[i] = showMode(m)
	}
	// (the listing is in KEY order: by id only while every record carries its key)
	if len(s.Orphans) == 0 && !w.foreign && !w.untamed && w.icpt == "" && !sort.SliceIsSorted(s.Modes, func(i, j int) bool { return s.Modes[i].Id < s.Modes[j].Id }) {
		ms = append(ms, "UNSORTED")
	}
	n := "-"
	if s.Normal != nil {
		n = showMode(s.Normal)
	}
	return fmt.Sprintf("modes=[%s] active=%s normal=%s changed=%s", strings.Join(ms, ";"), showMode(s.Active), n, b01(w.changed))
}

func hexDecode(s string) (string, error) {
	b, err := hex.DecodeString(s)
	return string(b), err
}
