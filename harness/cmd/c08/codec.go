package main

// Text codec for resource.CollectionChange shared with the Lean drivers (ScVerif/C09/Codec.lean):
// `id,KIND,time,old,new,seed,last`, `-` = absent value, messages are wrapperspb.StringValue tokens.
// (cmd/c09 carries an identical copy: harness binaries are separate main packages.)

import (
	"fmt"
	"strconv"
	"strings"
	"time"

	"google.golang.org/protobuf/proto"
	"google.golang.org/protobuf/types/known/wrapperspb"

	"github.com/smart-core-os/sc-api/go/traits"
	"github.com/smart-core-os/sc-api/go/types"
	"github.com/smart-core-os/sc-golang/pkg/resource"
)

var kindNames = []string{"UNSPEC", "ADD", "UPDATE", "REMOVE", "REPLACE"}

func kindName(k types.ChangeType) string {
	if int(k) >= 0 && int(k) < len(kindNames) {
		return kindNames[k]
	}
	return fmt.Sprintf("KIND(%d)", int(k))
}

func kindOf(s string) types.ChangeType {
	for i, n := range kindNames {
		if n == s {
			return types.ChangeType(i)
		}
	}
	panic("bad kind " + s)
}

// msgOf: one-character tokens are wrapperspb.StringValue; two-character tokens `ab` are two-field
// messages (traits.Booking{Title: a, OwnerName: b}, `_` = field empty) so that a read mask can strip one.
func msgOf(tok string) proto.Message {
	if tok == "-" {
		return nil
	}
	if len(tok) == 2 {
		b := &traits.Booking{}
		if tok[0] != '_' {
			b.Title = tok[:1]
		}
		if tok[1] != '_' {
			b.OwnerName = tok[1:]
		}
		return b
	}
	if tok == emptyTok {
		return wrapperspb.String("") // the empty message
	}
	return wrapperspb.String(tok)
}

// emptyTok stands for the EMPTY one-field message (what `created := msg.ProtoReflect().New()` is equal
// to); the empty two-field message is `__`.
const emptyTok = "e"

func emptyOf(tok string) string {
	if len(tok) == 2 {
		return "__"
	}
	return emptyTok
}

func fieldTok(s string) string {
	if s == "" {
		return "_"
	}
	return s
}

func tokOf(m proto.Message) string {
	if m == nil {
		return "-"
	}
	if b, ok := m.(*traits.Booking); ok {
		if b == nil {
			return "typed-nil"
		}
		return fieldTok(b.Title) + fieldTok(b.OwnerName)
	}
	sv, ok := m.(*wrapperspb.StringValue)
	if !ok {
		return fmt.Sprintf("?%T", m)
	}
	if sv == nil {
		return "typed-nil"
	}
	if sv.Value == "" {
		return emptyTok
	}
	return sv.Value
}

func flag(b bool) string {
	if b {
		return "1"
	}
	return "0"
}

func timeTok(t time.Time) string {
	if t.IsZero() {
		return "0"
	}
	return strconv.FormatInt(t.Unix(), 10)
}

// showChange canonicalises a change; withTime=false prints time 0 (K1: wall-clock canonicalised away).
func showChange(c *resource.CollectionChange, withTime bool) string {
	if c == nil {
		return "nil-change"
	}
	t := "0"
	if withTime {
		t = timeTok(c.ChangeTime)
	}
	return strings.Join([]string{c.Id, kindName(c.ChangeType), t, tokOf(c.OldValue), tokOf(c.NewValue), flag(c.SeedValue), flag(c.LastSeedValue)}, ",")
}

func parseChange(s string) *resource.CollectionChange {
	p := strings.Split(s, ",")
	if len(p) != 7 {
		panic("bad change " + s)
	}
	t, err := strconv.ParseInt(p[2], 10, 64)
	if err != nil {
		panic("bad change time " + s)
	}
	c := &resource.CollectionChange{Id: p[0], ChangeType: kindOf(p[1]), OldValue: msgOf(p[3]), NewValue: msgOf(p[4]), SeedValue: p[5] == "1", LastSeedValue: p[6] == "1"}
	if t != 0 {
		c.ChangeTime = time.Unix(t, 0)
	}
	return c
}

func showChanges(cs []string) string {
	if len(cs) == 0 {
		return "-"
	}
	return strings.Join(cs, ";")
}
