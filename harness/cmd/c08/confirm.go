package main

// Self-confirming verdicts.  Every scenario of this harness runs goroutines of the real code (the bus,
// the merger, the forwarder, a wrapper handler) and bounds its waits, so a verdict can in principle
// depend on scheduling.  A violation is therefore only *reported* when it reproduces: the failing case
// is re-run on a fresh instance of the real code and only the signatures seen in BOTH runs reach the
// monitor; a signature that does not reproduce is counted (`vanished <signature>` in the monitor's
// distribution) and its diagnosis is kept under `extra.vanished` of the result.  Deterministic defects
// reproduce by construction, so nothing is lost.  The reported input carries what both runs observed
// (`trace`, `trace_confirm`): enough to diagnose a violation from the replay file alone.

import (
	"encoding/json"

	"github.com/smart-core-os/sc-golang/verifharness/lib"
)

// sink is what a scenario's monitor code talks to: *lib.Monitor, or a recorder in front of one.
type sink interface {
	Eval(key string, nontrivial bool, sample any)
	Count(bucket string)
	Violate(signature, what string, input any, expected, observed string)
}

type heldViolation struct {
	Signature string `json:"signature"`
	What      string `json:"what"`
	Expected  string `json:"expected"`
	Observed  string `json:"observed"`
	input     any
}

// recorder passes evaluations and counts through (unless mute) and holds violations back.
type recorder struct {
	to   sink
	mute bool
	held []heldViolation
}

func (r *recorder) Eval(key string, nontrivial bool, sample any) {
	if !r.mute {
		r.to.Eval(key, nontrivial, sample)
	}
}

func (r *recorder) Count(bucket string) {
	if !r.mute {
		r.to.Count(bucket)
	}
}

func (r *recorder) Violate(signature, what string, input any, expected, observed string) {
	for _, h := range r.held {
		if h.Signature == signature {
			return
		}
	}
	r.held = append(r.held, heldViolation{signature, what, expected, observed, input})
}

// enrich is the replay input of a confirmed violation: the case itself (same JSON fields, so the replay
// decoder reads it as the plain case) plus the observations of the first and the confirming run.
func enrich(c any, t1, t2 any) any {
	raw, err := json.Marshal(c)
	if err != nil {
		return c
	}
	var m map[string]any
	if err := json.Unmarshal(raw, &m); err != nil {
		return c
	}
	m["trace"] = t1
	m["trace_confirm"] = t2
	return m
}

// confirmed runs `once` (the scenario + its monitor, given a sink; returns its trace) and, if that
// run held violations back, runs it a second time on a fresh instance.  Signatures present in both
// runs are reported to `m` with `mkInput(trace1, trace2)`; the others are counted as vanished.
func confirmed(res *lib.Result, m sink, once func(s sink) any, mkInput func(t1, t2 any) any) {
	r1 := &recorder{to: m}
	t1 := once(r1)
	if len(r1.held) == 0 {
		return
	}
	r2 := &recorder{to: m, mute: true}
	t2 := once(r2)
	for _, h := range r1.held {
		again := false
		for _, h2 := range r2.held {
			if h2.Signature == h.Signature {
				again = true
			}
		}
		if again {
			m.Violate(h.Signature, h.What, mkInput(t1, t2), h.Expected, h.Observed)
			continue
		}
		m.Count("vanished " + h.Signature)
		if res != nil {
			list, _ := res.Extra["vanished"].([]any)
			if len(list) < 20 {
				res.Extra["vanished"] = append(list, map[string]any{"violation": h, "input": h.input, "trace": t1, "trace_confirm": t2})
			}
		}
	}
}
