package main

// K4: schedules of the concurrent subscribe model (ScVerif/C08/Subscribe.lean) executed on the real code
// through the yield points of pkg/resource.
//
//   writer thread     one write at a time; an Update/Add parks at `coll.update.beforeSend` (committed, lock
//                     released, not yet published: the model's `pend`); releasing it is `publish`.  A Delete
//                     commits and publishes under the write lock (`deleteNow`).
//   subscriber        `Pull(WithInclude p, WithBackpressure(true))` parks at `coll.onUpdate.beforeListen`
//                     (seed computed - the predicate was evaluated on every item - read lock held: the
//                     model's `snapping`); releasing it registers the listener and drops the lock (`listen`).
//
// A write started while the subscriber is parked must NOT get through (the model disables `commit` and
// `deleteNow` while snapping): the harness gives it raceGrace to reach its park point or to return, and
// otherwise records the step as blocked; after `listen` the same write is waited for and becomes the
// model's (now enabled) step.  At the end everything pending is published, the stream is drained to a
// fence, and seed / delivered events / List(WithInclude) are compared with the model's answer for exactly
// the schedule that was executed.

import (
	"context"
	"fmt"
	"math/rand"
	"strings"
	"sync"
	"sync/atomic"
	"time"

	"github.com/smart-core-os/sc-golang/internal/verifhook"
	"github.com/smart-core-os/sc-golang/pkg/resource"
	"github.com/smart-core-os/sc-golang/verifharness/lib"
)

type schedCase struct {
	Kind    string   `json:"kind"` // "sched"
	Pred    pred     `json:"pred"`
	Init    []string `json:"init"`    // writes before anything concurrent happens
	Prog    []string `json:"prog"`    // the writer thread's writes, in order: add/upd/ups/del
	Choices []int    `json:"choices"` // scheduler choices: 0 = writer thread moves, 1 = subscriber moves
}

type schedObs struct {
	Steps   []string `json:"steps"`  // the model steps that were executed (what the driver is asked)
	Notes   []string `json:"notes"`  // blocked writes etc.
	Seed    []string `json:"seed"`   // delivered seed events
	Recv    []string `json:"recv"`   // delivered later events (up to, not including, the fence)
	List    string   `json:"list"`   // List(WithInclude p) at the end
	Problem string   `json:"problem,omitempty"`
}

func (o schedObs) answer() string {
	if o.Problem != "" {
		return "problem:" + o.Problem
	}
	return "seed=" + showChanges(o.Seed) + " recv=" + showChanges(o.Recv) + " list=" + o.List + " pend=0 sub=listen"
}

func (c schedCase) driverLine(o schedObs) string {
	toks := append([]string{"sched", c.Pred.token(), fmt.Sprint(len(c.Init))}, c.Init...)
	return strings.Join(append(toks, o.Steps...), " ")
}

func (c schedCase) run() (o schedObs) {
	col := resource.NewCollection()
	for _, op := range c.Init {
		_ = applyOp(col, op)
	}
	ctx, cancel := context.WithCancel(context.Background())
	defer cancel()

	var writerID, subID atomic.Int64
	writerID.Store(-1)
	subID.Store(-1)
	wParked, sParked := make(chan struct{}, 1), make(chan struct{}, 1)
	wRelease, sRelease := make(chan struct{}), make(chan struct{})
	verifhook.Set(func(point string) {
		switch point {
		case "coll.update.beforeSend":
			if verifhook.GoID() == writerID.Load() {
				wParked <- struct{}{}
				<-wRelease
			}
		case "coll.onUpdate.beforeListen":
			if verifhook.GoID() == subID.Load() {
				sParked <- struct{}{}
				<-sRelease
			}
		}
	})
	defer verifhook.Set(nil)

	// subscriber side
	var mu sync.Mutex
	var events []string
	fenceSeen := make(chan struct{})
	pulled := make(chan (<-chan *resource.CollectionChange), 1)
	startSub := func() {
		go func() {
			subID.Store(verifhook.GoID())
			var opts []resource.ReadOption
			if ff := c.Pred.filterFunc(); ff != nil {
				opts = append(opts, resource.WithInclude(ff))
			}
			opts = append(opts, resource.WithBackpressure(true))
			pulled <- col.Pull(ctx, opts...)
		}()
	}
	consume := func(ch <-chan *resource.CollectionChange) {
		go func() {
			for ev := range ch {
				if ev.Id == fenceID {
					close(fenceSeen)
					return
				}
				mu.Lock()
				events = append(events, showChange(ev, false))
				mu.Unlock()
			}
		}()
	}

	// writer side
	type wstate int
	const (
		wIdle wstate = iota
		wPend         // parked at beforeSend
		wBlocked      // started while the subscriber holds the lock; has neither parked nor returned
	)
	ws := wIdle
	var wDone chan struct{}
	prog := append([]string{}, c.Prog...)
	cur := ""
	stepOf := func(op string) string {
		if strings.HasPrefix(op, "del:") {
			return "d=" + strings.TrimPrefix(op, "del:")
		}
		return "c=" + op
	}
	// wait for the running write to park or return; false = neither within d
	settle := func(d time.Duration) (parked, returned bool) {
		select {
		case <-wParked:
			return true, false
		case <-wDone:
			return false, true
		case <-time.After(d):
			return false, false
		}
	}
	subState := 0 // 0 idle, 1 snapping, 2 listening
	problem := func(s string) schedObs {
		o.Problem = s
		// let everything run out
		verifhook.Set(nil)
		close(wRelease)
		close(sRelease)
		return o
	}

	choice := 0
	for len(prog) > 0 || ws != wIdle || subState != 2 {
		ch := choice % 2
		if choice < len(c.Choices) {
			ch = c.Choices[choice]
		}
		choice++
		writerCanMove := ws == wPend || (ws == wIdle && len(prog) > 0)
		subCanMove := subState != 2
		if ch == 0 && !writerCanMove {
			ch = 1
		}
		if ch == 1 && !subCanMove {
			ch = 0
		}
		if ch == 0 {
			switch ws {
			case wPend:
				wRelease <- struct{}{}
				select {
				case <-wDone:
				case <-time.After(fenceTimeout):
					return problem("publish of " + cur + " did not return within 5s")
				}
				o.Steps = append(o.Steps, "p")
				ws = wIdle
			case wIdle:
				cur, prog = prog[0], prog[1:]
				done := make(chan struct{})
				wDone = done
				op := cur
				go func() {
					writerID.Store(verifhook.GoID())
					_, _ = lib.Catch(func() { _ = applyOp(col, op) })
					close(done)
				}()
				o.Steps = append(o.Steps, stepOf(cur))
				if subState == 1 {
					// the subscriber holds the read lock: the model says this step is disabled
					parked, returned := settle(raceGrace)
					switch {
					case parked:
						o.Notes = append(o.Notes, cur+" COMMITTED while the subscriber held the lock")
						ws = wPend
						// the model ignored the step; what follows can only disagree
					case returned:
						o.Notes = append(o.Notes, cur+" returned while the subscriber held the lock")
					default:
						o.Notes = append(o.Notes, cur+" blocked while the subscriber held the lock")
						ws = wBlocked
					}
				} else {
					parked, returned := settle(fenceTimeout)
					switch {
					case parked:
						ws = wPend
					case returned:
					default:
						return problem(cur + " neither committed nor returned within 5s")
					}
				}
			}
			continue
		}
		switch subState {
		case 0:
			startSub()
			select {
			case <-sParked:
			case <-time.After(fenceTimeout):
				return problem("Pull did not reach coll.onUpdate.beforeListen within 5s")
			}
			o.Steps = append(o.Steps, "s")
			subState = 1
		case 1:
			sRelease <- struct{}{}
			select {
			case chn := <-pulled:
				consume(chn)
			case <-time.After(fenceTimeout):
				return problem("Pull did not return within 5s")
			}
			o.Steps = append(o.Steps, "l")
			subState = 2
			if ws == wBlocked {
				// the blocked write gets through now: it is the model's step, enabled this time
				parked, returned := settle(fenceTimeout)
				o.Steps = append(o.Steps, stepOf(cur))
				switch {
				case parked:
					ws = wPend
				case returned:
					ws = wIdle
				default:
					return problem(cur + " still blocked 5s after the subscriber released the lock")
				}
			}
		}
	}
	verifhook.Set(nil)
	o.List = listWithInclude(col, c.Pred)
	// quiescent: drain to a fence
	if _, err := col.Add(fenceID, msgOf("f")); err != nil {
		o.Problem = "fence write failed"
		return o
	}
	select {
	case <-fenceSeen:
	case <-time.After(fenceTimeout):
		o.Problem = "fence not delivered within 5s"
	}
	mu.Lock()
	defer mu.Unlock()
	for _, ev := range events {
		if isSeed(ev) {
			o.Seed = append(o.Seed, ev)
		} else {
			o.Recv = append(o.Recv, ev)
		}
	}
	return o
}

// monitor: the property at the quiescent end of the schedule, independent of the model: the seed and the
// delivered events folded (as a plain map: a subscriber that snapshots between a commit and its
// publication is sent that event although its seed contains it - publication order is C03's subject -
// so strict well-formedness is not demanded here) give List(WithInclude p) = the filtered plain map.
func (c schedCase) monitor(m sink, o schedObs) {
	if o.Problem != "" {
		m.Violate("C08/sched/stuck", "a step of a subscribe-while-writing schedule did not complete", c, "completes", o.Problem)
		return
	}
	sh := shadow{}
	for _, op := range c.Init {
		sh.apply(op)
	}
	for _, op := range c.Prog {
		sh.apply(op)
	}
	view := map[string]string{}
	for _, ev := range append(append([]string{}, o.Seed...), o.Recv...) {
		f := splitComma(ev)
		if len(f) != 7 {
			continue
		}
		if f[1] == "REMOVE" {
			delete(view, f[0])
		} else {
			view[f[0]] = f[4]
		}
	}
	vf := &viewFold{view: view}
	want := sh.filtered(c.Pred, "")
	if got := vf.String(); got != want {
		m.Violate("C08/sched/fold-differs-from-filtered-collection", "after a schedule interleaving a writer with Pull's snapshot/listen, folding seed + stream does not give the filtered collection", c, want, got)
	}
	if o.List != want {
		m.Violate("C08/sched/List-not-filtered-collection", "List(WithInclude) is not the filtered collection", c, want, o.List)
	}
	for _, n := range o.Notes {
		if strings.Contains(n, "COMMITTED") {
			m.Count("write committed while the subscriber held the lock")
		}
		if strings.Contains(n, "blocked") {
			m.Count("write blocked while the subscriber held the lock")
		}
	}
	m.Eval(c.Pred.token()+"/"+strings.Join(c.Init, " ")+"/"+strings.Join(o.Steps, " "), !c.Pred.Nil, nil)
}

func genSched(r *rand.Rand) schedCase {
	ids := ids2
	if r.Intn(3) == 0 {
		ids = ids[:1]
	}
	p := pred{Ids: ids, Vals: vals2}
	bits := uint(len(ids) * (len(vals2) + 1))
	p.Mask = uint64(r.Int63()) & (1<<bits - 1)
	if r.Intn(20) == 0 {
		p = pred{Nil: true}
	}
	c := schedCase{Kind: "sched", Pred: p}
	all := genOps(r, ids, vals2, r.Intn(3)+1+r.Intn(4))
	for _, op := range all {
		if strings.HasPrefix(op, "delc:") {
			q := strings.Split(op, ":")
			op = "del:" + q[1]
		}
		c.Prog = append(c.Prog, op)
	}
	n := r.Intn(3)
	if n > len(c.Prog)-1 {
		n = len(c.Prog) - 1
	}
	c.Init, c.Prog = c.Prog[:n], c.Prog[n:]
	for i := 0; i < 2*len(c.Prog)+4; i++ {
		c.Choices = append(c.Choices, r.Intn(2))
	}
	return c
}

func runSched(f lib.Flags, res *lib.Result, drv *lib.Driver) {
	tie := res.Tie("subscribe-schedules", "K4",
		"random schedules of the concurrent subscribe model executed on a real Collection through the yield points coll.update.beforeSend (writer committed, not yet published) and coll.onUpdate.beforeListen (subscriber computed its seed, read lock held): writer thread of 1-4 writes (Add/Update/Upsert/Delete incl. failing ones) over 1-2 ids x 2 values interleaved at random with Pull(WithInclude p, WithBackpressure(true))'s snapshot and listen steps; a write started while the subscriber holds the lock must block (model: step disabled) and is re-issued after listen; at the end the delivered seed, the delivered events and List(WithInclude p) are compared with the model's `sched` answer for the executed schedule; non-trivial = predicate not nil; distinct = (predicate, initial writes, executed steps)")
	mon := res.Monitor("subscribe-fold", "on the same schedules, independent of the model: at the quiescent end fold(seed ++ delivered events) = List(WithInclude p) = the filtered plain map; distinct = (predicate, initial writes, executed steps)")
	r := lib.NewRand(f.Seed + 13)
	n := f.N(150, 1500)
	for i := 0; i < n; i++ {
		c := genSched(r)
		var first schedObs
		runs := 0
		confirmed(res, mon, func(sk sink) any {
			o := c.run()
			if runs == 0 {
				first = o
			}
			runs++
			c.monitor(sk, o)
			return o
		}, func(t1, t2 any) any { return enrich(c, t1, t2) })
		ans, err := drv.Ask(c.driverLine(first))
		if err != nil {
			tie.Fail(err)
			return
		}
		key := c.Pred.token() + "/" + strings.Join(c.Init, " ") + "/" + strings.Join(first.Steps, " ")
		tie.Record(key, !c.Pred.Nil, map[string]any{"case": c, "executed": first}, ans, first.answer())
		for _, n := range first.Notes {
			if strings.Contains(n, "blocked") {
				tie.Count("schedules with a write blocked by the subscriber's read lock")
				break
			}
		}
		stale := false
		for i, s := range first.Steps {
			if s == "s" && i > 0 && strings.HasPrefix(first.Steps[i-1], "c=") {
				stale = true
			}
		}
		if stale {
			tie.Count("schedules snapshotting between a commit and its publication")
		}
	}
}
