package main

// K4: schedules of the concurrent subscribe model (ScVerif/C08/Subscribe.lean) executed on the real code
// through the yield points of pkg/resource.
//
//   writer thread     one write at a time; an Update/Add parks at `coll.update.beforeSend` (committed, lock
//                     released, not yet published: the model's `pend`); releasing it is `publish`.  A Delete
//                     commits and publishes under the write lock (`deleteNow`).
//   subscriber        `Pull(WithInclude p, WithBackpressure(true))` parks at `coll.onUpdate.beforeListen`
//                     (seed computed - the predicate was evaluated on every item - read lock held: the
//                     model's `snapping`); releasing it registers the listener and drops the lock (`listen`).
//
// A write started while the subscriber is parked must NOT get through (the model disables `commit` and
// `deleteNow` while snapping): the harness gives it raceGrace to reach its park point or to return, and
// otherwise records the step as blocked; after `listen` the same write is waited for and becomes the
// model's (now enabled) step.  At the end everything pending is published, the stream is drained to a
// fence, and seed / delivered events / List(WithInclude) are compared with the model's answer for exactly
// the schedule that was executed.

import (
	"context"
	"fmt"
	"math/rand"
	"strings"
	"sync"
	"sync/atomic"
	"time"

	"github.com/smart-core-os/sc-golang/internal/verifhook"
	"github.com/smart-core-os/sc-golang/pkg/resource"
	"github.com/smart-core-os/sc-golang/verifharness/lib"
)

type schedCase struct {
	Kind    string   `json:"kind"` // "sched"
	Pred    pred     `json:"pred"`
	Init    []string `json:"init"`    // writes before anything concurrent happens
	Prog    []string `json:"prog"`    // the writer thread's writes, in order: add/upd/ups/del
	Choices []int    `json:"choices"` // scheduler choices: 0 = a writer starts the next write, 1 = subscriber moves, 2 = publish the oldest pending commit; an odd count allows two pending commits
}

type schedObs struct {
	Steps   []string `json:"steps"`  // the model steps that were executed (what the driver is asked)
	Notes   []string `json:"notes"`  // blocked writes etc.
	Seed    []string `json:"seed"`   // delivered seed events
	Recv    []string `json:"recv"`   // delivered later events (up to, not including, the fence)
	List    string   `json:"list"`   // List(WithInclude p) at the end
	Problem string   `json:"problem,omitempty"`
	// MaxPending: the largest number of committed, unpublished writes at any moment; StaleAtListen: how
	// many of them were pending when the subscriber registered (they are in its seed and reach it anyway)
	MaxPending    int `json:"max_pending"`
	StaleAtListen int `json:"stale_at_listen"`
}

func (o schedObs) answer() string {
	if o.Problem != "" {
		return "problem:" + o.Problem
	}
	return "seed=" + showChanges(o.Seed) + " recv=" + showChanges(o.Recv) + " list=" + o.List + " pend=0 sub=listen"
}

func (c schedCase) driverLine(o schedObs) string {
	toks := append([]string{"sched", c.Pred.token(), fmt.Sprint(len(c.Init))}, c.Init...)
	return strings.Join(append(toks, o.Steps...), " ")
}

// pendingWrite is a write under way in its own goroutine (a writer thread).
type pendingWrite struct {
	op      string
	parked  chan struct{} // signalled when it reaches coll.update.beforeSend (committed, not yet published)
	release chan struct{}
	done    chan struct{}
}

func (c schedCase) run() (o schedObs) {
	col := resource.NewCollection()
	for _, op := range c.Init {
		_ = applyOp(col, op)
	}
	ctx, cancel := context.WithCancel(context.Background())
	defer cancel()

	var writers sync.Map // goroutine id -> *pendingWrite
	var subID atomic.Int64
	subID.Store(-1)
	sParked := make(chan struct{}, 1)
	sRelease := make(chan struct{})
	verifhook.Set(func(point string) {
		switch point {
		case "coll.update.beforeSend":
			if w, ok := writers.Load(verifhook.GoID()); ok {
				pw := w.(*pendingWrite)
				pw.parked <- struct{}{}
				<-pw.release
			}
		case "coll.onUpdate.beforeListen":
			if verifhook.GoID() == subID.Load() {
				sParked <- struct{}{}
				<-sRelease
			}
		}
	})
	defer verifhook.Set(nil)

	// subscriber side
	var mu sync.Mutex
	var events []string
	fenceSeen := make(chan struct{})
	pulled := make(chan (<-chan *resource.CollectionChange), 1)
	startSub := func() {
		go func() {
			subID.Store(verifhook.GoID())
			var opts []resource.ReadOption
			if ff := c.Pred.filterFunc(); ff != nil {
				opts = append(opts, resource.WithInclude(ff))
			}
			opts = append(opts, resource.WithBackpressure(true))
			pulled <- col.Pull(ctx, opts...)
		}()
	}
	consume := func(ch <-chan *resource.CollectionChange) {
		go func() {
			for ev := range ch {
				if ev.Id == fenceID {
					close(fenceSeen)
					return
				}
				mu.Lock()
				events = append(events, showChange(ev, false))
				mu.Unlock()
			}
		}()
	}

	// writer side: every write runs in its own goroutine (a writer thread); `queue` holds the writes that
	// have committed and are parked before their publication, in commit order - they are published in that
	// order (the model's FIFO `pend`, C03's `ordered` hypothesis, which the scheduler here guarantees);
	// `blocked` is a write started while the subscriber holds the lock that has neither parked nor returned
	var queue []*pendingWrite
	var blocked *pendingWrite
	prog := append([]string{}, c.Prog...)
	var all []*pendingWrite
	start := func(op string) *pendingWrite {
		pw := &pendingWrite{op: op, parked: make(chan struct{}, 1), release: make(chan struct{}), done: make(chan struct{})}
		all = append(all, pw)
		ready := make(chan struct{})
		go func() {
			writers.Store(verifhook.GoID(), pw)
			close(ready)
			_, _ = lib.Catch(func() { _ = applyOp(col, op) })
			close(pw.done)
		}()
		<-ready
		return pw
	}
	stepOf := func(op string) string {
		if strings.HasPrefix(op, "del:") {
			return "d=" + strings.TrimPrefix(op, "del:")
		}
		return "c=" + op
	}
	// wait for a running write to park or return; false, false = neither within d
	settle := func(pw *pendingWrite, d time.Duration) (parked, returned bool) {
		select {
		case <-pw.parked:
			return true, false
		case <-pw.done:
			return false, true
		case <-time.After(d):
			return false, false
		}
	}
	subState := 0 // 0 idle, 1 snapping, 2 listening
	problem := func(s string) schedObs {
		o.Problem = s
		// let everything run out
		verifhook.Set(nil)
		for _, pw := range all {
			select {
			case <-pw.release:
			default:
				close(pw.release)
			}
		}
		close(sRelease)
		return o
	}
	maxPending := 1 + len(c.Choices)%2 // one or two writer threads with unpublished commits at a time

	choice := 0
	for len(prog) > 0 || len(queue) > 0 || blocked != nil || subState != 2 {
		ch := choice % 3
		if choice < len(c.Choices) {
			ch = c.Choices[choice] % 3
		}
		choice++
		// 0 = a writer starts the next write, 1 = the subscriber moves, 2 = the oldest pending commit is published
		canStart := len(prog) > 0 && blocked == nil && len(queue) < maxPending &&
			!(strings.HasPrefix(prog[0], "del:") && len(queue) > 0) // a Delete publishes under the lock: only when nothing is pending
		canPublish := len(queue) > 0
		canSub := subState != 2
		if ch == 0 && !canStart {
			ch = 2
		}
		if ch == 2 && !canPublish {
			ch = 1
		}
		if ch == 1 && !canSub {
			if canStart {
				ch = 0
			} else {
				ch = 2
			}
		}
		switch ch {
		case 2:
			pw := queue[0]
			queue = queue[1:]
			close(pw.release)
			select {
			case <-pw.done:
			case <-time.After(fenceTimeout):
				return problem("publish of " + pw.op + " did not return within 5s")
			}
			o.Steps = append(o.Steps, "p")
		case 0:
			op := prog[0]
			prog = prog[1:]
			pw := start(op)
			o.Steps = append(o.Steps, stepOf(op))
			if subState == 1 {
				// the subscriber holds the read lock: the model says this step is disabled
				parked, returned := settle(pw, raceGrace)
				switch {
				case parked:
					o.Notes = append(o.Notes, op+" COMMITTED while the subscriber held the lock")
					queue = append(queue, pw)
					// the model ignored the step; what follows can only disagree
				case returned:
					o.Notes = append(o.Notes, op+" returned while the subscriber held the lock")
				default:
					o.Notes = append(o.Notes, op+" blocked while the subscriber held the lock")
					blocked = pw
				}
			} else {
				parked, returned := settle(pw, fenceTimeout)
				switch {
				case parked:
					queue = append(queue, pw)
					if len(queue) > o.MaxPending {
						o.MaxPending = len(queue)
					}
				case returned:
				default:
					return problem(op + " neither committed nor returned within 5s")
				}
			}
		case 1:
			switch subState {
			case 0:
				startSub()
				select {
				case <-sParked:
				case <-time.After(fenceTimeout):
					return problem("Pull did not reach coll.onUpdate.beforeListen within 5s")
				}
				o.Steps = append(o.Steps, "s")
				subState = 1
			case 1:
				sRelease <- struct{}{}
				select {
				case chn := <-pulled:
					consume(chn)
				case <-time.After(fenceTimeout):
					return problem("Pull did not return within 5s")
				}
				o.Steps = append(o.Steps, "l")
				subState = 2
				o.StaleAtListen = len(queue)
				if blocked != nil {
					// the blocked write gets through now: it is the model's step, enabled this time
					pw := blocked
					blocked = nil
					parked, returned := settle(pw, fenceTimeout)
					o.Steps = append(o.Steps, stepOf(pw.op))
					switch {
					case parked:
						queue = append(queue, pw)
					case returned:
					default:
						return problem(pw.op + " still blocked 5s after the subscriber released the lock")
					}
				}
			}
		}
	}
	verifhook.Set(nil)
	o.List = listWithInclude(col, c.Pred)
	// quiescent: drain to a fence
	if _, err := col.Add(fenceID, msgOf("f")); err != nil {
		o.Problem = "fence write failed"
		return o
	}
	select {
	case <-fenceSeen:
	case <-time.After(fenceTimeout):
		o.Problem = "fence not delivered within 5s"
	}
	mu.Lock()
	defer mu.Unlock()
	for _, ev := range events {
		if isSeed(ev) {
			o.Seed = append(o.Seed, ev)
		} else {
			o.Recv = append(o.Recv, ev)
		}
	}
	return o
}

// monitor: the property at the quiescent end of the schedule, independent of the model: the seed and the
// delivered events folded (as a plain map: a subscriber that snapshots between a commit and its
// publication is sent that event although its seed contains it - publication order is C03's subject -
// so strict well-formedness is not demanded here) give List(WithInclude p) = the filtered plain map.
func (c schedCase) monitor(m sink, o schedObs) {
	if o.Problem != "" {
		m.Violate("C08/sched/stuck", "a step of a subscribe-while-writing schedule did not complete", c, "completes", o.Problem)
		return
	}
	sh := shadow{}
	for _, op := range c.Init {
		sh.apply(op)
	}
	for _, op := range c.Prog {
		sh.apply(op)
	}
	view := map[string]string{}
	for _, ev := range append(append([]string{}, o.Seed...), o.Recv...) {
		f := splitComma(ev)
		if len(f) != 7 {
			continue
		}
		if f[1] == "REMOVE" {
			delete(view, f[0])
		} else {
			view[f[0]] = f[4]
		}
	}
	vf := &viewFold{view: view}
	want := sh.filtered(c.Pred, "")
	if got := vf.String(); got != want {
		m.Violate("C08/sched/fold-differs-from-filtered-collection", "after a schedule interleaving a writer with Pull's snapshot/listen, folding seed + stream does not give the filtered collection", c, want, got)
	}
	if o.List != want {
		m.Violate("C08/sched/List-not-filtered-collection", "List(WithInclude) is not the filtered collection", c, want, o.List)
	}
	for _, n := range o.Notes {
		if strings.Contains(n, "COMMITTED") {
			m.Count("write committed while the subscriber held the lock")
		}
		if strings.Contains(n, "blocked") {
			m.Count("write blocked while the subscriber held the lock")
		}
	}
	m.Eval(c.Pred.token()+"/"+strings.Join(c.Init, " ")+"/"+strings.Join(o.Steps, " "), !c.Pred.Nil, nil)
}

func genSched(r *rand.Rand) schedCase {
	ids := ids2
	if r.Intn(3) == 0 {
		ids = ids[:1]
	}
	p := pred{Ids: ids, Vals: vals2}
	bits := uint(len(ids) * (len(vals2) + 1))
	p.Mask = uint64(r.Int63()) & (1<<bits - 1)
	if r.Intn(20) == 0 {
		p = pred{Nil: true}
	}
	c := schedCase{Kind: "sched", Pred: p}
	all := genOps(r, ids, vals2, r.Intn(3)+1+r.Intn(4))
	for _, op := range all {
		// plain writes only: the options / re-entrant variants belong to the sequential sessions
		switch q := strings.Split(op, ":"); q[0] {
		case "delc", "delv", "dela":
			op = "del:" + q[1]
		case "addc", "updc", "upsc":
			op = map[string]string{"addc": "add", "updc": "upd", "upsc": "ups"}[q[0]] + ":" + q[1] + ":" + q[2]
		}
		c.Prog = append(c.Prog, op)
	}
	n := r.Intn(3)
	if n > len(c.Prog)-1 {
		n = len(c.Prog) - 1
	}
	c.Init, c.Prog = c.Prog[:n], c.Prog[n:]
	// a fifth of the schedules are random; the others start with a fixed prefix - one or two writers commit, then the
	// subscriber snapshot and register, and only then go on at random: it registers with commits pending
	// (events its seed already contains reach it afterwards)
	switch r.Intn(5) {
	case 1:
		c.Choices = append(c.Choices, 0, 1, 1)
	case 2:
		c.Choices = append(c.Choices, 0, 0, 1, 1)
	case 3: // a write started while the subscriber holds the lock
		c.Choices = append(c.Choices, 1, 0, 1)
	case 4: // both: a commit pending, then a write started under the subscriber's lock
		c.Choices = append(c.Choices, 0, 1, 0, 1)
	}
	for i, n := 0, 3*len(c.Prog)+4+r.Intn(2); i < n; i++ {
		c.Choices = append(c.Choices, r.Intn(3))
	}
	return c
}

func runSched(f lib.Flags, res *lib.Result, drv *lib.Driver) {
	tie := res.Tie("subscribe-schedules", "K4",
		"schedules of the concurrent subscribe model executed on a real Collection through the yield points coll.update.beforeSend (a writer committed, not yet published) and coll.onUpdate.beforeListen (subscriber computed its seed, read lock held): 1-6 writes (Add/Update/Upsert/Delete incl. failing ones) over 1-2 ids x 2 values, each in its own writer goroutine, up to two of them committed and unpublished at a time, publications released in commit order, interleaved with Pull(WithInclude p, WithBackpressure(true))'s snapshot and listen steps - at random after a fixed prefix (commits pending at the snapshot; a write started under the subscriber's lock; both; none); thorough adds every choice sequence of length 5 for four small programs x three predicates; a write started while the subscriber holds the lock must block (model: step disabled) and is re-issued after listen; at the end the delivered seed, the delivered events and List(WithInclude p) are compared with the model's `sched` answer for the executed schedule; non-trivial = predicate not nil; distinct = (predicate, initial writes, executed steps)")
	mon := res.Monitor("subscribe-fold", "on the same schedules, independent of the model: at the quiescent end fold(seed ++ delivered events) = List(WithInclude p) = the filtered plain map; distinct = (predicate, initial writes, executed steps)")
	r := lib.NewRand(f.Seed + 13)
	n := f.N(150, 1500)
	var cases []schedCase
	for i := 0; i < n; i++ {
		cases = append(cases, genSched(r))
	}
	if f.Thorough() {
		// bounded-exhaustive: every choice sequence of length 5 (two commits may be pending) for small
		// writer programs on one id, under the predicates "x", "y", "x or y"
		progs := [][]string{{"upd:a:y"}, {"upd:a:y", "upd:a:x"}, {"del:a", "add:a:y"}, {"upd:a:y", "del:a"}}
		for _, prog := range progs {
			for _, mask := range []uint64{2, 4, 6} {
				for code := 0; code < 243; code++ {
					c := schedCase{Kind: "sched", Pred: pred{Ids: []string{"a"}, Vals: vals2, Mask: mask}, Init: []string{"add:a:x"}, Prog: prog}
					for k, x := 0, code; k < 5; k, x = k+1, x/3 {
						c.Choices = append(c.Choices, x%3)
					}
					cases = append(cases, c)
				}
			}
		}
	}
	for _, c := range cases {
		var first schedObs
		runs := 0
		confirmed(res, mon, func(sk sink) any {
			o := c.run()
			if runs == 0 {
				first = o
			}
			runs++
			c.monitor(sk, o)
			return o
		}, func(t1, t2 any) any { return enrich(c, t1, t2) })
		ans, err := drv.Ask(c.driverLine(first))
		if err != nil {
			tie.Fail(err)
			return
		}
		key := c.Pred.token() + "/" + strings.Join(c.Init, " ") + "/" + strings.Join(first.Steps, " ")
		tie.Record(key, !c.Pred.Nil, map[string]any{"case": c, "executed": first}, ans, first.answer())
		for _, n := range first.Notes {
			if strings.Contains(n, "blocked") {
				tie.Count("schedules with a write blocked by the subscriber's read lock")
				break
			}
		}
		tie.Count(fmt.Sprintf("commits pending when the subscriber registered: %d", first.StaleAtListen))
		tie.Count(fmt.Sprintf("max commits pending: %d", first.MaxPending))
	}
}
