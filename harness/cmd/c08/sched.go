package main

// K4: schedules of the concurrent subscribe model (ScVerif/C08/Subscribe.lean) executed on the real code
// through the yield points of pkg/resource.
//
//   writer thread     one write at a time; an Update/Add parks at `coll.update.beforeSend` (committed, lock
//                     released, not yet published: the model's `pend`); releasing it is `publish`.  A Delete
//                     commits and publishes under the write lock (`deleteNow`).
//   subscriber        `Pull(WithInclude p, WithBackpressure(true))` parks at `coll.onUpdate.beforeListen`
//                     (seed computed - the predicate was evaluated on every item - read lock held: the
//                     model's `snapping`); releasing it registers the listener and drops the lock (`listen`).
//
// With a second subscriber (`pred2`, its own predicate; model `msched`, ScVerif/C08/SubscribeMany.lean) both
// can hold the read lock together, a write gets through only when neither does, and every publication is
// handed to whichever of them listen at that moment.  (sync.RWMutex keeps NEW readers out while a writer
// waits, so a subscriber that has not started yet is not started while a write is blocked.)
//
// A write started while the subscriber is parked must NOT get through (the model disables `commit` and
// `deleteNow` while snapping): the harness gives it raceGrace to reach its park point or to return, and
// otherwise records the step as blocked; after `listen` the same write is waited for and becomes the
// model's (now enabled) step.  At the end everything pending is published, the stream is drained to a
// fence, and seed / delivered events / List(WithInclude) are compared with the model's answer for exactly
// the schedule that was executed.

import (
	"context"
	"fmt"
	"math/rand"
	"strings"
	"sync"
	"sync/atomic"
	"time"

	"github.com/smart-core-os/sc-golang/internal/verifhook"
	"github.com/smart-core-os/sc-golang/pkg/resource"
	"github.com/smart-core-os/sc-golang/verifharness/lib"
)

type schedCase struct {
	Kind    string   `json:"kind"` // "sched"
	Pred    pred     `json:"pred"`
	Init    []string `json:"init"`            // writes before anything concurrent happens
	Prog    []string `json:"prog"`            // the writer thread's writes, in order: add/upd/ups/del
	Choices []int    `json:"choices"`         // scheduler choices: 0 = a writer starts the next write, 1 = subscriber moves, 2 = publish the oldest pending commit (3 = the second subscriber moves); an odd count allows two pending commits
	Pred2   *pred    `json:"pred2,omitempty"` // a second subscriber on the same collection, with its own predicate
	// Split: minibus.Bus.Send is taken apart through the yield point bus.send.beforeListener - choice 2 is, when
	// no Send is in flight, "the oldest pending commit's Send copies the listener slice" (`ps`) and otherwise
	// "the event in flight is handed to the next listener of the copy" (`pn`); model `fsched`
	Split bool `json:"split,omitempty"`
	// Lossy: the subscribers pull with WithBackpressure(false) (the default) and do not read before the end of
	// the schedule, so everything published to them goes through the real mergeCollectionExcess goroutine and
	// is merged there; model `lsched`: the streams the merge machine can emit for what the subscriber was sent
	Lossy bool `json:"lossy,omitempty"`
	// Ghosts (with Split): before the scheduler's choice number Ghosts[i] a GHOST subscribes - a plain Pull whose
	// context is cancelled as soon as it has registered: a dead listener the bus has not collected yet.  The next
	// Send finds it in its copy of the listener slice (it is not sent the event; needGc) and runs Bus.collect when
	// its loop is over - while, Send being taken apart, other subscribers register in between; model `gsched`
	// (ScVerif/C08/SubscribeGc.lean: b.listeners, cancel, collect)
	Ghosts []int `json:"ghosts,omitempty"`
}

func (c schedCase) preds() []pred {
	if c.Pred2 != nil {
		return []pred{c.Pred, *c.Pred2}
	}
	return []pred{c.Pred}
}

// subObs: what one subscriber was sent, and List with its predicate at the end.
type subObs struct {
	Seed []string `json:"seed"`
	Recv []string `json:"recv"`
	List string   `json:"list"`
	// Stale: the ids with a commit still unpublished at the moment this subscriber registered (its seed
	// contains those commits, and their events reach it afterwards all the same)
	Stale []string `json:"stale,omitempty"`
	// NoFence: the closing fence write's event did not reach this (registered, live) subscriber in time
	NoFence bool `json:"no_fence,omitempty"`
}

type schedObs struct {
	Steps   []string `json:"steps"` // the model steps that were executed (what the driver is asked)
	Notes   []string `json:"notes"` // blocked writes etc.
	Per     []subObs `json:"per"`   // per subscriber: delivered seed events, delivered later events (up to, not including, the fence), List(WithInclude p) at the end
	Split   bool     `json:"split,omitempty"`
	Lossy   bool     `json:"lossy,omitempty"`
	Problem string   `json:"problem,omitempty"`
	// MaxPending: the largest number of committed, unpublished writes at any moment; StaleAtListen: how
	// many of them were pending when the subscriber registered (they are in its seed and reach it anyway)
	MaxPending    int `json:"max_pending"`
	StaleAtListen int `json:"stale_at_listen"`
	// Gc: the schedule ran with the model that has b.listeners / cancel / collect; Collects: how often Bus.collect
	// ran during the schedule (yield point bus.collect.scanned)
	Gc       bool `json:"gc,omitempty"`
	Collects int  `json:"collects,omitempty"`
}

func (o schedObs) answer() string {
	if o.Problem != "" {
		return "problem:" + o.Problem
	}
	if o.Lossy {
		var parts []string
		for _, p := range o.Per {
			parts = append(parts, "seed="+showChanges(p.Seed)+" list="+p.List+" sub=listen streams="+showChanges(p.Recv))
		}
		return strings.Join(parts, " # ") + " | pend=0"
	}
	if len(o.Per) == 1 && !o.Split && !o.Per[0].NoFence {
		return "seed=" + showChanges(o.Per[0].Seed) + " recv=" + showChanges(o.Per[0].Recv) + " list=" + o.Per[0].List + " pend=0 sub=listen"
	}
	var parts []string
	for _, p := range o.Per {
		recv := showChanges(p.Recv)
		if p.NoFence {
			recv += ";!fence-not-delivered"
		}
		parts = append(parts, "seed="+showChanges(p.Seed)+" recv="+recv+" list="+p.List+" sub=listen")
	}
	if o.Gc {
		return strings.Join(parts, " # ") + fmt.Sprintf(" | pend=0 flight=0 collects=%d", o.Collects)
	}
	if o.Split {
		return strings.Join(parts, " # ") + " | pend=0 flight=0"
	}
	return strings.Join(parts, " # ") + " | pend=0"
}

func (c schedCase) driverLine(o schedObs) string {
	if c.Pred2 == nil && !c.Split && !c.Lossy {
		toks := append([]string{"sched", c.Pred.token(), fmt.Sprint(len(c.Init))}, c.Init...)
		return strings.Join(append(toks, o.Steps...), " ")
	}
	opn := "msched"
	if c.Split {
		opn = "fsched"
	}
	if c.Lossy {
		opn = "lsched"
	}
	if o.Gc {
		opn = "gsched"
	}
	toks := []string{opn, fmt.Sprint(len(c.preds()))}
	for _, p := range c.preds() {
		toks = append(toks, p.token())
	}
	toks = append(append(toks, fmt.Sprint(len(c.Init))), c.Init...)
	return strings.Join(append(toks, o.Steps...), " ")
}

// schedSub is one subscriber of a schedule: its Pull runs in its own goroutine and parks at
// coll.onUpdate.beforeListen.
type schedSub struct {
	id        atomic.Int64
	parked    chan struct{}
	release   chan struct{}
	pulled    chan (<-chan *resource.CollectionChange)
	state     int // 0 idle, 1 snapping, 2 listening
	mu        sync.Mutex
	events    []string
	fenceSeen chan struct{}
	ch        <-chan *resource.CollectionChange // (Lossy) not read before the end of the schedule
	stale     []string
}

// pendingWrite is a write under way in its own goroutine (a writer thread).
type pendingWrite struct {
	op      string
	parked  chan struct{} // signalled when it reaches coll.update.beforeSend (committed, not yet published)
	release chan struct{}
	step    chan struct{} // (Split) lets the write's Bus.Send go on from bus.send.beforeListener to its next park
	done    chan struct{}
}

func (c schedCase) run() (o schedObs) {
	col := resource.NewCollection()
	for _, op := range c.Init {
		_ = applyOp(col, op)
	}
	ctx, cancel := context.WithCancel(context.Background())
	defer cancel()

	var writers sync.Map // goroutine id -> *pendingWrite
	var collects atomic.Int64
	preds := c.preds()
	subs := make([]*schedSub, len(preds))
	for k := range subs {
		subs[k] = &schedSub{parked: make(chan struct{}, 1), release: make(chan struct{}), pulled: make(chan (<-chan *resource.CollectionChange), 1), fenceSeen: make(chan struct{})}
		subs[k].id.Store(-1)
	}
	verifhook.Set(func(point string) {
		switch point {
		case "coll.update.beforeSend":
			if w, ok := writers.Load(verifhook.GoID()); ok {
				pw := w.(*pendingWrite)
				pw.parked <- struct{}{}
				<-pw.release
			}
		case "bus.send.beforeListener":
			if !c.Split {
				return
			}
			if w, ok := writers.Load(verifhook.GoID()); ok {
				pw := w.(*pendingWrite)
				if strings.HasPrefix(pw.op, "del:") {
					return // a Delete publishes under the write lock: one atomic step
				}
				pw.parked <- struct{}{}
				<-pw.step
			}
		case "bus.collect.scanned":
			collects.Add(1)
		case "coll.onUpdate.beforeListen":
			gid := verifhook.GoID()
			for _, sb := range subs {
				if sb.id.Load() == gid {
					sb.parked <- struct{}{}
					<-sb.release
				}
			}
		}
	})
	defer verifhook.Set(nil)

	// subscriber side
	startSub := func(k int) {
		sb := subs[k]
		ready := make(chan struct{})
		go func() {
			sb.id.Store(verifhook.GoID())
			close(ready)
			var opts []resource.ReadOption
			if ff := preds[k].filterFunc(); ff != nil {
				opts = append(opts, resource.WithInclude(ff))
			}
			opts = append(opts, resource.WithBackpressure(!c.Lossy))
			sb.pulled <- col.Pull(ctx, opts...)
		}()
		<-ready
	}
	consume := func(sb *schedSub, ch <-chan *resource.CollectionChange) {
		if c.Lossy && sb.ch == nil {
			sb.ch = ch // read at the end
			return
		}
		go func() {
			for ev := range ch {
				if ev.Id == fenceID {
					close(sb.fenceSeen)
					return
				}
				sb.mu.Lock()
				sb.events = append(sb.events, showChange(ev, false))
				sb.mu.Unlock()
			}
		}()
	}
	stepName := func(kind string, k int) string {
		if len(subs) == 1 && !c.Split && !c.Lossy {
			return kind
		}
		return fmt.Sprintf("%s=%d", kind, k)
	}
	anySnapping := func() bool {
		for _, sb := range subs {
			if sb.state == 1 {
				return true
			}
		}
		return false
	}
	allListening := func() bool {
		for _, sb := range subs {
			if sb.state != 2 {
				return false
			}
		}
		return true
	}

	// writer side: every write runs in its own goroutine (a writer thread); `queue` holds the writes that
	// have committed and are parked before their publication, in commit order - they are published in that
	// order (the model's FIFO `pend`, C03's `ordered` hypothesis, which the scheduler here guarantees);
	// `blocked` is a write started while the subscriber holds the lock that has neither parked nor returned
	var queue []*pendingWrite
	var blocked *pendingWrite
	prog := append([]string{}, c.Prog...)
	var all []*pendingWrite
	start := func(op string) *pendingWrite {
		pw := &pendingWrite{op: op, parked: make(chan struct{}, 1), release: make(chan struct{}), step: make(chan struct{}), done: make(chan struct{})}
		all = append(all, pw)
		ready := make(chan struct{})
		go func() {
			writers.Store(verifhook.GoID(), pw)
			close(ready)
			_, _ = lib.Catch(func() { _ = applyOp(col, op) })
			close(pw.done)
		}()
		<-ready
		return pw
	}
	stepOf := func(op string) string {
		if strings.HasPrefix(op, "del:") {
			return "d=" + strings.TrimPrefix(op, "del:")
		}
		return "c=" + op
	}
	// wait for a running write to park or return; false, false = neither within d
	settle := func(pw *pendingWrite, d time.Duration) (parked, returned bool) {
		select {
		case <-pw.parked:
			return true, false
		case <-pw.done:
			return false, true
		case <-time.After(d):
			return false, false
		}
	}
	problem := func(s string) schedObs {
		o.Problem = s
		// let everything run out
		verifhook.Set(nil)
		for _, pw := range all {
			select {
			case <-pw.release:
			default:
				close(pw.release)
			}
			close(pw.step)
		}
		for _, sb := range subs {
			close(sb.release)
		}
		return o
	}
	o.Split, o.Lossy = c.Split, c.Lossy
	o.Gc = c.Split && len(c.Ghosts) > 0
	nGhosts := 0
	// a ghost: a plain Pull (seed and Listen under the read lock; the hook lets it through) whose context is
	// cancelled at once; its channel closes once its forwarding goroutine has gone - from then on nothing receives
	// from its listener, so every later Send finds it inactive
	addGhost := func() bool {
		gctx, gcancel := context.WithCancel(ctx)
		gch := col.Pull(gctx, resource.WithBackpressure(true))
		gcancel()
		limit := time.NewTimer(fenceTimeout)
		defer limit.Stop()
		for {
			select {
			case _, ok := <-gch:
				if !ok {
					return true
				}
			case <-limit.C:
				return false
			}
		}
	}
	var flight *pendingWrite           // (Split) the write whose Bus.Send has copied the listener slice and is parked before a listener
	maxPending := 1 + len(c.Choices)%2 // one or two writer threads with unpublished commits at a time

	nch := 3
	if len(subs) > 1 {
		nch = 4
	}
	// the choice that is taken when the scheduler's choice is not enabled: the next enabled one in this order
	fallback := map[int][]int{0: {0, 2, 1, 3}, 2: {2, 1, 3, 0}, 1: {1, 3, 0, 2}, 3: {3, 1, 0, 2}}
	choice := 0
	for len(prog) > 0 || len(queue) > 0 || flight != nil || blocked != nil || !allListening() {
		for _, at := range c.Ghosts {
			// (a Pull needs the read lock: not while a write waits for the write lock, sync.RWMutex keeps new readers out)
			if o.Gc && at == choice && blocked == nil {
				if !addGhost() {
					return problem("the Pull of a cancelled subscriber did not end within the time limit")
				}
				o.Steps = append(o.Steps, fmt.Sprintf("g=%d", len(subs)+nGhosts))
				nGhosts++
			}
		}
		ch := choice % nch
		if choice < len(c.Choices) {
			ch = c.Choices[choice] % nch
		}
		choice++
		// 0 = a writer starts the next write, 1 = the subscriber moves, 2 = the oldest pending commit is published,
		// 3 = the second subscriber moves
		enabled := func(m int) bool {
			switch m {
			case 0:
				return len(prog) > 0 && blocked == nil && len(queue) < maxPending &&
					!(strings.HasPrefix(prog[0], "del:") && (len(queue) > 0 || flight != nil)) // a Delete publishes under the lock: only when nothing is pending or in flight
			case 2:
				return len(queue) > 0 || flight != nil
			case 1, 3:
				k := m / 2
				// (a subscriber that has not started is not started while a write waits for the lock: RWMutex
				// keeps new readers out then)
				return k < len(subs) && subs[k].state != 2 && !(subs[k].state == 0 && blocked != nil)
			}
			return false
		}
		picked := -1
		for _, m := range fallback[ch] {
			if enabled(m) {
				picked = m
				break
			}
		}
		if picked < 0 {
			return problem("no step enabled")
		}
		switch picked {
		case 2:
			if c.Split {
				c0 := int(collects.Load())
				if flight == nil {
					pw := queue[0]
					queue = queue[1:]
					close(pw.release) // leaves coll.update.beforeSend and enters Bus.Send
					parked, returned := settle(pw, fenceTimeout)
					switch {
					case parked:
						flight = pw // listener slice copied, nothing handed out yet
					case returned: // nobody listens
					default:
						return problem("Send of " + pw.op + " neither reached a listener nor returned within the time limit")
					}
					o.Steps = append(o.Steps, "ps")
				} else {
					flight.step <- struct{}{}
					parked, returned := settle(flight, fenceTimeout)
					switch {
					case parked:
					case returned:
						flight = nil
					default:
						return problem("Send of " + flight.op + " did not get past a listener within the time limit")
					}
					o.Steps = append(o.Steps, "pn")
					if int(collects.Load()) > c0 {
						// the Send's loop is over and it has run Bus.collect before returning
						o.Steps = append(o.Steps, "gc")
					}
				}
				break
			}
			pw := queue[0]
			queue = queue[1:]
			close(pw.release)
			select {
			case <-pw.done:
			case <-time.After(fenceTimeout):
				return problem("publish of " + pw.op + " did not return within the time limit")
			}
			o.Steps = append(o.Steps, "p")
		case 0:
			op := prog[0]
			prog = prog[1:]
			pw := start(op)
			o.Steps = append(o.Steps, stepOf(op))
			if anySnapping() {
				// a subscriber holds the read lock: the model says this step is disabled
				parked, returned := settle(pw, raceGrace)
				switch {
				case parked:
					o.Notes = append(o.Notes, op+" COMMITTED while the subscriber held the lock")
					queue = append(queue, pw)
					// the model ignored the step; what follows can only disagree
				case returned:
					o.Notes = append(o.Notes, op+" returned while the subscriber held the lock")
				default:
					o.Notes = append(o.Notes, op+" blocked while the subscriber held the lock")
					blocked = pw
				}
			} else {
				parked, returned := settle(pw, fenceTimeout)
				switch {
				case parked:
					queue = append(queue, pw)
					if len(queue) > o.MaxPending {
						o.MaxPending = len(queue)
					}
				case returned:
				default:
					return problem(op + " neither committed nor returned within the time limit")
				}
			}
		case 1, 3:
			k := picked / 2
			sb := subs[k]
			switch sb.state {
			case 0:
				startSub(k)
				select {
				case <-sb.parked:
				case <-time.After(fenceTimeout):
					return problem("Pull did not reach coll.onUpdate.beforeListen within the time limit")
				}
				o.Steps = append(o.Steps, stepName("s", k))
				sb.state = 1
			case 1:
				sb.release <- struct{}{}
				select {
				case chn := <-sb.pulled:
					consume(sb, chn)
				case <-time.After(fenceTimeout):
					return problem("Pull did not return within the time limit")
				}
				o.Steps = append(o.Steps, stepName("l", k))
				sb.state = 2
				if k == 0 {
					o.StaleAtListen = len(queue)
				}
				for _, pw := range queue {
					sb.stale = append(sb.stale, strings.Split(pw.op, ":")[1])
				}
				if blocked != nil && !anySnapping() {
					// the blocked write gets through now: it is the model's step, enabled this time
					pw := blocked
					blocked = nil
					parked, returned := settle(pw, fenceTimeout)
					o.Steps = append(o.Steps, stepOf(pw.op))
					switch {
					case parked:
						queue = append(queue, pw)
					case returned:
					default:
						return problem(pw.op + " still blocked after the subscribers released the lock")
					}
				}
			}
		}
	}
	verifhook.Set(nil)
	o.Collects = int(collects.Load())
	o.Per = make([]subObs, len(subs))
	for k := range subs {
		o.Per[k].List = listWithInclude(col, preds[k])
	}
	// quiescent: drain to a fence
	if _, err := col.Add(fenceID, msgOf("f")); err != nil {
		o.Problem = "fence write failed"
		return o
	}
	for k, sb := range subs {
		if c.Lossy {
			consume(sb, sb.ch)
		}
		o.Per[k].Stale = sb.stale
		select {
		case <-sb.fenceSeen:
		case <-time.After(fenceTimeout):
			// a registered subscriber whose context is live was not sent the ADD of the fence item
			o.Per[k].NoFence = true
		}
		sb.mu.Lock()
		for _, ev := range sb.events {
			if isSeed(ev) {
				o.Per[k].Seed = append(o.Per[k].Seed, ev)
			} else {
				o.Per[k].Recv = append(o.Per[k].Recv, ev)
			}
		}
		sb.mu.Unlock()
	}
	return o
}

// monitor: the property at the quiescent end of the schedule, independent of the model: the seed and the
// delivered events folded (as a plain map: a subscriber that snapshots between a commit and its
// publication is sent that event although its seed contains it - publication order is C03's subject -
// so strict well-formedness is not demanded here) give List(WithInclude p) = the filtered plain map.
func (c schedCase) monitor(m sink, o schedObs) {
	if o.Problem != "" {
		m.Violate("C08/sched/stuck", "a step of a subscribe-while-writing schedule did not complete", c, "completes", o.Problem)
		return
	}
	sh := shadow{}
	for _, op := range c.Init {
		sh.apply(op)
	}
	for _, op := range c.Prog {
		sh.apply(op)
	}
	pre := "C08/sched/"
	if c.Pred2 != nil {
		pre = "C08/sched/two-subscribers/"
	}
	if c.Split {
		pre += "split-send/"
	}
	if c.Lossy {
		pre = "C08/sched/lossy/"
	}
	if o.Gc {
		pre += "cancelled-listeners/"
		m.Count(fmt.Sprintf("schedules with cancelled, uncollected listeners on the bus: collect ran %d time(s)", o.Collects))
	}
	for k, p := range c.preds() {
		if k >= len(o.Per) {
			break
		}
		view := map[string]string{}
		for _, ev := range append(append([]string{}, o.Per[k].Seed...), o.Per[k].Recv...) {
			f := splitComma(ev)
			if len(f) != 7 {
				continue
			}
			if f[1] == "REMOVE" {
				delete(view, f[0])
			} else {
				view[f[0]] = f[4]
			}
		}
		vf := &viewFold{view: view}
		want := sh.filtered(p, "")
		if o.Per[k].NoFence {
			m.Violate(pre+"registered-subscriber-not-sent-event", "a subscriber that had registered (Pull returned, context live) was not sent the ADD of an item matching its predicate, published afterwards: the bus no longer delivers to it", c, "the fence item's ADD within the time limit", "not delivered; received before: "+showChanges(o.Per[k].Recv))
		}
		if got := vf.String(); got != want && c.Lossy && onlyStaleDiffer(got, want, o.Per[k].Stale) {
			// the only ids that differ had a commit unpublished when the subscriber registered: the event of a
			// commit its seed already contains was merged with later events of the id by the lossy machine
			m.Violate(pre+"stale-event-merged/fold-differs-from-filtered-collection", "a lossy subscriber registered while a commit was still unpublished (publish after unlock): its seed contains the commit, the late event was merged with later events of the id by mergeCollectionExcess, include judged the merged change from the stale old value, and the folded view differs from the filtered collection at that id", c, want, got)
		} else if got != want {
			m.Violate(pre+"fold-differs-from-filtered-collection", "after a schedule interleaving a writer with Pull's snapshot/listen, folding seed + stream does not give the filtered collection", c, want, got)
		}
		if o.Per[k].List != want {
			m.Violate(pre+"List-not-filtered-collection", "List(WithInclude) is not the filtered collection", c, want, o.Per[k].List)
		}
	}
	for _, n := range o.Notes {
		if strings.Contains(n, "COMMITTED") {
			m.Count("write committed while the subscriber held the lock")
		}
		if strings.Contains(n, "blocked") {
			m.Count("write blocked while the subscriber held the lock")
		}
	}
	m.Eval(c.predKey()+"/"+strings.Join(c.Init, " ")+"/"+strings.Join(o.Steps, " "), !c.Pred.Nil, nil)
}

// onlyStaleDiffer: the views `id=v,...` differ exactly at ids listed in stale.
func onlyStaleDiffer(got, want string, stale []string) bool {
	parse := func(s string) map[string]string {
		m := map[string]string{}
		if s == "-" {
			return m
		}
		for _, kv := range strings.Split(s, ",") {
			q := strings.SplitN(kv, "=", 2)
			if len(q) == 2 {
				m[q[0]] = q[1]
			}
		}
		return m
	}
	g, w := parse(got), parse(want)
	differ := false
	check := func(id string) bool {
		if g[id] == w[id] {
			return true
		}
		differ = true
		return index(id, stale) >= 0
	}
	for id := range g {
		if !check(id) {
			return false
		}
	}
	for id := range w {
		if !check(id) {
			return false
		}
	}
	return differ
}

func (c schedCase) predKey() string {
	if c.Pred2 != nil {
		return c.Pred.token() + "+" + c.Pred2.token()
	}
	return c.Pred.token()
}

func genSched(r *rand.Rand) schedCase {
	ids := ids2
	if r.Intn(3) == 0 {
		ids = ids[:1]
	}
	p := pred{Ids: ids, Vals: vals2}
	bits := uint(len(ids) * (len(vals2) + 1))
	p.Mask = uint64(r.Int63()) & (1<<bits - 1)
	if r.Intn(20) == 0 {
		p = pred{Nil: true}
	}
	c := schedCase{Kind: "sched", Pred: p}
	all := genOps(r, ids, vals2, r.Intn(3)+1+r.Intn(4))
	for _, op := range all {
		// plain writes only: the options / re-entrant variants belong to the sequential sessions
		switch q := strings.Split(op, ":"); q[0] {
		case "delc", "delv", "dela":
			op = "del:" + q[1]
		case "addc", "updc", "upsc":
			op = map[string]string{"addc": "add", "updc": "upd", "upsc": "ups"}[q[0]] + ":" + q[1] + ":" + q[2]
		}
		c.Prog = append(c.Prog, op)
	}
	n := r.Intn(3)
	if n > len(c.Prog)-1 {
		n = len(c.Prog) - 1
	}
	c.Init, c.Prog = c.Prog[:n], c.Prog[n:]
	// a fifth of the schedules are random; the others start with a fixed prefix - one or two writers commit, then the
	// subscriber snapshot and register, and only then go on at random: it registers with commits pending
	// (events its seed already contains reach it afterwards)
	switch r.Intn(5) {
	case 1:
		c.Choices = append(c.Choices, 0, 1, 1)
	case 2:
		c.Choices = append(c.Choices, 0, 0, 1, 1)
	case 3: // a write started while the subscriber holds the lock
		c.Choices = append(c.Choices, 1, 0, 1)
	case 4: // both: a commit pending, then a write started under the subscriber's lock
		c.Choices = append(c.Choices, 0, 1, 0, 1)
	}
	nch := 3
	if r.Intn(3) == 0 {
		// a second subscriber with a predicate of its own (now and then the same one)
		p2 := pred{Ids: ids, Vals: vals2, Mask: uint64(r.Int63()) & (1<<bits - 1)}
		if r.Intn(6) == 0 {
			p2 = c.Pred
		}
		c.Pred2 = &p2
		nch = 4
		// other fixed prefixes: both hold the lock when a write starts; the second snapshots while the first
		// listens and a commit is pending; the second starts while a write is blocked by the first
		switch r.Intn(5) {
		case 1:
			c.Choices = []int{1, 3, 0, 1, 3}
		case 2:
			c.Choices = []int{1, 1, 0, 3, 0, 3}
		case 3:
			c.Choices = []int{0, 3, 1, 0, 3, 1}
		case 4:
			c.Choices = []int{1, 0, 3, 1}
		}
	}
	if r.Intn(3) == 0 {
		// Bus.Send taken apart: choice 2 = copy the listener slice / hand the event to the next listener
		c.Split = true
		if c.Pred2 != nil && r.Intn(2) == 0 {
			// the second subscriber takes its seed and registers between a Send's copy and its delivery
			c.Choices = []int{1, 1, 0, 2, 3, 3, 2}
		}
	}
	if c.Split && r.Intn(2) == 0 {
		// cancelled, uncollected listeners on the bus: one or two ghosts, before the first steps or a little later
		c.Ghosts = []int{r.Intn(2) * r.Intn(4)}
		if r.Intn(3) == 0 {
			c.Ghosts = append(c.Ghosts, r.Intn(6))
		}
		if r.Intn(2) == 0 {
			c.Ghosts[0] = 0
			if c.Pred2 == nil {
				// a commit's Send copies the listener slice (the ghost alone), then the subscriber takes its seed and
				// registers, then the Send finds the ghost dead and collects
				c.Choices = []int{0, 2, 1, 1, 2}
			}
		}
	}
	if !c.Split && r.Intn(4) == 0 {
		c.Lossy = true
	}
	nc := 3*len(c.Prog) + 4 + r.Intn(2)
	if c.Split {
		nc += 2 * len(c.Prog)
	}
	for i := 0; i < nc; i++ {
		c.Choices = append(c.Choices, r.Intn(nch))
	}
	return c
}

// acceptStreams: in the model's `lsched` answer every subscriber has `streams=<s1>|<s2>|...`, the streams the
// merge machine can emit for what the subscriber was sent; the delivered stream must be one of them (then the
// model side shows it, else the whole set).
func acceptStreams(ans string, o schedObs) string {
	tail := ""
	if k := strings.LastIndex(ans, " | "); k >= 0 {
		ans, tail = ans[:k], ans[k:]
	}
	parts := strings.Split(ans, " # ")
	for k := range parts {
		i := strings.LastIndex(parts[k], " streams=")
		if i < 0 || k >= len(o.Per) {
			continue
		}
		set := parts[k][i+len(" streams="):]
		got := showChanges(o.Per[k].Recv)
		found := false
		for _, st := range strings.Split(set, "|") {
			if st == got {
				found = true
			}
		}
		if found {
			parts[k] = parts[k][:i] + " streams=" + got
		} else {
			parts[k] = parts[k][:i] + " streams=one-of{" + set + "}"
		}
	}
	return strings.Join(parts, " # ") + tail
}

func runSched(f lib.Flags, res *lib.Result, drv *lib.Driver) {
	tie := res.Tie("subscribe-schedules", "K4",
		"schedules of the concurrent subscribe model executed on a real Collection through the yield points coll.update.beforeSend (a writer committed, not yet published) and coll.onUpdate.beforeListen (subscriber computed its seed, read lock held): 1-6 writes (Add/Update/Upsert/Delete incl. failing ones) over 1-2 ids x 2 values, each in its own writer goroutine, up to two of them committed and unpublished at a time, publications released in commit order, interleaved with Pull(WithInclude p, WithBackpressure(true))'s snapshot and listen steps - at random after a fixed prefix (commits pending at the snapshot; a write started under the subscriber's lock; both; none); a third of the schedules have a SECOND subscriber with a predicate of its own on the same collection (model `msched`, ScVerif/C08/SubscribeMany.lean: both may hold the read lock together, a write gets through only when neither does, a publication reaches whichever of them listen); in a third Bus.Send is taken apart through the yield point bus.send.beforeListener (model `fsched`, ScVerif/C08/SubscribeSend.lean: the Send copies the listener slice, then hands the event to the listeners of the copy one by one, other threads moving in between - a subscriber registering after the copy is not sent the event); half of those have GHOSTS (plain Pulls cancelled as soon as they have registered, before the first step or a little later: dead listeners the bus has not collected; model `gsched`, ScVerif/C08/SubscribeGc.lean: b.listeners, cancel, a Send skipping and remembering dead listeners, Bus.collect as a step observed through the yield point bus.collect.scanned - the number of collects is part of the answer; fixed prefixes make a subscriber register between a Send's copy of the listener slice and its collect); a quarter of the others have LOSSY subscribers (WithBackpressure(false), nothing read before the end of the schedule: everything sent to them is merged by the real mergeCollectionExcess goroutine; model `lsched`: the delivered stream must be one of the streams the merge machine can emit for what the model's subscriber was sent); thorough adds every choice sequence of length 5 for four small programs x three predicates, with two subscribers every sequence of 5 choices out of 4 for two programs, with Bus.Send taken apart every sequence of 6 choices out of 4, and with a lossy subscriber every sequence of 6 choices out of 3 under three predicates; a write started while the subscriber holds the lock must block (model: step disabled) and is re-issued after listen; at the end the delivered seed, the delivered events and List(WithInclude p) are compared with the model's `sched` answer for the executed schedule; non-trivial = predicate not nil; distinct = (predicate, initial writes, executed steps)")
	mon := res.Monitor("subscribe-fold", "on the same schedules, independent of the model: at the quiescent end, for every subscriber, fold(seed ++ delivered events) = List(WithInclude p) = the filtered plain map; in the schedules with cancelled, uncollected listeners on the bus additionally: every subscriber that has registered and is not cancelled is sent the ADD of the closing fence item; distinct = (predicate, initial writes, executed steps)")
	r := lib.NewRand(f.Seed + 13)
	n := f.N(150, 1500)
	var cases []schedCase
	// the witness of the known finding C08/sched/lossy/stale-event-merged/... (known_findings/C08.json; Lean:
	// C08_subscribe_lossy_stale_fails), run on every tier: predicate "value y"; x -> y commits, the lossy
	// subscriber takes its seed (y) and registers, the stale event and a further update y -> x are published
	// and merged to x -> x, which include drops
	cases = append(cases, schedCase{Kind: "sched", Pred: pred{Ids: []string{"a"}, Vals: vals2, Mask: 4}, Init: []string{"add:a:x"},
		Prog: []string{"upd:a:y", "upd:a:x"}, Choices: []int{0, 1, 1, 2, 0, 2}, Lossy: true})
	for i := 0; i < n; i++ {
		cases = append(cases, genSched(r))
	}
	if f.Thorough() {
		// bounded-exhaustive: every choice sequence of length 5 (two commits may be pending) for small
		// writer programs on one id, under the predicates "x", "y", "x or y"
		progs := [][]string{{"upd:a:y"}, {"upd:a:y", "upd:a:x"}, {"del:a", "add:a:y"}, {"upd:a:y", "del:a"}}
		for _, prog := range progs {
			for _, mask := range []uint64{2, 4, 6} {
				for code := 0; code < 243; code++ {
					c := schedCase{Kind: "sched", Pred: pred{Ids: []string{"a"}, Vals: vals2, Mask: mask}, Init: []string{"add:a:x"}, Prog: prog}
					for k, x := 0, code; k < 5; k, x = k+1, x/3 {
						c.Choices = append(c.Choices, x%3)
					}
					cases = append(cases, c)
				}
			}
		}
	}
	if f.Thorough() {
		// the same with two subscribers (predicates "x" and "y"): every sequence of 5 choices out of 4
		for _, prog := range [][]string{{"upd:a:y"}, {"upd:a:y", "del:a"}} {
			for code := 0; code < 1024; code++ {
				p2 := pred{Ids: []string{"a"}, Vals: vals2, Mask: 4}
				c := schedCase{Kind: "sched", Pred: pred{Ids: []string{"a"}, Vals: vals2, Mask: 2}, Pred2: &p2, Init: []string{"add:a:x"}, Prog: prog}
				for k, x := 0, code; k < 5; k, x = k+1, x/4 {
					c.Choices = append(c.Choices, x%4)
				}
				cases = append(cases, c)
			}
		}
	}
	if f.Thorough() {
		// lossy subscriber reading at the end: every sequence of 6 choices out of 3 under the predicates "x", "y",
		// "x or y" (the sequences in which it registers with the first commit unpublished show the known finding)
		for _, mask := range []uint64{2, 4, 6} {
			for code := 0; code < 729; code++ {
				c := schedCase{Kind: "sched", Pred: pred{Ids: []string{"a"}, Vals: vals2, Mask: mask}, Init: []string{"add:a:x"}, Prog: []string{"upd:a:y", "upd:a:x"}, Lossy: true}
				for k, x := 0, code; k < 6; k, x = k+1, x/3 {
					c.Choices = append(c.Choices, x%3)
				}
				cases = append(cases, c)
			}
		}
	}
	if f.Thorough() {
		// and with Bus.Send taken apart: every sequence of 6 choices out of 4, two subscribers
		for code := 0; code < 4096; code++ {
			p2 := pred{Ids: []string{"a"}, Vals: vals2, Mask: 4}
			c := schedCase{Kind: "sched", Pred: pred{Ids: []string{"a"}, Vals: vals2, Mask: 2}, Pred2: &p2, Init: []string{"add:a:x"}, Prog: []string{"upd:a:y", "upd:a:x"}, Split: true}
			for k, x := 0, code; k < 6; k, x = k+1, x/4 {
				c.Choices = append(c.Choices, x%4)
			}
			cases = append(cases, c)
		}
	}
	stuck := 0
	if f.Thorough() {
		// cancelled, uncollected listeners: a ghost registered before everything else (and a second one after the
		// third choice), Bus.Send taken apart: every sequence of 6 choices out of 3 with one subscriber under two
		// predicates, every sequence of 5 out of 4 with two subscribers
		for _, mask := range []uint64{2, 4} {
			for code := 0; code < 729; code++ {
				c := schedCase{Kind: "sched", Pred: pred{Ids: []string{"a"}, Vals: vals2, Mask: mask}, Init: []string{"add:a:x"}, Prog: []string{"upd:a:y", "upd:a:x"}, Split: true, Ghosts: []int{0, 3}}
				for k, x := 0, code; k < 6; k, x = k+1, x/3 {
					c.Choices = append(c.Choices, x%3)
				}
				cases = append(cases, c)
			}
		}
		for code := 0; code < 1024; code++ {
			p2 := pred{Ids: []string{"a"}, Vals: vals2, Mask: 4}
			c := schedCase{Kind: "sched", Pred: pred{Ids: []string{"a"}, Vals: vals2, Mask: 2}, Pred2: &p2, Init: []string{"add:a:x"}, Prog: []string{"upd:a:y", "del:a"}, Split: true, Ghosts: []int{0}}
			for k, x := 0, code; k < 5; k, x = k+1, x/4 {
				c.Choices = append(c.Choices, x%4)
			}
			cases = append(cases, c)
		}
	}
	for _, c := range cases {
		var first schedObs
		runs := 0
		confirmed(res, mon, func(sk sink) any {
			o := c.run()
			if runs == 0 {
				first = o
			}
			runs++
			c.monitor(sk, o)
			return o
		}, func(t1, t2 any) any { return enrich(c, t1, t2) })
		ans, err := drv.Ask(c.driverLine(first))
		if err != nil {
			tie.Fail(err)
			return
		}
		if k := strings.Index(ans, " listeners="); k >= 0 {
			ans = ans[:k] // (b.listeners itself is not observable from outside the bus)
		}
		lost := first.Problem != ""
		for _, p := range first.Per {
			lost = lost || p.NoFence
		}
		if lost {
			// every such schedule costs two waits (the run and its confirmation): shorten them from now on
			stuck++
			stuckSeen++
			fenceTimeout = stuckTimeout
			if tooManyStuck(stuck) {
				tie.Fail(fmt.Errorf("aborted after %d schedules in which a step or the closing fence did not come through within the time limit", stuck))
				return
			}
		}
		if first.Gc {
			tie.Count("schedules with cancelled, uncollected listeners (ghosts) on the bus")
			joined := false
			for i, st := range first.Steps {
				if st != "ps" {
					continue
				}
				for _, st2 := range first.Steps[i+1:] {
					if st2 == "gc" || st2 == "ps" {
						if st2 == "gc" && joined {
							tie.Count("schedules in which a subscriber registered between a Send's copy of the listeners and its collect")
						}
						break
					}
					if strings.HasPrefix(st2, "l=") {
						joined = true
					}
				}
				joined = false
			}
		}
		if c.Lossy {
			ans = acceptStreams(ans, first)
			tie.Count("schedules with lossy subscribers that read at the end")
		}
		key := c.predKey() + "/" + strings.Join(c.Init, " ") + "/" + strings.Join(first.Steps, " ")
		tie.Record(key, !c.Pred.Nil, map[string]any{"case": c, "executed": first}, ans, first.answer())
		for _, n := range first.Notes {
			if strings.Contains(n, "blocked") {
				tie.Count("schedules with a write blocked by the subscriber's read lock")
				break
			}
		}
		if c.Split {
			tie.Count("schedules with Bus.Send taken apart")
			for i := 0; i+1 < len(first.Steps); i++ {
				if first.Steps[i] == "ps" && first.Steps[i+1] != "pn" && first.Steps[i+1] != "ps" {
					tie.Count("schedules with another thread's step between a Send's copy of the listeners and its delivery")
					break
				}
			}
		}
		if c.Pred2 != nil {
			tie.Count("schedules with two subscribers")
			both := false
			for i := 0; i+1 < len(first.Steps); i++ {
				if strings.HasPrefix(first.Steps[i], "s=") && strings.HasPrefix(first.Steps[i+1], "s=") {
					both = true
				}
			}
			if both {
				tie.Count("schedules in which both subscribers hold the read lock together")
			}
		}
		tie.Count(fmt.Sprintf("commits pending when the subscriber registered: %d", first.StaleAtListen))
		tie.Count(fmt.Sprintf("max commits pending: %d", first.MaxPending))
	}
}
