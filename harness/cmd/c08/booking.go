package main

// The booking trait server's period predicate (pkg/trait/bookingpb/model_server.go): ListBookings /
// PullBookings with `booking_intersects` must behave as the collection of bookings whose `booked`
// period intersects the query.  Driven through the real ModelServer by the in-process wrapper client.

import (
	"context"
	"fmt"
	"math/rand"
	"sort"
	"strings"
	"time"

	"google.golang.org/protobuf/types/known/timestamppb"

	"github.com/smart-core-os/sc-api/go/traits"
	sctime "github.com/smart-core-os/sc-api/go/types/time"
	"github.com/smart-core-os/sc-golang/internal/verifhook"
	"github.com/smart-core-os/sc-golang/pkg/resource"
	"github.com/smart-core-os/sc-golang/pkg/trait/bookingpb"
	"github.com/smart-core-os/sc-golang/verifharness/lib"
)

// period "s/e" with "-" for an unbounded side; seconds 0..9
type bookingCase struct {
	Kind    string   `json:"kind"` // "booking"
	Query   string   `json:"query"`
	NBefore int      `json:"n_before"`
	Ops     []string `json:"ops"` // `set:<id>:<period>` create-or-update booking <id> with that booked period
}

// parseP: "nil"/"absent" = no period at all; "-/-" = the unbounded period `{}`.
func parseP(s string) *sctime.Period {
	if s == "nil" || s == "absent" {
		return nil
	}
	q := strings.Split(s, "/")
	p := &sctime.Period{}
	if q[0] != "-" {
		var n int64
		fmt.Sscan(q[0], &n)
		p.StartTime = &timestamppb.Timestamp{Seconds: n}
	}
	if q[1] != "-" {
		var n int64
		fmt.Sscan(q[1], &n)
		p.EndTime = &timestamppb.Timestamp{Seconds: n}
	}
	return p
}

func showP(p *sctime.Period) string {
	if p == nil {
		return "nil"
	}
	s, e := "-", "-"
	if p.StartTime != nil {
		s = fmt.Sprint(p.StartTime.Seconds)
	}
	if p.EndTime != nil {
		e = fmt.Sprint(p.EndTime.Seconds)
	}
	return s + "/" + e
}

// listed: independent oracle for "the booking is in the filtered collection": no request period =
// every booking; otherwise the booking needs a booked period sharing an instant with the request's.
func listed(booked, query string) bool {
	if query == "absent" {
		return true
	}
	if booked == "nil" {
		return false
	}
	return intersects(booked, query)
}

// intersects: two half-open intervals with optional bounds share an instant.
func intersects(a, b string) bool {
	bound := func(s string, inf int64) int64 {
		if s == "-" {
			return inf
		}
		var n int64
		fmt.Sscan(s, &n)
		return n
	}
	qa, qb := strings.Split(a, "/"), strings.Split(b, "/")
	alo, ahi := bound(qa[0], -1<<40), bound(qa[1], 1<<40)
	blo, bhi := bound(qb[0], -1<<40), bound(qb[1], 1<<40)
	lo, hi := alo, ahi
	if blo > lo {
		lo = blo
	}
	if bhi < hi {
		hi = bhi
	}
	return lo < hi
}

func showBookingChange(c *traits.PullBookingsResponse_Change) string {
	id := ""
	old, new := "-", "-"
	if c.OldValue != nil {
		id = c.OldValue.Id
		old = showP(c.OldValue.Booked)
	}
	if c.NewValue != nil {
		id = c.NewValue.Id
		new = showP(c.NewValue.Booked)
	}
	return fmt.Sprintf("%s,%s,0,%s,%s,0,0", id, kindName(c.Type), old, new)
}

// run drives the case through the real server and evaluates the property; it returns a trace of what
// was observed at every step (for the replay file of a violation).
func (c bookingCase) run(m sink) (trace []string) {
	o := c.runObs(m)
	return o.Trace
}

// bookingObs is what one run observed: the diagnostic trace, and - for the tie with the Lean model - the
// writes as executed (fences included, as `ups:<id>:<period>`), the seed (first drain without its fence)
// and ListBookings after every fence.
type bookingObs struct {
	Trace    []string
	Executed []string
	Seed     string
	Lists    []string
	Complete bool
}

func (c bookingCase) runObs(m sink) (o bookingObs) {
	trace := []string{}
	defer func() { o.Trace = trace }()
	model := bookingpb.NewModel()
	server := bookingpb.NewModelServer(model)
	client := bookingpb.WrapApi(server)
	ctx, cancel := context.WithCancel(context.Background())
	defer cancel()
	shadowP := map[string]string{}
	set := func(op string) error {
		q := strings.Split(op, ":")
		id, per := q[1], q[2]
		o.Executed = append(o.Executed, "ups:"+id+":"+per)
		if _, ok := shadowP[id]; ok {
			_, err := client.UpdateBooking(ctx, &traits.UpdateBookingRequest{Booking: &traits.Booking{Id: id, Booked: parseP(per)}})
			shadowP[id] = per
			return err
		}
		_, err := model.CreateBooking(&traits.Booking{Id: id, Booked: parseP(per)})
		shadowP[id] = per
		return err
	}
	for _, op := range c.Ops[:c.NBefore] {
		if err := set(op); err != nil {
			m.Violate("C08/booking/write-error", "booking write failed", c, "ok", err.Error())
			return
		}
	}
	query := parseP(c.Query)
	// The wrapper runs the PullBookings handler in its own goroutine: the subscription exists only some
	// time after the call returns.  A write racing with it is the business of C03/C04 (Update publishes
	// after releasing the lock: a subscriber that snapshots between a commit and its publication is sent
	// that ADD twice, once as seed and once live - a known finding of C03), not of this property, which
	// is about ONE subscriber's filtered stream under the writes that follow its subscription.  So wait
	// until the handler is inside Collection.onUpdate: from that yield point until the listener is
	// registered it holds the collection's read lock, hence every later write commits - and publishes -
	// after the registration.
	subscribing := make(chan struct{}, 1)
	verifhook.Set(func(point string) {
		if point == "coll.onUpdate.beforeListen" {
			select {
			case subscribing <- struct{}{}:
			default:
			}
		}
	})
	defer verifhook.Set(nil)
	stream, err := client.PullBookings(ctx, &traits.ListBookingsRequest{BookingIntersects: query})
	if err != nil {
		m.Violate("C08/booking/pull-error", "PullBookings failed", c, "stream", err.Error())
		return
	}
	select {
	case <-subscribing:
		trace = append(trace, "subscription observed at coll.onUpdate.beforeListen")
	case <-time.After(fenceTimeout):
		m.Count("subscription not observed at the yield point")
		trace = append(trace, "subscription NOT observed at coll.onUpdate.beforeListen within 5s")
	}
	type recvd struct {
		ch  *traits.PullBookingsResponse_Change
		err error
	}
	events := make(chan recvd, 1024)
	go func() {
		for {
			msg, err := stream.Recv()
			if err != nil {
				events <- recvd{err: err}
				return
			}
			for _, ch := range msg.Changes {
				events <- recvd{ch: ch}
			}
		}
	}()
	view := map[string]string{}
	fenceN := 0
	// drain to a fence: a fresh booking whose period equals the query, hence always included.
	// Subscription happens inside the server goroutine: the first fence is retried until it is seen
	// either as a seed or as an ADD.
	drain := func() (evs []string, ok bool) {
		fenceN++
		fid := fmt.Sprintf("~%d", fenceN)
		fper := c.Query
		if fper == "absent" {
			fper = "0/1" // without a request period every booking is listed
		} else if !intersects(fper, fper) { // an empty query period intersects nothing: no fence possible
			return nil, false
		}
		if err := set("set:" + fid + ":" + fper); err != nil {
			return nil, false
		}
		timer := time.NewTimer(fenceTimeout)
		defer timer.Stop()
		for {
			select {
			case r := <-events:
				if r.err != nil {
					return append(evs, "error:"+r.err.Error()), false
				}
				s := showBookingChange(r.ch)
				evs = append(evs, s)
				if strings.HasPrefix(s, fid+",") {
					return evs, true
				}
			case <-timer.C:
				return append(evs, "timeout"), false
			}
		}
	}
	filtered := func() string {
		var ids []string
		for id, p := range shadowP {
			if listed(p, c.Query) {
				ids = append(ids, id)
			}
		}
		sort.Strings(ids)
		parts := []string{}
		for _, id := range ids {
			parts = append(parts, id+"="+shadowP[id])
		}
		return strings.Join(parts, ",")
	}
	foldAndCheck := func(evs []string, step string) bool {
		trace = append(trace, fmt.Sprintf("after %s: events %s", step, showChanges(evs)))
		defer func() { trace = append(trace, fmt.Sprintf("after %s: view %v want %s", step, view, filtered())) }()
		for _, ev := range evs {
			f := splitComma(ev)
			if len(f) != 7 {
				m.Violate("C08/booking/stream-broken", "PullBookings stream broke", c, "events", ev)
				return false
			}
			id, kind, old, new := f[0], f[1], f[3], f[4]
			cur, present := view[id]
			ok := false
			switch kind {
			case "ADD":
				ok = !present && new != "-"
			case "UPDATE", "REPLACE":
				ok = present && old == cur && new != "-"
			case "REMOVE":
				ok = present && old == cur
			}
			if !ok {
				m.Violate("C08/booking/PullBookings/event-not-well-formed", "a delivered booking change does not fit the subscriber's view", c, "well-formed edit at "+step, ev)
			}
			if kind == "REMOVE" {
				delete(view, id)
			} else {
				view[id] = new
			}
		}
		var ids []string
		for id := range view {
			ids = append(ids, id)
		}
		sort.Strings(ids)
		parts := []string{}
		for _, id := range ids {
			parts = append(parts, id+"="+view[id])
		}
		got, want := strings.Join(parts, ","), filtered()
		if got != want {
			m.Violate("C08/booking/PullBookings/fold-differs-from-filtered-collection", "folding PullBookings(booking_intersects) does not give the intersecting bookings", c, want+" after "+step, got)
			return false
		}
		lst, err := client.ListBookings(ctx, &traits.ListBookingsRequest{BookingIntersects: query})
		if err != nil {
			m.Violate("C08/booking/list-error", "ListBookings failed", c, "ok", err.Error())
			return false
		}
		parts = parts[:0]
		for _, b := range lst.Bookings {
			parts = append(parts, b.Id+"="+showP(b.Booked))
		}
		trace = append(trace, fmt.Sprintf("after %s: ListBookings %s", step, strings.Join(parts, ",")))
		if len(parts) == 0 {
			o.Lists = append(o.Lists, "-")
		} else {
			o.Lists = append(o.Lists, strings.Join(parts, ","))
		}
		if l := strings.Join(parts, ","); l != want {
			m.Violate("C08/booking/ListBookings/not-filtered-collection", "ListBookings(booking_intersects) is not the intersecting bookings", c, want+" after "+step, l)
			return false
		}
		return true
	}
	evs, ok := drain()
	if !ok {
		if evs == nil {
			m.Eval("empty-query", false, nil)
			return
		}
		trace = append(trace, "seed fence lost: "+showChanges(evs))
		m.Violate("C08/booking/PullBookings/fence-lost", "a newly created intersecting booking was not delivered within 5s", c, "ADD", showChanges(evs))
		return
	}
	{
		// the seed as the subscriber was sent it: everything before the first fence's ADD
		var items []string
		for _, ev := range evs[:len(evs)-1] {
			if f := splitComma(ev); len(f) == 7 {
				items = append(items, f[0]+"="+f[4])
			}
		}
		sort.Strings(items)
		o.Seed = "-"
		if len(items) > 0 {
			o.Seed = strings.Join(items, ",")
		}
	}
	if !foldAndCheck(evs, "seed") {
		return
	}
	for _, op := range c.Ops[c.NBefore:] {
		if err := set(op); err != nil {
			m.Violate("C08/booking/write-error", "booking write failed", c, "ok", err.Error())
			return
		}
		evs, ok := drain()
		if !ok {
			trace = append(trace, "fence lost after "+op+": "+showChanges(evs))
			m.Violate("C08/booking/PullBookings/fence-lost", "a newly created intersecting booking was not delivered within 5s", c, "ADD", showChanges(evs))
			return
		}
		if !foldAndCheck(evs, op) {
			return
		}
	}
	m.Eval(c.Query+"/"+strings.Join(c.Ops, " "), true, nil)
	o.Complete = true
	return
}

// tieRecord compares what the run observed with the Lean model of the same writes under the booking
// server's include option (`bpull`): the seed and ListBookings after every fence.
func (c bookingCase) tieRecord(tie *lib.Tie, drv *lib.Driver, o bookingObs) {
	if !o.Complete || drv == nil {
		return
	}
	line := strings.Join(append([]string{"bpull", c.Query, fmt.Sprint(c.NBefore)}, o.Executed...), " ")
	ans, err := drv.Ask(line)
	if err != nil {
		tie.Fail(err)
		return
	}
	toks := strings.Split(ans, " ")
	modelParts := []string{}
	if len(toks) == len(o.Executed)-c.NBefore+1 && strings.HasPrefix(toks[0], "seed=") {
		var items []string
		if sv := strings.TrimPrefix(toks[0], "seed="); sv != "-" {
			for _, ev := range strings.Split(sv, ";") {
				if f := splitComma(ev); len(f) == 7 {
					items = append(items, f[0]+"="+f[4])
				}
			}
		}
		sort.Strings(items)
		seed := "-"
		if len(items) > 0 {
			seed = strings.Join(items, ",")
		}
		modelParts = append(modelParts, "seed="+seed)
		for i, op := range o.Executed[c.NBefore:] {
			if strings.HasPrefix(op, "ups:~") {
				t := toks[1+i]
				modelParts = append(modelParts, t[strings.LastIndex(t, "@")+1:])
			}
		}
	} else {
		modelParts = append(modelParts, ans)
	}
	code := append([]string{"seed=" + o.Seed}, o.Lists...)
	tie.Record(c.Query+"/"+strings.Join(c.Ops, " "), c.Query != "absent", c, strings.Join(modelParts, " "), strings.Join(code, " "))
	tie.Count("query " + queryShape(c.Query))
}

func queryShape(q string) string {
	switch {
	case q == "absent":
		return "absent"
	case q == "-/-":
		return "unbounded"
	case strings.HasPrefix(q, "-/"):
		return "end-only"
	case strings.HasSuffix(q, "/-"):
		return "start-only"
	}
	return "both"
}

// runConfirmed evaluates the case, re-running it on a fresh server before a violation is reported.
func (c bookingCase) runConfirmed(res *lib.Result, m sink, tie *lib.Tie, drv *lib.Driver) {
	var first bookingObs
	runs := 0
	confirmed(res, m, func(s sink) any {
		o := c.runObs(s)
		if runs == 0 {
			first = o
		}
		runs++
		return o.Trace
	}, func(t1, t2 any) any { return enrich(c, t1, t2) })
	c.tieRecord(tie, drv, first)
}

// genPeriod draws a period shape: no period at all (only when allowNil), unbounded `{}`, start-only,
// end-only, or both bounds, over seconds 0..8.
func genPeriod(r *rand.Rand, none string) string {
	s, e := r.Intn(8), r.Intn(8)
	if s > e {
		s, e = e, s
	}
	if s == e {
		e++
	}
	switch r.Intn(8) {
	case 0:
		return none // "nil" for a booking without booked period, "absent" for a request without booking_intersects
	case 1:
		return "-/-"
	case 2:
		return fmt.Sprintf("%d/-", s)
	case 3:
		return fmt.Sprintf("-/%d", e)
	}
	return fmt.Sprintf("%d/%d", s, e)
}

// the systematic part: every request shape x a booking walked through every booking shape
var queryShapes = []string{"absent", "-/-", "3/-", "-/6", "3/6"}
var bookingShapes = []string{"nil", "4/-", "-/4", "4/5", "6/8", "1/3", "5/8", "7/9", "-/-", "nil", "2/7"}

func runBooking(f lib.Flags, res *lib.Result, drv *lib.Driver) {
	tie := res.Tie("booking-server", "K1",
		"the same cases through the Lean model of the booking server's include option (bookingInclude: no request period = no filter; else PeriodsIntersect(booked, request), false for a missing booked period) composed with the collection model: the seed PullBookings delivers and ListBookings(booking_intersects=q) after every write are compared with the model's `bpull` answer; non-trivial = request period present; distinct = (query, history)")
	mon := res.Monitor("booking-period-predicate", "real bookingpb.ModelServer through its wrapper client: every request shape (booking_intersects absent, {}, start-only, end-only, both) x a booking walked through every booking shape (no booked period, start-only, end-only, inside, touching, overlapping, disjoint, unbounded), plus random create/update histories of 2-3 bookings with such periods over seconds 0..8, PullBookings/ListBookings(booking_intersects=q): after each write (fenced by creating a fresh intersecting booking) fold(stream) = ListBookings = bookings intersecting q by an integer-interval oracle; every event well formed at the view; distinct = (query, history)")
	_ = resource.WithInclude
	r := lib.NewRand(f.Seed + 7)
	n := f.N(400, 4000)
	ids := []string{"a", "b", "c"}
	for _, q := range queryShapes {
		for nb := 0; nb < 2; nb++ {
			c := bookingCase{Kind: "booking", Query: q, NBefore: nb * 3}
			for k, b := range bookingShapes {
				c.Ops = append(c.Ops, "set:a:"+b)
				if k%4 == 1 {
					c.Ops = append(c.Ops, "set:b:"+bookingShapes[(k+5)%len(bookingShapes)])
				}
			}
			c.runConfirmed(res, mon, tie, drv)
			mon.Count("query " + q)
		}
	}
	for i := 0; i < n; i++ {
		c := bookingCase{Kind: "booking", Query: genPeriod(r, "absent"), NBefore: r.Intn(3)}
		k := c.NBefore + 1 + r.Intn(5)
		for j := 0; j < k; j++ {
			c.Ops = append(c.Ops, "set:"+ids[r.Intn(len(ids))]+":"+genPeriod(r, "nil"))
		}
		c.runConfirmed(res, mon, tie, drv)
	}
}
