package main

// The booking trait server's period predicate (pkg/trait/bookingpb/model_server.go): ListBookings /
// PullBookings with `booking_intersects` must behave as the collection of bookings whose `booked`
// period intersects the query.  Driven through the real ModelServer by the in-process wrapper client.

import (
	"context"
	"fmt"
	"io"
	"math/rand"
	"sort"
	"strings"
	"sync/atomic"
	"time"

	"google.golang.org/grpc/codes"
	"google.golang.org/grpc/status"
	"google.golang.org/protobuf/types/known/fieldmaskpb"
	"google.golang.org/protobuf/types/known/timestamppb"

	"github.com/smart-core-os/sc-api/go/traits"
	sctime "github.com/smart-core-os/sc-api/go/types/time"
	"github.com/smart-core-os/sc-golang/internal/verifhook"
	"github.com/smart-core-os/sc-golang/pkg/resource"
	"github.com/smart-core-os/sc-golang/pkg/trait/bookingpb"
	"github.com/smart-core-os/sc-golang/verifharness/lib"
)

// period "s/e" with "-" for an unbounded side; seconds 0..9
type bookingCase struct {
	Kind    string   `json:"kind"` // "booking"
	Query   string   `json:"query"`
	NBefore int      `json:"n_before"`
	// Ops: `set:<id>:<period>` create-or-update booking <id> with that booked period; `new:<period>`
	// CreateBooking through the server WITHOUT an id (the collection generates one: WithGenIDIfAbsent; later
	// ops name the k-th generated booking `g<k>`); `in:<id>` CheckInBooking (an Update under the update mask
	// check_in.start_time: the booked period stays, NotFound for an unknown booking)
	Ops []string `json:"ops"`
	// Rng: the collection's id source: "" = a fixed pseudo-random byte stream, "zero" = all zero bytes (every
	// candidate id of a given length is the same: the second generated id needs the retry loop)
	Rng string `json:"rng,omitempty"`
	// UpdatesOnly: the request's updates_only flag - no seed; the subscriber takes ListBookings with the same
	// request as its base line and applies the stream to it.
	UpdatesOnly bool `json:"updates_only,omitempty"`
	// Mask: the request's read_mask: "" (none), "id" (the booked period is stripped from every listed and
	// delivered booking; the period filter must still judge the stored one) or "id,booked".
	Mask string `json:"mask,omitempty"`
}

type zeroReader struct{}

func (zeroReader) Read(p []byte) (int, error) {
	for i := range p {
		p[i] = 0
	}
	return len(p), nil
}

func (c bookingCase) readMask() *fieldmaskpb.FieldMask {
	if c.Mask == "" {
		return nil
	}
	return &fieldmaskpb.FieldMask{Paths: strings.Split(c.Mask, ",")}
}

// masked: how a booking with that booked period reads through the request's read mask
func (c bookingCase) masked(per string) string {
	if c.Mask == "id" {
		return "nil"
	}
	if per == "absent" {
		return "nil"
	}
	return per
}

func (c bookingCase) request(query *sctime.Period) *traits.ListBookingsRequest {
	return &traits.ListBookingsRequest{BookingIntersects: query, ReadMask: c.readMask(), UpdatesOnly: c.UpdatesOnly}
}

// parseP: "nil"/"absent" = no period at all; "-/-" = the unbounded period `{}`.
func parseP(s string) *sctime.Period {
	if s == "nil" || s == "absent" {
		return nil
	}
	q := strings.Split(s, "/")
	p := &sctime.Period{}
	if q[0] != "-" {
		var n int64
		fmt.Sscan(q[0], &n)
		p.StartTime = &timestamppb.Timestamp{Seconds: n}
	}
	if q[1] != "-" {
		var n int64
		fmt.Sscan(q[1], &n)
		p.EndTime = &timestamppb.Timestamp{Seconds: n}
	}
	return p
}

func showP(p *sctime.Period) string {
	if p == nil {
		return "nil"
	}
	s, e := "-", "-"
	if p.StartTime != nil {
		s = fmt.Sprint(p.StartTime.Seconds)
	}
	if p.EndTime != nil {
		e = fmt.Sprint(p.EndTime.Seconds)
	}
	return s + "/" + e
}

// listed: independent oracle for "the booking is in the filtered collection": no request period =
// every booking; otherwise the booking needs a booked period sharing an instant with the request's.
func listed(booked, query string) bool {
	in, _ := listedSpec(booked, query)
	return in
}

// degenerate: both bounds present and start >= end - a period that holds no instant (`[4,4)`, `[6,3)`).
func degenerate(p string) bool {
	q := strings.Split(p, "/")
	if len(q) != 2 || q[0] == "-" || q[1] == "-" {
		return false
	}
	var a, b int64
	fmt.Sscan(q[0], &a)
	fmt.Sscan(q[1], &b)
	return a >= b
}

// listedSpec: the oracle with its domain.  "Sharing an instant" says what the filter means for proper
// periods; for a degenerate booked or request period the property does not say whether the booking
// belongs to the filtered collection (pkg/time's answer is C18's subject and reaches this check through
// the tie with C18's model) - only that ListBookings and the folded PullBookings stream must agree on
// it: specified = false.
func listedSpec(booked, query string) (in, specified bool) {
	if query == "absent" {
		return true, true
	}
	if booked == "nil" {
		return false, true
	}
	if degenerate(booked) || degenerate(query) {
		return false, false
	}
	return intersects(booked, query), true
}

// intersects: two half-open intervals with optional bounds share an instant.
func intersects(a, b string) bool {
	bound := func(s string, inf int64) int64 {
		if s == "-" {
			return inf
		}
		var n int64
		fmt.Sscan(s, &n)
		return n
	}
	qa, qb := strings.Split(a, "/"), strings.Split(b, "/")
	alo, ahi := bound(qa[0], -1<<40), bound(qa[1], 1<<40)
	blo, bhi := bound(qb[0], -1<<40), bound(qb[1], 1<<40)
	lo, hi := alo, ahi
	if blo > lo {
		lo = blo
	}
	if bhi < hi {
		hi = bhi
	}
	return lo < hi
}

func showBookingChange(c *traits.PullBookingsResponse_Change) string {
	id := ""
	old, new := "-", "-"
	if c.OldValue != nil {
		id = c.OldValue.Id
		old = showP(c.OldValue.Booked)
	}
	if c.NewValue != nil {
		id = c.NewValue.Id
		new = showP(c.NewValue.Booked)
	}
	return fmt.Sprintf("%s,%s,0,%s,%s,0,0", id, kindName(c.Type), old, new)
}

// run drives the case through the real server and evaluates the property; it returns a trace of what
// was observed at every step (for the replay file of a violation).
func (c bookingCase) run(m sink) (trace []string) {
	o := c.runObs(m)
	return o.Trace
}

// bookingObs is what one run observed: the diagnostic trace, and - for the tie with the Lean model - the
// writes as executed (fences included, as `ups:<id>:<period>`), the seed (first drain without its fence)
// and ListBookings after every fence.
type bookingObs struct {
	Trace    []string
	Executed []string
	Seed     string
	Lists    []string
	// Events: per drain after the subscription (the seed drain: its fence event only), the delivered changes
	Events [][]string
	// NBefore: the writes executed before the subscriber was registered (for an updates-only subscription
	// this includes the probe writes it was not handed)
	NBefore  int
	Complete bool
}

func (c bookingCase) key() string {
	k := c.Query + "/" + strings.Join(c.Ops, " ")
	if c.UpdatesOnly {
		k = "uo/" + k
	}
	if c.Mask != "" {
		k = "m=" + c.Mask + "/" + k
	}
	if c.Rng != "" {
		k = "rng=" + c.Rng + "/" + k
	}
	return k
}

func showMap(v map[string]string) string {
	var ids []string
	for id := range v {
		ids = append(ids, id)
	}
	sort.Strings(ids)
	parts := []string{}
	for _, id := range ids {
		parts = append(parts, id+"="+v[id])
	}
	return strings.Join(parts, ",")
}

func (c bookingCase) runObs(m sink) (o bookingObs) {
	trace := []string{}
	defer func() { o.Trace = trace }()
	var rng io.Reader = rand.New(rand.NewSource(20260930))
	if c.Rng == "zero" {
		rng = zeroReader{}
	}
	model := bookingpb.NewModel(bookingpb.WithBookingOption(resource.WithRNG(rng)))
	server := bookingpb.NewModelServer(model)
	client := bookingpb.WrapApi(server)
	ctx, cancel := context.WithCancel(context.Background())
	defer cancel()
	shadowP := map[string]string{}
	var generated []string
	resolve := func(id string) string { // `g<k>`: the k-th generated id, once there is one
		var k int
		if n, _ := fmt.Sscanf(id, "g%d", &k); n == 1 && k >= 1 && k <= len(generated) {
			return generated[k-1]
		}
		return id
	}
	set := func(op string) error {
		q := strings.Split(op, ":")
		switch q[0] {
		case "new":
			per := q[1]
			resp, err := client.CreateBooking(ctx, &traits.CreateBookingRequest{Booking: &traits.Booking{Booked: parseP(per)}})
			if err != nil {
				o.Executed = append(o.Executed, "add:?:"+per)
				return err
			}
			id := resp.BookingId
			o.Executed = append(o.Executed, "add:"+id+":"+per)
			if _, dup := shadowP[id]; dup || id == "" || strings.ContainsAny(id, ":,;@= ~") {
				return fmt.Errorf("CreateBooking without an id answered id %q (already a booking: %v)", id, dup)
			}
			generated = append(generated, id)
			shadowP[id] = per
			return nil
		case "in":
			id := resolve(q[1])
			per, ok := shadowP[id]
			if !ok {
				per = "nil"
			}
			o.Executed = append(o.Executed, "upd:"+id+":"+per)
			_, err := client.CheckInBooking(ctx, &traits.CheckInBookingRequest{BookingId: id, Time: &timestamppb.Timestamp{Seconds: int64(100 + len(o.Executed))}})
			if !ok {
				if status.Code(err) == codes.NotFound {
					return nil
				}
				return fmt.Errorf("CheckInBooking of an unknown booking: want NotFound, got %v", err)
			}
			return err
		}
		id, per := resolve(q[1]), q[2]
		o.Executed = append(o.Executed, "ups:"+id+":"+per)
		if _, ok := shadowP[id]; ok {
			_, err := client.UpdateBooking(ctx, &traits.UpdateBookingRequest{Booking: &traits.Booking{Id: id, Booked: parseP(per)}})
			shadowP[id] = per
			return err
		}
		_, err := model.CreateBooking(&traits.Booking{Id: id, Booked: parseP(per)})
		shadowP[id] = per
		return err
	}
	for _, op := range c.Ops[:c.NBefore] {
		if err := set(op); err != nil {
			m.Violate("C08/booking/write-error", "booking write failed", c, "ok", err.Error())
			return
		}
	}
	o.NBefore = c.NBefore
	query := parseP(c.Query)
	// The wrapper runs the PullBookings handler in its own goroutine: the subscription exists only some
	// time after the call returns.  A write racing with it is the business of C03/C04 (Update publishes
	// after releasing the lock: a subscriber that snapshots between a commit and its publication is sent
	// that ADD twice, once as seed and once live - a known finding of C03), not of this property, which
	// is about ONE subscriber's filtered stream under the writes that follow its subscription.  So wait
	// until the handler is inside Collection.onUpdate: from that yield point until the listener is
	// registered it holds the collection's read lock, hence every later write commits - and publishes -
	// after the registration.  (An updates-only subscription registers WITHOUT the lock: see below.)
	subscribing := make(chan struct{}, 1)
	// turns: deliveries Bus.Send has started (one per registered listener and published event) while the
	// harness was inside a probe write - the hook is process-wide, nothing else may be counted
	var turns atomic.Int64
	var probing atomic.Bool
	verifhook.Set(func(point string) {
		switch point {
		case "coll.onUpdate.beforeListen":
			select {
			case subscribing <- struct{}{}:
			default:
			}
		case "bus.send.beforeListener":
			if probing.Load() {
				turns.Add(1)
			}
		}
	})
	defer verifhook.Set(nil)
	stream, err := client.PullBookings(ctx, c.request(query))
	if err != nil {
		m.Violate("C08/booking/pull-error", "PullBookings failed", c, "stream", err.Error())
		return
	}
	select {
	case <-subscribing:
		trace = append(trace, "subscription observed at coll.onUpdate.beforeListen")
	case <-time.After(bookingWait):
		m.Count("subscription not observed at the yield point")
		trace = append(trace, "subscription NOT observed at coll.onUpdate.beforeListen within 5s")
	}
	type recvd struct {
		ch  *traits.PullBookingsResponse_Change
		err error
	}
	events := make(chan recvd, 1024)
	go func() {
		for {
			msg, err := stream.Recv()
			if err != nil {
				events <- recvd{err: err}
				return
			}
			for _, ch := range msg.Changes {
				events <- recvd{ch: ch}
			}
		}
	}()
	view := map[string]string{}
	fenceN := 0
	// A fence is a fresh booking the request always lists: its period equals the request's; without a
	// request period any will do; for a degenerate request period (which equals nothing, itself included)
	// the unbounded one.
	writeFence := func() (fid string, err error) {
		fenceN++
		fid = fmt.Sprintf("~%d", fenceN)
		fper := c.Query
		if fper == "absent" {
			fper = "0/1" // without a request period every booking is listed
		} else if degenerate(fper) {
			fper = "-/-"
		}
		return fid, set("set:" + fid + ":" + fper)
	}
	await := func(fid string) (evs []string, ok bool) {
		timer := time.NewTimer(bookingWait)
		defer timer.Stop()
		for {
			select {
			case r := <-events:
				if r.err != nil {
					return append(evs, "error:"+r.err.Error()), false
				}
				s := showBookingChange(r.ch)
				evs = append(evs, s)
				if strings.HasPrefix(s, fid+",") {
					return evs, true
				}
			case <-timer.C:
				return append(evs, "timeout"), false
			}
		}
	}
	drain := func() (evs []string, ok bool) {
		fid, err := writeFence()
		if err != nil {
			return []string{"fence write failed: " + err.Error()}, false
		}
		return await(fid)
	}
	// the oracle: the filtered collection by the shadow map.  `?` marks a booking the oracle does not
	// place (degenerate period): ListBookings and the fold must agree on it, whichever way.
	wantStr := func() string {
		var ids []string
		for id := range shadowP {
			ids = append(ids, id)
		}
		sort.Strings(ids)
		parts := []string{}
		for _, id := range ids {
			in, spec := listedSpec(shadowP[id], c.Query)
			switch {
			case !spec:
				parts = append(parts, id+"=?"+c.masked(shadowP[id]))
			case in:
				parts = append(parts, id+"="+c.masked(shadowP[id]))
			}
		}
		return strings.Join(parts, ",")
	}
	agrees := func(got map[string]string) bool {
		for id, p := range shadowP {
			in, spec := listedSpec(p, c.Query)
			v, ok := got[id]
			if ok && v != c.masked(p) {
				return false
			}
			if spec && in != ok {
				return false
			}
		}
		for id := range got {
			if _, ok := shadowP[id]; !ok {
				return false
			}
		}
		return true
	}
	listNow := func() (byID map[string]string, text string, err error) {
		lst, err := client.ListBookings(ctx, c.request(query))
		if err != nil {
			return nil, "", err
		}
		byID = map[string]string{}
		parts := []string{}
		for _, b := range lst.Bookings {
			byID[b.Id] = showP(b.Booked)
			parts = append(parts, b.Id+"="+showP(b.Booked))
		}
		return byID, strings.Join(parts, ","), nil
	}
	foldAndCheck := func(evs []string, step string) bool {
		trace = append(trace, fmt.Sprintf("after %s: events %s", step, showChanges(evs)))
		defer func() { trace = append(trace, fmt.Sprintf("after %s: view %v want %s", step, view, wantStr())) }()
		for _, ev := range evs {
			f := splitComma(ev)
			if len(f) != 7 {
				m.Violate("C08/booking/stream-broken", "PullBookings stream broke", c, "events", ev)
				return false
			}
			id, kind, old, new := f[0], f[1], f[3], f[4]
			cur, present := view[id]
			ok := false
			switch kind {
			case "ADD":
				ok = !present && new != "-"
			case "UPDATE", "REPLACE":
				ok = present && old == cur && new != "-"
			case "REMOVE":
				ok = present && old == cur
			}
			if !ok {
				m.Violate("C08/booking/PullBookings/event-not-well-formed", "a delivered booking change does not fit the subscriber's view", c, "well-formed edit at "+step, ev)
			}
			if kind == "REMOVE" {
				delete(view, id)
			} else {
				view[id] = new
			}
		}
		got, want := showMap(view), wantStr()
		if !agrees(view) {
			m.Violate("C08/booking/PullBookings/fold-differs-from-filtered-collection", "folding PullBookings(booking_intersects) does not give the intersecting bookings", c, want+" after "+step, got)
			return false
		}
		byID, l, err := listNow()
		if err != nil {
			m.Violate("C08/booking/list-error", "ListBookings failed", c, "ok", err.Error())
			return false
		}
		trace = append(trace, fmt.Sprintf("after %s: ListBookings %s", step, l))
		if l == "" {
			o.Lists = append(o.Lists, "-")
		} else {
			o.Lists = append(o.Lists, l)
		}
		if !agrees(byID) {
			m.Violate("C08/booking/ListBookings/not-filtered-collection", "ListBookings(booking_intersects) is not the intersecting bookings", c, want+" after "+step, l)
			return false
		}
		// the property itself, oracle or not: the folded stream is ListBookings with the same request
		// (same bookings, same values, in id order)
		if got != l {
			m.Violate("C08/booking/PullBookings/fold-differs-from-ListBookings", "folding PullBookings does not give what ListBookings with the same request returns", c, l+" after "+step, got)
			return false
		}
		return true
	}
	var evs []string
	ok := false
	if c.UpdatesOnly {
		// No seed, and Collection.onUpdate registers the listener without holding the collection's lock:
		// the moment of subscription is found by probing.  Before every probe the client takes its base
		// line (ListBookings, same request); the probe is a fence write; Bus.Send announces every delivery
		// it starts (yield point bus.send.beforeListener, the subscriber being the only listener): the
		// first probe that is handed to the listener is the first event of the stream, the base line taken
		// before it is the subscriber's view.
		deadline := time.Now().Add(bookingWait)
		for !ok {
			base, l, err := listNow()
			if err != nil {
				m.Violate("C08/booking/list-error", "ListBookings failed", c, "ok", err.Error())
				return
			}
			if !agrees(base) {
				m.Violate("C08/booking/ListBookings/not-filtered-collection", "ListBookings(booking_intersects) is not the intersecting bookings", c, wantStr()+" before subscribing", l)
				return
			}
			t0, nb := turns.Load(), len(o.Executed)
			probing.Store(true)
			fid, err := writeFence()
			probing.Store(false)
			if err != nil {
				m.Violate("C08/booking/write-error", "booking write failed", c, "ok", err.Error())
				return
			}
			if turns.Load() > t0 {
				o.NBefore = nb
				view = base
				trace = append(trace, fmt.Sprintf("updates-only subscriber registered before probe %s; base line (ListBookings) %s", fid, l))
				evs, ok = await(fid)
				if !ok {
					break
				}
				continue
			}
			if time.Now().After(deadline) {
				evs = []string{"no probe write was handed to a listener"}
				break
			}
			time.Sleep(200 * time.Microsecond)
		}
	} else {
		evs, ok = drain()
	}
	if !ok {
		bookingFencesLost++
		trace = append(trace, "seed fence lost: "+showChanges(evs))
		m.Violate("C08/booking/PullBookings/fence-lost", "a newly created intersecting booking was not delivered within 5s", c, "ADD", showChanges(evs))
		return
	}
	{
		// the seed as the subscriber was sent it: everything before the first fence's ADD
		var items []string
		for _, ev := range evs[:len(evs)-1] {
			if f := splitComma(ev); len(f) == 7 {
				items = append(items, f[0]+"="+f[4])
			}
		}
		sort.Strings(items)
		o.Seed = "-"
		if len(items) > 0 {
			o.Seed = strings.Join(items, ",")
		}
		o.Events = append(o.Events, evs[len(evs)-1:])
	}
	if !foldAndCheck(evs, "seed") {
		return
	}
	for _, op := range c.Ops[c.NBefore:] {
		if err := set(op); err != nil {
			m.Violate("C08/booking/write-error", "booking write failed", c, "ok", err.Error())
			return
		}
		evs, ok := drain()
		if !ok {
			bookingFencesLost++
			trace = append(trace, "fence lost after "+op+": "+showChanges(evs))
			m.Violate("C08/booking/PullBookings/fence-lost", "a newly created intersecting booking was not delivered within 5s", c, "ADD", showChanges(evs))
			return
		}
		o.Events = append(o.Events, evs)
		if !foldAndCheck(evs, op) {
			return
		}
	}
	m.Eval(c.key(), true, nil)
	o.Complete = true
	return
}

// tieRecord compares what the run observed with the Lean model of the same writes under the booking
// server's options (`bpullx`): the seed, and for every fence the changes delivered since the previous
// one (as a set: the order of two events of different bookings is the merge machine's) and ListBookings.
func (c bookingCase) tieRecord(tie *lib.Tie, drv *lib.Driver, o bookingObs) {
	if !o.Complete || drv == nil {
		return
	}
	mask := "none"
	if c.Mask == "id" {
		mask = "id"
	}
	line := strings.Join(append([]string{"bpullx", c.Query, flag(c.UpdatesOnly), mask, fmt.Sprint(o.NBefore)}, o.Executed...), " ")
	ans, err := drv.Ask(line)
	if err != nil {
		tie.Fail(err)
		return
	}
	toks := strings.Split(ans, " ")
	after := o.Executed[o.NBefore:]
	modelParts := []string{}
	if len(toks) == len(after)+1 && strings.HasPrefix(toks[0], "seed=") {
		var items []string
		if sv := strings.TrimPrefix(toks[0], "seed="); sv != "-" {
			for _, ev := range strings.Split(sv, ";") {
				if f := splitComma(ev); len(f) == 7 {
					items = append(items, f[0]+"="+f[4])
				}
			}
		}
		sort.Strings(items)
		seed := "-"
		if len(items) > 0 {
			seed = strings.Join(items, ",")
		}
		modelParts = append(modelParts, "seed="+seed)
		var grp []string
		for i, op := range after {
			t := toks[1+i]
			at := strings.LastIndex(t, "@")
			if at < 0 {
				modelParts = append(modelParts, "?"+t)
				continue
			}
			if ev := t[:at]; ev != "drop" && ev != "fail" {
				grp = append(grp, strings.Split(ev, ";")...)
			}
			if strings.HasPrefix(op, "ups:~") {
				sort.Strings(grp)
				modelParts = append(modelParts, strings.Join(grp, ";")+"@"+t[at+1:])
				grp = nil
			}
		}
	} else {
		modelParts = append(modelParts, ans)
	}
	code := []string{"seed=" + o.Seed}
	for i, l := range o.Lists {
		var grp []string
		if i < len(o.Events) {
			grp = append(grp, o.Events[i]...)
		}
		sort.Strings(grp)
		code = append(code, strings.Join(grp, ";")+"@"+l)
	}
	tie.Record(c.key(), c.Query != "absent", c, strings.Join(modelParts, " "), strings.Join(code, " "))
	tie.Count("query " + queryShape(c.Query))
	if c.UpdatesOnly {
		tie.Count("updates-only")
	}
	if c.Mask != "" {
		tie.Count("read mask " + c.Mask)
	}
}

func queryShape(q string) string {
	switch {
	case q == "absent":
		return "absent"
	case degenerate(q):
		return "degenerate"
	case q == "-/-":
		return "unbounded"
	case strings.HasPrefix(q, "-/"):
		return "end-only"
	case strings.HasSuffix(q, "/-"):
		return "start-only"
	}
	return "both"
}

// bookingWait bounds every wait for a fence event of the booking family.  On the unchanged tree a fence
// arrives within microseconds; once a case has lost a fence in its run AND in its confirmation run (each
// waiting the full 3 s) the tree is broken, and the following cases wait 500 ms, after the next
// such case 50 ms - so that a broken tree is reported within the quick tier's budget.
var bookingWait = 3 * time.Second
var bookingFencesLost = 0

// runConfirmed evaluates the case, re-running it on a fresh server before a violation is reported.
func (c bookingCase) runConfirmed(res *lib.Result, m sink, tie *lib.Tie, drv *lib.Driver) {
	var first bookingObs
	runs := 0
	lostBefore := bookingFencesLost
	confirmed(res, m, func(s sink) any {
		o := c.runObs(s)
		if runs == 0 {
			first = o
		}
		runs++
		return o.Trace
	}, func(t1, t2 any) any { return enrich(c, t1, t2) })
	if bookingFencesLost-lostBefore >= 2 {
		switch {
		case bookingWait > 500*time.Millisecond:
			bookingWait = 500 * time.Millisecond
		case bookingWait > 50*time.Millisecond:
			bookingWait = 50 * time.Millisecond
		}
	}
	c.tieRecord(tie, drv, first)
}

// genPeriod draws a period shape: no period at all (`none`), unbounded `{}`, start-only, end-only, both
// bounds, or - one in eight - a degenerate one (start == end, or end before start), over seconds 0..8.
func genPeriod(r *rand.Rand, none string) string {
	s, e := r.Intn(8), r.Intn(8)
	if s > e {
		s, e = e, s
	}
	if s == e {
		e++
	}
	switch r.Intn(9) {
	case 0:
		return none // "nil" for a booking without booked period, "absent" for a request without booking_intersects
	case 1:
		return "-/-"
	case 2:
		return fmt.Sprintf("%d/-", s)
	case 3:
		return fmt.Sprintf("-/%d", e)
	case 4:
		if r.Intn(3) == 0 {
			return fmt.Sprintf("%d/%d", e, s) // end before start
		}
		return fmt.Sprintf("%d/%d", s, s) // a zero-length marker
	}
	return fmt.Sprintf("%d/%d", s, e)
}

// the systematic part: every request shape x a booking walked through every booking shape
var queryShapes = []string{"absent", "-/-", "3/-", "-/6", "3/6"}
var bookingShapes = []string{"nil", "4/-", "-/4", "4/5", "6/8", "1/3", "5/8", "7/9", "-/-", "nil", "2/7"}

// ... and through degenerate ones: zero-length inside / on the borders of / outside the request period,
// end before start, alternating with proper periods so that every one is reached from a listed and from
// an unlisted booking
var degenerateShapes = []string{"4/4", "4/5", "5/5", "7/9", "3/3", "6/6", "2/7", "5/4", "8/8", "4/4", "nil", "7/2", "3/6", "1/1"}
var degenerateQueries = []string{"4/4", "6/3"}

func walk(c bookingCase, shapes []string) bookingCase {
	for k, b := range shapes {
		c.Ops = append(c.Ops, "set:a:"+b)
		if k%4 == 1 {
			c.Ops = append(c.Ops, "set:b:"+shapes[(k+5)%len(shapes)])
		}
	}
	return c
}

func runBooking(f lib.Flags, res *lib.Result, drv *lib.Driver) {
	tie := res.Tie("booking-server", "K1",
		"the same cases through the Lean model of the booking server's options (bookingInclude: no request period = no filter; else PeriodsIntersect(booked, request) by C18's model of pkg/time - degenerate periods included -, false for a missing booked period; read mask = projection applied after include; updates_only = no seed) composed with the collection model (`bpullx`): the seed PullBookings delivers, and for every fence the set of changes delivered since the previous one and ListBookings with the same request, are compared with the model's answer; non-trivial = request period present; distinct = (request, history)")
	mon := res.Monitor("booking-period-predicate", "real bookingpb.ModelServer through its wrapper client: every request shape (booking_intersects absent, {}, start-only, end-only, both, degenerate) x a booking walked through every booking shape (no booked period, start-only, end-only, inside, touching, overlapping, disjoint, unbounded; zero-length inside/on the border/outside, end before start), with and without updates_only (base line = ListBookings taken before the first event; the moment of registration found by probe writes and the bus's yield point) and with a read mask that strips the booked period, bookings created through the server without an id (the collection generates it - also from an id source whose candidates collide, so that the retry loop runs) and check-ins (updates under an update mask that leave the booked period alone) of listed, unlisted and unknown bookings, plus random histories of such writes on 2-4 bookings with such periods over seconds 0..8: after each write (fenced by creating a fresh listed booking) every event is well formed at the subscriber's view, fold(stream) = ListBookings with the same request (same bookings, values, order), and both = the bookings sharing an instant with the request period by an integer-interval oracle (for proper periods; a degenerate period holds no instant and the oracle leaves the booking open); distinct = (request, history)")
	_ = resource.WithInclude
	r := lib.NewRand(f.Seed + 7)
	n := f.N(400, 4000)
	ids := []string{"a", "b", "c"}
	sys := 0
	run := func(c bookingCase) {
		c.Kind = "booking"
		c.runConfirmed(res, mon, tie, drv)
		mon.Count("query " + queryShape(c.Query))
		sys++
	}
	for _, q := range queryShapes {
		for nb := 0; nb < 2; nb++ {
			run(walk(bookingCase{Query: q, NBefore: nb * 3}, bookingShapes))
		}
		run(walk(bookingCase{Query: q, NBefore: 3, UpdatesOnly: true}, bookingShapes))
		run(walk(bookingCase{Query: q, NBefore: 0, Mask: "id"}, bookingShapes))
		run(walk(bookingCase{Query: q, NBefore: 3, UpdatesOnly: true, Mask: "id"}, bookingShapes))
		run(walk(bookingCase{Query: q, NBefore: 2}, degenerateShapes))
		run(walk(bookingCase{Query: q, NBefore: 2, UpdatesOnly: true, Mask: "id,booked"}, degenerateShapes))
	}
	// bookings created without an id (generated ids, with and without forced collisions of the candidates),
	// moved in and out of the period, and check-ins (writes that leave the booked period alone) of listed,
	// unlisted and unknown bookings
	genWalk := []string{"new:4/5", "new:7/9", "in:g1", "in:g2", "in:zz", "set:g1:7/8", "in:g1", "new:nil", "set:g2:2/4", "in:g2", "set:g3:5/5", "new:-/-", "set:g1:nil", "in:g1", "set:g4:0/1"}
	for _, q := range []string{"absent", "3/6", "3/-", "4/4"} {
		for _, rng := range []string{"", "zero"} {
			run(bookingCase{Query: q, NBefore: 1, Ops: genWalk, Rng: rng})
			run(bookingCase{Query: q, NBefore: 3, Ops: genWalk, Rng: rng, UpdatesOnly: true, Mask: "id,booked"})
		}
	}
	for _, q := range degenerateQueries {
		run(walk(bookingCase{Query: q, NBefore: 3}, bookingShapes))
		run(walk(bookingCase{Query: q, NBefore: 1, UpdatesOnly: true}, degenerateShapes))
	}
	mon.Count(fmt.Sprintf("systematic cases %d", sys))
	for i := 0; i < n; i++ {
		c := bookingCase{Kind: "booking", Query: genPeriod(r, "absent"), NBefore: r.Intn(3)}
		k := c.NBefore + 1 + r.Intn(5)
		for j := 0; j < k; j++ {
			id := ids[r.Intn(len(ids))]
			if r.Intn(5) == 0 {
				id = "g1"
			}
			switch r.Intn(8) {
			case 0:
				c.Ops = append(c.Ops, "new:"+genPeriod(r, "nil"))
			case 1:
				c.Ops = append(c.Ops, "in:"+id)
			default:
				c.Ops = append(c.Ops, "set:"+id+":"+genPeriod(r, "nil"))
			}
		}
		if r.Intn(4) == 0 {
			c.Rng = "zero"
		}
		switch r.Intn(6) {
		case 0, 1:
			c.UpdatesOnly = true
		case 2:
			c.Mask = "id"
		case 3:
			c.UpdatesOnly, c.Mask = true, "id"
		}
		c.runConfirmed(res, mon, tie, drv)
	}
}
