package main

import (
	"context"
	"fmt"
	"math/rand"
	"sort"
	"strings"
	"sync"
	"time"

	"google.golang.org/protobuf/proto"

	"github.com/smart-core-os/sc-api/go/traits"

	"github.com/smart-core-os/sc-golang/pkg/resource"
	"github.com/smart-core-os/sc-golang/pkg/trait/vendingpb"
	"github.com/smart-core-os/sc-golang/verifharness/lib"
)

// idSession is one run of a real Collection with one PullID(id, WithInclude p, …) subscriber: the single-item
// subscription the trait models (publicationpb, vendingpb, metadatapb, hailpb) forward their callers' read
// options to.  "Pulling with an include predicate behaves as if the collection contained only the items
// satisfying it" for the one item: the seed is the item iff List(WithInclude p) has it, a version that matches
// is sent, a version that does not match is never sent, and the item LEAVING the filtered collection - deleted,
// or updated to a version that stops matching - ends the stream exactly as a delete ends a plain PullID.
//
// Always with backpressure, so that the stream is deterministic and quiescence needs no clock: after every
// write the harness performs two fence writes (Add and Delete of the reserved id `~`, which every predicate of
// the family includes while present).  When the second returns, Pull's forwarding goroutine has taken its
// event, so it has handed the first fence event to PullID's goroutine, which therefore has finished with
// everything the write before caused: every value has been RECEIVED by the harness (unbuffered channels all
// the way).  The harness itself is the receiver while the writes run in a goroutine of their own.
type idSession struct {
	Kind        string   `json:"kind"` // "pullid"
	Pred        pred     `json:"pred"`
	ID          string   `json:"id"` // as the subscriber spells it
	NBefore     int      `json:"n_before"`
	Ops         []string `json:"ops"`
	Mask        string   `json:"mask,omitempty"`
	UpdatesOnly bool     `json:"updates_only,omitempty"`
	Icpt        string   `json:"id_interceptor,omitempty"`
	// Via: "" - Collection.PullID directly; "vending" - through the trait model that forwards its caller's read
	// options to PullID: vendingpb.Model.PullConsumable(ctx, name, opts...) on the model's consumables collection
	// (writes through CreateConsumable / UpdateConsumable / DeleteConsumable, List through ListConsumables).  The
	// model's own forwarding goroutine sits between PullID and the receiver, so the fences do not reach the
	// receiver: such a session is judged on its WHOLE stream, and its history ends (whenever the predicate
	// accepts some version of the item) with a write that brings the item into the filtered collection and one
	// that deletes it - the stream's end is then the quiescent point.
	Via string `json:"via,omitempty"`
	// Lossy: PullID without backpressure (the default): the underlying Pull's events go through the
	// mergeCollectionExcess goroutine, so which intermediate versions are sent depends on scheduling.  Judged only
	// by what holds for every merge pattern (Lean: C08_pullid_lossy_matches_list): every value sent is a version the
	// item had inside the filtered collection; a stream PullID closed means the item did leave the filtered
	// collection; and EVENTUALLY either the stream is closed or the value last sent is List(WithInclude p)'s entry
	// for the id (the harness polls for that, bounded by the usual time limit; no model tie).
	Lossy bool `json:"lossy,omitempty"`
}

type idObs struct {
	Seed     []string   // values received before the first write after the subscription: `<token>/<SeedValue>`
	Per      [][]string // values received during write k (and its fences)
	Results  []string
	Late     []string // values received after the last fence (never on the code as it is)
	Closed   bool     // the stream was closed by PullID itself (before the harness cancelled its context)
	List     string   // List(WithInclude p, mask) at the end
	Blocked  bool
	Panicked string
}

// closeGrace: how long the harness waits, after the last fence, for a stream to be closed by PullID itself.
// (PullID's goroutine cancels the underlying Pull and then closes its channel: a fence write can get past the
// cancelled Pull a moment before the channel is closed.)
const closeGrace = 15 * time.Millisecond

func (s idSession) asSession() session {
	return session{Mask: s.Mask, UpdatesOnly: s.UpdatesOnly, Icpt: s.Icpt, BP: true}
}

func showValue(vc *resource.ValueChange) string {
	if vc == nil {
		return "nil"
	}
	return tokOf(vc.Value) + "/" + flag(vc.SeedValue)
}

func (s idSession) run() (o idObs) {
	if s.Via != "" {
		return s.runVia()
	}
	if s.Lossy {
		return s.runLossy()
	}
	c := resource.NewCollection(collectionOpts("", s.Icpt)...)
	for _, op := range s.Ops[:s.NBefore] {
		_ = applyOp(c, op)
	}
	ctx, cancel := context.WithCancel(context.Background())
	defer cancel()
	var opts []resource.ReadOption
	if ff := s.Pred.filterFunc(); ff != nil {
		opts = append(opts, resource.WithInclude(ff))
	}
	opts = append(opts, resource.WithBackpressure(true))
	opts = append(opts, s.asSession().maskOpts()...)
	if s.UpdatesOnly {
		opts = append(opts, resource.WithUpdatesOnly(true))
	}
	ch := c.PullID(ctx, s.ID, opts...)
	fenceAdd := s.asSession().fenceAdd()

	// receive while `writes` run; returns the values received and whether everything returned in time
	phase := func(writes []string) (vals []string, results []string, ok bool) {
		type wres struct {
			results  []string
			panicked string
		}
		wdone := make(chan wres, 1)
		go func() {
			var w wres
			panicked, msg := lib.Catch(func() {
				for _, op := range writes {
					if err := applyOp(c, op); err != nil {
						w.results = append(w.results, "fail")
					} else {
						w.results = append(w.results, "ok")
					}
				}
				_ = applyOp(c, fenceAdd)
				_ = applyOp(c, "del:"+fenceID)
			})
			if panicked {
				w.panicked = msg
			}
			wdone <- w
		}()
		timer := time.NewTimer(fenceTimeout)
		defer timer.Stop()
		for {
			select {
			case vc, open := <-ch:
				if !open {
					o.Closed = true
					ch = nil // a nil channel is never ready
					continue
				}
				vals = append(vals, showValue(vc))
			case w := <-wdone:
				if w.panicked != "" {
					o.Panicked = w.panicked
					return vals, w.results, false
				}
				return vals, w.results, true
			case <-timer.C:
				o.Blocked = true
				return vals, nil, false
			}
		}
	}

	var ok bool
	if o.Seed, _, ok = phase(nil); !ok {
		return o
	}
	for _, op := range s.Ops[s.NBefore:] {
		vals, results, ok := phase([]string{op})
		o.Per = append(o.Per, vals)
		o.Results = append(o.Results, results...)
		if !ok {
			return o
		}
	}
	// has PullID closed the stream itself?
	if ch != nil {
		grace := time.NewTimer(closeGrace)
	wait:
		for {
			select {
			case vc, open := <-ch:
				if !open {
					o.Closed = true
					ch = nil
					break wait
				}
				o.Late = append(o.Late, showValue(vc))
			case <-grace.C:
				break wait
			}
		}
		grace.Stop()
	}
	o.List = listWithInclude(c, s.Pred, s.asSession().maskOpts()...)
	if ch != nil {
		cancel()
		timer := time.NewTimer(fenceTimeout)
		defer timer.Stop()
		for {
			select {
			case _, open := <-ch:
				if !open {
					return o
				}
			case <-timer.C:
				o.Blocked = true // the stream of a cancelled PullID is never closed
				return o
			}
		}
	}
	return o
}

func (s idSession) target() string {
	if s.Icpt == "lower" {
		return strings.ToLower(s.ID)
	}
	return s.ID
}

func showVals(vs []string) string {
	if len(vs) == 0 {
		return "-"
	}
	return strings.Join(vs, ",")
}

// listEntry: the value `id=v` of a rendered list, "-" if the id is not listed.
func listEntry(list, id string) string {
	if list == "-" {
		return "-"
	}
	for _, kv := range strings.Split(list, ",") {
		if q := strings.SplitN(kv, "=", 2); len(q) == 2 && q[0] == id {
			return q[1]
		}
	}
	return "-"
}

// monitor: independent of the model - a plain map, the predicate, and the property's four cells.
func (s idSession) monitor(m sink, o idObs) {
	if s.Via != "" {
		s.monitorVia(m, o)
		return
	}
	if s.Lossy {
		s.monitorLossy(m, o)
		return
	}
	pre := "C08/PullID/"
	sh := shadow{}
	for _, op := range s.Ops[:s.NBefore] {
		sh.apply(canonOp(s.Icpt, op))
	}
	id := s.target()
	if s.ID != id {
		m.Count("PullID under a non-canonical spelling of the id")
	}
	if o.Panicked != "" {
		m.Violate(pre+"panic", "a write panicked while an include-filtered PullID was open", s, "no panic", o.Panicked)
		return
	}
	if o.Blocked {
		m.Violate(pre+"write-blocked", "a write did not return (or the stream of a cancelled PullID was not closed) within the time limit while an include-filtered PullID was open and being read", s, "returns", "blocked")
		return
	}
	cur := func() string {
		if v, ok := sh[id]; ok {
			return v
		}
		return "-"
	}
	// the seed: the item iff the filtered list has it
	wantSeed, held := "-", "-"
	if s.Pred.in(id, cur()) {
		held = projTok(s.Mask, cur())
		if !s.UpdatesOnly {
			wantSeed = held + "/1"
		}
	}
	if got := showVals(o.Seed); got != wantSeed {
		what := "the seed of PullID(id, WithInclude p) is not the entry List(WithInclude p) has for the id"
		if wantSeed == "-" {
			what = "PullID(id, WithInclude p) seeded an item that is not in the filtered collection"
		}
		m.Violate(pre+"seed/not-filtered-list-entry", what, s, wantSeed, got)
	}
	if len(o.Seed) > 0 {
		held = strings.SplitN(o.Seed[len(o.Seed)-1], "/", 2)[0]
	}
	open := true
	for k, op := range s.Ops[s.NBefore:] {
		okWant, pubs := sh.apply(canonOp(s.Icpt, op))
		want := "ok"
		if !okWant {
			want = "fail"
		}
		if k < len(o.Results) && o.Results[k] != want {
			m.Violate("C08/write/"+strings.Split(op, ":")[0]+"/wrong-result", "write result differs from a plain map", s, want, o.Results[k])
		}
		var exp []string
		cell, outCell := "", ""
		for _, pe := range pubs {
			if pe.id != id || !open {
				continue
			}
			oin, nin := s.Pred.in(id, pe.old), s.Pred.in(id, pe.new)
			cell = pe.kind + "/" + inout(oin) + "-" + inout(nin)
			m.Count("cell " + cell)
			switch {
			case nin:
				exp = append(exp, projTok(s.Mask, pe.new)+"/0")
			case oin:
				open = false // the item left the filtered collection: a REMOVE, the stream ends
			default:
				outCell = cell
			}
		}
		var got []string
		if k < len(o.Per) {
			got = o.Per[k]
		}
		if showVals(got) != showVals(exp) {
			switch {
			case len(got) > len(exp) && outCell != "":
				m.Violate(pre+outCell+"/delivered", "PullID(id, WithInclude p) sent a version of the item that is not in the filtered collection", s, showVals(exp), showVals(got))
			case len(got) > len(exp) && cell == "":
				m.Violate(pre+"spurious-value", "PullID sent a value although no change to its item was published (or after the item had left the filtered collection)", s, showVals(exp), showVals(got))
			case len(got) < len(exp):
				m.Violate(pre+cell+"/not-delivered", "a version of the item that is in the filtered collection was not sent", s, showVals(exp), showVals(got))
			default:
				m.Violate(pre+cell+"/wrong-value", "the values sent are not the item's versions in the filtered collection", s, showVals(exp), showVals(got))
			}
		}
		if len(got) > 0 {
			held = strings.SplitN(got[len(got)-1], "/", 2)[0]
		}
		m.Eval(fmt.Sprintf("%s/%s/%d/%s", s.Pred.token(), s.ID, k, strings.Join(s.Ops[:s.NBefore+k+1], " ")), !s.Pred.Nil, nil)
	}
	if len(o.Late) > 0 {
		m.Violate(pre+"late-value", "PullID sent a value after everything published had been delivered", s, "nothing", showVals(o.Late))
	}
	switch {
	case !open && !o.Closed:
		m.Violate(pre+"not-ended-on-leaving-filtered-collection", "the item left the filtered collection (deleted, or updated to a version that does not match) but the stream of PullID(id, WithInclude p) was not closed", s, "closed", "open")
	case open && o.Closed:
		m.Violate(pre+"ended-early", "the stream of PullID was closed although the item never left the filtered collection", s, "open", "closed")
	}
	if want := sh.filtered(s.Pred, s.Mask); o.List != want {
		m.Violate("C08/List/not-filtered-collection", "List(WithInclude) is not the filtered collection", s, want, o.List)
	}
	if o.Closed {
		m.Count("stream ended by the item leaving the filtered collection")
	} else {
		m.Count("stream open at the end")
		// what the subscriber holds is List's entry for the id
		if entry := listEntry(o.List, id); held != entry {
			m.Violate(pre+"held-differs-from-List", "the value last sent by PullID(id, WithInclude p) is not the entry List(WithInclude p) has for the id", s, entry, held)
		}
	}
}

func (s idSession) driverLine() string {
	return strings.TrimSpace(fmt.Sprintf("pullid%s %s %s %d %s", s.asSession().opSuffixFull(), s.Pred.token(), s.ID, s.NBefore, strings.Join(s.Ops, " ")))
}

// opSuffixFull: always the long form `:<mask>:<equiv>:<u>:<icpt>`.
func (s session) opSuffixFull() string {
	m, u, ic := s.Mask, "0", s.Icpt
	if m == "" {
		m = "none"
	}
	if s.UpdatesOnly {
		u = "1"
	}
	if ic == "" {
		ic = "none"
	}
	return ":" + m + ":none:" + u + ":" + ic
}

func (s idSession) codeAnswer(o idObs) string {
	if s.Via != "" {
		end := "open"
		if o.Closed {
			end = "closed"
		}
		if o.Blocked {
			end = "blocked"
		}
		return "stream=" + showVals(o.Seed) + " end=" + end + " list=" + o.List
	}
	parts := []string{"seed=" + showVals(o.Seed)}
	for _, vs := range o.Per {
		parts = append(parts, showVals(vs))
	}
	if len(o.Late) > 0 {
		parts = append(parts, "late:"+showVals(o.Late))
	}
	end := "open"
	if o.Closed {
		end = "closed"
	}
	if o.Blocked {
		end = "blocked"
	}
	return strings.Join(parts, " ") + " end=" + end + " list=" + o.List
}

func genIDSession(r *rand.Rand, small bool) idSession {
	g := genSession(r, true, small)
	s := idSession{Kind: "pullid", Pred: g.Pred, NBefore: g.NBefore, Ops: g.Ops, Mask: g.Mask, UpdatesOnly: g.UpdatesOnly, Icpt: g.Icpt}
	ids := ids2
	if !g.Pred.Nil {
		ids = g.Pred.Ids
	}
	s.ID = ids[r.Intn(len(ids))]
	if r.Intn(2) == 0 {
		// closing writes: the item is brought into the filtered collection (if the predicate accepts a version of
		// it) and deleted - a stream that is still open ends here
		target := s.ID
		for _, v := range g.Pred.Vals {
			if v != emptyOf(v) && !g.Pred.Nil && g.Pred.in(target, v) {
				s.Ops = append(append([]string{}, s.Ops...), "ups:"+target+":"+v)
				break
			}
		}
		s.Ops = append(append([]string{}, s.Ops...), "dela:"+target)
	}
	if s.Icpt == "lower" && r.Intn(2) == 0 {
		s.ID = strings.ToUpper(s.ID)
	}
	return s
}

func runPullID(f lib.Flags, res *lib.Result, drv *lib.Driver) {
	tie := res.Tie("pull-id", "K1",
		"the histories of the pull-backpressure family (plain, failing and re-entrant writes over 2-3 ids; a third with two-field messages under a read mask, a fifth WithUpdatesOnly, a sixth on a collection WithIDInterceptor(strings.ToLower) with writers and the subscriber spelling ids in upper case) with the subscriber being Collection.PullID(id, WithInclude p, WithBackpressure(true), …) on one of the ids: the values received before the first write (seed) and during every later write, whether PullID closed the stream itself, and List(WithInclude p) at the end are compared with the model's `pullid` answer (pullIdLoop over the underlying Pull's stream); non-trivial = predicate not nil; distinct = (predicate, id, history)")
	mon := res.Monitor("pull-id-item", "on the same sessions, independent of the model (a plain map and the predicate): the seed is the item iff it is in the filtered collection; per write the values sent are exactly the item's new versions that are in the filtered collection (out-out: nothing); the stream is closed by PullID iff the item left the filtered collection (delete of a matching item, or an update to a version that does not match), and nothing is sent after that; while open, the value last sent is List(WithInclude p)'s entry for the id; distinct = (predicate, id, history prefix)")
	r := lib.NewRand(f.Seed + 77)
	n := f.N(300, 3000)
	stuck := 0
	for i := 0; i < n; i++ {
		s := genIDSession(r, i < n/4)
		if i%4 == 3 {
			s = genViaSession(r)
		}
		if i%4 == 1 {
			s.Lossy = true
		}
		var first idObs
		runs := 0
		confirmed(res, mon, func(sk sink) any {
			o := s.run()
			if runs == 0 {
				first = o
			}
			runs++
			s.monitor(sk, o)
			return o
		}, func(t1, t2 any) any { return enrich(s, t1, t2) })
		if first.Blocked {
			stuck++
			stuckSeen++
			fenceTimeout = stuckTimeout
			if tooManyStuck(stuck) {
				tie.Fail(fmt.Errorf("aborted after %d sessions in which a write did not return within the time limit", stuck))
				break
			}
		}
		if drv == nil || s.Lossy {
			continue // (without backpressure the stream is set-valued: monitor only)
		}
		ans, err := drv.Batch([]string{s.driverLine()})
		if err != nil {
			tie.Fail(err)
			continue
		}
		key := fmt.Sprintf("%s/%s/%d/%s", s.Pred.token(), s.ID, s.NBefore, strings.Join(s.Ops, " "))
		model := ans[0]
		if s.Via != "" {
			key = "via-" + s.Via + "/" + key
			model = wholeStream(model)
			tie.Count("through vendingpb.Model.PullConsumable")
		}
		tie.Record(key, !s.Pred.Nil, s, model, s.codeAnswer(first))
		tie.Count(fmt.Sprintf("writes=%d", len(s.Ops)-s.NBefore))
	}
}

// --- without backpressure -----------------------------------------------------------------------------

func (s idSession) runLossy() (o idObs) {
	c := resource.NewCollection(collectionOpts("", s.Icpt)...)
	for _, op := range s.Ops[:s.NBefore] {
		_ = applyOp(c, op)
	}
	ctx, cancel := context.WithCancel(context.Background())
	defer cancel()
	var opts []resource.ReadOption
	if ff := s.Pred.filterFunc(); ff != nil {
		opts = append(opts, resource.WithInclude(ff))
	}
	opts = append(opts, s.asSession().maskOpts()...)
	if s.UpdatesOnly {
		opts = append(opts, resource.WithUpdatesOnly(true))
	}
	// an updates-only subscriber holds the entry List gave it when it subscribed
	base := "?"
	if s.UpdatesOnly {
		base = listEntry(listWithInclude(c, s.Pred, s.asSession().maskOpts()...), s.target())
	}
	ch := c.PullID(ctx, s.ID, opts...)
	var mu sync.Mutex
	var vals []string
	closed := false
	done := make(chan struct{})
	go func() {
		defer close(done)
		for vc := range ch {
			mu.Lock()
			vals = append(vals, showValue(vc))
			mu.Unlock()
		}
		mu.Lock()
		closed = true
		mu.Unlock()
	}()
	panicked, msg := lib.Catch(func() {
		for _, op := range s.Ops[s.NBefore:] {
			if err := applyOp(c, op); err != nil {
				o.Results = append(o.Results, "fail")
			} else {
				o.Results = append(o.Results, "ok")
			}
		}
	})
	if panicked {
		o.Panicked = msg
		return o
	}
	o.List = listWithInclude(c, s.Pred, s.asSession().maskOpts()...)
	entry := listEntry(o.List, s.target())
	deadline := time.Now().Add(fenceTimeout)
	for {
		mu.Lock()
		o.Closed = closed
		o.Seed = append([]string{}, vals...)
		mu.Unlock()
		held := base
		if len(o.Seed) > 0 {
			held = strings.SplitN(o.Seed[len(o.Seed)-1], "/", 2)[0]
		} else if entry == "-" && !s.UpdatesOnly {
			held = "-" // nothing sent, nothing listed
		}
		if o.Closed || held == entry {
			break
		}
		if time.Now().After(deadline) {
			o.Late = []string{"never"} // the eventual condition was not met
			break
		}
		time.Sleep(200 * time.Microsecond)
	}
	cancel()
	select {
	case <-done:
	case <-time.After(fenceTimeout):
		o.Blocked = true
	}
	return o
}

func (s idSession) monitorLossy(m sink, o idObs) {
	pre := "C08/PullID/bp=off/"
	if o.Panicked != "" {
		m.Violate(pre+"panic", "a write panicked while an include-filtered PullID was open", s, "no panic", o.Panicked)
		return
	}
	if o.Blocked {
		m.Violate(pre+"not-closed-after-cancel", "the stream of a cancelled PullID was not closed within the time limit", s, "closed", "open")
		return
	}
	id := s.target()
	sh := shadow{}
	for _, op := range s.Ops[:s.NBefore] {
		sh.apply(canonOp(s.Icpt, op))
	}
	// the versions of the item inside the filtered collection since the subscription, and whether it ever left it
	versions := map[string]bool{}
	if v, ok := sh[id]; ok && s.Pred.in(id, v) {
		versions[projTok(s.Mask, v)] = true
	}
	left := false
	for k, op := range s.Ops[s.NBefore:] {
		okWant, pubs := sh.apply(canonOp(s.Icpt, op))
		want := "ok"
		if !okWant {
			want = "fail"
		}
		if k < len(o.Results) && o.Results[k] != want {
			m.Violate("C08/write/"+strings.Split(op, ":")[0]+"/wrong-result", "write result differs from a plain map", s, want, o.Results[k])
		}
		for _, pe := range pubs {
			if pe.id != id {
				continue
			}
			oin, nin := s.Pred.in(id, pe.old), s.Pred.in(id, pe.new)
			if nin {
				versions[projTok(s.Mask, pe.new)] = true
			}
			if oin && !nin {
				left = true
			}
		}
	}
	for _, vf := range o.Seed {
		if v := strings.SplitN(vf, "/", 2)[0]; !versions[v] {
			m.Violate(pre+"outside-filtered-collection/delivered", "PullID(id, WithInclude p) without backpressure sent a value that is no version of the item inside the filtered collection", s, "one of the item's matching versions", v)
			break
		}
	}
	if o.Closed && !left {
		m.Violate(pre+"ended-early", "the stream of PullID was closed although the item never left the filtered collection", s, "open", "closed")
	}
	if want := sh.filtered(s.Pred, s.Mask); o.List != want {
		m.Violate("C08/List/not-filtered-collection", "List(WithInclude) is not the filtered collection", s, want, o.List)
	}
	entry := listEntry(o.List, id)
	switch {
	case len(o.Late) > 0:
		held := "nothing"
		if len(o.Seed) > 0 {
			held = o.Seed[len(o.Seed)-1]
		}
		m.Violate(pre+"never-settles-on-List-entry", "everything was published, yet PullID(id, WithInclude p) neither closed the stream nor sent the entry List(WithInclude p) has for the id, within the time limit", s, "closed, or last value "+entry, "open, last value "+held)
	}
	if o.Closed {
		m.Count("bp=off: stream ended by the item leaving the filtered collection")
	} else {
		m.Count("bp=off: stream open at the end")
	}
	m.Count(fmt.Sprintf("bp=off: published=%d sent=%d", len(s.Ops)-s.NBefore, len(o.Seed)))
	m.Eval(fmt.Sprintf("lossy/%s/%s/%s", s.Pred.token(), s.ID, strings.Join(s.Ops, " ")), !s.Pred.Nil, nil)
}

// --- through a trait model ---------------------------------------------------------------------------

// consOf: the consumable holding a value token (one character: the title; two: title and display name).
func consOf(id, tok string) *traits.Consumable {
	c := &traits.Consumable{Name: id}
	if tok != emptyTok && tok[0] != '_' {
		c.Title = tok[:1]
	}
	if len(tok) == 2 && tok[1] != '_' {
		c.DisplayName = tok[1:]
	}
	return c
}

func tokOfCons(c *traits.Consumable, wide bool) string {
	if c == nil {
		return "-"
	}
	if wide {
		return fieldTok(c.Title) + fieldTok(c.DisplayName)
	}
	if c.Title == "" {
		return emptyTok
	}
	return c.Title
}

func (s idSession) viaReadOpts(record *[]string) []resource.ReadOption {
	wide := s.Mask != ""
	var opts []resource.ReadOption
	if !s.Pred.Nil {
		opts = append(opts, resource.WithInclude(func(id string, m proto.Message) bool {
			c, _ := m.(*traits.Consumable)
			r := s.Pred.eval(id, tokOfCons(c, wide))
			if r && record != nil {
				*record = append(*record, id)
			}
			return r
		}))
	}
	switch s.Mask {
	case "keep1":
		opts = append(opts, resource.WithReadPaths(&traits.Consumable{}, "title"))
	case "keep2":
		opts = append(opts, resource.WithReadPaths(&traits.Consumable{}, "display_name"))
	}
	return opts
}

func applyVia(m *vendingpb.Model, op string) error {
	q := strings.Split(op, ":")
	var err error
	switch q[0] {
	case "add":
		_, err = m.CreateConsumable(consOf(q[1], q[2]))
	case "upd":
		_, err = m.UpdateConsumable(consOf(q[1], q[2]))
	case "ups":
		_, err = m.UpdateConsumable(consOf(q[1], q[2]), resource.WithCreateIfAbsent())
	case "del":
		_, err = m.DeleteConsumable(q[1])
	case "dela":
		_, err = m.DeleteConsumable(q[1], resource.WithAllowMissing(true))
	default:
		panic("bad op for the vending model " + op)
	}
	return err
}

func (s idSession) runVia() (o idObs) {
	m := vendingpb.NewModel()
	for _, op := range s.Ops[:s.NBefore] {
		_ = applyVia(m, op)
	}
	ctx, cancel := context.WithCancel(context.Background())
	defer cancel()
	opts := append(s.viaReadOpts(nil), resource.WithBackpressure(true))
	if s.UpdatesOnly {
		opts = append(opts, resource.WithUpdatesOnly(true))
	}
	wide := s.Mask != ""
	ch := m.PullConsumable(ctx, s.ID, opts...)
	type wres struct {
		results  []string
		panicked string
	}
	wdone := make(chan wres, 1)
	go func() {
		var w wres
		panicked, msg := lib.Catch(func() {
			for _, op := range s.Ops[s.NBefore:] {
				if err := applyVia(m, op); err != nil {
					w.results = append(w.results, "fail")
				} else {
					w.results = append(w.results, "ok")
				}
			}
		})
		if panicked {
			w.panicked = msg
		}
		wdone <- w
	}()
	timer := time.NewTimer(fenceTimeout)
	defer timer.Stop()
	var stream []string
	writing := true
	for writing {
		select {
		case vc, open := <-ch:
			if !open {
				o.Closed = true
				ch = nil
				continue
			}
			stream = append(stream, tokOfCons(vc.Value, wide))
		case w := <-wdone:
			o.Results = w.results
			if w.panicked != "" {
				o.Panicked = w.panicked
				return o
			}
			writing = false
		case <-timer.C:
			o.Blocked = true
			return o
		}
	}
	// everything is published; the stream's own end is the quiescent point (the history ends by taking the item
	// out of the filtered collection whenever the predicate accepts a version of it)
	if ch != nil {
		grace := time.NewTimer(2 * closeGrace)
	wait:
		for {
			select {
			case vc, open := <-ch:
				if !open {
					o.Closed = true
					ch = nil
					break wait
				}
				stream = append(stream, tokOfCons(vc.Value, wide))
			case <-grace.C:
				break wait
			}
		}
		grace.Stop()
	}
	o.Seed = stream // the whole stream
	var ids []string
	got := m.ListConsumables(s.viaReadOpts(&ids)...)
	if s.Pred.Nil {
		for _, id := range []string{"a", "b", "c"} {
			if _, ok := m.GetConsumable(id); ok {
				ids = append(ids, id)
			}
		}
	}
	sort.Strings(ids)
	switch {
	case len(ids) != len(got):
		o.List = fmt.Sprintf("!len(ids)=%d,len(list)=%d", len(ids), len(got))
	case len(got) == 0:
		o.List = "-"
	default:
		parts := make([]string, len(got))
		for i := range got {
			parts[i] = ids[i] + "=" + tokOfCons(got[i], wide)
		}
		o.List = strings.Join(parts, ",")
	}
	if ch != nil {
		cancel()
		t2 := time.NewTimer(fenceTimeout)
		defer t2.Stop()
		for {
			select {
			case _, open := <-ch:
				if !open {
					return o
				}
			case <-t2.C:
				o.Blocked = true
				return o
			}
		}
	}
	return o
}

// monitorVia: the whole stream against the plain map and the predicate.
func (s idSession) monitorVia(m sink, o idObs) {
	pre := "C08/PullID/via-" + s.Via + "/"
	if o.Panicked != "" {
		m.Violate(pre+"panic", "a write panicked while an include-filtered single-item Pull of the trait model was open", s, "no panic", o.Panicked)
		return
	}
	if o.Blocked {
		m.Violate(pre+"write-blocked", "a write did not return (or the stream of a cancelled subscription was not closed) within the time limit", s, "returns", "blocked")
		return
	}
	sh := shadow{}
	for _, op := range s.Ops[:s.NBefore] {
		sh.apply(op)
	}
	id := s.ID
	var exp []string
	if v, ok := sh[id]; ok && s.Pred.in(id, v) && !s.UpdatesOnly {
		exp = append(exp, projTok(s.Mask, v))
	}
	open := true
	for k, op := range s.Ops[s.NBefore:] {
		okWant, pubs := sh.apply(op)
		want := "ok"
		if !okWant {
			want = "fail"
		}
		if k < len(o.Results) && o.Results[k] != want {
			m.Violate("C08/write/via-"+s.Via+"/"+strings.Split(op, ":")[0]+"/wrong-result", "write result differs from a plain map", s, want, o.Results[k])
		}
		for _, pe := range pubs {
			if pe.id != id || !open {
				continue
			}
			oin, nin := s.Pred.in(id, pe.old), s.Pred.in(id, pe.new)
			m.Count("via " + s.Via + ": cell " + pe.kind + "/" + inout(oin) + "-" + inout(nin))
			switch {
			case nin:
				exp = append(exp, projTok(s.Mask, pe.new))
			case oin:
				open = false
			}
		}
	}
	got := o.Seed
	if showVals(got) != showVals(exp) {
		what, sig := "the values the trait model's single-item Pull sent are not the item's versions in the filtered collection", "wrong-stream"
		// the first difference names the case
		i := 0
		for i < len(got) && i < len(exp) && got[i] == exp[i] {
			i++
		}
		switch {
		case i == len(exp):
			what, sig = "the trait model's single-item Pull sent a version of the item that is not in the filtered collection (or went on after the item had left it)", "outside-filtered-collection/delivered"
		case i == len(got):
			what, sig = "a version of the item that is in the filtered collection was not sent", "not-delivered"
		}
		m.Violate(pre+sig, what, s, showVals(exp), showVals(got))
	}
	switch {
	case !open && !o.Closed:
		m.Violate(pre+"not-ended-on-leaving-filtered-collection", "the item left the filtered collection but the stream was not closed", s, "closed", "open")
	case open && o.Closed:
		m.Violate(pre+"ended-early", "the stream was closed although the item never left the filtered collection", s, "open", "closed")
	}
	if want := sh.filtered(s.Pred, s.Mask); o.List != want {
		m.Violate("C08/List/via-"+s.Via+"/not-filtered-collection", "the trait model's List with the include option is not the filtered collection", s, want, o.List)
	}
	if o.Closed {
		m.Count("via " + s.Via + ": stream ended by the item leaving the filtered collection")
	} else {
		m.Count("via " + s.Via + ": stream open at the end")
	}
	m.Eval(fmt.Sprintf("via/%s/%s/%s", s.Pred.token(), s.ID, strings.Join(s.Ops, " ")), !s.Pred.Nil, nil)
}

// wholeStream turns the model's per-write `pullid` answer into the whole-stream form of a Via session.
func wholeStream(ans string) string {
	var vals []string
	var tail []string
	for i, t := range strings.Split(ans, " ") {
		switch {
		case i == 0:
			t = strings.TrimPrefix(t, "seed=")
			fallthrough
		case !strings.HasPrefix(t, "end=") && !strings.HasPrefix(t, "list="):
			if t != "-" {
				for _, v := range strings.Split(t, ",") {
					vals = append(vals, strings.SplitN(v, "/", 2)[0])
				}
			}
		default:
			tail = append(tail, t)
		}
	}
	return "stream=" + showVals(vals) + " " + strings.Join(tail, " ")
}

func genViaSession(r *rand.Rand) idSession {
	ids := ids2
	vals, mask := vals2, ""
	if r.Intn(3) == 0 {
		vals, mask = valsWide, []string{"keep1", "keep2"}[r.Intn(2)]
	}
	pvals := append(append([]string{}, vals...), emptyOf(vals[0]))
	p := pred{Ids: ids, Vals: pvals}
	bits := uint(len(ids) * (len(pvals) + 1))
	p.Mask = uint64(r.Int63()) & (1<<bits - 1)
	nb, na := r.Intn(3), 1+r.Intn(5)
	sh := shadow{}
	var ops []string
	for len(ops) < nb+na {
		id, v := ids[r.Intn(len(ids))], vals[r.Intn(len(vals))]
		_, present := sh[id]
		var op string
		switch x := r.Intn(12); {
		case x == 0:
			op = []string{"add", "upd", "del", "dela"}[r.Intn(4)] + ":" + id
			if !strings.HasPrefix(op, "del") {
				op += ":" + v
			}
		case !present:
			op = []string{"add", "ups"}[r.Intn(2)] + ":" + id + ":" + v
		case x < 4:
			op = "del:" + id
		default:
			op = []string{"upd", "upd", "ups"}[r.Intn(3)] + ":" + id + ":" + v
		}
		sh.apply(op)
		ops = append(ops, op)
	}
	s := idSession{Kind: "pullid", Via: "vending", Pred: p, NBefore: nb, Mask: mask, ID: ids[r.Intn(len(ids))], UpdatesOnly: r.Intn(5) == 0}
	// the closing writes: into the filtered collection (if the predicate accepts a version of the item), then deleted
	for _, v := range vals {
		if p.in(s.ID, v) {
			ops = append(ops, "ups:"+s.ID+":"+v)
			break
		}
	}
	s.Ops = append(ops, "dela:"+s.ID)
	return s
}

var _ = proto.Clone
