package main

import (
	"context"
	"fmt"
	"math/rand"
	"strings"
	"time"

	"google.golang.org/protobuf/proto"

	"github.com/smart-core-os/sc-golang/pkg/resource"
	"github.com/smart-core-os/sc-golang/verifharness/lib"
)

// idSession is one run of a real Collection with one PullID(id, WithInclude p, …) subscriber: the single-item
// subscription the trait models (publicationpb, vendingpb, metadatapb, hailpb) forward their callers' read
// options to.  "Pulling with an include predicate behaves as if the collection contained only the items
// satisfying it" for the one item: the seed is the item iff List(WithInclude p) has it, a version that matches
// is sent, a version that does not match is never sent, and the item LEAVING the filtered collection - deleted,
// or updated to a version that stops matching - ends the stream exactly as a delete ends a plain PullID.
//
// Always with backpressure, so that the stream is deterministic and quiescence needs no clock: after every
// write the harness performs two fence writes (Add and Delete of the reserved id `~`, which every predicate of
// the family includes while present).  When the second returns, Pull's forwarding goroutine has taken its
// event, so it has handed the first fence event to PullID's goroutine, which therefore has finished with
// everything the write before caused: every value has been RECEIVED by the harness (unbuffered channels all
// the way).  The harness itself is the receiver while the writes run in a goroutine of their own.
type idSession struct {
	Kind        string   `json:"kind"` // "pullid"
	Pred        pred     `json:"pred"`
	ID          string   `json:"id"` // as the subscriber spells it
	NBefore     int      `json:"n_before"`
	Ops         []string `json:"ops"`
	Mask        string   `json:"mask,omitempty"`
	UpdatesOnly bool     `json:"updates_only,omitempty"`
	Icpt        string   `json:"id_interceptor,omitempty"`
}

type idObs struct {
	Seed     []string   // values received before the first write after the subscription: `<token>/<SeedValue>`
	Per      [][]string // values received during write k (and its fences)
	Results  []string
	Late     []string // values received after the last fence (never on the code as it is)
	Closed   bool     // the stream was closed by PullID itself (before the harness cancelled its context)
	List     string   // List(WithInclude p, mask) at the end
	Blocked  bool
	Panicked string
}

// closeGrace: how long the harness waits, after the last fence, for a stream to be closed by PullID itself.
// (PullID's goroutine cancels the underlying Pull and then closes its channel: a fence write can get past the
// cancelled Pull a moment before the channel is closed.)
const closeGrace = 15 * time.Millisecond

func (s idSession) asSession() session {
	return session{Mask: s.Mask, UpdatesOnly: s.UpdatesOnly, Icpt: s.Icpt, BP: true}
}

func showValue(vc *resource.ValueChange) string {
	if vc == nil {
		return "nil"
	}
	return tokOf(vc.Value) + "/" + flag(vc.SeedValue)
}

func (s idSession) run() (o idObs) {
	c := resource.NewCollection(collectionOpts("", s.Icpt)...)
	for _, op := range s.Ops[:s.NBefore] {
		_ = applyOp(c, op)
	}
	ctx, cancel := context.WithCancel(context.Background())
	defer cancel()
	var opts []resource.ReadOption
	if ff := s.Pred.filterFunc(); ff != nil {
		opts = append(opts, resource.WithInclude(ff))
	}
	opts = append(opts, resource.WithBackpressure(true))
	opts = append(opts, s.asSession().maskOpts()...)
	if s.UpdatesOnly {
		opts = append(opts, resource.WithUpdatesOnly(true))
	}
	ch := c.PullID(ctx, s.ID, opts...)
	fenceAdd := s.asSession().fenceAdd()

	// receive while `writes` run; returns the values received and whether everything returned in time
	phase := func(writes []string) (vals []string, results []string, ok bool) {
		type wres struct {
			results  []string
			panicked string
		}
		wdone := make(chan wres, 1)
		go func() {
			var w wres
			panicked, msg := lib.Catch(func() {
				for _, op := range writes {
					if err := applyOp(c, op); err != nil {
						w.results = append(w.results, "fail")
					} else {
						w.results = append(w.results, "ok")
					}
				}
				_ = applyOp(c, fenceAdd)
				_ = applyOp(c, "del:"+fenceID)
			})
			if panicked {
				w.panicked = msg
			}
			wdone <- w
		}()
		timer := time.NewTimer(fenceTimeout)
		defer timer.Stop()
		for {
			select {
			case vc, open := <-ch:
				if !open {
					o.Closed = true
					ch = nil // a nil channel is never ready
					continue
				}
				vals = append(vals, showValue(vc))
			case w := <-wdone:
				if w.panicked != "" {
					o.Panicked = w.panicked
					return vals, w.results, false
				}
				return vals, w.results, true
			case <-timer.C:
				o.Blocked = true
				return vals, nil, false
			}
		}
	}

	var ok bool
	if o.Seed, _, ok = phase(nil); !ok {
		return o
	}
	for _, op := range s.Ops[s.NBefore:] {
		vals, results, ok := phase([]string{op})
		o.Per = append(o.Per, vals)
		o.Results = append(o.Results, results...)
		if !ok {
			return o
		}
	}
	// has PullID closed the stream itself?
	if ch != nil {
		grace := time.NewTimer(closeGrace)
	wait:
		for {
			select {
			case vc, open := <-ch:
				if !open {
					o.Closed = true
					ch = nil
					break wait
				}
				o.Late = append(o.Late, showValue(vc))
			case <-grace.C:
				break wait
			}
		}
		grace.Stop()
	}
	o.List = listWithInclude(c, s.Pred, s.asSession().maskOpts()...)
	if ch != nil {
		cancel()
		timer := time.NewTimer(fenceTimeout)
		defer timer.Stop()
		for {
			select {
			case _, open := <-ch:
				if !open {
					return o
				}
			case <-timer.C:
				o.Blocked = true // the stream of a cancelled PullID is never closed
				return o
			}
		}
	}
	return o
}

func (s idSession) target() string {
	if s.Icpt == "lower" {
		return strings.ToLower(s.ID)
	}
	return s.ID
}

func showVals(vs []string) string {
	if len(vs) == 0 {
		return "-"
	}
	return strings.Join(vs, ",")
}

// listEntry: the value `id=v` of a rendered list, "-" if the id is not listed.
func listEntry(list, id string) string {
	if list == "-" {
		return "-"
	}
	for _, kv := range strings.Split(list, ",") {
		if q := strings.SplitN(kv, "=", 2); len(q) == 2 && q[0] == id {
			return q[1]
		}
	}
	return "-"
}

// monitor: independent of the model - a plain map, the predicate, and the property's four cells.
func (s idSession) monitor(m sink, o idObs) {
	pre := "C08/PullID/"
	sh := shadow{}
	for _, op := range s.Ops[:s.NBefore] {
		sh.apply(canonOp(s.Icpt, op))
	}
	id := s.target()
	if s.ID != id {
		m.Count("PullID under a non-canonical spelling of the id")
	}
	if o.Panicked != "" {
		m.Violate(pre+"panic", "a write panicked while an include-filtered PullID was open", s, "no panic", o.Panicked)
		return
	}
	if o.Blocked {
		m.Violate(pre+"write-blocked", "a write did not return (or the stream of a cancelled PullID was not closed) within the time limit while an include-filtered PullID was open and being read", s, "returns", "blocked")
		return
	}
	cur := func() string {
		if v, ok := sh[id]; ok {
			return v
		}
		return "-"
	}
	// the seed: the item iff the filtered list has it
	wantSeed, held := "-", "-"
	if s.Pred.in(id, cur()) {
		held = projTok(s.Mask, cur())
		if !s.UpdatesOnly {
			wantSeed = held + "/1"
		}
	}
	if got := showVals(o.Seed); got != wantSeed {
		what := "the seed of PullID(id, WithInclude p) is not the entry List(WithInclude p) has for the id"
		if wantSeed == "-" {
			what = "PullID(id, WithInclude p) seeded an item that is not in the filtered collection"
		}
		m.Violate(pre+"seed/not-filtered-list-entry", what, s, wantSeed, got)
	}
	if len(o.Seed) > 0 {
		held = strings.SplitN(o.Seed[len(o.Seed)-1], "/", 2)[0]
	}
	open := true
	for k, op := range s.Ops[s.NBefore:] {
		okWant, pubs := sh.apply(canonOp(s.Icpt, op))
		want := "ok"
		if !okWant {
			want = "fail"
		}
		if k < len(o.Results) && o.Results[k] != want {
			m.Violate("C08/write/"+strings.Split(op, ":")[0]+"/wrong-result", "write result differs from a plain map", s, want, o.Results[k])
		}
		var exp []string
		cell, outCell := "", ""
		for _, pe := range pubs {
			if pe.id != id || !open {
				continue
			}
			oin, nin := s.Pred.in(id, pe.old), s.Pred.in(id, pe.new)
			cell = pe.kind + "/" + inout(oin) + "-" + inout(nin)
			m.Count("cell " + cell)
			switch {
			case nin:
				exp = append(exp, projTok(s.Mask, pe.new)+"/0")
			case oin:
				open = false // the item left the filtered collection: a REMOVE, the stream ends
			default:
				outCell = cell
			}
		}
		var got []string
		if k < len(o.Per) {
			got = o.Per[k]
		}
		if showVals(got) != showVals(exp) {
			switch {
			case len(got) > len(exp) && outCell != "":
				m.Violate(pre+outCell+"/delivered", "PullID(id, WithInclude p) sent a version of the item that is not in the filtered collection", s, showVals(exp), showVals(got))
			case len(got) > len(exp) && cell == "":
				m.Violate(pre+"spurious-value", "PullID sent a value although no change to its item was published (or after the item had left the filtered collection)", s, showVals(exp), showVals(got))
			case len(got) < len(exp):
				m.Violate(pre+cell+"/not-delivered", "a version of the item that is in the filtered collection was not sent", s, showVals(exp), showVals(got))
			default:
				m.Violate(pre+cell+"/wrong-value", "the values sent are not the item's versions in the filtered collection", s, showVals(exp), showVals(got))
			}
		}
		if len(got) > 0 {
			held = strings.SplitN(got[len(got)-1], "/", 2)[0]
		}
		m.Eval(fmt.Sprintf("%s/%s/%d/%s", s.Pred.token(), s.ID, k, strings.Join(s.Ops[:s.NBefore+k+1], " ")), !s.Pred.Nil, nil)
	}
	if len(o.Late) > 0 {
		m.Violate(pre+"late-value", "PullID sent a value after everything published had been delivered", s, "nothing", showVals(o.Late))
	}
	switch {
	case !open && !o.Closed:
		m.Violate(pre+"not-ended-on-leaving-filtered-collection", "the item left the filtered collection (deleted, or updated to a version that does not match) but the stream of PullID(id, WithInclude p) was not closed", s, "closed", "open")
	case open && o.Closed:
		m.Violate(pre+"ended-early", "the stream of PullID was closed although the item never left the filtered collection", s, "open", "closed")
	}
	if want := sh.filtered(s.Pred, s.Mask); o.List != want {
		m.Violate("C08/List/not-filtered-collection", "List(WithInclude) is not the filtered collection", s, want, o.List)
	}
	if o.Closed {
		m.Count("stream ended by the item leaving the filtered collection")
	} else {
		m.Count("stream open at the end")
		// what the subscriber holds is List's entry for the id
		if entry := listEntry(o.List, id); held != entry {
			m.Violate(pre+"held-differs-from-List", "the value last sent by PullID(id, WithInclude p) is not the entry List(WithInclude p) has for the id", s, entry, held)
		}
	}
}

func (s idSession) driverLine() string {
	return strings.TrimSpace(fmt.Sprintf("pullid%s %s %s %d %s", s.asSession().opSuffixFull(), s.Pred.token(), s.ID, s.NBefore, strings.Join(s.Ops, " ")))
}

// opSuffixFull: always the long form `:<mask>:<equiv>:<u>:<icpt>`.
func (s session) opSuffixFull() string {
	m, u, ic := s.Mask, "0", s.Icpt
	if m == "" {
		m = "none"
	}
	if s.UpdatesOnly {
		u = "1"
	}
	if ic == "" {
		ic = "none"
	}
	return ":" + m + ":none:" + u + ":" + ic
}

func (s idSession) codeAnswer(o idObs) string {
	parts := []string{"seed=" + showVals(o.Seed)}
	for _, vs := range o.Per {
		parts = append(parts, showVals(vs))
	}
	if len(o.Late) > 0 {
		parts = append(parts, "late:"+showVals(o.Late))
	}
	end := "open"
	if o.Closed {
		end = "closed"
	}
	if o.Blocked {
		end = "blocked"
	}
	return strings.Join(parts, " ") + " end=" + end + " list=" + o.List
}

func genIDSession(r *rand.Rand, small bool) idSession {
	g := genSession(r, true, small)
	s := idSession{Kind: "pullid", Pred: g.Pred, NBefore: g.NBefore, Ops: g.Ops, Mask: g.Mask, UpdatesOnly: g.UpdatesOnly, Icpt: g.Icpt}
	ids := ids2
	if !g.Pred.Nil {
		ids = g.Pred.Ids
	}
	s.ID = ids[r.Intn(len(ids))]
	if s.Icpt == "lower" && r.Intn(2) == 0 {
		s.ID = strings.ToUpper(s.ID)
	}
	return s
}

func runPullID(f lib.Flags, res *lib.Result, drv *lib.Driver) {
	tie := res.Tie("pull-id", "K1",
		"the histories of the pull-backpressure family (plain, failing and re-entrant writes over 2-3 ids; a third with two-field messages under a read mask, a fifth WithUpdatesOnly, a sixth on a collection WithIDInterceptor(strings.ToLower) with writers and the subscriber spelling ids in upper case) with the subscriber being Collection.PullID(id, WithInclude p, WithBackpressure(true), …) on one of the ids: the values received before the first write (seed) and during every later write, whether PullID closed the stream itself, and List(WithInclude p) at the end are compared with the model's `pullid` answer (pullIdLoop over the underlying Pull's stream); non-trivial = predicate not nil; distinct = (predicate, id, history)")
	mon := res.Monitor("pull-id-item", "on the same sessions, independent of the model (a plain map and the predicate): the seed is the item iff it is in the filtered collection; per write the values sent are exactly the item's new versions that are in the filtered collection (out-out: nothing); the stream is closed by PullID iff the item left the filtered collection (delete of a matching item, or an update to a version that does not match), and nothing is sent after that; while open, the value last sent is List(WithInclude p)'s entry for the id; distinct = (predicate, id, history prefix)")
	r := lib.NewRand(f.Seed + 77)
	n := f.N(300, 3000)
	stuck := 0
	for i := 0; i < n; i++ {
		s := genIDSession(r, i < n/4)
		var first idObs
		runs := 0
		confirmed(res, mon, func(sk sink) any {
			o := s.run()
			if runs == 0 {
				first = o
			}
			runs++
			s.monitor(sk, o)
			return o
		}, func(t1, t2 any) any { return enrich(s, t1, t2) })
		if first.Blocked {
			stuck++
			stuckSeen++
			fenceTimeout = stuckTimeout
			if tooManyStuck(stuck) {
				tie.Fail(fmt.Errorf("aborted after %d sessions in which a write did not return within the time limit", stuck))
				break
			}
		}
		if drv == nil {
			continue
		}
		ans, err := drv.Batch([]string{s.driverLine()})
		if err != nil {
			tie.Fail(err)
			continue
		}
		key := fmt.Sprintf("%s/%s/%d/%s", s.Pred.token(), s.ID, s.NBefore, strings.Join(s.Ops, " "))
		tie.Record(key, !s.Pred.Nil, s, ans[0], s.codeAnswer(first))
		tie.Count(fmt.Sprintf("writes=%d", len(s.Ops)-s.NBefore))
	}
}

var _ = proto.Clone
