// Harness for C08 (include-filtered List/Pull behave as the filtered collection): ties the Lean model
// (driverC08) to pkg/resource and evaluates the property directly on the real code.
package main

import (
	"encoding/json"
	"fmt"
	"os"

	"github.com/smart-core-os/sc-golang/verifharness/lib"
)

func main() {
	f := lib.ParseFlags()
	if f.Replay != "" {
		os.Exit(replay(f))
	}
	res := lib.NewResult("C08", f)
	drv, err := lib.StartDriver(f.Driver)
	if err != nil {
		lib.Fatal(err)
	}
	defer drv.Close()
	runInclude(f, res, drv)
	runPull(f, res, drv)
	runPullID(f, res, drv)
	runMultiTable(f, res, drv)
	runMulti(f, res, drv)
	runSched(f, res, drv)
	runBooking(f, res, drv)
	runGenID(f, res, drv)
	if err := res.Write(f.Out); err != nil {
		lib.Fatal(err)
	}
}

// replay re-runs the monitor on the concrete input of a replay file: exit 1 if it still fails.
func replay(f lib.Flags) int {
	rp, err := lib.ReadReplay(f.Replay)
	if err != nil {
		lib.Fatal(err)
	}
	raw, err := json.Marshal(rp.Input)
	if err != nil || rp.Input == nil {
		fmt.Println("replay: no concrete input in file (", rp.Kind, rp.Broken, ")")
		return 2
	}
	var head struct {
		Kind string `json:"kind"`
	}
	_ = json.Unmarshal(raw, &head)
	m := lib.NewMonitor("replay", "")
	switch head.Kind {
	case "include":
		var c includeCase
		if err := json.Unmarshal(raw, &c); err != nil {
			lib.Fatal(err)
		}
		code := c.runCode()
		fmt.Printf("replay include %s %s -> %s\n", c.Pred, c.Change, code)
		c.monitor(m, code)
	case "pull":
		var s session
		if err := json.Unmarshal(raw, &s); err != nil {
			lib.Fatal(err)
		}
		obs := s.run()
		for _, b := range obs {
			fmt.Printf("replay pull burst %v -> results %v events %v list %s\n", b.Ops, b.Results, b.Events, b.List)
		}
		s.monitor(m, obs)
	case "pullid":
		var s idSession
		if err := json.Unmarshal(raw, &s); err != nil {
			lib.Fatal(err)
		}
		o := s.run()
		fmt.Printf("replay pullid %s: seed %v per write %v late %v closed %v list %s\n", s.ID, o.Seed, o.Per, o.Late, o.Closed, o.List)
		s.monitor(m, o)
	case "multi":
		var ms multiSession
		if err := json.Unmarshal(raw, &ms); err != nil {
			lib.Fatal(err)
		}
		per := ms.run()
		for k, obs := range per {
			for _, b := range obs {
				fmt.Printf("replay shared-bus subscriber %d burst %v -> results %v events %v list %s\n", k+1, b.Ops, b.Results, b.Events, b.List)
			}
		}
		ms.monitor(m, per)
	case "booking":
		var c bookingCase
		if err := json.Unmarshal(raw, &c); err != nil {
			lib.Fatal(err)
		}
		for _, line := range c.run(m) {
			fmt.Println("replay booking:", line)
		}
	case "genid":
		var g genCase
		if err := json.Unmarshal(raw, &g); err != nil {
			lib.Fatal(err)
		}
		for _, line := range g.run(m).Trace {
			fmt.Println("replay genid:", line)
		}
	case "sched":
		var c schedCase
		if err := json.Unmarshal(raw, &c); err != nil {
			lib.Fatal(err)
		}
		o := c.run()
		fmt.Printf("replay sched steps %v notes %v -> %s\n", o.Steps, o.Notes, o.answer())
		c.monitor(m, o)
	default:
		fmt.Println("replay: unknown input kind", head.Kind)
		return 2
	}
	if len(m.Violations) > 0 {
		for _, v := range m.Violations {
			fmt.Printf("STILL FAILS %s: %s (expected %s, observed %s)\n", v.Signature, v.What, v.Expected, v.Observed)
		}
		return 1
	}
	fmt.Println("replay: property holds on this input now")
	return 0
}
