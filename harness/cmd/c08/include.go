package main

import (
	"fmt"

	"github.com/smart-core-os/sc-golang/pkg/resource"
	"github.com/smart-core-os/sc-golang/verifharness/lib"
)

// includeCase is one cell of the decision table of (*CollectionChange).include.
type includeCase struct {
	Kind   string `json:"kind"` // always "include"
	Pred   string `json:"pred"`
	Change string `json:"change"`
}

func (c includeCase) line() string { return "include " + c.Pred + " " + c.Change }

func (c includeCase) runCode() string {
	var out string
	panicked, msg := lib.Catch(func() {
		p := parsePredTok(c.Pred)
		in := parseChange(c.Change)
		got, ok := resource.VerifInclude(in, p.filterFunc())
		if !ok {
			out = "drop"
			return
		}
		out = showChange(got, true)
	})
	if panicked {
		return "panic:" + msg
	}
	return out
}

func inout(b bool) string {
	if b {
		return "in"
	}
	return "out"
}

func tf(b bool) string {
	if b {
		return "T"
	}
	return "F"
}

// wellShaped: the shapes a collection (or the merger) can publish.
func wellShaped(kind, old, new string) bool {
	switch kind {
	case "ADD":
		return old == "-" && new != "-"
	case "UPDATE", "REPLACE":
		return old != "-" && new != "-"
	case "REMOVE":
		return old != "-" && new == "-"
	}
	return false
}

// expectedEvent is the property's statement for one published change (independent oracle):
// matching = present and satisfying the predicate; (in,in) → delivered as is; (out,in) → ADD new;
// (in,out) → REMOVE old; (out,out) → not delivered.  Returns "drop" or the canonical event with the
// flags/time fields as given.
func expectedEvent(p pred, id, kind, t, old, new, seed, last string) (exp string, oldIn, newIn bool) {
	oldIn, newIn = p.in(id, old), p.in(id, new)
	if p.Nil {
		oldIn, newIn = old != "-", new != "-"
		return fmt.Sprintf("%s,%s,%s,%s,%s,%s,%s", id, kind, t, old, new, seed, last), oldIn, newIn
	}
	switch {
	case oldIn && newIn:
		return fmt.Sprintf("%s,%s,%s,%s,%s,%s,%s", id, kind, t, old, new, seed, last), oldIn, newIn
	case !oldIn && newIn:
		if kind == "ADD" { // an ADD that is included is the same ADD
			return fmt.Sprintf("%s,ADD,%s,-,%s,%s,*", id, t, new, seed), oldIn, newIn
		}
		return fmt.Sprintf("%s,ADD,%s,-,%s,%s,*", id, t, new, seed), oldIn, newIn
	case oldIn && !newIn:
		return fmt.Sprintf("%s,REMOVE,%s,%s,-,*,*", id, t, old), oldIn, newIn
	default:
		return "drop", oldIn, newIn
	}
}

// matchEvent compares an observed canonical event with an expectation in which `*` fields are free.
func matchEvent(exp, got string) bool {
	if exp == got {
		return true
	}
	if exp == "drop" || got == "drop" {
		return false
	}
	e, g := splitComma(exp), splitComma(got)
	if len(e) != len(g) {
		return false
	}
	for i := range e {
		if e[i] != "*" && e[i] != g[i] {
			return false
		}
	}
	return true
}

func splitComma(s string) []string {
	var out []string
	cur := ""
	for _, r := range s {
		if r == ',' {
			out = append(out, cur)
			cur = ""
		} else {
			cur += string(r)
		}
	}
	return append(out, cur)
}

func failureClass(exp, got string) string {
	switch {
	case exp == "drop":
		return "delivered"
	case got == "drop":
		return "not-delivered"
	default:
		return "wrong-event"
	}
}

func (c includeCase) monitor(m sink, code string) {
	p := parsePredTok(c.Pred)
	f := splitComma(c.Change)
	id, kind, t, old, new, seed, last := f[0], f[1], f[2], f[3], f[4], f[5], f[6]
	if len(code) >= 6 && code[:6] == "panic:" {
		m.Violate("C08/include/"+kind+"/panic", "include panicked", c, "no panic", code)
		return
	}
	if !wellShaped(kind, old, new) {
		return // outside what a collection publishes: tied to the model, not claimed by the property
	}
	exp, oi, ni := expectedEvent(p, id, kind, t, old, new, seed, last)
	m.Eval(fmt.Sprintf("%s/%s-%s/%s", kind, inout(oi), inout(ni), tf(p.eval(id, "-"))), true, map[string]any{"case": c, "expected": exp, "code": code})
	m.Count(kind + "/" + inout(oi) + "-" + inout(ni))
	if !matchEvent(exp, code) {
		sig := fmt.Sprintf("C08/include/%s/%s-%s/pAbsent=%s/%s", kind, inout(oi), inout(ni), tf(!p.Nil && p.eval(id, "-")), failureClass(exp, code))
		m.Violate(sig, "include does not follow the decision table (matching = present and satisfying the predicate)", c, exp, code)
	}
}

// runInclude: K2 exhaustive over 5 kinds × old,new ∈ {absent,x,y} × all 8 predicates on {absent,x,y}
// (+ the nil predicate) × the 4 seed-flag combinations.
func runInclude(f lib.Flags, res *lib.Result, drv *lib.Driver) {
	tie := res.Tie("include-table", "K2",
		"exhaustive: 5 change kinds x old,new in {absent,x,y} x all 8 truth tables on {absent,x,y} plus the nil predicate x 4 SeedValue/LastSeedValue combinations, distinct change times; every output field compared; a case is non-trivial when the predicate is not nil; distinct = (kind,old,new,predicate,flags)")
	tie.Exhaustive = true
	mon := res.Monitor("include-cells", "the property's decision table evaluated on include() for every well-shaped change (ADD absent->v, UPDATE/REPLACE v->w, REMOVE v->absent): delivered unchanged / ADD / REMOVE / not delivered, with matching = present and p(id,value); distinct = (kind, cell, p(absent))")
	vals := []string{"-", "x", "y"}
	var cases []includeCase
	preds := []pred{{Nil: true}}
	for m := uint64(0); m < 8; m++ {
		preds = append(preds, pred{Ids: []string{"a"}, Vals: []string{"x", "y"}, Mask: m})
	}
	tm := 1
	for _, p := range preds {
		for _, k := range kindNames {
			for _, o := range vals {
				for _, n := range vals {
					for fl := 0; fl < 4; fl++ {
						tm++
						ch := fmt.Sprintf("a,%s,%d,%s,%s,%d,%d", k, tm, o, n, fl&1, fl>>1)
						cases = append(cases, includeCase{Kind: "include", Pred: p.token(), Change: ch})
					}
				}
			}
		}
	}
	lines := make([]string, len(cases))
	for i, c := range cases {
		lines[i] = c.line()
	}
	ans, err := drv.Batch(lines)
	if err != nil {
		tie.Fail(err)
		ans = nil
	}
	for i, c := range cases {
		code := c.runCode()
		if ans != nil {
			tie.Record(c.Pred+"/"+c.Change, c.Pred != "nil", c, ans[i], code)
			if code == "drop" {
				tie.Count("drop")
			} else {
				tie.Count(splitComma(code)[1])
			}
		}
		c.monitor(mon, code)
	}
}
