package main

// The shared-bus family: SEVERAL differently configured subscribers on ONE collection.
//
// `Collection.Pull` subscribers do not get private copies of what is published: `minibus.Bus.Send` hands
// the SAME *CollectionChange to every listener, one after the other, in subscription order (with
// backpressure the subscriber's forwarding loop works on that very object; without, the merge goroutine
// copies it when it gets round to it).  "Pulling with an include predicate behaves as if the collection
// contained only the matching items" is a statement about EACH subscriber, whatever the others do with
// the event before it: another subscriber's read mask, predicate, equivalence or pace must not change
// what this one is sent.  The sessions here open 2-3 Pulls (include x read mask x backpressure x
// updates-only, a late joiner now and then) on one collection (with or without an equivalence), run one
// write history, and judge every subscriber by exactly the monitor and model answer of the
// single-subscriber sessions (pull.go).
//
// Order of processing.  Through the yield points of minibus.Bus.Send the harness makes the writer wait,
// before it hands an event to listener i+1, until subscriber i's consumer has received something (the
// subscriber's turn on the event is then over) or settleWait has passed (the subscriber dropped the
// event): so on every event the subscribers take their turns strictly one after the other in subscription
// order - the order in which anything an earlier subscriber did to the shared object would be seen by a
// later one.  The waits only shape the schedule; no verdict depends on them.

import (
	"context"
	"fmt"
	"math/rand"
	"strings"
	"sync"
	"time"

	"github.com/smart-core-os/sc-golang/internal/verifhook"
	"github.com/smart-core-os/sc-golang/pkg/resource"
	"github.com/smart-core-os/sc-golang/verifharness/lib"
)

type subCfg struct {
	Pred        pred   `json:"pred"`
	BP          bool   `json:"backpressure"`
	Mask        string `json:"mask,omitempty"`
	UpdatesOnly bool   `json:"updates_only,omitempty"`
	// After: the number of bursts that have completed when this subscriber joins (0 = before the first;
	// always even, so that the fence item is absent at that moment)
	After int `json:"after,omitempty"`
}

type multiSession struct {
	Kind    string   `json:"kind"` // "multi"
	Equiv   string   `json:"equiv,omitempty"`
	Wide    bool     `json:"wide,omitempty"`           // two-field messages (read masks strip one field)
	Icpt    string   `json:"id_interceptor,omitempty"` // "lower": see session.Icpt
	NBefore int      `json:"n_before"`
	Ops     []string `json:"ops"`  // burst 0 is the fence alone; burst j >= 1 is Ops[NBefore+j-1] then a fence
	Subs    []subCfg `json:"subs"` // in subscription order (After ascending)
}

const settleWait = 300 * time.Microsecond

// subSession is subscriber k's view of the session: the single-subscriber session it would be alone.
// (The fences before a late joiner's subscription come in add/delete pairs and are left out of its
// pre-history.)
func (ms multiSession) subSession(k int) session {
	sc := ms.Subs[k]
	s := session{Kind: "pull", Pred: sc.Pred, BP: sc.BP, Mask: sc.Mask, Equiv: ms.Equiv, UpdatesOnly: sc.UpdatesOnly,
		Wide: ms.Wide, Icpt: ms.Icpt, Ops: ms.Ops, NBefore: ms.NBefore}
	na := len(ms.Ops) - ms.NBefore
	if sc.After == 0 {
		s.Bursts = append(s.Bursts, 0)
	} else {
		s.NBefore += sc.After - 1
		na -= sc.After - 1
	}
	for i := 0; i < na; i++ {
		s.Bursts = append(s.Bursts, 1)
	}
	return s
}

type subRun struct {
	ch    <-chan *resource.CollectionChange
	sig   chan struct{} // cap 1: the consumer received something
	fence chan []string // the events up to and including a fence event (or the marker "closed")
}

func (sr *subRun) consume() {
	var cur []string
	for ev := range sr.ch {
		cur = append(cur, showChange(ev, false))
		select {
		case sr.sig <- struct{}{}:
		default:
		}
		if ev.Id == fenceID {
			sr.fence <- cur
			cur = nil
		}
	}
	sr.fence <- append(cur, "closed")
}

// run executes the session on the real code: per subscriber, the observations of its bursts (from the
// burst at which it joined).
func (ms multiSession) run() [][]burstObs {
	c := resource.NewCollection(collectionOpts(ms.Equiv, ms.Icpt)...)
	for _, op := range ms.Ops[:ms.NBefore] {
		_ = applyOp(c, op)
	}
	ctx, cancel := context.WithCancel(context.Background())
	defer cancel()

	per := make([][]burstObs, len(ms.Subs))
	var mu sync.Mutex
	var active []*subRun // = the bus's listeners, in order
	idx := 0
	verifhook.Set(func(point string) {
		switch point {
		case "bus.send.afterSnapshot":
			mu.Lock()
			idx = 0
			for _, sr := range active {
				select {
				case <-sr.sig:
				default:
				}
			}
			mu.Unlock()
		case "bus.send.beforeListener":
			mu.Lock()
			var prev *subRun
			if idx >= 1 && idx-1 < len(active) {
				prev = active[idx-1]
			}
			idx++
			mu.Unlock()
			if prev != nil {
				t := time.NewTimer(settleWait)
				select {
				case <-prev.sig:
				case <-t.C:
				}
				t.Stop()
			}
		}
	})
	defer verifhook.Set(nil)

	subscribe := func(k int) {
		sc := ms.Subs[k]
		var opts []resource.ReadOption
		if ff := sc.Pred.filterFunc(); ff != nil {
			opts = append(opts, resource.WithInclude(ff))
		}
		opts = append(opts, resource.WithBackpressure(sc.BP))
		opts = append(opts, session{Mask: sc.Mask}.maskOpts()...)
		if sc.UpdatesOnly {
			opts = append(opts, resource.WithUpdatesOnly(true))
		}
		sr := &subRun{ch: c.Pull(ctx, opts...), sig: make(chan struct{}, 1), fence: make(chan []string, 4)}
		go sr.consume()
		mu.Lock()
		active = append(active, sr)
		mu.Unlock()
	}

	nb := len(ms.Ops) - ms.NBefore + 1
	joined := 0
	fenceOn := false
	for j := 0; j < nb; j++ {
		for joined < len(ms.Subs) && ms.Subs[joined].After <= j {
			subscribe(joined)
			joined++
		}
		var burst []string
		if j >= 1 {
			burst = append(burst, ms.Ops[ms.NBefore+j-1])
		}
		if fenceOn {
			burst = append(burst, "del:"+fenceID)
		} else if ms.Wide {
			burst = append(burst, "add:"+fenceID+":ff")
		} else {
			burst = append(burst, "add:"+fenceID+":f")
		}
		fenceOn = !fenceOn
		type wres struct {
			results  []string
			panicked string
		}
		wdone := make(chan wres, 1)
		go func() {
			var w wres
			panicked, msg := lib.Catch(func() {
				for _, op := range burst {
					if err := applyOp(c, op); err != nil {
						w.results = append(w.results, "fail")
					} else {
						w.results = append(w.results, "ok")
					}
				}
			})
			if panicked {
				w.panicked = msg
			}
			wdone <- w
		}()
		b := burstObs{Ops: burst}
		stop := false
		limit := time.NewTimer(fenceTimeout)
		select {
		case w := <-wdone:
			b.Results, b.Panicked = w.results, w.panicked
		case <-limit.C:
			b.Blocked = true
		}
		limit.Stop()
		for k := 0; k < joined; k++ {
			bk := b
			if !b.Blocked {
				limit := time.NewTimer(fenceTimeout)
				select {
				case evs := <-active[k].fence:
					bk.Events = evs
				case <-limit.C:
					bk.Events = []string{"timeout"}
				}
				limit.Stop()
				bk.FenceOK = len(bk.Events) > 0 && strings.HasPrefix(bk.Events[len(bk.Events)-1], fenceID+",")
				bk.List = listWithInclude(c, ms.Subs[k].Pred, session{Mask: ms.Subs[k].Mask}.maskOpts()...)
			}
			per[k] = append(per[k], bk)
			if bk.Blocked || !bk.FenceOK || bk.Panicked != "" {
				stop = true
			}
		}
		if stop {
			break
		}
	}
	return per
}

// subSink relabels what the single-subscriber monitor reports for subscriber k of a shared-bus session.
type subSink struct {
	to sink
	ms multiSession
	k  int
}

func (ss subSink) Eval(key string, nontrivial bool, sample any) {
	ss.to.Eval(fmt.Sprintf("sub%d/%d/%s", ss.k, len(ss.ms.Subs), key), nontrivial, sample)
}

func (ss subSink) Count(bucket string) { ss.to.Count(bucket) }

func (ss subSink) Violate(signature, what string, _ any, expected, observed string) {
	sig := strings.Replace(signature, "C08/Pull/", "C08/Pull/shared-bus/", 1)
	sig = strings.Replace(sig, "C08/List/", "C08/List/shared-bus/", 1)
	sig = strings.Replace(sig, "C08/write/", "C08/write/shared-bus/", 1)
	ss.to.Violate(sig, fmt.Sprintf("subscriber %d of %d on one collection: %s", ss.k+1, len(ss.ms.Subs), what), ss.ms, expected, observed)
}

func (ms multiSession) monitor(m sink, per [][]burstObs) {
	for k := range ms.Subs {
		if len(per[k]) == 0 {
			continue // never joined: the session stopped before
		}
		ms.subSession(k).monitor(subSink{to: m, ms: ms, k: k}, per[k])
	}
	if ms.Equiv != "" {
		m.Count("collection with an equivalence")
	}
	if ms.Icpt != "" {
		m.Count("shared collection with an id interceptor")
	}
	masks, preds, bps := map[string]bool{}, map[string]bool{}, map[bool]bool{}
	for _, sc := range ms.Subs {
		masks[sc.Mask], preds[sc.Pred.token()], bps[sc.BP] = true, true, true
	}
	m.Count(fmt.Sprintf("subscribers=%d distinct masks=%d distinct predicates=%d backpressure kinds=%d", len(ms.Subs), len(masks), len(preds), len(bps)))
}

func stuckMulti(per [][]burstObs) bool {
	for _, obs := range per {
		for _, b := range obs {
			if b.Blocked || !b.FenceOK {
				return true
			}
		}
	}
	return false
}

// --- model side ----------------------------------------------------------------------------------------

// driverLines: one `mpull` line (the fan-out model: every published event handed to the subscribers in
// subscription order), then the `burst` lines of every lossy subscriber (the model's sets over all
// recv/emit patterns); offs[k] = index of subscriber k's first burst line (-1 with backpressure).
func (ms multiSession) driverLines() (lines []string, offs []int) {
	ops := append([]string{}, ms.Ops[:ms.NBefore]...)
	at := make([]int, len(ms.Subs))
	nb := len(ms.Ops) - ms.NBefore + 1
	fenceOn := false
	for j := 0; j < nb; j++ {
		for k, sc := range ms.Subs {
			if sc.After == j {
				at[k] = len(ops)
			}
		}
		if j >= 1 {
			ops = append(ops, ms.Ops[ms.NBefore+j-1])
		}
		if fenceOn {
			ops = append(ops, "del:"+fenceID)
		} else if ms.Wide {
			ops = append(ops, "add:"+fenceID+":ff")
		} else {
			ops = append(ops, "add:"+fenceID+":f")
		}
		fenceOn = !fenceOn
	}
	e := ms.Equiv
	if e == "" {
		e = "none"
	}
	if ms.Icpt != "" {
		e += "+" + ms.Icpt
	}
	toks := []string{"mpull", e, fmt.Sprint(len(ms.Subs))}
	for k, sc := range ms.Subs {
		m := sc.Mask
		if m == "" {
			m = "none"
		}
		toks = append(toks, sc.Pred.token(), m, flag(sc.UpdatesOnly), fmt.Sprint(at[k]))
	}
	lines = []string{strings.Join(append(toks, ops...), " ")}
	for k, sc := range ms.Subs {
		if sc.BP {
			offs = append(offs, -1)
			continue
		}
		offs = append(offs, len(lines))
		lines = append(lines, ms.subSession(k).driverLines()[1:]...)
	}
	return lines, offs
}

// answers renders model and code side of the tie: subscriber by subscriber, ` # `-separated.
func (ms multiSession) answers(ans []string, offs []int, per [][]burstObs, count func(string)) (string, string) {
	parts := strings.Split(ans[0], " # ")
	var model, code []string
	for k, sc := range ms.Subs {
		if k >= len(parts) {
			model = append(model, "!no-model-answer")
			code = append(code, "")
			continue
		}
		s := ms.subSession(k)
		if sc.BP {
			model = append(model, modelAnswerBP(parts[k], per[k]))
			code = append(code, s.codeAnswerBP(per[k]))
			continue
		}
		nl := len(s.Bursts)
		mo, co := lossyAnswers(strings.Split(parts[k], " ")[0], ans[offs[k]:offs[k]+nl], per[k], count)
		model = append(model, mo)
		code = append(code, co)
	}
	return strings.Join(model, " # "), strings.Join(code, " # ")
}

// --- generation ------------------------------------------------------------------------------------------

func genMulti(r *rand.Rand, small bool) multiSession {
	ids := ids2
	if !small && r.Intn(4) == 0 {
		ids = ids3
	}
	ms := multiSession{Kind: "multi", Wide: r.Intn(5) != 0}
	vals := vals2
	if ms.Wide {
		vals = valsWide
	}
	nbef, na := r.Intn(3), 1+r.Intn(4)
	if small {
		nbef, na = r.Intn(2), 1+r.Intn(2)
	}
	ms.NBefore = nbef
	ms.Ops = genOps(r, ids, vals, nbef+na)
	if r.Intn(4) == 0 {
		ms.Equiv = []string{"same", "first"}[r.Intn(2)]
	}
	if r.Intn(6) == 0 {
		ms.Icpt = "lower"
		ms.Ops = respell(r, ms.Ops)
	}
	pvals := append(append([]string{}, vals...), emptyOf(vals[0]))
	bits := uint(len(ids) * (len(pvals) + 1))
	nsubs := 2 + r.Intn(2)
	if small {
		nsubs = 2
	}
	for k := 0; k < nsubs; k++ {
		sc := subCfg{BP: r.Intn(4) != 0}
		switch r.Intn(4) {
		case 0:
			// no predicate (a plain, usually masked, subscriber next to the filtered ones)
			sc.Pred = pred{Nil: true}
		default:
			sc.Pred = pred{Ids: ids, Vals: pvals, Mask: uint64(r.Int63()) & (1<<bits - 1)}
		}
		if ms.Wide && r.Intn(3) != 0 {
			sc.Mask = []string{"keep1", "keep2"}[r.Intn(2)]
		}
		if r.Intn(6) == 0 {
			sc.UpdatesOnly = true
		}
		if k > 0 && na >= 3 && r.Intn(5) == 0 {
			sc.After = 2 // a late joiner (bursts 0 and 1 are over)
			if ms.Subs[k-1].After > sc.After {
				sc.After = ms.Subs[k-1].After
			}
		} else if k > 0 {
			sc.After = ms.Subs[k-1].After
		}
		ms.Subs = append(ms.Subs, sc)
	}
	return ms
}

func runMulti(f lib.Flags, res *lib.Result, drv *lib.Driver) {
	tie := res.Tie("pull-shared-bus", "K1",
		"2-3 Pull subscribers with different options on ONE real Collection (random write histories as in pull-backpressure, incl. re-entrant writes and option deletes; four sessions in five store two-field messages; a quarter configure an equivalence): each subscriber has its own include truth table or none, read mask none/keep1/keep2, backpressure on (3 in 4) or off, WithUpdatesOnly (1 in 6), and joins at the start or, now and then, after the first write; minibus.Bus.Send hands every published *CollectionChange to all of them in subscription order and the harness (yield points bus.send.afterSnapshot / bus.send.beforeListener) makes the writer wait for subscriber i's turn on the event to be over before subscriber i+1 is handed it; after every write a fence write. Model: `mpull`, the fan-out model busSend (ScVerif/C08/Shared.lean: one event object through all subscribers' forwarding turns in order) - per subscriber seed, per-write delivered events and List with its options, exact with backpressure, member of the `burst` set without; non-trivial = some subscriber has a predicate; distinct = (subscriber configurations, history)")
	mon := res.Monitor("pull-shared-bus-fold", "on the same sessions, independent of the model, for EVERY subscriber separately exactly the clauses of pull-fold (seed = its filtered list; with backpressure its delivered stream is exactly its filtered, masked edit script per write; every event well formed at its view; after every burst fold = its filtered shadow map = List with its options): what one subscriber is sent must not depend on the other subscribers of the collection; distinct = (subscriber index, predicate, burst)")
	r := lib.NewRand(f.Seed + 29)
	n := f.N(700, 6000)
	stuck := 0
	for i := 0; i < n; i++ {
		ms := genMulti(r, i < n/4)
		isStuck, ok := evalMulti(res, ms, drv, tie, mon)
		if !ok {
			return
		}
		if isStuck {
			stuck++
			stuckSeen++
			fenceTimeout = stuckTimeout
			if tooManyStuck(stuck) {
				tie.Fail(fmt.Errorf("aborted after %d sessions in which a write or a fence did not come through within the time limit", stuck))
				break
			}
		}
	}
}

// evalMulti runs one shared-bus session: monitor (self-confirming) and tie.  ok = false: the driver failed.
func evalMulti(res *lib.Result, ms multiSession, drv *lib.Driver, tie *lib.Tie, mon sink) (stuck, ok bool) {
	var per [][]burstObs
	runs := 0
	confirmed(res, mon, func(sk sink) any {
		o := ms.run()
		if runs == 0 {
			per = o
		}
		runs++
		ms.monitor(sk, o)
		return o
	}, func(t1, t2 any) any { return enrich(ms, t1, t2) })
	stuck = stuckMulti(per)
	if drv == nil {
		return stuck, true
	}
	lines, offs := ms.driverLines()
	ans, err := drv.Batch(lines)
	if err != nil {
		tie.Fail(err)
		return stuck, false
	}
	nontrivial := false
	var cfg []string
	for _, sc := range ms.Subs {
		if !sc.Pred.Nil {
			nontrivial = true
		}
		cfg = append(cfg, fmt.Sprintf("%s/%v/%s/%v/%d", sc.Pred.token(), sc.BP, sc.Mask, sc.UpdatesOnly, sc.After))
	}
	model, code := ms.answers(ans, offs, per, tie.Count)
	tie.Record(fmt.Sprintf("%s|%s|%d|%s", strings.Join(cfg, ";"), ms.Equiv, ms.NBefore, strings.Join(ms.Ops, " ")), nontrivial, ms, model, code)
	tie.Count(fmt.Sprintf("subscribers=%d", len(ms.Subs)))
	return stuck, true
}

// runMultiTable: the decision table of a masked and a filtered subscriber on one bus, exhaustively.
func runMultiTable(f lib.Flags, res *lib.Result, drv *lib.Driver) {
	tie := res.Tie("shared-bus-table", "K2",
		"exhaustive: one item of two-field messages; every transition old -> new with old, new in {absent, xp, xq, yp} (15: adds, deletes, updates changing the first field, the second, both or nothing) x an unfiltered subscriber with read mask none / keep1 / keep2 x a filtered unmasked subscriber whose predicate is one of: first field x, first field y, second field p, second field q, everything, nothing x the two subscription orders; both with backpressure (every subscriber's stream is exact), turns forced into subscription order; model `mpull`; non-trivial = always (a predicate is present); distinct = (transition, mask, predicate, order)")
	tie.Exhaustive = true
	mon := res.Monitor("shared-bus-table-cells", "on the same 540 sessions, independent of the model: each of the two subscribers is sent exactly its own filtered, masked edit script and folds to List with its options; distinct = (subscriber, predicate, burst)")
	vals := []string{"-", "xp", "xq", "yp"}
	pvals := append(append([]string{}, valsWide...), "__")
	for _, mask := range []string{"", "keep1", "keep2"} {
		for _, pm := range []uint64{6, 24, 10, 20, 63, 0} {
			for order := 0; order < 2; order++ {
				for _, o := range vals {
					for _, n := range vals {
						if o == "-" && n == "-" {
							continue
						}
						ms := multiSession{Kind: "multi", Wide: true}
						if o != "-" {
							ms.NBefore = 1
							ms.Ops = append(ms.Ops, "add:a:"+o)
						}
						switch {
						case o == "-":
							ms.Ops = append(ms.Ops, "add:a:"+n)
						case n == "-":
							ms.Ops = append(ms.Ops, "del:a")
						default:
							ms.Ops = append(ms.Ops, "upd:a:"+n)
						}
						masked := subCfg{Pred: pred{Nil: true}, BP: true, Mask: mask}
						filtered := subCfg{Pred: pred{Ids: []string{"a"}, Vals: pvals, Mask: pm}, BP: true}
						if order == 0 {
							ms.Subs = []subCfg{masked, filtered}
						} else {
							ms.Subs = []subCfg{filtered, masked}
						}
						if _, ok := evalMulti(res, ms, drv, tie, mon); !ok {
							return
						}
					}
				}
			}
		}
	}
}
