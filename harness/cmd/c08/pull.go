package main

import (
	"context"
	"fmt"
	"math/rand"
	"sort"
	"strconv"
	"strings"
	"sync/atomic"
	"time"

	"google.golang.org/protobuf/proto"

	"github.com/smart-core-os/sc-api/go/traits"

	"github.com/smart-core-os/sc-golang/pkg/resource"
	"github.com/smart-core-os/sc-golang/verifharness/lib"
)

// session is one run of a real Collection with one Pull(WithInclude) subscriber.
//
// The first NBefore writes happen before the subscription.  The remaining writes are grouped in
// bursts; after every burst the harness performs a *fence write* (Add/Delete of the reserved id `~`,
// for which every predicate of the family answers `present`) and reads the subscriber's channel up to
// the fence event: everything the burst caused has then been delivered or dropped, with no timeout on
// the good path.  With backpressure every burst has one write (the stream is then deterministic);
// without, a burst has several writes and nothing is read while it runs, so the real
// mergeCollectionExcess goroutine merges.
type session struct {
	Kind    string   `json:"kind"` // "pull"
	Pred    pred     `json:"pred"`
	BP      bool     `json:"backpressure"`
	NBefore int      `json:"n_before"`
	Ops     []string `json:"ops"`    // `add:i:v` `upd:i:v` `ups:i:v` `del:i` `delc:i:v:k` (see applyOp), fences not included
	Bursts  []int    `json:"bursts"` // sizes; sum = len(Ops)-NBefore; first burst may be 0 (seed only)
	// Mask: "" | "keep1" | "keep2" — a read mask on two-field messages (values are two-character tokens)
	// keeping only the first resp. second field; the predicate still ranges over the full stored values
	Mask string `json:"mask,omitempty"`
	// Equiv: "" | "same" | "first" — resource.WithEquivalence on the collection, applied by Pull to the
	// (masked) old/new of a change after include: equal tokens resp. equal first field (absent ~ absent only)
	Equiv string `json:"equiv,omitempty"`
	// UpdatesOnly: Pull(WithUpdatesOnly(true)) — no seed; the subscriber folds onto List taken at subscribe time
	UpdatesOnly bool `json:"updates_only,omitempty"`
	// RaceFirst: the first write after the subscription (Ops[NBefore], the single write of the first
	// burst) is not issued after Pull has returned but by a concurrent writer that the include predicate
	// itself starts, and waits for (at most raceGrace), at its first evaluation inside Pull - i.e. while
	// Pull is computing the seed.  "The seed is the filtered list, and every later change is reported"
	// under a writer that is as concurrent as a writer can be: on the code as it is the writer cannot
	// commit before the listener is registered (the seed is computed and the listener registered under one
	// read lock), so the stream is the same as without the race.
	RaceFirst bool `json:"race_first,omitempty"`
	// Wide: the stored messages are two-field tokens although this subscriber may have no read mask (the
	// sessions of the shared-bus family, multi.go: one collection, several differently configured subscribers)
	Wide bool `json:"wide,omitempty"`
	// Icpt: "" | "lower" - the collection is built WithIDInterceptor(strings.ToLower) (a case-insensitive
	// collection) and the ops carry the ids as the callers spell them (`A` for `a`).  The spec (shadow map,
	// predicates, folds) lives on canonical ids only: whatever a writer's spelling, the item, its seed, its
	// events and its List entry are `a`'s.
	Icpt string `json:"id_interceptor,omitempty"`
	// JoinIn: the subscription happens INSIDE the first write after it: Ops[NBefore] is a re-entrant write
	// (`addc/updc/upsc:i:v:w`) that is started before Pull; its check callback upserts the item to w (another
	// writer overtaking it) and then parks - the write sits between its read and its write lock - until the
	// harness has called Pull; then it goes on to its re-check, saves and announces.  The subscriber's seed
	// contains the overtaking write; the parked write's change, which is stamped and published after the
	// subscription, must reach the subscriber like any other (it is judged by include from the value the seed
	// carried).  If the write fails before its callback runs, the subscription simply follows it.
	JoinIn bool `json:"join_in,omitempty"`
}

// joinInRan: does the callback of the JoinIn write run (the write's first read succeeds)?  Decided on the
// plain-map spec; `pre` is the state before the write.
func (s session) joinInner(pre shadow) (inner string, ran bool) {
	if !s.JoinIn || len(s.Ops) <= s.NBefore {
		return "", false
	}
	op := canonOp(s.Icpt, s.Ops[s.NBefore])
	cp := shadow{}
	for k, v := range pre {
		cp[k] = v
	}
	_, evs := cp.apply(op)
	q := strings.Split(op, ":")
	return "ups:" + q[1] + ":" + q[3], len(evs) > 0
}

// canonOp is the write on the canonical id: what the plain-map spec is given.
func canonOp(icpt, op string) string {
	if icpt != "lower" {
		return op
	}
	q := strings.Split(op, ":")
	if len(q) > 1 {
		q[1] = strings.ToLower(q[1])
	}
	return strings.Join(q, ":")
}

// collectionOpts: the options of the session's collection (equivalence, id interceptor).
func collectionOpts(equiv, icpt string) []resource.Option {
	var copts []resource.Option
	if equiv != "" {
		copts = append(copts, resource.WithEquivalence(resource.ComparerFunc(func(x, y proto.Message) bool {
			return equivTok(equiv, tokOf(x), tokOf(y))
		})))
	}
	if icpt == "lower" {
		copts = append(copts, resource.WithIDInterceptor(strings.ToLower))
	}
	return copts
}

// respell gives some of the ops' ids another spelling the interceptor maps back (upper case).
func respell(r *rand.Rand, ops []string) []string {
	out := make([]string, len(ops))
	for i, op := range ops {
		q := strings.Split(op, ":")
		if r.Intn(2) == 0 {
			q[1] = strings.ToUpper(q[1])
		}
		out[i] = strings.Join(q, ":")
	}
	return out
}

const raceGrace = 20 * time.Millisecond

// equivTok is the configured equivalence on value tokens ("-" = absent); reflexive and transitive.
func equivTok(kind, a, b string) bool {
	switch kind {
	case "same":
		return a == b
	case "first":
		if a == "-" || b == "-" {
			return a == b
		}
		return a[0] == b[0]
	}
	return a == b
}

func (s session) fenceAdd() string {
	if s.Mask != "" || s.Wide {
		return "add:" + fenceID + ":ff"
	}
	return "add:" + fenceID + ":f"
}

// projTok is what the read mask leaves of a value token.
func projTok(mask, tok string) string {
	if tok == "-" || len(tok) != 2 {
		return tok
	}
	switch mask {
	case "keep1":
		return tok[:1] + "_"
	case "keep2":
		return "_" + tok[1:]
	}
	return tok
}

func (s session) opSuffix() string {
	if s.Mask == "" && s.Equiv == "" && !s.UpdatesOnly && s.Icpt == "" {
		return ""
	}
	m, e, u := s.Mask, s.Equiv, "0"
	if m == "" {
		m = "none"
	}
	if e == "" {
		e = "none"
	}
	if s.UpdatesOnly {
		u = "1"
	}
	if s.Icpt != "" {
		return ":" + m + ":" + e + ":" + u + ":" + s.Icpt
	}
	return ":" + m + ":" + e + ":" + u
}

func (s session) maskOpts() []resource.ReadOption {
	switch s.Mask {
	case "keep1":
		return []resource.ReadOption{resource.WithReadPaths(&traits.Booking{}, "title")}
	case "keep2":
		return []resource.ReadOption{resource.WithReadPaths(&traits.Booking{}, "owner_name")}
	}
	return nil
}

type burstObs struct {
	Ops      []string // writes of the burst including the closing fence write
	Results  []string // per write: "ok" | "fail"
	Events   []string // canonical delivered events (time 0), the fence event last
	List     string   // List(WithInclude) after the burst: id=v,...
	FenceOK  bool
	Blocked  bool // a write of the burst did not return within fenceTimeout
	Raced    bool // the burst's first write was started by the predicate during Pull (RaceFirst)
	Panicked string
}

// fenceTimeout bounds every wait on the real code (a write returning, a fence event arriving).  On the
// code as it is nothing ever waits that long; on a broken tree a session that gets stuck costs two such
// waits (the run and its confirmation), so once ONE stuck session has been confirmed the bound drops to
// stuckTimeout for the rest of the run (and the family is abandoned after a few more): a broken pipeline
// must not stretch the quick tier by minutes.
var fenceTimeout = 5 * time.Second

const stuckTimeout = 750 * time.Millisecond

// stuckSeen counts the stuck sessions of all families; a family that meets one after another family has
// already been abandoned gives up at once.
var stuckSeen = 0

func tooManyStuck(own int) bool { return own > 4 || (own > 0 && stuckSeen > 5) }

func applyOp(c *resource.Collection, op string) error { return applyOpHook(c, op, nil) }

// applyOpHook: `hook` (if not nil) is called inside the check callback of a re-entrant Add/Update, right after
// the callback's own write - i.e. while the outer write sits between its read and its write lock, no lock held.
func applyOpHook(c *resource.Collection, op string, hook func()) error {
	q := strings.Split(op, ":")
	var err error
	switch q[0] {
	case "add":
		_, err = c.Add(q[1], msgOf(q[2]))
	case "upd":
		_, err = c.Update(q[1], msgOf(q[2]))
	case "ups":
		_, err = c.Update(q[1], msgOf(q[2]), resource.WithCreateIfAbsent())
	case "del":
		_, err = c.Delete(q[1])
	case "delc":
		// Delete with a check callback that, on its first k invocations, writes to the collection itself
		// (no lock is held while it runs): Delete's re-check under the lock then sees another item and retries
		k, _ := strconv.Atoi(q[3])
		calls := 0
		_, err = c.Delete(q[1], resource.WithExpectedCheck(func(proto.Message) error {
			calls++
			if calls <= k {
				if q[2] == "-" {
					_, _ = c.Delete(q[1])
				} else {
					_, _ = c.Update(q[1], msgOf(q[2]))
				}
			}
			return nil
		}))
	case "addc", "updc", "upsc":
		// Add / Update / Update(WithCreateIfAbsent) of q[1] to q[2] whose check callback (run by the change
		// function, no lock held) first upserts the item itself to q[3]
		var wopts []resource.WriteOption
		switch q[0] {
		case "addc":
			wopts = append(wopts, resource.WithExpectAbsent(), resource.WithCreateIfAbsent())
		case "upsc":
			wopts = append(wopts, resource.WithCreateIfAbsent())
		}
		wopts = append(wopts, resource.WithExpectedCheck(func(proto.Message) error {
			_, _ = c.Update(q[1], msgOf(q[3]), resource.WithCreateIfAbsent())
			if hook != nil {
				hook()
			}
			return nil
		}))
		_, err = c.Update(q[1], msgOf(q[2]), wopts...)
	case "delv":
		_, err = c.Delete(q[1], resource.WithExpectedValue(msgOf(q[2])))
	case "dela":
		_, err = c.Delete(q[1], resource.WithAllowMissing(true))
	default:
		panic("bad op " + op)
	}
	return err
}

// isOptionDelete: a Delete with options; the model's answer for it never says `fail` (its result is
// judged by the monitor against the plain-map spec, the answer lists what is delivered).
func isOptionDelete(op string) bool {
	switch strings.SplitN(op, ":", 2)[0] {
	case "delc", "delv", "dela", "addc", "updc", "upsc": // (the re-entrant writes too)
		return true
	}
	return false
}

// listWithInclude calls the real List(WithInclude p) and re-attaches ids through a recording wrapper
// of the predicate (List returns bare messages).
func listWithInclude(c *resource.Collection, p pred, extra ...resource.ReadOption) string {
	var ids []string
	opts := append([]resource.ReadOption{}, extra...)
	if !p.Nil {
		ff := p.filterFunc()
		opts = append(opts, resource.WithInclude(func(id string, m proto.Message) bool {
			r := ff(id, m)
			if r {
				ids = append(ids, id)
			}
			return r
		}))
	}
	got := c.List(opts...)
	if p.Nil {
		// no predicate to record through: recover the ids by Get over the known universe
		for _, id := range []string{"a", "b", "c", fenceID} {
			if _, ok := c.Get(id); ok {
				ids = append(ids, id)
			}
		}
	}
	sort.Strings(ids)
	if len(ids) != len(got) {
		return fmt.Sprintf("!len(ids)=%d,len(list)=%d", len(ids), len(got))
	}
	if len(got) == 0 {
		return "-"
	}
	parts := make([]string, len(got))
	for i := range got {
		parts[i] = ids[i] + "=" + tokOf(got[i])
	}
	return strings.Join(parts, ",")
}

// run executes the session on the real code.  Returns the seed burst observation first.
func (s session) run() (obs []burstObs) {
	c := resource.NewCollection(collectionOpts(s.Equiv, s.Icpt)...)
	for _, op := range s.Ops[:s.NBefore] {
		_ = applyOp(c, op)
	}
	ctx, cancel := context.WithCancel(context.Background())
	defer cancel()
	var opts []resource.ReadOption
	// the concurrent writer of a RaceFirst session
	var armed atomic.Bool
	raceStarted := false
	raceDone := make(chan struct{})
	var raceRes, racePanic string
	if ff := s.Pred.filterFunc(); ff != nil {
		if s.RaceFirst && len(s.Ops) > s.NBefore {
			raceOp := s.Ops[s.NBefore]
			plain := ff
			ff = func(id string, m proto.Message) bool {
				if armed.CompareAndSwap(true, false) {
					raceStarted = true // same goroutine as the Pull call below
					go func() {
						defer close(raceDone)
						panicked, msg := lib.Catch(func() {
							if err := applyOp(c, raceOp); err != nil {
								raceRes = "fail"
							} else {
								raceRes = "ok"
							}
						})
						if panicked {
							racePanic = msg
						}
					}()
					select {
					case <-raceDone:
					case <-time.After(raceGrace):
					}
				}
				return plain(id, m)
			}
		}
		opts = append(opts, resource.WithInclude(ff))
	}
	opts = append(opts, resource.WithBackpressure(s.BP))
	opts = append(opts, s.maskOpts()...)
	if s.UpdatesOnly {
		opts = append(opts, resource.WithUpdatesOnly(true))
	}
	armed.Store(s.RaceFirst)
	resume := make(chan struct{})
	if s.JoinIn && len(s.Ops) > s.NBefore {
		// the write inside which the subscription happens: parked in its callback after the overtaking write
		joinOp := s.Ops[s.NBefore]
		parked := make(chan struct{})
		raceStarted = true
		go func() {
			defer close(raceDone)
			panicked, msg := lib.Catch(func() {
				once := false
				err := applyOpHook(c, joinOp, func() {
					if !once {
						once = true
						close(parked)
						<-resume
					}
				})
				if err != nil {
					raceRes = "fail"
				} else {
					raceRes = "ok"
				}
			})
			if panicked {
				racePanic = msg
			}
		}()
		select {
		case <-parked:
		case <-raceDone: // failed before its callback ran
		case <-time.After(fenceTimeout):
		}
	}
	ch := c.Pull(ctx, opts...)
	armed.Store(false)

	// gated consumer: reads only while a drain is requested, up to the fence event
	drainReq := make(chan struct{})
	drained := make(chan []string, 1)
	go func() {
		for range drainReq {
			var evs []string
			timer := time.NewTimer(fenceTimeout)
		loop:
			for {
				select {
				case ev, ok := <-ch:
					if !ok {
						evs = append(evs, "closed")
						break loop
					}
					evs = append(evs, showChange(ev, false))
					if ev.Id == fenceID {
						break loop
					}
				case <-timer.C:
					evs = append(evs, "timeout")
					break loop
				}
			}
			timer.Stop()
			drained <- evs
		}
	}()
	defer close(drainReq)

	fenceOn := false
	rest := s.Ops[s.NBefore:]
	for bi, n := range s.Bursts {
		var b burstObs
		raced := bi == 0 && raceStarted && n >= 1 // the burst's first write is already under way
		b.Raced = raced
		burst := append([]string{}, rest[:n]...)
		rest = rest[n:]
		if fenceOn {
			burst = append(burst, "del:"+fenceID)
		} else {
			burst = append(burst, s.fenceAdd())
		}
		fenceOn = !fenceOn
		b.Ops = burst
		if s.BP {
			// with backpressure a write blocks until the forwarding goroutine has taken the event, and
			// that goroutine blocks on us: read while writing
			drainReq <- struct{}{}
		}
		// the writes run in their own goroutine so that a write that never returns is an observation,
		// not a hang of the harness
		type wres struct {
			results  []string
			panicked string
		}
		wdone := make(chan wres, 1)
		go func() {
			var w wres
			panicked, msg := lib.Catch(func() {
				for oi, op := range burst {
					if raced && oi == 0 {
						if s.JoinIn {
							close(resume)
						}
						<-raceDone
						if racePanic != "" {
							panic(racePanic)
						}
						w.results = append(w.results, raceRes)
						continue
					}
					if err := applyOp(c, op); err != nil {
						w.results = append(w.results, "fail")
					} else {
						w.results = append(w.results, "ok")
					}
				}
			})
			if panicked {
				w.panicked = msg
			}
			wdone <- w
		}()
		panicked := false
		select {
		case w := <-wdone:
			b.Results = w.results
			if w.panicked != "" {
				b.Panicked, panicked = w.panicked, true
			}
		case <-time.After(fenceTimeout):
			b.Blocked = true
			obs = append(obs, b)
			cancel() // lets the blocked bus.Send give up (listener context cancelled)
			return obs
		}
		if !s.BP {
			drainReq <- struct{}{}
		}
		b.Events = <-drained
		b.FenceOK = len(b.Events) > 0 && strings.HasPrefix(b.Events[len(b.Events)-1], fenceID+",")
		b.List = listWithInclude(c, s.Pred, s.maskOpts()...)
		obs = append(obs, b)
		if !b.FenceOK || panicked {
			break
		}
	}
	return obs
}

// --- independent oracle ---------------------------------------------------------------------------

type shadow map[string]string

// pubEvent is one event a write publishes, in the property's vocabulary.
type pubEvent struct{ id, kind, old, new string }

// apply performs the write on the plain map; returns whether the call succeeds and the events it
// publishes (a plain write: at most one; a Delete whose callback writes: the callback's and its own).
func (sh shadow) apply(op string) (ok bool, evs []pubEvent) {
	q := strings.Split(op, ":")
	id := q[1]
	cur, present := sh[id]
	switch q[0] {
	case "add":
		if present {
			return false, nil
		}
		sh[id] = q[2]
		return true, []pubEvent{{id, "ADD", "-", q[2]}}
	case "upd", "ups":
		if !present {
			if q[0] == "upd" {
				return false, nil
			}
			sh[id] = q[2]
			return true, []pubEvent{{id, "ADD", "-", q[2]}}
		}
		sh[id] = q[2]
		return true, []pubEvent{{id, "UPDATE", cur, q[2]}}
	case "del":
		if !present {
			return false, nil
		}
		delete(sh, id)
		return true, []pubEvent{{id, "REMOVE", cur, "-"}}
	case "addc", "updc", "upsc":
		// spec of a write whose callback upserts the item first: the call reads (an absent item reads as the
		// empty message when it may be created), the callback's write happens, and the call goes through iff
		// what is stored then still reads the same BY VALUE; its event is an ADD iff nothing is stored then
		create, expectAbsent := q[0] != "updc", q[0] == "addc"
		read := func() (string, bool) {
			cur, present := sh[id]
			switch {
			case present && expectAbsent, !present && !create:
				return "", false
			case present:
				return cur, true
			}
			return emptyOf(q[2]), true
		}
		rv, ok := read()
		if !ok {
			return false, nil
		}
		// the callback: upsert(id, q[3])
		if cur, present := sh[id]; present {
			evs = append(evs, pubEvent{id, "UPDATE", cur, q[3]})
		} else {
			evs = append(evs, pubEvent{id, "ADD", "-", q[3]})
		}
		sh[id] = q[3]
		av, ok := read()
		if !ok || av != rv {
			return false, evs
		}
		evs = append(evs, pubEvent{id, "UPDATE", sh[id], q[2]})
		sh[id] = q[2]
		return true, evs
	case "delv":
		// Delete(WithExpectedValue(w)): deletes iff the stored value is w
		if !present || cur != q[2] {
			return false, nil
		}
		delete(sh, id)
		return true, []pubEvent{{id, "REMOVE", cur, "-"}}
	case "dela":
		// Delete(WithAllowMissing(true)): a missing item is not an error
		if !present {
			return true, nil
		}
		delete(sh, id)
		return true, []pubEvent{{id, "REMOVE", cur, "-"}}
	case "delc":
		// spec of a Delete that is interfered with k times: the interfering writes happen one by one, each
		// makes Delete start over (at most 5 attempts), and what is finally removed - and announced - is
		// the value stored at that moment
		k, _ := strconv.Atoi(q[3])
		for attempt := 0; attempt < 5; attempt++ {
			cur, present = sh[id]
			if !present {
				return false, evs
			}
			if attempt < k {
				if q[2] == "-" {
					delete(sh, id)
					evs = append(evs, pubEvent{id, "REMOVE", cur, "-"})
				} else {
					sh[id] = q[2]
					evs = append(evs, pubEvent{id, "UPDATE", cur, q[2]})
				}
				continue
			}
			delete(sh, id)
			return true, append(evs, pubEvent{id, "REMOVE", cur, "-"})
		}
		return false, evs
	}
	panic("bad op " + op)
}

func (sh shadow) filtered(p pred, mask string) string {
	var ids []string
	for id, v := range sh {
		if p.in(id, v) {
			ids = append(ids, id)
		}
	}
	sort.Strings(ids)
	if len(ids) == 0 {
		return "-"
	}
	parts := make([]string, len(ids))
	for i, id := range ids {
		parts[i] = id + "=" + projTok(mask, sh[id])
	}
	return strings.Join(parts, ",")
}

// viewFold folds delivered events strictly, as a subscriber holding a map would, reporting the first
// event that is not well formed at the view it arrives at.
type viewFold struct {
	view  map[string]string
	notWF string
	equiv string // with an equivalence, suppressed changes leave the view only equivalent: old must be ~ current
}

func (vf *viewFold) apply(ev string) {
	f := splitComma(ev)
	if len(f) != 7 {
		if vf.notWF == "" {
			vf.notWF = ev
		}
		return
	}
	id, kind, old, new := f[0], f[1], f[3], f[4]
	cur, present := vf.view[id]
	ok := false
	switch kind {
	case "ADD":
		ok = !present && old == "-" && new != "-"
	case "UPDATE", "REPLACE":
		ok = present && equivTok(vf.equiv, cur, old) && new != "-"
	case "REMOVE":
		ok = present && equivTok(vf.equiv, cur, old) && new == "-"
	}
	if !ok && vf.notWF == "" {
		vf.notWF = ev
	}
	if kind == "REMOVE" {
		delete(vf.view, id)
	} else {
		vf.view[id] = new // a nil NewValue leaves a phantom entry, as it would in a subscriber's map
	}
}

func (vf *viewFold) String() string {
	var ids []string
	for id := range vf.view {
		ids = append(ids, id)
	}
	sort.Strings(ids)
	if len(ids) == 0 {
		return "-"
	}
	parts := make([]string, len(ids))
	for i, id := range ids {
		parts[i] = id + "=" + vf.view[id]
	}
	return strings.Join(parts, ",")
}

// viewsEquivalent: same ids and, id by id, values related by the configured equivalence (equality without one).
func viewsEquivalent(equiv, a, b string) bool {
	if a == b {
		return true
	}
	if equiv == "" || a == "-" || b == "-" {
		return false
	}
	pa, pb := strings.Split(a, ","), strings.Split(b, ",")
	if len(pa) != len(pb) {
		return false
	}
	for i := range pa {
		ka, kb := strings.SplitN(pa[i], "=", 2), strings.SplitN(pb[i], "=", 2)
		if ka[0] != kb[0] || !equivTok(equiv, ka[1], kb[1]) {
			return false
		}
	}
	return true
}

func bpName(b bool) string {
	if b {
		return "on"
	}
	return "off"
}

// monitor evaluates the property on the observations of one session.
func (s session) monitor(m sink, obs []burstObs) {
	sh := shadow{}
	for _, op := range s.Ops[:s.NBefore] {
		sh.apply(canonOp(s.Icpt, op))
	}
	// JoinIn: the subscription sees the overtaking write of the parked write's callback; the parked write itself
	// is judged from the state before it
	var shPre shadow
	if s.JoinIn {
		shPre = shadow{}
		for k, v := range sh {
			shPre[k] = v
		}
		if inner, ran := s.joinInner(sh); ran {
			sh.apply(inner)
			m.Count("subscription inside a write's callback, after an overtaking write (JoinIn)")
		}
	}
	pre := "C08/Pull/bp=" + bpName(s.BP) + "/"
	if s.Icpt != "" {
		m.Count("collection with an id interceptor")
	}
	vf := &viewFold{view: map[string]string{}, equiv: s.Equiv}
	if s.UpdatesOnly {
		// no seed: the subscriber folds onto the (masked) filtered collection it listed when subscribing
		for id, v := range sh {
			if s.Pred.in(id, v) {
				vf.view[id] = projTok(s.Mask, v)
			}
		}
	}
	nontrivial := !s.Pred.Nil
	for bi, b := range obs {
		if b.Raced && !s.JoinIn {
			m.Count("first write started by the predicate during Pull's seed (RaceFirst)")
		}
		if b.Panicked != "" {
			m.Violate(pre+"panic", "a write panicked while an include-filtered Pull was open", s, "no panic", b.Panicked)
			return
		}
		if b.Blocked {
			m.Violate(pre+"write-blocked", "a write did not return within 5s while an include-filtered Pull was open and (with backpressure) being read", s, "write returns", "blocked in burst "+strings.Join(b.Ops, " "))
			return
		}
		if !b.FenceOK {
			m.Violate(pre+"fence-lost", "the ADD/REMOVE of an item whose inclusion flips (the fence id) was not delivered within 5s", s, "fence event", showChanges(b.Events))
			return
		}
		events := b.Events
		// expected per-write events (exact with backpressure)
		var expected []expectation
		for oi, op := range b.Ops {
			if op != canonOp(s.Icpt, op) {
				m.Count("write under a non-canonical spelling of the id: " + strings.Split(op, ":")[0])
			}
			var ok bool
			var pubs []pubEvent
			if s.JoinIn && bi == 0 && oi == 0 && len(b.Ops) > 1 {
				// the parked write as a whole from the state before it; its callback's write was published before
				// the subscription, the rest after
				ok, pubs = shPre.apply(canonOp(s.Icpt, op))
				if len(pubs) > 0 {
					pubs = pubs[1:]
				}
				sh = shPre
			} else {
				ok, pubs = sh.apply(canonOp(s.Icpt, op))
			}
			want := "ok"
			if !ok {
				want = "fail"
			}
			if oi < len(b.Results) && b.Results[oi] != want {
				m.Violate("C08/write/"+strings.Split(op, ":")[0]+"/wrong-result", "write result differs from a plain map", s, want, b.Results[oi])
			}
			if len(pubs) > 1 {
				m.Count(fmt.Sprintf("write publishing %d events (re-entrant write or delete)", len(pubs)))
			}
			for _, pe := range pubs {
				id, kind := pe.id, pe.kind
				exp, oin, nin := expectedEvent(s.Pred, id, kind, "0", pe.old, pe.new, "0", "0")
				if exp != "drop" && s.Mask != "" {
					// include judges the stored values; the mask then projects what is delivered
					ef := splitComma(exp)
					ef[3], ef[4] = projTok(s.Mask, ef[3]), projTok(s.Mask, ef[4])
					exp = strings.Join(ef, ",")
				}
				if exp != "drop" && s.Equiv != "" {
					// the equivalence judges the masked old/new of what include forwards
					if ef := splitComma(exp); equivTok(s.Equiv, ef[3], ef[4]) {
						exp = "drop"
					}
				}
				cell := fmt.Sprintf("%s/%s-%s/pAbsent=%s", kind, inout(oin), inout(nin), tf(!s.Pred.Nil && s.Pred.eval(id, "-")))
				if id != fenceID {
					m.Count("cell " + kind + "/" + inout(oin) + "-" + inout(nin))
				}
				expected = append(expected, expectation{exp: exp, cell: cell, fence: id == fenceID})
			}
		}
		if bi == 0 {
			// the seed: ADD of every listed item, sorted by id, SeedValue set, LastSeedValue on the last
			nseed := 0
			for nseed < len(events) && isSeed(events[nseed]) {
				nseed++
			}
			var seedView []string
			for i, ev := range events[:nseed] {
				f := splitComma(ev)
				seedView = append(seedView, f[0]+"="+f[4])
				last := "0"
				if i == nseed-1 {
					last = "1"
				}
				if f[1] != "ADD" || f[3] != "-" || f[6] != last {
					m.Violate("C08/Pull/seed/malformed", "seed events must be ADDs with LastSeedValue exactly on the last", s, "ADD,-,v,1,"+last, ev)
				}
			}
			sv := "-"
			if len(seedView) > 0 {
				sv = strings.Join(seedView, ",")
			}
			// state at subscription = shadow before this burst's writes: recompute
			sh0 := shadow{}
			for _, op := range s.Ops[:s.NBefore] {
				sh0.apply(canonOp(s.Icpt, op))
			}
			if inner, ran := s.joinInner(sh0); ran {
				sh0.apply(inner)
			}
			want := sh0.filtered(s.Pred, s.Mask)
			if s.UpdatesOnly {
				want = "-" // WithUpdatesOnly: no seed at all
			}
			if sv != want {
				m.Violate("C08/Pull/seed/not-filtered-list", "the seed is not the filtered list", s, want, sv)
			}
		}
		if s.BP {
			// exact edit script: the burst is [one write]? + fence; between the seed and the fence event the
			// subscriber must have been sent exactly the write's expected event (nothing for out-out / failed writes)
			body := events
			for len(body) > 0 && isSeed(body[0]) {
				body = body[1:]
			}
			body = body[:len(body)-1] // the fence event (FenceOK)
			// the write's published events in order (usually one; a re-entrant delete publishes several)
			var writeExps, wantList []expectation
			var dropped *expectation
			for i := range expected {
				if expected[i].fence {
					continue
				}
				writeExps = append(writeExps, expected[i])
				if expected[i].exp == "drop" {
					dropped = &expected[i]
				} else {
					wantList = append(wantList, expected[i])
				}
			}
			var wantStrs []string
			for _, e := range wantList {
				wantStrs = append(wantStrs, e.exp)
			}
			wantAll := "nothing"
			if len(wantStrs) > 0 {
				wantAll = showChanges(wantStrs)
			}
			switch {
			case len(writeExps) == 0:
				if len(body) > 0 {
					m.Violate(pre+"spurious-event", "an event was delivered although no write succeeded", s, "nothing", showChanges(body))
				}
			default:
				reported := false
				for i, e := range wantList {
					if i >= len(body) {
						m.Violate(pre+e.cell+"/not-delivered", "a change the filtered collection undergoes was not delivered", s, wantAll, showChanges(body))
						reported = true
						break
					}
					if !matchEvent(e.exp, body[i]) {
						m.Violate(pre+e.cell+"/wrong-event", "the delivered stream is not the filtered edit script", s, wantAll, showChanges(body))
						reported = true
						break
					}
				}
				if !reported && len(body) > len(wantList) {
					if dropped != nil {
						m.Violate(pre+dropped.cell+"/delivered", "a change to an item that matches neither before nor after was delivered", s, wantAll, showChanges(body))
					} else {
						m.Violate(pre+writeExps[len(writeExps)-1].cell+"/wrong-event", "the delivered stream is not the filtered edit script", s, wantAll, showChanges(body))
					}
				}
			}
		}
		for _, ev := range events {
			vf.apply(ev)
		}
		if vf.notWF != "" {
			m.Violate(pre+"event-not-well-formed", "a delivered event does not fit the subscriber's view (ADD of a present id / UPDATE or REMOVE of an absent id / wrong old value / missing value)", s, "well-formed edit", vf.notWF)
			vf.notWF = ""
		}
		want := sh.filtered(s.Pred, s.Mask)
		if got := vf.String(); !viewsEquivalent(s.Equiv, got, want) {
			m.Violate(pre+"fold-differs-from-filtered-collection", "folding the delivered stream does not give the filtered collection", s, want, got)
		}
		if b.List != want {
			m.Violate("C08/List/not-filtered-collection", "List(WithInclude) is not the filtered collection", s, want, b.List)
		}
		if got := vf.String(); !viewsEquivalent(s.Equiv, got, b.List) {
			m.Violate(pre+"fold-differs-from-List", "folding the delivered stream does not give List(WithInclude)", s, b.List, got)
		}
		m.Eval(fmt.Sprintf("%s/%v/%d/%s", s.Pred.token(), s.BP, s.NBefore, strings.Join(b.Ops, " ")), nontrivial, nil)
	}
}

type expectation struct {
	exp, cell string
	fence     bool
}

// isSeed: the canonical event has SeedValue set (robust to the markers "timeout"/"closed").
func isSeed(ev string) bool {
	f := splitComma(ev)
	return len(f) == 7 && f[5] == "1"
}

// --- generation -------------------------------------------------------------------------------------

var ids2 = []string{"a", "b"}
var ids3 = []string{"a", "b", "c"}
var vals2 = []string{"x", "y"}

var valsWide = []string{"xp", "xq", "yp", "yq"}

func genOps(r *rand.Rand, ids []string, vals2 []string, n int) []string {
	sh := shadow{}
	ops := make([]string, 0, n)
	for len(ops) < n {
		id := ids[r.Intn(len(ids))]
		v := vals2[r.Intn(len(vals2))]
		_, present := sh[id]
		var op string
		switch x := r.Intn(20); {
		case x < 1: // failing writes now and then
			if present {
				op = "add:" + id + ":" + v
			} else if y := r.Intn(5); y < 2 {
				op = "upd:" + id + ":" + v
			} else if y == 2 {
				op = "dela:" + id // absent and allowed to be
			} else {
				op = "del:" + id
			}
		case !present:
			switch y := r.Intn(12); {
			case y < 4:
				op = "ups:" + id + ":" + v
			case y < 5:
				// creating an absent item while the callback creates it holding the empty message / a value
				w := emptyOf(v)
				if r.Intn(3) == 0 {
					w = vals2[r.Intn(len(vals2))]
				}
				op = []string{"upsc", "addc"}[r.Intn(2)] + ":" + id + ":" + v + ":" + w
			default:
				op = "add:" + id + ":" + v
			}
		case x < 5:
			switch r.Intn(8) {
			case 0:
				op = "delv:" + id + ":" + v // WithExpectedValue: deletes iff the stored value is v
			case 1:
				op = "dela:" + id // WithAllowMissing
			default:
				op = "del:" + id
			}
		case x < 6:
			// a delete that is interfered with: its check callback writes to the item itself k times
			// (k = 5 exhausts the attempts: the delete fails after five published updates); now and then the
			// callback deletes the item instead
			k := []int{0, 1, 1, 1, 2, 5}[r.Intn(6)]
			w := vals2[r.Intn(len(vals2))]
			if r.Intn(6) == 0 {
				w = "-"
			}
			op = fmt.Sprintf("delc:%s:%s:%d", id, w, k)
		case x < 8:
			op = "ups:" + id + ":" + v
		case x < 9:
			// a write whose check callback upserts the item itself first (to w): it aborts unless w reads like
			// what the write read - the same value, or the empty message for an item it is about to create
			w := vals2[r.Intn(len(vals2))]
			if r.Intn(2) == 0 {
				w = emptyOf(v)
			}
			op = []string{"updc", "upsc", "upsc", "addc"}[r.Intn(4)] + ":" + id + ":" + v + ":" + w
		default:
			op = "upd:" + id + ":" + v
		}
		sh.apply(op)
		ops = append(ops, op)
	}
	return ops
}

func genSession(r *rand.Rand, bp bool, small bool) session {
	ids := ids2
	if !small && r.Intn(3) == 0 {
		ids = ids3
	}
	if !bp && r.Intn(4) == 0 {
		// lossy with a single id: long same-id sequences (remove, add, remove …) inside one merge window
		ids = ids[:1]
	}
	nb := r.Intn(4)
	na := 1 + r.Intn(6)
	if small {
		nb, na = r.Intn(3), 1+r.Intn(3)
	}
	vals, mask := vals2, ""
	if r.Intn(3) == 0 {
		// two-field messages under a read mask that strips one field; the predicate (a truth table over
		// the full values) may depend on the stripped field, the kept field, or both
		vals, mask = valsWide, []string{"keep1", "keep2"}[r.Intn(2)]
	}
	// the truth table also ranges over the empty message (an item a re-entrant write creates may hold it)
	pvals := append(append([]string{}, vals...), emptyOf(vals[0]))
	p := pred{Ids: ids, Vals: pvals}
	bits := uint(len(ids) * (len(pvals) + 1))
	p.Mask = uint64(r.Int63()) & (1<<bits - 1)
	if r.Intn(40) == 0 {
		p = pred{Nil: true}
	}
	s := session{Kind: "pull", Pred: p, BP: bp, NBefore: nb, Ops: genOps(r, ids, vals, nb+na), Mask: mask}
	if r.Intn(4) == 0 {
		s.Equiv = []string{"same", "first"}[r.Intn(2)]
	}
	if r.Intn(5) == 0 {
		s.UpdatesOnly = true
	}
	if r.Intn(6) == 0 {
		// a case-insensitive collection; half of the writes spell their id in upper case
		s.Icpt = "lower"
		s.Ops = respell(r, s.Ops)
	}
	if !p.Nil && nb > 0 && r.Intn(90) == 0 {
		// a writer as concurrent with the subscription as can be: see session.RaceFirst
		s.RaceFirst = true
	}
	if !s.RaceFirst && r.Intn(12) == 0 {
		// the subscription happens inside the first write after it (see session.JoinIn): that write is a
		// re-entrant one on an id of the history; two times in three its callback's overtaking write stores
		// what the write read (so its by-value re-check passes and it announces a change stamped after the
		// subscription), else anything
		pre := shadow{}
		for _, op := range s.Ops[:nb] {
			pre.apply(canonOp(s.Icpt, op))
		}
		id := ids[r.Intn(len(ids))]
		v := vals[r.Intn(len(vals))]
		w := vals[r.Intn(len(vals))]
		kind := []string{"updc", "upsc", "upsc", "addc"}[r.Intn(4)]
		if cur, present := pre[id]; r.Intn(3) != 0 {
			if present {
				w = cur
				if kind == "addc" {
					kind = "updc"
				}
			} else {
				w, kind = emptyOf(v), "upsc"
			}
		}
		if s.Icpt != "" && r.Intn(2) == 0 {
			id = strings.ToUpper(id)
		}
		s.JoinIn = true
		s.Ops[nb] = kind + ":" + id + ":" + v + ":" + w
	}
	if bp {
		if !s.RaceFirst && !s.JoinIn {
			s.Bursts = append(s.Bursts, 0)
		}
		for i := 0; i < na; i++ {
			s.Bursts = append(s.Bursts, 1)
		}
	} else {
		left := na
		if s.RaceFirst || s.JoinIn {
			s.Bursts = append(s.Bursts, 1)
			left--
		} else if r.Intn(2) == 0 {
			s.Bursts = append(s.Bursts, 0)
		}
		for left > 0 {
			k := 1 + r.Intn(4)
			if k > left {
				k = left
			}
			s.Bursts = append(s.Bursts, k)
			left -= k
		}
	}
	return s
}

// --- tie ----------------------------------------------------------------------------------------------

// decomposed: the session the model is asked about.  A JoinIn session is, on the code as it is, the session in
// which the parked write's callback write happens BEFORE the subscription as a write of its own and the parked
// write after it as a plain write: an Update when its re-check passes (the item is stored then), a write
// without any event when it aborts.
func (s session) decomposed() session {
	if !s.JoinIn || len(s.Ops) <= s.NBefore {
		return s
	}
	pre := shadow{}
	for _, op := range s.Ops[:s.NBefore] {
		pre.apply(canonOp(s.Icpt, op))
	}
	inner, ran := s.joinInner(pre)
	if !ran {
		return s // fails at its first read: nothing is published
	}
	op := s.Ops[s.NBefore]
	q := strings.Split(op, ":")
	ok, _ := pre.apply(canonOp(s.Icpt, op))
	outer := "dela:zz" // no event, no failure: the aborted write
	if ok {
		outer = "upd:" + q[1] + ":" + q[2]
	}
	d := s
	d.JoinIn = false
	d.Ops = append(append(append([]string{}, s.Ops[:s.NBefore]...), inner, outer), s.Ops[s.NBefore+1:]...)
	d.NBefore = s.NBefore + 1
	return d
}

// driverLines: what to ask the model for this session.
func (s session) driverLines() []string {
	if s.BP {
		// one `pull` line with the fences spliced in
		ops := append([]string{}, s.Ops[:s.NBefore]...)
		fenceOn := false
		rest := s.Ops[s.NBefore:]
		for _, n := range s.Bursts {
			ops = append(ops, rest[:n]...)
			rest = rest[n:]
			if fenceOn {
				ops = append(ops, "del:"+fenceID)
			} else {
				ops = append(ops, s.fenceAdd())
			}
			fenceOn = !fenceOn
		}
		return []string{fmt.Sprintf("pull"+s.opSuffix()+" %s %d %s", s.Pred.token(), s.NBefore, strings.Join(ops, " "))}
	}
	// lossy: the seed through `pull`, then one `burst` line per burst
	lines := []string{strings.TrimSpace(fmt.Sprintf("pull"+s.opSuffix()+" %s %d %s", s.Pred.token(), s.NBefore, strings.Join(s.Ops[:s.NBefore], " ")))}
	hist := append([]string{}, s.Ops[:s.NBefore]...)
	fenceOn := false
	rest := s.Ops[s.NBefore:]
	for _, n := range s.Bursts {
		burst := append([]string{}, rest[:n]...)
		rest = rest[n:]
		if fenceOn {
			burst = append(burst, "del:"+fenceID)
		} else {
			burst = append(burst, s.fenceAdd())
		}
		fenceOn = !fenceOn
		lines = append(lines, fmt.Sprintf("burst"+s.opSuffix()+" %s %d %s", s.Pred.token(), len(hist), strings.Join(append(append([]string{}, hist...), burst...), " ")))
		hist = append(hist, burst...)
	}
	return lines
}

// codeAnswer renders the observations in the shape of the model's `pull` answer (backpressure on).
func (s session) codeAnswerBP(obs []burstObs) string {
	var parts []string
	for bi, b := range obs {
		events := b.Events
		if bi == 0 {
			n := 0
			for n < len(events) && isSeed(events[n]) {
				n++
			}
			parts = append(parts, "seed="+showChanges(events[:n]))
			events = events[n:]
		}
		// one write then the fence
		for oi := range b.Ops {
			isFence := oi == len(b.Ops)-1
			ev := "drop"
			if !isFence && len(events) > 1 {
				// everything before the fence event belongs to the write (a re-entrant delete publishes
				// several, also when it fails in the end)
				ev = strings.Join(events[:len(events)-1], ";")
				events = events[len(events)-1:]
			} else if oi < len(b.Results) && b.Results[oi] == "fail" && !isOptionDelete(b.Ops[oi]) {
				// (a re-entrant delete may fail after publishing events that include drops: its result is
				// judged by the monitor, the model's answer only lists what is delivered)
				ev = "fail"
			} else if isFence {
				if len(events) > 0 {
					ev = events[len(events)-1]
					events = events[:len(events)-1]
				}
			}
			if isFence {
				if len(events) > 0 {
					ev = "surplus:" + showChanges(events) + ";" + ev
				}
				parts = append(parts, ev+"@"+b.List)
			} else {
				parts = append(parts, ev+"@?")
			}
		}
	}
	return strings.Join(parts, " ")
}

// modelAnswerBP drops the per-write List of non-fence writes from the model's answer (the harness
// observes List only at fences).
func modelAnswerBP(ans string, obs []burstObs) string {
	toks := strings.Split(ans, " ")
	if len(toks) == 0 {
		return ans
	}
	out := []string{toks[0]}
	i := 1
	for _, b := range obs {
		for oi := range b.Ops {
			if i >= len(toks) {
				break
			}
			t := toks[i]
			i++
			if oi != len(b.Ops)-1 {
				if k := strings.LastIndex(t, "@"); k >= 0 {
					t = t[:k] + "@?"
				}
			}
			out = append(out, t)
		}
	}
	return strings.Join(out, " ")
}

func runPull(f lib.Flags, res *lib.Result, drv *lib.Driver) {
	tieBP := res.Tie("pull-backpressure", "K1",
		"random write histories (Add/Update/Update+CreateIfAbsent/Delete incl. failing writes) over 2-3 ids x 2 values on a real Collection, subscription after a random prefix, Pull(WithInclude p, WithBackpressure(true)) with p a random truth table over (id, {absent} + values); a third of the sessions use two-field messages (4 values) under a read mask that strips one of the fields, the truth table ranging over the full stored values (so it may depend on the stripped field, the kept one, or both) — model: include on the unmasked values, then the mask's projection on seeds, events and List; a quarter of the sessions configure an equivalence on the collection (equal values / equal first field, judged on the masked old/new after include) and a fifth subscribe with WithUpdatesOnly (no seed); one write in twenty is a Delete whose WithExpectedCheck callback writes to the item itself on its first k in {0,1,2,5} invocations (Update, or Delete), so that Delete goes round its retry loop and publishes several events (k = 5 exhausts the attempts); one session in ninety has its first write after the subscription started by the include predicate itself at its first evaluation inside Pull (a writer concurrent with the computation of the seed; the predicate waits 20 ms for it); after each write a fence write, then the delivered events and List(WithInclude p) are compared with the model's `pull` answer; non-trivial = predicate not nil; distinct = (predicate, history)")
	tieLossy := res.Tie("pull-lossy", "K1",
		"same histories with WithBackpressure(false): writes in bursts of 1-4 with nothing read meanwhile (the real mergeCollectionExcess merges), then drained to a fence; the delivered stream of each burst must be one of the streams the model produces over all recv/emit patterns (acceptor); model side = the delivered stream if accepted, else the model's set")
	mon := res.Monitor("pull-fold", "on the same sessions, independent of the model: seed = filtered list; with backpressure the delivered stream is exactly the filtered edit script per write (in-in delivered as is, out-in ADD, in-out REMOVE, out-out nothing); every delivered event is well formed at the subscriber's view; after every burst fold(delivered) = filtered shadow map = List(WithInclude p); distinct = (predicate, burst)")
	r := lib.NewRand(f.Seed)
	n := f.N(6000, 40000)
	stuck := 0
	for i := 0; i < n; i++ {
		bp := i%2 == 0
		s := genSession(r, bp, i < n/5)
		if evalSession(res, s, drv, tieBP, tieLossy, mon) {
			stuck++
			stuckSeen++
			fenceTimeout = stuckTimeout
			if tooManyStuck(stuck) {
				// every such session costs seconds; the pipeline is broken beyond doubt
				err := fmt.Errorf("aborted after %d sessions in which a write or the fence did not come through within the time limit", stuck)
				tieBP.Fail(err)
				tieLossy.Fail(err)
				break
			}
		}
	}
}

// evalSession returns true when the session got stuck (a write blocked or a fence was lost).
func evalSession(res *lib.Result, s session, drv *lib.Driver, tieBP, tieLossy *lib.Tie, mon sink) (stuck bool) {
	// a violation is reported only if it reproduces on a fresh collection (confirm.go); the tie uses the first run
	var obs []burstObs
	runs := 0
	confirmed(res, mon, func(sk sink) any {
		o := s.run()
		if runs == 0 {
			obs = o
		}
		runs++
		s.monitor(sk, o)
		return o
	}, func(t1, t2 any) any { return enrich(s, t1, t2) })
	for _, b := range obs {
		if b.Blocked || !b.FenceOK {
			stuck = true
		}
	}
	if drv == nil {
		return
	}
	lines := s.decomposed().driverLines()
	ans, err := drv.Batch(lines)
	if err != nil {
		if s.BP {
			tieBP.Fail(err)
		} else {
			tieLossy.Fail(err)
		}
		return
	}
	key := fmt.Sprintf("%s/%d/%s/%v", s.Pred.token(), s.NBefore, strings.Join(s.Ops, " "), s.Bursts)
	if s.BP {
		tieBP.Record(key, !s.Pred.Nil, s, modelAnswerBP(ans[0], obs), s.codeAnswerBP(obs))
		tieBP.Count(fmt.Sprintf("writes=%d", len(s.Ops)-s.NBefore))
		return
	}
	// lossy: seed from `pull`, each burst ∈ model set
	model, code := lossyAnswers(strings.Split(ans[0], " ")[0], ans[1:], obs, tieLossy.Count)
	tieLossy.Record(key, !s.Pred.Nil, s, model, code)
	return
}

// lossyAnswers renders a lossy subscriber's observations against the model: the seed must be `seed`, the
// delivered stream of burst i must be one of the `|`-separated streams of sets[i] (the model's set over all
// recv/emit patterns); model side = the delivered stream when accepted, else the set.
func lossyAnswers(seed string, sets []string, obs []burstObs, count func(string)) (string, string) {
	var model, code []string
	for bi, b := range obs {
		events := b.Events
		if bi == 0 {
			nseed := 0
			for nseed < len(events) && isSeed(events[nseed]) {
				nseed++
			}
			code = append(code, "seed="+showChanges(events[:nseed]))
			model = append(model, seed)
			events = events[nseed:]
		}
		got := showChanges(events)
		code = append(code, got)
		if bi >= len(sets) {
			model = append(model, "!no-model-answer")
			continue
		}
		set := strings.Split(sets[bi], "|")
		found := false
		for _, st := range set {
			if st == got {
				found = true
			}
		}
		if found {
			model = append(model, got)
		} else {
			model = append(model, "one-of{"+sets[bi]+"}")
		}
		count(fmt.Sprintf("burst=%d delivered=%d modelset=%d", len(b.Ops)-1, len(events)-1, len(set)))
	}
	return strings.Join(model, " "), strings.Join(code, " ")
}
