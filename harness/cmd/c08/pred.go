package main

import (
	"fmt"
	"strconv"
	"strings"

	"google.golang.org/protobuf/proto"

	"github.com/smart-core-os/sc-golang/pkg/resource"
)

// pred is the closed predicate family shared with the Lean driver (ScVerif/C08/Drv.lean `tablePred`):
// a truth table over (id, value ∈ {absent} ∪ vals); the reserved fence id `~` answers `present`.
type pred struct {
	Nil  bool     `json:"nil,omitempty"`
	Ids  []string `json:"ids,omitempty"`
	Vals []string `json:"vals,omitempty"`
	Mask uint64   `json:"mask"`
}

const fenceID = "~"

func (p pred) token() string {
	if p.Nil {
		return "nil"
	}
	return fmt.Sprintf("T:%s:%s:%d", strings.Join(p.Ids, "."), strings.Join(p.Vals, "."), p.Mask)
}

func parsePredTok(s string) pred {
	if s == "nil" {
		return pred{Nil: true}
	}
	q := strings.Split(s, ":")
	m, _ := strconv.ParseUint(q[3], 10, 64)
	return pred{Ids: strings.Split(q[1], "."), Vals: strings.Split(q[2], "."), Mask: m}
}

func index(x string, xs []string) int {
	for i, y := range xs {
		if x == y {
			return i
		}
	}
	return -1
}

// eval answers the table for (id, value token) with "-" = absent.
func (p pred) eval(id, v string) bool {
	if p.Nil {
		return true
	}
	if id == fenceID {
		return v != "-"
	}
	ii := index(id, p.Ids)
	if ii < 0 {
		return false
	}
	bit := ii * (len(p.Vals) + 1)
	if v != "-" {
		vi := index(v, p.Vals)
		if vi < 0 {
			return false
		}
		bit += vi + 1
	}
	return p.Mask>>uint(bit)&1 == 1
}

// filterFunc is the resource.FilterFunc handed to the real code (nil for the nil predicate).
func (p pred) filterFunc() resource.FilterFunc {
	if p.Nil {
		return nil
	}
	return func(id string, m proto.Message) bool { return p.eval(id, tokOf(m)) }
}

// in: "the item is in the filtered collection" — present and satisfying the predicate.
// This is the property's own notion of matching (List never shows an absent item).
func (p pred) in(id, v string) bool { return v != "-" && p.eval(id, v) }
