package main

// Generated ids (Collection.Add with an empty id and WithGenIDIfAbsent - the way bookingpb.Model.CreateBooking
// stores a booking): the id the collection chooses must be new, so the write is an ADD of that id which an
// include-filtering subscriber is sent iff the new item matches, and every stored item stays as it was.
// Tie: Lean `genUniqueId` (ScVerif/C08/GenId.lean) over the candidates the real code drew from its rng.

import (
	"context"
	"encoding/base64"
	"fmt"
	"sort"
	"strings"
	"time"

	"google.golang.org/grpc/status"
	"google.golang.org/protobuf/proto"
	"google.golang.org/protobuf/types/known/wrapperspb"

	"github.com/smart-core-os/sc-golang/pkg/resource"
	"github.com/smart-core-os/sc-golang/verifharness/lib"
)

type genCase struct {
	Kind string `json:"kind"` // "genid"
	// Icpt: "", "ns" (see nsPrefix) or "lower" (WithIDInterceptor(strings.ToLower): candidates are probed and stored in lower case)
	Icpt string `json:"icpt,omitempty"`
	// Fill: the rng: its k-th Read returns bytes that all equal 0x00 (letter a) / 0xff (b) / 0x41 (c); reads
	// beyond the string repeat its last letter.  Equal letters make the candidates of a given length equal.
	Fill string `json:"fill"`
	// Taken: bit k set = the canonical form of the candidate the k-th Read is expected to give (6+k bytes)
	// is stored before the call
	Taken int `json:"taken"`
	// Other: stored ids that are no candidate
	Other []string `json:"other,omitempty"`
}

func (g genCase) key() string {
	return fmt.Sprintf("%s/%s/%b/%s", g.Icpt, g.Fill, g.Taken, strings.Join(g.Other, "."))
}

type scriptRng struct {
	fill  string
	reads [][]byte
}

func (r *scriptRng) Read(p []byte) (int, error) {
	k := len(r.reads)
	if k >= len(r.fill) {
		k = len(r.fill) - 1
	}
	var b byte
	switch r.fill[k] {
	case 'b':
		b = 0xff
	case 'c':
		b = 0x41
	}
	for i := range p {
		p[i] = b
	}
	r.reads = append(r.reads, append([]byte{}, p...))
	return len(p), nil
}

type genObs struct {
	Cands   []string `json:"candidates"` // what the rng was read for, encoded as the code encodes them
	Stored  []string `json:"stored"`     // ids stored before the call
	Answer  string   `json:"answer"`     // generated id or error code
	Trace   []string `json:"trace"`
	Settled bool
}

func (g genCase) canon(id string) string {
	switch g.Icpt {
	case "lower":
		return strings.ToLower(id)
	case "ns":
		return nsPrefix(id)
	}
	return id
}

// nsPrefix is an id interceptor that turns the EMPTY id into a key of its own: ids live in the name space
// `ns/` whether or not the caller says so.  Whether the caller provided an id is decided before the interceptor
// runs (fix 929e9c0): Add("", WithGenIDIfAbsent()) generates an id on such a collection too.
func nsPrefix(id string) string {
	if strings.HasPrefix(id, "ns/") {
		return id
	}
	return "ns/" + id
}

func (g genCase) run(m sink) (o genObs) {
	rng := &scriptRng{fill: g.Fill}
	opts := []resource.Option{resource.WithRNG(rng)}
	switch g.Icpt {
	case "lower":
		opts = append(opts, resource.WithIDInterceptor(strings.ToLower))
	case "ns":
		opts = append(opts, resource.WithIDInterceptor(nsPrefix))
	}
	c := resource.NewCollection(opts...)
	before := map[string]string{}
	expect := &scriptRng{fill: g.Fill}
	for k := 0; k < 10; k++ {
		buf := make([]byte, 6+k)
		_, _ = expect.Read(buf)
		if g.Taken&(1<<k) != 0 {
			id := g.canon(base64.RawURLEncoding.EncodeToString(buf))
			before[id] = fmt.Sprintf("old%d", k)
		}
	}
	for k, id := range g.Other {
		before[g.canon(id)] = fmt.Sprintf("other%d", k)
	}
	for id, v := range before {
		if _, err := c.Add(id, wrapperspb.String(v)); err != nil {
			m.Violate("C08/genid/setup-write-error", "Add of a fresh explicit id failed", g, "ok", err.Error())
			return
		}
		o.Stored = append(o.Stored, id)
	}
	sort.Strings(o.Stored)
	isNew := func(_ string, item proto.Message) bool {
		sv, ok := item.(*wrapperspb.StringValue)
		return ok && sv.GetValue() == "new"
	}
	ctx, cancel := context.WithCancel(context.Background())
	defer cancel()
	ch := c.Pull(ctx, resource.WithInclude(isNew), resource.WithBackpressure(false))
	rng.reads = nil // nothing up to here may have consulted the rng
	var cbID string
	var msg proto.Message
	var err error
	panicked, pmsg := lib.Catch(func() {
		msg, err = c.Add("", wrapperspb.String("new"), resource.WithGenIDIfAbsent(), resource.WithIDCallback(func(id string) { cbID = id }))
	})
	for _, rd := range rng.reads {
		o.Cands = append(o.Cands, base64.RawURLEncoding.EncodeToString(rd))
	}
	switch {
	case panicked:
		o.Answer = "panic:" + pmsg
	case err != nil:
		o.Answer = status.Code(err).String()
	default:
		o.Answer = cbID
	}
	o.Trace = append(o.Trace, fmt.Sprintf("stored %v; candidates drawn %v; answer %s", o.Stored, o.Cands, o.Answer))
	// the subscriber: nothing stored matches, so no seed; a created item matches
	var evs []string
	timer := time.NewTimer(fenceTimeout)
	defer timer.Stop()
	if err == nil && !panicked {
		select {
		case ev := <-ch:
			evs = append(evs, showChange(ev, false))
		case <-timer.C:
			evs = append(evs, "timeout")
		}
	}
	// a fence: an explicit matching item; everything the subscriber is sent up to it
	if _, ferr := c.Add("~f", wrapperspb.String("new")); ferr != nil {
		m.Violate("C08/genid/setup-write-error", "Add of a fresh explicit id failed", g, "ok", ferr.Error())
		return
	}
	for done := false; !done; {
		select {
		case ev := <-ch:
			s := showChange(ev, false)
			if strings.HasPrefix(s, g.canon("~f")+",") {
				done = true
			} else {
				evs = append(evs, s)
			}
		case <-timer.C:
			evs = append(evs, "timeout")
			done = true
		}
	}
	o.Trace = append(o.Trace, "subscriber was sent "+showChanges(evs))
	// independent oracle: a plain map
	after := map[string]string{}
	for id := range before {
		if got, ok := c.Get(id); ok {
			after[id] = got.(*wrapperspb.StringValue).GetValue()
		}
	}
	for id, v := range before {
		if after[id] != v {
			m.Violate("C08/genid/existing-item-changed", "creating an item under a generated id changed a stored item", g, id+"="+v, id+"="+after[id])
		}
	}
	exhausted := len(o.Cands) >= 10
	if err != nil || panicked {
		if !exhausted || panicked {
			m.Violate("C08/genid/create-failed", "Add with a generated id failed although an unused candidate was available", g, "a new id", o.Answer)
		}
		if len(evs) != 0 {
			m.Violate("C08/genid/Pull/event-for-failed-create", "a failed creation was announced to the subscriber", g, "-", showChanges(evs))
		}
		o.Settled = true
		m.Eval(g.key(), true, nil)
		return
	}
	if _, was := before[cbID]; was || cbID == "" {
		m.Violate("C08/genid/generated-id-already-stored", "the generated id was the id of a stored item (or empty)", g, "a new id", cbID)
	}
	if sv, ok := msg.(*wrapperspb.StringValue); !ok || sv.GetValue() != "new" {
		m.Violate("C08/genid/create-result", "Add with a generated id did not return the stored message", g, "new", fmt.Sprint(msg))
	}
	want := cbID + ",ADD,0,-,new,0,0"
	if len(evs) != 1 || evs[0] != want {
		m.Violate("C08/genid/Pull/event-not-ADD-of-generated-id", "the include-filtering subscriber was not sent exactly the ADD of the generated item", g, want, showChanges(evs))
	}
	var listed []string
	for _, it := range c.List(resource.WithInclude(isNew)) {
		listed = append(listed, it.(*wrapperspb.StringValue).GetValue())
	}
	if got, ok := c.Get(cbID); !ok || got.(*wrapperspb.StringValue).GetValue() != "new" || len(listed) != 2 {
		m.Violate("C08/genid/List/not-filtered-collection", "after the creation List(WithInclude) is not {generated item, fence}", g, "2 matching items, one under "+cbID, fmt.Sprintf("%v / Get: %v %v", listed, got, ok))
	}
	o.Settled = true
	m.Eval(g.key(), true, nil)
	return
}

func (g genCase) tieRecord(tie *lib.Tie, drv *lib.Driver, o genObs) {
	if !o.Settled || drv == nil {
		return
	}
	join := func(l []string) string {
		if len(l) == 0 {
			return "-"
		}
		return strings.Join(l, ",")
	}
	canon := "none"
	if g.Icpt != "" {
		canon = g.Icpt
	}
	ans, err := drv.Ask(strings.Join([]string{"genid", canon, join(o.Cands), join(o.Stored)}, " "))
	if err != nil {
		tie.Fail(err)
		return
	}
	// the model knows the candidates the code looked at: it must choose the last of them (the code stops
	// reading once it has its id), or none when all ten are used up
	tie.Record(g.key(), g.Taken != 0, g, ans, o.Answer)
	tie.Count(fmt.Sprintf("candidates drawn %d", len(o.Cands)))
	if o.Answer == "Aborted" {
		tie.Count("aborted")
	}
}

func runGenID(f lib.Flags, res *lib.Result, drv *lib.Driver) {
	tie := res.Tie("generated-ids", "K2",
		"Collection.Add(\"\", WithGenIDIfAbsent) on a real collection with a scripted rng (every Read filled with one of three bytes: equal fills make the candidates of a length equal) and 0-10 of the expected candidates (and other ids) stored beforehand, without an id interceptor, with the lower-casing one and with one that puts every id - the empty one too - into a name space `ns/` (the call must still generate an id: whether an id was provided is decided before the interceptor runs, fix 929e9c0); the candidates the code really drew are read off the rng and handed to the Lean model genUniqueId (ScVerif/C08/GenId.lean) with the stored ids: same id, or Aborted; exhaustive over 8 rng scripts x 17 stored-sets x 3 interceptors; non-trivial = some candidate stored; distinct = (interceptor, fill, stored set)")
	tie.Exhaustive = true
	mon := res.Monitor("generated-id-is-new", "the same cases against a plain-map oracle with a Pull(WithInclude(value is the new one)) subscriber on the collection: the generated id was not stored before, every stored item is unchanged, the subscriber is sent exactly one ADD of the generated id carrying the new value, List(WithInclude) lists it; with all ten candidates stored the call fails (Aborted) and the subscriber is sent nothing")
	fills := []string{"a", "b", "c", "ab", "ba", "ac", "cb", "aab"}
	var masks []int
	for m := 0; m <= 10; m++ {
		masks = append(masks, (1<<m)-1)
	}
	masks = append(masks, 0b10, 0b101, 0b1111111110, 0b0111111111, 0b1010101010, 0b0101010101)
	for _, ic := range []string{"", "lower", "ns"} {
		for _, fill := range fills {
			for _, mask := range masks {
				g := genCase{Kind: "genid", Icpt: ic, Fill: fill, Taken: mask, Other: []string{"zz", "AAAA"}}
				var first genObs
				runs := 0
				confirmed(res, mon, func(s sink) any {
					o := g.run(s)
					if runs == 0 {
						first = o
					}
					runs++
					return o.Trace
				}, func(t1, t2 any) any { return enrich(g, t1, t2) })
				g.tieRecord(tie, drv, first)
			}
		}
	}
}
