package main

// Independent oracles for the monitors: proto.Equal, math/big exact arithmetic, plain folds.
// Nothing here looks at pkg/cmp or at the Lean model.

import (
	"fmt"
	"math"
	"math/big"

	"google.golang.org/protobuf/proto"
	pref "google.golang.org/protobuf/reflect/protoreflect"
	"google.golang.org/protobuf/types/known/durationpb"
	"google.golang.org/protobuf/types/known/timestamppb"
)

// walk visits every populated message reachable from m (m included), depth first, parents before children.
func walk(m pref.Message, path string, f func(m pref.Message, path string)) {
	f(m, path)
	m.Range(func(fd pref.FieldDescriptor, v pref.Value) bool {
		p := fmt.Sprintf("%s/%d", path, fd.Number())
		switch {
		case fd.IsList():
			if fd.Kind() == pref.MessageKind {
				l := v.List()
				for i := 0; i < l.Len(); i++ {
					walk(l.Get(i).Message(), fmt.Sprintf("%s[%d]", p, i), f)
				}
			}
		case fd.IsMap():
			if fd.MapValue().Kind() == pref.MessageKind {
				v.Map().Range(func(k pref.MapKey, mv pref.Value) bool {
					walk(mv.Message(), fmt.Sprintf("%s{%v}", p, k.Interface()), f)
					return true
				})
			}
		default:
			if fd.Kind() == pref.MessageKind || fd.Kind() == pref.GroupKind {
				walk(v.Message(), p, f)
			}
		}
		return true
	})
}

// stripChangeTime returns a clone of m in which every `change_time` field of a message named `Change`
// is cleared: the message "ignoring change_time inside Change messages". With keepPresence a populated
// change_time is replaced by an empty Timestamp instead (its value is ignored but not its presence).
func stripChangeTime(m proto.Message, keepPresence bool) proto.Message {
	if m == nil || !m.ProtoReflect().IsValid() {
		return m
	}
	c := cloneExact(m)
	walk(c.ProtoReflect(), "", func(mm pref.Message, _ string) {
		if mm.Descriptor().Name() != "Change" {
			return
		}
		if fd := mm.Descriptor().Fields().ByName("change_time"); fd != nil {
			if keepPresence && mm.Has(fd) && fd.Message() != nil && !fd.IsList() && !fd.IsMap() {
				mm.Set(fd, pref.ValueOfMessage(emptyChild(mm, fd)))
			} else {
				mm.Clear(fd)
			}
		}
	})
	return c
}

func hasChangeTime(m proto.Message) bool {
	if m == nil || !m.ProtoReflect().IsValid() {
		return false
	}
	found := false
	walk(m.ProtoReflect(), "", func(mm pref.Message, _ string) {
		if mm.Descriptor().Name() == "Change" {
			if fd := mm.Descriptor().Fields().ByName("change_time"); fd != nil && mm.Has(fd) {
				found = true
			}
		}
	})
	return found
}

// leaves of the kinds a tolerance comparer looks at, keyed by position.
type leaves struct {
	floats map[string]float64
	times  map[string]*timestamppb.Timestamp
	durs   map[string]*durationpb.Duration
}

// blank returns a clone of m in which every populated float (if bf), Timestamp (if bt) and Duration (if bd)
// is replaced by a fixed value of the same kind, together with the original values by position.
// proto.Equal on two blanked messages compares everything except the values of those kinds.
func blank(m proto.Message, bf, bt, bd bool) (proto.Message, leaves) {
	lv := leaves{map[string]float64{}, map[string]*timestamppb.Timestamp{}, map[string]*durationpb.Duration{}}
	if m == nil || !m.ProtoReflect().IsValid() {
		return m, lv
	}
	c := cloneExact(m)
	one := func(fd pref.FieldDescriptor) pref.Value {
		if fd.Kind() == pref.FloatKind {
			return pref.ValueOfFloat32(1)
		}
		return pref.ValueOfFloat64(1)
	}
	var rec func(mm pref.Message, path string)
	// handles one message value at a position; returns true if it was blanked (do not descend)
	wk := func(parentSet func(pref.Value), sub pref.Message, p string) bool {
		switch x := sub.Interface().(type) {
		case *timestamppb.Timestamp:
			if bt {
				lv.times[p] = proto.Clone(x).(*timestamppb.Timestamp)
				parentSet(pref.ValueOfMessage((&timestamppb.Timestamp{}).ProtoReflect()))
				return true
			}
		case *durationpb.Duration:
			if bd {
				lv.durs[p] = proto.Clone(x).(*durationpb.Duration)
				parentSet(pref.ValueOfMessage((&durationpb.Duration{}).ProtoReflect()))
				return true
			}
		}
		return false
	}
	rec = func(mm pref.Message, path string) {
		type todo struct {
			fd pref.FieldDescriptor
			v  pref.Value
		}
		var fs []todo
		mm.Range(func(fd pref.FieldDescriptor, v pref.Value) bool { fs = append(fs, todo{fd, v}); return true })
		for _, t := range fs {
			fd, v := t.fd, t.v
			p := fmt.Sprintf("%s/%d", path, fd.Number())
			isMsg := fd.Kind() == pref.MessageKind || fd.Kind() == pref.GroupKind
			switch {
			case fd.IsList():
				l := v.List()
				for i := 0; i < l.Len(); i++ {
					pi := fmt.Sprintf("%s[%d]", p, i)
					if isFloatKind(fd.Kind()) && bf {
						lv.floats[pi] = l.Get(i).Float()
						l.Set(i, one(fd))
					} else if isMsg {
						i := i
						if !wk(func(nv pref.Value) { l.Set(i, nv) }, l.Get(i).Message(), pi) {
							rec(l.Get(i).Message(), pi)
						}
					}
				}
			case fd.IsMap():
				mp := v.Map()
				vd := fd.MapValue()
				var keys []pref.MapKey
				mp.Range(func(k pref.MapKey, _ pref.Value) bool { keys = append(keys, k); return true })
				for _, k := range keys {
					pk := fmt.Sprintf("%s{%v}", p, k.Interface())
					if isFloatKind(vd.Kind()) && bf {
						lv.floats[pk] = mp.Get(k).Float()
						mp.Set(k, one(vd))
					} else if vd.Kind() == pref.MessageKind {
						k := k
						if !wk(func(nv pref.Value) { mp.Set(k, nv) }, mp.Get(k).Message(), pk) {
							rec(mp.Get(k).Message(), pk)
						}
					}
				}
			case isFloatKind(fd.Kind()) && bf:
				lv.floats[p] = v.Float()
				mm.Set(fd, one(fd))
			case isMsg:
				if !wk(func(nv pref.Value) { mm.Set(fd, nv) }, v.Message(), p) {
					rec(v.Message(), p)
				}
			}
		}
	}
	rec(c.ProtoReflect(), "")
	return c, lv
}

// ---------------------------------------------------------------------------------------------
// exact arithmetic

func finite(f float64) bool { return !math.IsNaN(f) && !math.IsInf(f, 0) }

// exactFloatOps reports whether the float64 operations FloatValueApprox performs on these inputs are
// all exact (so that exact arithmetic and IEEE arithmetic must agree).
func exactFloatOps(fraction, margin, x, y float64) bool {
	if !finite(x) || !finite(y) || !finite(fraction) || !finite(margin) {
		return true // no rounding involved in the special-value rules
	}
	d := x - y
	if !finite(d) || new(big.Rat).Sub(ratOfFloat(x), ratOfFloat(y)).Cmp(ratOfFloat(d)) != 0 {
		return false
	}
	mn := math.Min(math.Abs(x), math.Abs(y))
	p := fraction * mn
	if !finite(p) || new(big.Rat).Mul(ratOfFloat(fraction), ratOfFloat(mn)).Cmp(ratOfFloat(p)) != 0 {
		return false
	}
	return true
}

// approxOracle: |x-y| <= max(margin, fraction*min(|x|,|y|)) over the rationals, for finite inputs.
func approxOracle(fraction, margin, x, y float64) bool {
	rx, ry := ratOfFloat(x), ratOfFloat(y)
	diff := new(big.Rat).Sub(rx, ry)
	diff.Abs(diff)
	ax, ay := new(big.Rat).Abs(rx), new(big.Rat).Abs(ry)
	mn := ax
	if ay.Cmp(ax) < 0 {
		mn = ay
	}
	rel := new(big.Rat).Mul(ratOfFloat(fraction), mn)
	tol := ratOfFloat(margin)
	if rel.Cmp(tol) > 0 {
		tol = rel
	}
	return diff.Cmp(tol) <= 0
}

func sameFloat(x, y float64) bool {
	return (math.IsNaN(x) && math.IsNaN(y)) || x == y
}

func tsNanos(t *timestamppb.Timestamp) *big.Int {
	n := new(big.Int).Mul(big.NewInt(t.GetSeconds()), big.NewInt(1e9))
	return n.Add(n, big.NewInt(int64(t.GetNanos())))
}

// withinOracle: |a-b| <= d over the integers.
func withinOracle(a, b *big.Int, d int64) bool {
	diff := new(big.Int).Sub(a, b)
	diff.Abs(diff)
	return diff.Cmp(big.NewInt(d)) <= 0
}

// cloneExact copies a valid message through its wire form. Unlike proto.Clone (whose merge skips
// implicit-presence floats that compare == 0) it keeps a populated -0.
func cloneExact(m proto.Message) proto.Message {
	b, err := proto.MarshalOptions{Deterministic: true, AllowPartial: true}.Marshal(m)
	if err != nil {
		panic(err)
	}
	c := m.ProtoReflect().New().Interface()
	if err := unmarshalPartial(b, c); err != nil {
		panic(err)
	}
	concretize(c.ProtoReflect())
	return c
}
