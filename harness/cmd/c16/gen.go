package main

// Structured random generation of messages (any descriptor) and of small mutations, from one PRNG.
// Domains are deliberately tiny so that equal / nearly-equal pairs, presence-vs-default, NaN, ±0,
// equal map keys etc. are frequent.  All float values are small multiples of 1/8 (exact in float32 and
// float64, and sums/differences/products with the tolerance domain stay exact).

import (
	"math"
	"math/rand"
	"sort"

	"google.golang.org/protobuf/encoding/protowire"
	"google.golang.org/protobuf/proto"
	pref "google.golang.org/protobuf/reflect/protoreflect"
)

type gen struct {
	r *rand.Rand
	// hints collected while mutating: actual differences introduced, used to pick tolerances
	// just below / at / above them
	floatDeltas []float64
	nsDeltas    []int64
	special     bool // allow NaN / ±Inf / huge durations
	noUnknown   bool // never produce unknown fields
	noNegZero   bool // never produce -0 (proto.Clone, used by the read-mask filter, drops an implicit -0)
}

var floatDomain = []float64{0, 1, 1.5, 2, -1, 8, 9, 10, 100, 110, 112.5, 0.125, -8, 16}
var floatSpecial = []float64{math.NaN(), math.Inf(1), math.Inf(-1), math.Copysign(0, -1)}
var intDomain = []int64{0, 1, 2, -1, 7}
var uintDomain = []uint64{0, 1, 2, 7}
var stringDomain = []string{"", "a", "b", "foo", "é"}
var secDomain = []int64{0, 1, 2, 1000, -1, 1001}
var nanoDomain = []int64{0, 1, 500000000, 999999999}
var hugeSecs = []int64{9223372036, -9223372036, 9223372037, -9223372037, 4611686019, -4611686019}

func (g *gen) specialFloat() float64 {
	f := floatSpecial[g.r.Intn(len(floatSpecial))]
	if g.noNegZero && f == 0 {
		return 0
	}
	return f
}

func (g *gen) float() float64 {
	if g.special && g.r.Intn(6) == 0 {
		return g.specialFloat()
	}
	if g.r.Intn(4) == 0 {
		return float64(g.r.Intn(4001)-2000) / 8
	}
	return floatDomain[g.r.Intn(len(floatDomain))]
}

func isWellKnownTime(md pref.MessageDescriptor) bool {
	n := md.FullName()
	return n == "google.protobuf.Timestamp" || n == "google.protobuf.Duration"
}

func (g *gen) scalar(fd pref.FieldDescriptor) pref.Value {
	switch fd.Kind() {
	case pref.BoolKind:
		return pref.ValueOfBool(g.r.Intn(2) == 0)
	case pref.EnumKind:
		vs := fd.Enum().Values()
		return pref.ValueOfEnum(vs.Get(g.r.Intn(vs.Len())).Number())
	case pref.Int32Kind, pref.Sint32Kind, pref.Sfixed32Kind:
		if isWellKnownTime(fd.ContainingMessage()) {
			return pref.ValueOfInt32(int32(nanoDomain[g.r.Intn(len(nanoDomain))]))
		}
		return pref.ValueOfInt32(int32(intDomain[g.r.Intn(len(intDomain))]))
	case pref.Int64Kind, pref.Sint64Kind, pref.Sfixed64Kind:
		if isWellKnownTime(fd.ContainingMessage()) {
			if g.special && g.r.Intn(5) == 0 {
				return pref.ValueOfInt64(hugeSecs[g.r.Intn(len(hugeSecs))])
			}
			return pref.ValueOfInt64(secDomain[g.r.Intn(len(secDomain))])
		}
		return pref.ValueOfInt64(intDomain[g.r.Intn(len(intDomain))])
	case pref.Uint32Kind, pref.Fixed32Kind:
		return pref.ValueOfUint32(uint32(uintDomain[g.r.Intn(len(uintDomain))]))
	case pref.Uint64Kind, pref.Fixed64Kind:
		return pref.ValueOfUint64(uintDomain[g.r.Intn(len(uintDomain))])
	case pref.FloatKind:
		return pref.ValueOfFloat32(float32(g.float()))
	case pref.DoubleKind:
		return pref.ValueOfFloat64(g.float())
	case pref.StringKind:
		return pref.ValueOfString(stringDomain[g.r.Intn(len(stringDomain))])
	case pref.BytesKind:
		switch g.r.Intn(3) {
		case 0:
			return pref.ValueOfBytes([]byte{})
		case 1:
			return pref.ValueOfBytes([]byte{0})
		}
		return pref.ValueOfBytes([]byte{1, 2})
	}
	panic("scalar of kind " + fd.Kind().String())
}

// value of a singular (or element) position of fd; messages are created and populated.
func (g *gen) value(parent pref.Message, fd pref.FieldDescriptor, depth int) pref.Value {
	if fd.Kind() == pref.MessageKind || fd.Kind() == pref.GroupKind {
		var m pref.Message
		if isDynamic(parent) {
			m = newChild(fd.Message())
		} else if fd.IsList() {
			m = parent.NewField(fd).List().NewElement().Message()
		} else if fd.IsMap() {
			m = parent.NewField(fd).Map().NewValue().Message()
		} else {
			m = parent.NewField(fd).Message()
		}
		g.populate(m, depth-1)
		return pref.ValueOfMessage(m)
	}
	return g.scalar(fd)
}

func (g *gen) mapKey(fd pref.FieldDescriptor) pref.MapKey {
	return g.scalar(fd.MapKey()).MapKey()
}

func (g *gen) mapValue(parent pref.Message, fd pref.FieldDescriptor, depth int) pref.Value {
	vd := fd.MapValue()
	if vd.Kind() == pref.MessageKind {
		m := parent.NewField(fd).Map().NewValue().Message()
		if isDynamic(parent) {
			m = newChild(vd.Message())
		}
		g.populate(m, depth-1)
		return pref.ValueOfMessage(m)
	}
	return g.scalar(vd)
}

var unknownNums = []protowire.Number{1000, 1001, 1002}

func (g *gen) unknownRecord() []byte {
	return g.unknownRecordOf(unknownNums[g.r.Intn(len(unknownNums))])
}

// unknownRecordOf: one wire record of field number num: varint, bytes, fixed32, fixed64 or a group
// (small values, so that equal lengths and equal records are frequent).
func (g *gen) unknownRecordOf(num protowire.Number) []byte {
	var b []byte
	switch g.r.Intn(9) {
	case 0, 1, 2:
		b = protowire.AppendTag(b, num, protowire.VarintType)
		b = protowire.AppendVarint(b, uint64(g.r.Intn(4)))
	case 3, 4:
		b = protowire.AppendTag(b, num, protowire.BytesType)
		b = protowire.AppendBytes(b, []byte(stringDomain[g.r.Intn(3)]))
	case 5, 6:
		b = protowire.AppendTag(b, num, protowire.Fixed32Type)
		b = protowire.AppendFixed32(b, uint32(g.r.Intn(3)))
	case 7:
		b = protowire.AppendTag(b, num, protowire.Fixed64Type)
		b = protowire.AppendFixed64(b, uint64(g.r.Intn(2)))
	default:
		b = protowire.AppendTag(b, num, protowire.StartGroupType)
		b = protowire.AppendTag(b, 1, protowire.VarintType)
		b = protowire.AppendVarint(b, uint64(g.r.Intn(3)))
		b = protowire.AppendTag(b, num, protowire.EndGroupType)
	}
	return b
}

// populate fills m with random fields. depth bounds message nesting.
func (g *gen) populate(m pref.Message, depth int) {
	fds := m.Descriptor().Fields()
	density := 0.35
	if isWellKnownTime(m.Descriptor()) {
		density = 0.8
	}
	if fds.Len() <= 4 {
		density = 0.6
	}
	for i := 0; i < fds.Len(); i++ {
		fd := fds.Get(i)
		if g.r.Float64() >= density {
			continue
		}
		isMsg := fd.Kind() == pref.MessageKind || fd.Kind() == pref.GroupKind
		if isMsg && depth <= 0 && !fd.IsMap() {
			continue
		}
		if fd.IsMap() && fd.MapValue().Kind() == pref.MessageKind && depth <= 0 {
			continue
		}
		switch {
		case fd.IsList():
			l := m.Mutable(fd).List()
			for n := g.r.Intn(3) + 1; n > 0; n-- {
				l.Append(g.value(m, fd, depth))
			}
		case fd.IsMap():
			mp := m.Mutable(fd).Map()
			for n := g.r.Intn(3) + 1; n > 0; n-- {
				mp.Set(g.mapKey(fd), g.mapValue(m, fd, depth))
			}
		default:
			m.Set(fd, g.value(m, fd, depth))
		}
	}
	if !g.noUnknown && g.r.Intn(4) == 0 {
		var u []byte
		for n := g.r.Intn(4) + 1; n > 0; n-- {
			u = append(u, g.unknownRecord()...)
		}
		m.SetUnknown(u)
	}
}

func (g *gen) newMessage(mt pref.MessageType, depth int) proto.Message {
	m := mt.New()
	g.populate(m, depth)
	return m.Interface()
}

// ---------------------------------------------------------------------------------------------
// mutations

type site struct {
	m  pref.Message
	fd pref.FieldDescriptor // nil: the unknown fields of m
}

// sites lists every (message, field) position reachable through populated message fields, including
// unpopulated fields (so a mutation can add them).
func collectSites(m pref.Message, out *[]site) {
	*out = append(*out, site{m, nil})
	fds := m.Descriptor().Fields()
	for i := 0; i < fds.Len(); i++ {
		fd := fds.Get(i)
		*out = append(*out, site{m, fd})
		if !m.Has(fd) {
			continue
		}
		if fd.IsList() && fd.Kind() == pref.MessageKind {
			l := m.Get(fd).List()
			for j := 0; j < l.Len(); j++ {
				collectSites(l.Get(j).Message(), out)
			}
		} else if fd.IsMap() && fd.MapValue().Kind() == pref.MessageKind {
			// map iteration order is random: visit in key order so that a seed determines the run
			mp := m.Get(fd).Map()
			var keys []pref.MapKey
			mp.Range(func(k pref.MapKey, _ pref.Value) bool { keys = append(keys, k); return true })
			sort.Slice(keys, func(i, j int) bool {
				return encScalar(fd.MapKey().Kind(), keys[i].Value()) < encScalar(fd.MapKey().Kind(), keys[j].Value())
			})
			for _, k := range keys {
				collectSites(mp.Get(k).Message(), out)
			}
		} else if !fd.IsList() && !fd.IsMap() && fd.Kind() == pref.MessageKind {
			collectSites(m.Get(fd).Message(), out)
		}
	}
}

func isFloatKind(k pref.Kind) bool { return k == pref.FloatKind || k == pref.DoubleKind }

func floatValue(fd pref.FieldDescriptor, f float64) pref.Value {
	if fd.Kind() == pref.FloatKind {
		return pref.ValueOfFloat32(float32(f))
	}
	return pref.ValueOfFloat64(f)
}

var floatSteps = []float64{0.125, 0.25, 1, 1.125, 10, -0.125, -1}

// nudgeFloat returns a value near f (recording the difference) or a special value.
func (g *gen) nudgeFloat(f float64) float64 {
	if math.IsNaN(f) || math.IsInf(f, 0) || math.Abs(f) > 1e6 {
		return g.float()
	}
	switch g.r.Intn(8) {
	case 0:
		if g.special {
			return g.specialFloat()
		}
	case 1:
		// relative step: f/8, f/4 (exact for the domain)
		d := f / float64(int(4)<<uint(g.r.Intn(2)))
		g.floatDeltas = append(g.floatDeltas, math.Abs(d))
		return f + d
	case 2:
		if f != 0 || !g.noNegZero {
			return -f
		}
	}
	d := floatSteps[g.r.Intn(len(floatSteps))]
	g.floatDeltas = append(g.floatDeltas, math.Abs(d))
	return f + d
}

var nsSteps = []int64{1, 2, 999999999, 1000000000, 1000000001, 500000000}

// nudgeTime changes seconds/nanos of a Timestamp or Duration message by a small step.
func (g *gen) nudgeTime(m pref.Message) {
	fds := m.Descriptor().Fields()
	secs, nanos := fds.ByNumber(1), fds.ByNumber(2)
	d := nsSteps[g.r.Intn(len(nsSteps))]
	if g.r.Intn(2) == 0 {
		d = -d
	}
	g.nsDeltas = append(g.nsDeltas, abs64(d))
	total := m.Get(secs).Int()*1e9 + m.Get(nanos).Int() + d
	s, n := total/1e9, total%1e9
	if n < 0 {
		s, n = s-1, n+1e9
	}
	m.Set(secs, pref.ValueOfInt64(s))
	m.Set(nanos, pref.ValueOfInt32(int32(n)))
}

func abs64(x int64) int64 {
	if x < 0 {
		return -x
	}
	return x
}

// mutate applies one random small change somewhere in m. Returns a label for the distribution.
func (g *gen) mutate(root pref.Message, depth int) string {
	var ss []site
	collectSites(root, &ss)
	// prefer populated positions half of the time
	var s site
	for try := 0; try < 4; try++ {
		s = ss[g.r.Intn(len(ss))]
		if s.fd == nil || s.m.Has(s.fd) || g.r.Intn(2) == 0 {
			break
		}
	}
	for s.fd == nil && g.noUnknown {
		s = ss[g.r.Intn(len(ss))]
	}
	if !g.noUnknown && g.r.Intn(6) == 0 {
		// the unknown fields of some message of the tree, preferring one that has some
		var us []site
		for _, c := range ss {
			if c.fd == nil && (len(c.m.GetUnknown()) > 0 || g.r.Intn(4) == 0) {
				us = append(us, c)
			}
		}
		if len(us) > 0 {
			s = us[g.r.Intn(len(us))]
		}
	}
	m, fd := s.m, s.fd
	if fd == nil {
		return g.mutateUnknown(m)
	}
	isMsg := fd.Kind() == pref.MessageKind || fd.Kind() == pref.GroupKind
	switch {
	case fd.IsList():
		l := m.Mutable(fd).List()
		switch op := g.r.Intn(4); {
		case op == 0 || l.Len() == 0:
			l.Append(g.value(m, fd, depth))
			return "list-append"
		case op == 1:
			l.Truncate(l.Len() - 1)
			return "list-truncate"
		case op == 2 && l.Len() >= 2:
			i, j := 0, l.Len()-1
			a, b := cloneValue(fd, l.Get(i)), cloneValue(fd, l.Get(j))
			l.Set(i, b)
			l.Set(j, a)
			return "list-swap"
		default:
			i := g.r.Intn(l.Len())
			if isFloatKind(fd.Kind()) {
				l.Set(i, floatValue(fd, g.nudgeFloat(l.Get(i).Float())))
				return "list-elem-float"
			}
			if isMsg && isWellKnownTime(fd.Message()) && g.r.Intn(4) != 0 {
				// the element itself is a Timestamp / Duration: move it by a recorded step
				e := cloneValue(fd, l.Get(i)).Message()
				g.nudgeTime(e)
				l.Set(i, pref.ValueOfMessage(e))
				return "list-elem-time"
			}
			l.Set(i, g.value(m, fd, depth))
			return "list-elem"
		}
	case fd.IsMap():
		mp := m.Mutable(fd).Map()
		var keys []pref.MapKey
		mp.Range(func(k pref.MapKey, _ pref.Value) bool { keys = append(keys, k); return true })
		sort.Slice(keys, func(i, j int) bool {
			return encScalar(fd.MapKey().Kind(), keys[i].Value()) < encScalar(fd.MapKey().Kind(), keys[j].Value())
		})
		switch op := g.r.Intn(3); {
		case op == 0 || len(keys) == 0:
			mp.Set(g.mapKey(fd), g.mapValue(m, fd, depth))
			return "map-set"
		case op == 1:
			mp.Clear(keys[g.r.Intn(len(keys))])
			return "map-delete"
		default:
			// keys come from Range (random order): pick the smallest-encoded for determinism
			k := keys[0]
			for _, c := range keys[1:] {
				if encScalar(fd.MapKey().Kind(), c.Value()) < encScalar(fd.MapKey().Kind(), k.Value()) {
					k = c
				}
			}
			if isFloatKind(fd.MapValue().Kind()) {
				mp.Set(k, floatValue(fd.MapValue(), g.nudgeFloat(mp.Get(k).Float())))
				return "map-value-float"
			}
			if vd := fd.MapValue(); vd.Message() != nil && isWellKnownTime(vd.Message()) && g.r.Intn(4) != 0 {
				e := cloneValue(vd, mp.Get(k)).Message()
				g.nudgeTime(e)
				mp.Set(k, pref.ValueOfMessage(e))
				return "map-value-time"
			}
			mp.Set(k, g.mapValue(m, fd, depth))
			return "map-value"
		}
	case isMsg:
		switch op := g.r.Intn(4); {
		case !m.Has(fd):
			if op == 0 {
				m.Set(fd, pref.ValueOfMessage(emptyChild(m, fd))) // present but empty
				return "msg-set-empty"
			}
			m.Set(fd, g.value(m, fd, depth))
			return "msg-set"
		case op == 0:
			m.Clear(fd)
			return "msg-clear"
		case op == 1:
			m.Set(fd, pref.ValueOfMessage(emptyChild(m, fd))) // replace by empty
			return "msg-empty"
		default:
			sub := m.Mutable(fd).Message()
			if isWellKnownTime(sub.Descriptor()) {
				g.nudgeTime(sub)
				return "time-nudge"
			}
			m.Set(fd, g.value(m, fd, depth))
			return "msg-replace"
		}
	default:
		switch op := g.r.Intn(4); {
		case op == 0:
			m.Clear(fd)
			return "scalar-clear"
		case op == 1:
			m.Set(fd, fd.Default()) // explicit-presence: present with default; implicit: cleared
			if fd.HasPresence() {
				return "scalar-default-present"
			}
			return "scalar-default"
		case isFloatKind(fd.Kind()):
			m.Set(fd, floatValue(fd, g.nudgeFloat(m.Get(fd).Float())))
			return "scalar-float"
		default:
			m.Set(fd, g.scalar(fd))
			return "scalar-set"
		}
	}
}

func cloneValue(fd pref.FieldDescriptor, v pref.Value) pref.Value {
	if fd.Kind() == pref.MessageKind || fd.Kind() == pref.GroupKind {
		return pref.ValueOfMessage(cloneExact(v.Message().Interface()).ProtoReflect())
	}
	if fd.Kind() == pref.BytesKind {
		return pref.ValueOfBytes(append([]byte(nil), v.Bytes()...))
	}
	return v
}

func splitUnknown(b []byte) [][]byte {
	var recs [][]byte
	for len(b) > 0 {
		_, _, n := protowire.ConsumeField(b)
		if n < 0 {
			panic("malformed unknown")
		}
		recs = append(recs, b[:n:n])
		b = b[n:]
	}
	return recs
}

func (g *gen) mutateUnknown(m pref.Message) string {
	recs := splitUnknown(append([]byte(nil), m.GetUnknown()...))
	label := ""
	switch op := g.r.Intn(8); {
	case op == 0 || len(recs) == 0:
		recs = append(recs, g.unknownRecord())
		label = "unknown-append"
	case op == 1:
		recs = recs[:len(recs)-1]
		label = "unknown-drop"
	case op == 2 && len(recs) >= 2:
		recs[0], recs[len(recs)-1] = recs[len(recs)-1], recs[0]
		label = "unknown-swap"
	case op == 3 && len(recs) >= 2:
		i := g.r.Intn(len(recs) - 1)
		recs[i], recs[i+1] = recs[i+1], recs[i]
		label = "unknown-swap-adjacent"
	case op == 4:
		// another occurrence of a number that is already there, inserted anywhere
		num, _, _ := protowire.ConsumeField(recs[g.r.Intn(len(recs))])
		i := g.r.Intn(len(recs) + 1)
		recs = append(recs[:i:i], append([][]byte{g.unknownRecordOf(num)}, recs[i:]...)...)
		label = "unknown-repeat-number"
	case op == 5 || op == 6:
		// same number, same length, other content (any occurrence, not only the last one)
		i := g.r.Intn(len(recs))
		num, _, _ := protowire.ConsumeField(recs[i])
		for try := 0; try < 8; try++ {
			if r := g.unknownRecordOf(num); len(r) == len(recs[i]) {
				recs[i] = r
				break
			}
		}
		label = "unknown-replace-same-length"
	default:
		recs[g.r.Intn(len(recs))] = g.unknownRecord()
		label = "unknown-replace"
	}
	var u []byte
	for _, r := range recs {
		u = append(u, r...)
	}
	m.SetUnknown(u)
	return label
}
