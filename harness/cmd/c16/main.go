// Harness for C16 (message comparers are sound equivalences): ties the Lean model (driverC16) to
// pkg/cmp and to the equivalence check of pkg/resource Pull, and evaluates the property directly on
// the real code against proto.Equal / math/big oracles.
package main

import (
	"encoding/hex"
	"encoding/json"
	"fmt"
	"os"
	"time"

	"github.com/smart-core-os/sc-api/go/traits"
	"github.com/smart-core-os/sc-golang/internal/testproto"
	"github.com/smart-core-os/sc-golang/pkg/cmp"
	"github.com/smart-core-os/sc-golang/verifharness/lib"
	"google.golang.org/protobuf/proto"
	pref "google.golang.org/protobuf/reflect/protoreflect"
	"google.golang.org/protobuf/reflect/protoregistry"
	"google.golang.org/protobuf/types/known/durationpb"
	"google.golang.org/protobuf/types/known/timestamppb"
)

// message types used as ancestors
var ancestorTypes = []pref.MessageType{
	(&testproto.TestAllTypes{}).ProtoReflect().Type(),
	(&testproto.TestAllTypes{}).ProtoReflect().Type(),
	(&testproto.WellKnown{}).ProtoReflect().Type(),
	(&traits.PullAirTemperatureResponse{}).ProtoReflect().Type(), // repeated Change{name, change_time, air_temperature{doubles, ...}}
	(&traits.PullOnOffResponse{}).ProtoReflect().Type(),
	(&traits.PullAirTemperatureResponse_Change{}).ProtoReflect().Type(),
	(&testproto.ForeignMessage{}).ProtoReflect().Type(),
}

// msgJSON is the replayable form of a top-level argument.
type msgJSON struct {
	Nil      bool   `json:"nil,omitempty"`
	TypedNil bool   `json:"typed_nil,omitempty"`
	Type     string `json:"type,omitempty"`
	Bytes    string `json:"bytes,omitempty"`
	Text     string `json:"text,omitempty"`
}

func toJSON(m proto.Message) msgJSON {
	if m == nil {
		return msgJSON{Nil: true}
	}
	r := m.ProtoReflect()
	if !r.IsValid() {
		return msgJSON{TypedNil: true, Type: string(r.Descriptor().FullName())}
	}
	b, err := proto.MarshalOptions{Deterministic: true, AllowPartial: true}.Marshal(m)
	if err != nil {
		panic(err)
	}
	return msgJSON{Type: string(r.Descriptor().FullName()), Bytes: hex.EncodeToString(b), Text: fmt.Sprint(m)}
}

func fromJSON(j msgJSON) (proto.Message, error) {
	if j.Nil {
		return nil, nil
	}
	mt, err := protoregistry.GlobalTypes.FindMessageByName(pref.FullName(j.Type))
	if err != nil {
		return nil, err
	}
	if j.TypedNil {
		return mt.Zero().Interface(), nil
	}
	b, err := hex.DecodeString(j.Bytes)
	if err != nil {
		return nil, err
	}
	m := mt.New().Interface()
	if err := unmarshalPartial(b, m); err != nil {
		return nil, err
	}
	concretize(m.ProtoReflect())
	return m, nil
}

func reJSON(in any, out any) error {
	b, err := json.Marshal(in)
	if err != nil {
		return err
	}
	return json.Unmarshal(b, out)
}

var _ = durationpb.New
var _ = timestamppb.New

func main() {
	f := lib.ParseFlags()
	if f.Replay != "" {
		os.Exit(replay(f))
	}
	res := lib.NewResult("C16", f)
	drv, err := lib.StartDriver(f.Driver)
	if err != nil {
		lib.Fatal(err)
	}
	defer drv.Close()
	mons := newMonitors(res)
	patience.configure(f.Thorough())
	phase := func(name string, run func()) {
		t0 := time.Now()
		run()
		if os.Getenv("C16_TIMING") != "" {
			fmt.Fprintf(os.Stderr, "phase %-10s %6d ms\n", name, time.Since(t0).Milliseconds())
		}
	}
	phase("ieee", func() { runIEEE(f, res, drv) })
	phase("rounded", func() { runRounded(f, res, drv, mons) })
	phase("directed", func() { runDirected(f, res, drv, mons) })
	phase("logic", func() { runLogic(f, res, drv, mons) })
	phase("unknown", func() { runUnknown(f, res, drv, mons) })
	phase("wire", func() { runWire(f, res, drv, mons) })
	phase("sweep", func() { runSweep(f, res, drv, mons) })
	phase("equator", func() { runEquator(f, res, drv, mons) })
	phase("values", func() { runValues(f, res, drv, mons) })
	phase("pull", func() { runPull(f, res, drv, mons) })
	phase("parked", func() { runParked(f, res, drv, mons) })
	phase("free", func() { runFree(f, res, drv, mons) })
	phase("lossy", func() { runLossy(f, res, mons) })
	phase("traits", func() { runTraits(f, res, mons) })
	phase("update", func() { runUpdate(f, res, drv, mons) })
	delete(res.Extra, "ieee_tie")
	if n := patience.note(); n != "" {
		res.Notes = append(res.Notes, n)
	}
	if err := res.Write(f.Out); err != nil {
		lib.Fatal(err)
	}
}

func replay(f lib.Flags) int {
	rp, err := lib.ReadReplay(f.Replay)
	if err != nil {
		lib.Fatal(err)
	}
	in, ok := rp.Input.(map[string]any)
	if !ok {
		fmt.Println("replay: no concrete input in file (", rp.Kind, rp.Broken, ")")
		return 2
	}
	res := lib.NewResult("C16", f)
	mons := newMonitors(res)
	var out string
	switch fmt.Sprint(in["op"]) {
	case "cmp":
		var c ecaseJSON
		if err := reJSON(in, &c); err != nil {
			lib.Fatal(err)
		}
		ec, err := c.decode()
		if err != nil {
			lib.Fatal(err)
		}
		out = ec.monitor(mons)
	case "vcmp":
		var c vcaseJSON
		if err := reJSON(in, &c); err != nil {
			lib.Fatal(err)
		}
		vc, err := c.decode()
		if err != nil {
			lib.Fatal(err)
		}
		out = vc.monitor(mons)
	case "vpull", "cpull":
		var c pcaseJSON
		if err := reJSON(in, &c); err != nil {
			lib.Fatal(err)
		}
		pc, err := c.decode()
		if err != nil {
			lib.Fatal(err)
		}
		out = pc.monitor(mons, pc.runCode())
	case "malformed":
		x, _ := hex.DecodeString(fmt.Sprint(in["x"]))
		y, _ := hex.DecodeString(fmt.Sprint(in["y"]))
		mx, my := withUnknown(x, false), withUnknown(y, false)
		var want string
		var r bool
		if p, msg := lib.Catch(func() { r = proto.Equal(mx, my) }); p {
			want = "panic:" + msg
		} else {
			want = b2s(r)
		}
		out = callCmp(cmp.Equal(), mx, my)
		if out != want {
			mons.equal.Violate(rp.Signature, "cmp.Equal() and proto.Equal behave differently on these raw unknown bytes", in, want, out)
		}
	case "fround":
		var c rcase
		if err := reJSON(in, &c); err != nil {
			lib.Fatal(err)
		}
		out = b2s(c.monitor(mons))
	case "cupd":
		var c ucase
		if err := reJSON(in, &c); err != nil {
			lib.Fatal(err)
		}
		answer, wr, hookRan := c.run()
		c.monitor(mons, answer, wr, hookRan)
		out = answer
	case "tstream":
		var c tcase
		if err := reJSON(in, &c); err != nil {
			lib.Fatal(err)
		}
		out = c.run(mons)
	case "cpark":
		var c pcaseJSON
		if err := reJSON(in, &c); err != nil {
			lib.Fatal(err)
		}
		pc, err := c.decode()
		if err != nil {
			lib.Fatal(err)
		}
		po := pc.runParked()
		pc.monitorParked(mons, po)
		out = fmt.Sprintf("%d window(s) err=%q", len(po.windows), po.err)
	default:
		var ok bool
		if out, ok = replayFree(fmt.Sprint(in["op"]), in, mons); !ok {
			fmt.Println("replay: unknown op", in["op"])
			return 2
		}
	}
	fmt.Printf("replay %v -> code=%s\n", in["op"], out)
	failed := false
	for _, m := range res.Monitors {
		for _, v := range m.Violations {
			if rp.Signature != "" && v.Signature != rp.Signature {
				fmt.Printf("(also: %s)\n", v.Signature)
				continue
			}
			failed = true
			fmt.Printf("STILL FAILS %s: %s (expected %s, observed %s)\n", v.Signature, v.What, v.Expected, v.Observed)
		}
	}
	if failed {
		return 1
	}
	fmt.Println("replay: property holds on this input now")
	return 0
}
