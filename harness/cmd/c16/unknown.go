package main

// Unknown fields, exhaustively: every ordered pair of record sequences of length <= 3 over a small
// alphabet of wire records chosen so that all the distinctions equalUnknown can make are present with
// EQUAL total length (all records are 3 bytes long): one field number occurring several times with
// different values (the per-number grouping must keep every occurrence, in order), two wire types under
// one number, and a second number (records of different numbers may be reordered freely). The pair is
// also placed inside a nested message (unknown fields of a sub-message) for a sample.

import (
	"encoding/hex"
	"fmt"
	"strings"

	"github.com/smart-core-os/sc-golang/pkg/cmp"

	"github.com/smart-core-os/sc-golang/internal/testproto"
	"github.com/smart-core-os/sc-golang/verifharness/lib"
	"google.golang.org/protobuf/encoding/protowire"
	"google.golang.org/protobuf/proto"
)

func unknownAlphabet(thorough bool) [][]byte {
	rec := func(num protowire.Number, typ protowire.Type, v uint64) []byte {
		b := protowire.AppendTag(nil, num, typ)
		if typ == protowire.BytesType {
			return protowire.AppendBytes(b, nil)
		}
		return protowire.AppendVarint(b, v)
	}
	a := [][]byte{
		rec(1000, protowire.VarintType, 1),
		rec(1000, protowire.VarintType, 2),
		rec(1001, protowire.VarintType, 1),
		rec(1000, protowire.BytesType, 0),
	}
	if thorough {
		a = append(a, rec(1001, protowire.VarintType, 2))
	}
	return a
}

func unknownSequences(alpha [][]byte, maxLen int) [][]byte {
	seqs := [][]byte{{}}
	level := [][]byte{{}}
	for l := 1; l <= maxLen; l++ {
		var next [][]byte
		for _, s := range level {
			for _, r := range alpha {
				next = append(next, append(append([]byte(nil), s...), r...))
			}
		}
		seqs = append(seqs, next...)
		level = next
	}
	return seqs
}

func withUnknown(b []byte, nested bool) proto.Message {
	if nested {
		sub := &testproto.TestAllTypes_NestedMessage{A: 1}
		sub.ProtoReflect().SetUnknown(b)
		return &testproto.TestAllTypes{DefaultInt32: 7, DefaultNestedMessage: sub}
	}
	m := &testproto.ForeignMessage{C: 1}
	m.ProtoReflect().SetUnknown(b)
	return m
}

func firstVerdict(code string) string {
	fs := strings.Fields(strings.Trim(code, "[]"))
	if len(fs) == 0 {
		return code
	}
	return fs[0]
}

func runUnknown(f lib.Flags, res *lib.Result, drv *lib.Driver, ms *monitors) {
	tie := res.Tie("unknown-fields-exhaustive", "K2",
		"ALL ordered pairs (x,y) of unknown-field record sequences of length 0..3 over an alphabet of equally long wire records {#1000 varint 1, #1000 varint 2, #1001 varint 1, #1000 empty bytes} (thorough: + #1001 varint 2) set on two otherwise equal messages (top level; every 7th pair inside a nested message): repeated numbers, differences in a first / middle / last occurrence, two wire types under one number, reorderings within and across numbers, all with equal and unequal total length. Comparer = Equal(). Non-trivial: every pair with x != y")
	tie.Exhaustive = true
	seqs := unknownSequences(unknownAlphabet(f.Tier == "thorough"), 3)
	const batch = 2000
	var cases []ecase
	var lines []string
	flush := func() bool {
		if len(cases) == 0 {
			return true
		}
		ans, err := drv.Batch(lines)
		if err != nil {
			tie.Fail(err)
			return false
		}
		for i, c := range cases {
			code := c.monitor(ms)
			// the monitor evaluates (x,y),(y,x),(x,x),(y,y); the model is asked for (x,y) only: (y,x) is another pair of the enumeration
			tie.Record(lines[i], c.Label != "same", c.json(), ans[i], firstVerdict(code))
			tie.Count("verdict:" + ans[i])
		}
		cases, lines = cases[:0], lines[:0]
		return true
	}
	k := 0
	for i, x := range seqs {
		for j, y := range seqs {
			k++
			nested := k%7 == 0
			label := "differ"
			if i == j {
				label = "same"
			}
			c := ecase{Spec: plainEqual, X: withUnknown(x, nested), Y: withUnknown(y, nested), Label: label, DynX: k%5 == 1, DynY: k%3 == 1}
			cases = append(cases, c)
			lines = append(lines, c.lines()[0])
			if len(cases) == batch && !flush() {
				return
			}
		}
	}
	flush()
	tie.Count(fmt.Sprintf("sequences:%d", len(seqs)))
}

// ---------------------------------------------------------------------------------------------
// the wire-record cutter itself, malformed bytes included

// codeWire: the loop of equalUnknown run with the real protowire: "r=<num>:<len>,..." or "malformed".
func codeWire(b []byte) string {
	var items []string
	for len(b) > 0 {
		num, _, n := protowire.ConsumeField(b)
		if n < 0 {
			return "malformed"
		}
		items = append(items, fmt.Sprintf("%d:%d", num, n))
		b = b[n:]
	}
	return "r=" + strings.Join(items, ",")
}

var wireNums = []protowire.Number{1, 2, 15, 16, 1000, 1001, 1 << 28, 1<<29 - 1, 1<<31 - 1}
var wireVarints = []uint64{0, 1, 127, 128, 300, 1 << 32, 1<<63 - 1, 1 << 63, 1<<64 - 1}

// wireRecord: one well-formed record of any wire type (groups nested up to depth).
func (g *gen) wireRecord(num protowire.Number, depth int) []byte {
	var b []byte
	switch t := g.r.Intn(6); {
	case t == 0:
		b = protowire.AppendTag(b, num, protowire.VarintType)
		b = protowire.AppendVarint(b, wireVarints[g.r.Intn(len(wireVarints))])
	case t == 1:
		b = protowire.AppendTag(b, num, protowire.Fixed32Type)
		b = protowire.AppendFixed32(b, g.r.Uint32())
	case t == 2:
		b = protowire.AppendTag(b, num, protowire.Fixed64Type)
		b = protowire.AppendFixed64(b, g.r.Uint64())
	case t == 3 || depth <= 0:
		p := make([]byte, []int{0, 1, 2, 5, 130}[g.r.Intn(5)])
		g.r.Read(p)
		b = protowire.AppendTag(b, num, protowire.BytesType)
		b = protowire.AppendBytes(b, p)
	default:
		b = protowire.AppendTag(b, num, protowire.StartGroupType)
		for n := g.r.Intn(3); n > 0; n-- {
			b = append(b, g.wireRecord(wireNums[g.r.Intn(len(wireNums))], depth-1)...)
		}
		b = protowire.AppendTag(b, num, protowire.EndGroupType)
	}
	return b
}

// wireBytes: 0-4 well-formed records, then (half of the time) one corruption: truncation, a flipped or
// inserted byte, a bad tag (number 0, number > MaxInt32, wire types 6/7, stray or mismatched end-group,
// 11-byte varint); or plain random bytes.
func (g *gen) wireBytes() []byte {
	var b []byte
	if g.r.Intn(8) == 0 {
		b = make([]byte, g.r.Intn(7))
		g.r.Read(b)
		return b
	}
	for n := g.r.Intn(5); n > 0; n-- {
		b = append(b, g.wireRecord(wireNums[g.r.Intn(len(wireNums))], 2)...)
	}
	if g.r.Intn(2) == 0 {
		return b
	}
	switch g.r.Intn(7) {
	case 0:
		if len(b) > 0 {
			b = b[:g.r.Intn(len(b))]
		}
	case 1:
		if len(b) > 0 {
			b[g.r.Intn(len(b))] ^= byte(1 << uint(g.r.Intn(8)))
		}
	case 2:
		i := g.r.Intn(len(b) + 1)
		b = append(b[:i:i], append([]byte{byte(g.r.Intn(256))}, b[i:]...)...)
	case 3:
		b = append(b, [][]byte{{0x00, 0x01}, {0x06, 0x01}, {0x07}, {0x0c}, {0x0b, 0x14}, {0xf8, 0xff, 0xff, 0xff, 0x7f, 0x01}, {0xf8, 0xff, 0xff, 0xff, 0x3f, 0x01}}[g.r.Intn(7)]...)
	case 4:
		b = append(b, 0x08, 0x80, 0x80, 0x80, 0x80, 0x80, 0x80, 0x80, 0x80, 0x80, byte(g.r.Intn(4)))
	case 5:
		b = append(b, 0x0a, byte(g.r.Intn(4)), 0x01)
	default:
		b = append(b, 0x80, 0x80, 0x80, 0x80, 0x80, 0x80, 0x80, 0x80, 0x80, 0x80, 0x01, 0x00)
	}
	return b
}

func runWire(f lib.Flags, res *lib.Result, drv *lib.Driver, ms *monitors) {
	tie := res.Tie("wire-records", "K1",
		"the record cutter of equalUnknown (protowire.ConsumeField in a loop) against its Lean model, and equalUnknown on RAW bytes (through cmp.Equal() on two messages differing only in their unknown bytes) against eqUnknownRaw, malformed input included (model: malformed <-> code: panic): byte strings = 0-4 well-formed records (field numbers 1..MaxInt32, varints up to 10 bytes, fixed32/64, bytes of length 0..130, groups nested up to 2) optionally corrupted once (truncation, flipped / inserted byte, number 0 or > MaxInt32, wire types 6/7, stray or mismatched end-group, over-long varint, over-long length), or random bytes; pairs = (x, x with records permuted / one record replaced by an equally long one / corrupted). Non-trivial: distinct inputs")
	g := &gen{r: lib.NewRand(f.Seed + 7368787)}
	n := f.N(3000, 40000)
	var lines, codes []string
	var inputs []any
	plain := cmp.Equal()
	for i := 0; i < n; i++ {
		x := g.wireBytes()
		if i%2 == 0 {
			lines = append(lines, strings.TrimSpace("wire "+hex.EncodeToString(x)))
			codes = append(codes, codeWire(x))
			inputs = append(inputs, map[string]any{"op": "wire", "x": hex.EncodeToString(x)})
			continue
		}
		// a pair for equalUnknown
		var y []byte
		recs := [][]byte{}
		if codeWire(x) != "malformed" {
			recs = splitUnknown(append([]byte(nil), x...))
		}
		switch k := g.r.Intn(6); {
		case k >= 4 && len(x) > 0:
			// same length, one byte changed: equal length and different bytes, so both sides are cut into records
			y = append([]byte(nil), x...)
			y[g.r.Intn(len(y))] ^= byte(1 << uint(g.r.Intn(8)))
		case k == 0 || len(recs) == 0:
			y = g.wireBytes()
		case k == 1:
			g.r.Shuffle(len(recs), func(a, b int) { recs[a], recs[b] = recs[b], recs[a] })
		default:
			j := g.r.Intn(len(recs))
			num, _, _ := protowire.ConsumeField(recs[j])
			for try := 0; try < 6; try++ {
				if r := g.wireRecord(num, 1); len(r) == len(recs[j]) {
					recs[j] = r
					break
				}
			}
			if g.r.Intn(3) == 0 && len(recs) >= 2 {
				recs[0], recs[len(recs)-1] = recs[len(recs)-1], recs[0]
			}
		}
		if y == nil {
			for _, r := range recs {
				y = append(y, r...)
			}
		}
		if len(x) == 0 || len(y) == 0 {
			// SetUnknown(empty) and the driver's token parser: keep both sides non-empty here
			x, y = append(x, 0x08, 0x01), append(y, 0x08, 0x01)
		}
		mx, my := withUnknown(x, false), withUnknown(y, false)
		code := callCmp(plain, mx, my)
		if strings.HasPrefix(code, "panic:") {
			code = "malformed"
		}
		var want string
		var r bool
		if p, msg := lib.Catch(func() { r = proto.Equal(mx, my) }); p {
			want = "panic:" + msg
		} else {
			want = b2s(r)
		}
		in := map[string]any{"op": "malformed", "x": hex.EncodeToString(x), "y": hex.EncodeToString(y)}
		ms.equal.Eval(fmt.Sprintf("raw-unknown %x %x", x, y), true, nil)
		if got := callCmp(plain, mx, my); got != want {
			ms.equal.Violate("C16/Equal/raw-unknown/differs-from-proto.Equal", "cmp.Equal() and proto.Equal behave differently on these raw unknown bytes", in, want, got)
		}
		lines = append(lines, "unk "+hex.EncodeToString(x)+" "+hex.EncodeToString(y))
		codes = append(codes, code)
		inputs = append(inputs, in)
	}
	ans, err := drv.Batch(lines)
	if err != nil {
		tie.Fail(err)
		return
	}
	for i := range lines {
		tie.Record(lines[i], true, inputs[i], ans[i], codes[i])
		tie.Count(strings.Fields(lines[i])[0] + ":" + firstLabel(strings.SplitN(codes[i], "=", 2)[0]))
	}
}
