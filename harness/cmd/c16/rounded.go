package main

// Third float tier (round 6): the comparers' arithmetic over exact rationals with a rounding function applied
// wherever binary64 rounds (ScVerif/C16/Rounded.lean). The theorems of PropsRounded.lean hold for EVERY monotone,
// sign-symmetric rounding; the driver instantiates it with rne64, an executable round-to-nearest-even onto the
// binary64 grid written in Lean over Rat. Ties:
//   - binary64-rounding: rne64 IS what the hardware does: products, differences, sums and int64 conversions of
//     floats computed by Go against rne64 of the exact result, and rne64 against big.Rat.Float64 on random fractions;
//   - rounded-arithmetic: FloatValueApprox / DurationValueWithinP on the rounding inputs of the ieee tier against
//     floatApproxR rne64 / durWithinPR rne64.
// Monitor (independent of the model, math/big): what C16_float_approx_rounded says of the real code — a pair within
// the exact tolerance is never rejected, an accepted pair beyond it is beyond by less than one rounding step (the
// nearest floats of distance and tolerance are ordered the right way) —, symmetry and reflexivity on these inputs.

import (
	"fmt"
	"math"
	"math/big"
	"time"

	"github.com/smart-core-os/sc-golang/pkg/cmp"
	"github.com/smart-core-os/sc-golang/verifharness/lib"
	pref "google.golang.org/protobuf/reflect/protoreflect"
	"google.golang.org/protobuf/types/known/durationpb"
)

type rcase struct {
	Op   string  `json:"op"` // fround
	DP   bool    `json:"dp,omitempty"`
	Fr   float64 `json:"fraction,omitempty"`
	Mg   float64 `json:"margin,omitempty"`
	X    float64 `json:"-"`
	Y    float64 `json:"-"`
	XB   uint64  `json:"x_bits,omitempty"` // float64 bits (±Inf cannot be written as a JSON number)
	YB   uint64  `json:"y_bits,omitempty"`
	XT   string  `json:"x_text,omitempty"`
	YT   string  `json:"y_text,omitempty"`
	P    float32 `json:"p,omitempty"`
	XD   int64   `json:"xd,omitempty"`
	YD   int64   `json:"yd,omitempty"`
	code bool
}

var roundingCases []rcase

func (c rcase) line() string {
	if c.DP {
		return fmt.Sprintf("dpr %s %d %d", encFloat(float64(c.P)), c.XD, c.YD)
	}
	return fmt.Sprintf("far %s %s %s %s", encFloat(c.Fr), encFloat(c.Mg), encFloat(c.X), encFloat(c.Y))
}

func (c rcase) run(x, y float64, xd, yd int64) bool {
	if c.DP {
		vx := pref.ValueOfMessage(durationpb.New(time.Duration(xd)).ProtoReflect())
		vy := pref.ValueOfMessage(durationpb.New(time.Duration(yd)).ProtoReflect())
		eq, ok := cmp.DurationValueWithinP(c.P)(posOf("default_duration").fd(), vx, vy)
		return eq && ok
	}
	eq, ok := cmp.FloatValueApprox(c.Fr, c.Mg)(posOf("default_double").fd(), pref.ValueOfFloat64(x), pref.ValueOfFloat64(y))
	return eq && ok
}

func nearest(r *big.Rat) float64 {
	f, _ := r.Float64()
	return f
}

// monitor evaluates the rounded-arithmetic clauses on the real code. Returns the code's verdict.
// sync fills the JSON form from the values (before reporting) or the values from the JSON form (replay).
func (c rcase) sync() rcase {
	if c.XB != 0 || c.YB != 0 {
		c.X, c.Y = math.Float64frombits(c.XB), math.Float64frombits(c.YB)
	}
	c.XB, c.YB = math.Float64bits(c.X), math.Float64bits(c.Y)
	c.XT, c.YT = fmt.Sprint(c.X), fmt.Sprint(c.Y)
	c.Op = "fround"
	return c
}

func (c rcase) monitor(ms *monitors) bool {
	c = c.sync()
	got := c.run(c.X, c.Y, c.XD, c.YD)
	back := c.run(c.Y, c.X, c.YD, c.XD)
	self := c.run(c.X, c.X, c.XD, c.XD)
	name := "FloatValueApprox"
	if c.DP {
		name = "DurationValueWithinP"
	}
	ms.symrefl.Eval(c.line(), true, nil)
	if got != back {
		ms.symrefl.Violate("C16/"+name+"/rounding/not-symmetric", "eq(x,y) != eq(y,x) on inputs whose arithmetic rounds", c, b2s(got), b2s(back))
	}
	if !self && c.Fr >= 0 && c.Mg >= 0 && c.P >= 0 {
		ms.symrefl.Violate("C16/"+name+"/rounding/not-reflexive", "eq(x,x) is false for non-negative tolerances", c, "true", "false")
	}
	if c.DP {
		return got
	}
	if !finite(c.X) || !finite(c.Y) {
		// nothing is a finite distance from an infinity (NaN is not generated here)
		if want := c.X == c.Y; got != want {
			ms.tol.Violate("C16/FloatValueApprox/rounding/infinite-value", "an infinity is within tolerance of itself only", c, b2s(want), b2s(got))
		}
		return got
	}
	// exact distance and tolerance
	rx, ry := ratOfFloat(c.X), ratOfFloat(c.Y)
	d := new(big.Rat).Sub(rx, ry)
	d.Abs(d)
	mn := new(big.Rat).Abs(rx)
	if ay := new(big.Rat).Abs(ry); ay.Cmp(mn) < 0 {
		mn = ay
	}
	t := new(big.Rat).Mul(ratOfFloat(c.Fr), mn)
	if m := ratOfFloat(c.Mg); m.Cmp(t) > 0 {
		t = m
	}
	within := d.Cmp(t) <= 0
	ms.tol.Eval(c.line(), true, nil)
	ms.tol.Count(fmt.Sprintf("rounding:within=%v:accepted=%v", within, got))
	if within && !got {
		ms.tol.Violate("C16/FloatValueApprox/rounding/rejects-a-pair-within-tolerance", "|x-y| <= max(margin, fraction*min(|x|,|y|)) over the rationals but the comparer answers false: monotone rounding can never cause that", c, "true", "false")
	}
	if !within && got && nearest(d) > nearest(t) {
		ms.tol.Violate("C16/FloatValueApprox/rounding/accepts-beyond-one-rounding-step", "the pair is accepted although the float nearest to the exact distance is above the float nearest to the exact tolerance", c, "false", "true")
	}
	if !within && !got && nearest(d) <= nearest(t) && nearest(d) == d2f(c.X-c.Y) {
		// distance computed exactly and rounds within the rounded tolerance: must be accepted
		ms.tol.Violate("C16/FloatValueApprox/rounding/rejects-within-one-rounding-step", "the distance is a float not above the float nearest to the exact tolerance, yet the pair is rejected", c, "true", "false")
	}
	return got
}

func d2f(f float64) float64 { return math.Abs(f) }

func runRounded(f lib.Flags, res *lib.Result, drv *lib.Driver, ms *monitors) {
	// 1. the rounding function itself
	rt := res.Tie("binary64-rounding", "K1",
		"rne64 (round-to-nearest-even onto the binary64 grid, written in Lean over exact rationals) against the hardware: for random floats a, b of the rounding families (decimals, thirds, 1e15-scale, float32-rounded, random mantissa, subnormals) Go's a*b, a-b (far apart and within a factor 1+fraction), a+b against rne64 of the exact product / difference / sum; float64(int64) against rne64 of the integer for random int64 beyond 2^53; big.Rat.Float64 against rne64 on random fractions n/d up to 2^80. Non-trivial: the exact result is not a float (the operation rounds)")
	g := &gen{r: lib.NewRand(f.Seed + 67867967)}
	n := f.N(3000, 40000)
	var lines []string
	var codes []string
	var inputs []any
	var nontriv []bool
	add := func(what string, exact *big.Rat, code float64) {
		if math.IsNaN(code) {
			return
		}
		lines = append(lines, fmt.Sprintf("rne %s %s", exact.Num().String(), exact.Denom().String()))
		inputs = append(inputs, map[string]any{"op": "rne", "what": what, "exact": exact.String(), "code": encFloat(code)})
		if math.IsInf(code, 0) {
			// the hardware overflowed: rne64 (exponent unbounded) must land beyond the largest float
			codes = append(codes, "overflow")
			nontriv = append(nontriv, true)
			rt.Count(what + ":overflow")
			return
		}
		codes = append(codes, ratOfFloat(code).String())
		nontriv = append(nontriv, ratOfFloat(code).Cmp(exact) != 0)
		rt.Count(what + ":" + map[bool]string{true: "rounds", false: "exact"}[ratOfFloat(code).Cmp(exact) != 0])
	}
	for i := 0; i < n; i++ {
		switch i % 5 {
		case 0:
			a, b := g.roundingFloat(), g.roundingFloat()
			if g.r.Intn(2) == 0 {
				b = decimalFractions[g.r.Intn(len(decimalFractions))]
			}
			add("mul", new(big.Rat).Mul(ratOfFloat(a), ratOfFloat(b)), a*b)
		case 1:
			a, b := g.roundingFloat(), g.roundingFloat()
			add("sub", new(big.Rat).Sub(ratOfFloat(a), ratOfFloat(b)), a-b)
		case 2:
			a := g.roundingFloat()
			b := nudgeUlps(a*(1+decimalFractions[g.r.Intn(len(decimalFractions))]), g.r.Intn(5)-2)
			if !finite(b) {
				b = a
			}
			if i%2 == 0 {
				add("sub-near", new(big.Rat).Sub(ratOfFloat(a), ratOfFloat(b)), a-b)
			} else {
				add("add", new(big.Rat).Add(ratOfFloat(a), ratOfFloat(b)), a+b)
			}
		case 3:
			x := g.r.Int63() - g.r.Int63()
			if g.r.Intn(3) == 0 {
				x = 1<<53 + int64(g.r.Intn(64)) - 32
			}
			add("int64", new(big.Rat).SetInt64(x), float64(x))
		default:
			num := new(big.Int).Rand(g.r, new(big.Int).Lsh(big.NewInt(1), uint(1+g.r.Intn(80))))
			den := new(big.Int).Rand(g.r, new(big.Int).Lsh(big.NewInt(1), uint(1+g.r.Intn(80))))
			den.Add(den, big.NewInt(1))
			if g.r.Intn(2) == 0 {
				num.Neg(num)
			}
			r := new(big.Rat).SetFrac(num, den)
			add("fraction", r, nearest(r))
		}
	}
	ans, err := drv.Batch(lines)
	if err != nil {
		rt.Fail(err)
		return
	}
	for i := range lines {
		rt.Record(lines[i], nontriv[i], inputs[i], ans[i], codes[i])
	}

	// 2. the comparers in rounded arithmetic
	tie := res.Tie("rounded-arithmetic", "K1",
		"the rounding inputs of the ieee tier (FloatValueApprox with decimal fractions/margins, y on the rounding boundary moved by -2..2 ulps; DurationValueWithinP on int64 durations beyond 2^53 and on the percentage boundary) against the model the theorems of PropsRounded.lean are about: floatValueApproxR rne64 maxFloat64 (the whole comparer: exact rational arithmetic with rne64 applied where binary64 rounds, overflow to ±Inf beyond the largest float, operation by operation as in the code) / durWithinPR rne64. Every case also goes through the monitor (math/big): a pair within the exact tolerance is never rejected, an accepted pair beyond it is beyond by less than a rounding step, symmetric, reflexive. Non-trivial: distinct inputs")
	lines = lines[:0]
	for _, c := range roundingCases {
		lines = append(lines, c.line())
	}
	ans, err = drv.Batch(lines)
	if err != nil {
		tie.Fail(err)
		return
	}
	for i, c := range roundingCases {
		got := c.monitor(ms)
		c = c.sync()
		if !c.DP && (math.IsInf(c.X-c.Y, 0) || math.IsInf(c.Fr*math.Min(math.Abs(c.X), math.Abs(c.Y)), 0)) {
			tie.Count("fa:overflow")
		}
		tie.Record(lines[i], true, c, ans[i], b2s(got))
		tie.Count(map[bool]string{true: "dp", false: "fa"}[c.DP] + ":" + ans[i])
	}
}
