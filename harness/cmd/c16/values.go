package main

// Tie + monitors for value-level comparers (cmp.Value): the tolerance atoms and ValueAnd / ValueOr,
// called directly with a field descriptor and two values of that field's kind.

import (
	"encoding/hex"
	"fmt"
	"math"
	"math/big"
	"strconv"
	"strings"

	"github.com/smart-core-os/sc-golang/internal/testproto"
	"github.com/smart-core-os/sc-golang/pkg/cmp"
	"github.com/smart-core-os/sc-golang/verifharness/lib"
	"google.golang.org/protobuf/proto"
	pref "google.golang.org/protobuf/reflect/protoreflect"
	"google.golang.org/protobuf/types/known/durationpb"
	"google.golang.org/protobuf/types/known/timestamppb"
)

type position struct {
	msg   proto.Message
	field string
}

var positions = []position{
	{&testproto.TestAllTypes{}, "default_int32"},
	{&testproto.TestAllTypes{}, "default_int64"},
	{&testproto.TestAllTypes{}, "default_uint32"},
	{&testproto.TestAllTypes{}, "default_uint64"},
	{&testproto.TestAllTypes{}, "default_float"},
	{&testproto.TestAllTypes{}, "default_double"},
	{&testproto.TestAllTypes{}, "default_double"},
	{&testproto.TestAllTypes{}, "default_bool"},
	{&testproto.TestAllTypes{}, "default_string"},
	{&testproto.TestAllTypes{}, "default_bytes"},
	{&testproto.TestAllTypes{}, "default_nested_enum"},
	{&testproto.TestAllTypes{}, "default_nested_message"},
	{&testproto.TestAllTypes{}, "default_well_known"},
	{&testproto.TestAllTypes{}, "repeated_double"},
	{&testproto.TestAllTypes{}, "map_int32_float"},
	{&testproto.WellKnown{}, "default_timestamp"},
	{&testproto.WellKnown{}, "default_timestamp"},
	{&testproto.WellKnown{}, "default_duration"},
	{&testproto.WellKnown{}, "default_duration"},
	{&testproto.WellKnown{}, "default_duration"},
	// the compared kinds as list elements and map values themselves (dyn.go)
	{dynTimesType.New().Interface(), "starts"},
	{dynTimesType.New().Interface(), "lengths"},
	{dynTimesType.New().Interface(), "lengths"},
	{dynTimesType.New().Interface(), "levels"},
	{dynTimesType.New().Interface(), "named"},
	{dynTimesType.New().Interface(), "spans"},
	{dynTimesType.New().Interface(), "children"},
}

func (p position) fd() pref.FieldDescriptor {
	fd := p.msg.ProtoReflect().Descriptor().Fields().ByName(pref.Name(p.field))
	if fd.IsMap() {
		return fd.MapValue()
	}
	return fd
}

type valJSON struct {
	Scalar string   `json:"scalar,omitempty"`
	Msg    *msgJSON `json:"msg,omitempty"`
}

type vcase struct {
	Spec vspec
	Pos  position
	X, Y pref.Value
	// message values only: the real comparer is handed dynamicValue of that side (dyn.go)
	DynX, DynY bool
}

func (c vcase) reps() (x, y pref.Value) {
	fd := c.Pos.fd()
	x, y = c.X, c.Y
	if c.DynX {
		x = dynamicValue(fd, x)
	}
	if c.DynY {
		y = dynamicValue(fd, y)
	}
	return x, y
}

type vcaseJSON struct {
	Op    string  `json:"op"`
	Spec  vspec   `json:"spec"`
	Type  string  `json:"type"`
	Field string  `json:"field"`
	X     valJSON `json:"x"`
	Y     valJSON `json:"y"`
	DynX  bool    `json:"dyn_x,omitempty"`
	DynY  bool    `json:"dyn_y,omitempty"`
}

func valToJSON(fd pref.FieldDescriptor, v pref.Value) valJSON {
	if fd.Kind() == pref.MessageKind {
		j := toJSON(v.Message().Interface())
		return valJSON{Msg: &j}
	}
	return valJSON{Scalar: encScalar(fd.Kind(), v)}
}

func decFloat(s string) (float64, error) {
	switch s {
	case "n":
		return math.NaN(), nil
	case "pi":
		return math.Inf(1), nil
	case "mi":
		return math.Inf(-1), nil
	case "nz":
		return math.Copysign(0, -1), nil
	}
	parts := strings.Split(s, "/")
	if len(parts) != 2 {
		return 0, fmt.Errorf("bad float %q", s)
	}
	n, ok := new(big.Int).SetString(parts[0], 10)
	k, err := strconv.Atoi(parts[1])
	if !ok || err != nil {
		return 0, fmt.Errorf("bad float %q", s)
	}
	r := new(big.Rat).SetFrac(n, new(big.Int).Lsh(big.NewInt(1), uint(k)))
	f, _ := r.Float64()
	return f, nil
}

func valFromJSON(fd pref.FieldDescriptor, j valJSON) (pref.Value, error) {
	if j.Msg != nil {
		m, err := fromJSON(*j.Msg)
		if err != nil || m == nil {
			return pref.Value{}, fmt.Errorf("bad message value: %v", err)
		}
		return pref.ValueOfMessage(m.ProtoReflect()), nil
	}
	s := j.Scalar
	if s == "" {
		return pref.Value{}, fmt.Errorf("empty scalar")
	}
	body := s[1:]
	switch fd.Kind() {
	case pref.BoolKind:
		return pref.ValueOfBool(body == "1"), nil
	case pref.EnumKind:
		n, err := strconv.Atoi(body)
		return pref.ValueOfEnum(pref.EnumNumber(n)), err
	case pref.Int32Kind, pref.Sint32Kind, pref.Sfixed32Kind:
		n, err := strconv.ParseInt(body, 10, 32)
		return pref.ValueOfInt32(int32(n)), err
	case pref.Int64Kind, pref.Sint64Kind, pref.Sfixed64Kind:
		n, err := strconv.ParseInt(body, 10, 64)
		return pref.ValueOfInt64(n), err
	case pref.Uint32Kind, pref.Fixed32Kind:
		n, err := strconv.ParseUint(body, 10, 32)
		return pref.ValueOfUint32(uint32(n)), err
	case pref.Uint64Kind, pref.Fixed64Kind:
		n, err := strconv.ParseUint(body, 10, 64)
		return pref.ValueOfUint64(n), err
	case pref.FloatKind:
		f, err := decFloat(body)
		return pref.ValueOfFloat32(float32(f)), err
	case pref.DoubleKind:
		f, err := decFloat(body)
		return pref.ValueOfFloat64(f), err
	case pref.StringKind:
		b, err := hex.DecodeString(body)
		return pref.ValueOfString(string(b)), err
	case pref.BytesKind:
		b, err := hex.DecodeString(body)
		return pref.ValueOfBytes(b), err
	}
	return pref.Value{}, fmt.Errorf("kind %v", fd.Kind())
}

func (c vcase) json() vcaseJSON {
	fd := c.Pos.fd()
	return vcaseJSON{"vcmp", c.Spec, string(c.Pos.msg.ProtoReflect().Descriptor().FullName()), c.Pos.field, valToJSON(fd, c.X), valToJSON(fd, c.Y), c.DynX, c.DynY}
}

func (j vcaseJSON) decode() (vcase, error) {
	for _, p := range positions {
		if string(p.msg.ProtoReflect().Descriptor().FullName()) == j.Type && p.field == j.Field {
			fd := p.fd()
			x, err := valFromJSON(fd, j.X)
			if err != nil {
				return vcase{}, err
			}
			y, err := valFromJSON(fd, j.Y)
			if err != nil {
				return vcase{}, err
			}
			return vcase{Spec: j.Spec, Pos: p, X: x, Y: y, DynX: j.DynX, DynY: j.DynY}, nil
		}
	}
	return vcase{}, fmt.Errorf("unknown position %s.%s", j.Type, j.Field)
}

func callV(c cmp.Value, fd pref.FieldDescriptor, x, y pref.Value) string {
	var eq, ok bool
	if p, msg := lib.Catch(func() { eq, ok = c(fd, x, y) }); p {
		return "panic:" + msg
	}
	return b2s(eq) + "," + b2s(ok)
}

func (c vcase) runCode() [3]string {
	fd := c.Pos.fd()
	cv := c.Spec.build()
	x, y := c.reps()
	return [3]string{callV(cv, fd, x, y), callV(cv, fd, y, x), callV(cv, fd, x, x)}
}

func (c vcase) lines() []string {
	fd := c.Pos.fd()
	t, x, y := c.Spec.token(), encValue(fd.Kind(), c.X), encValue(fd.Kind(), c.Y)
	return []string{"vcmp " + t + " " + x + " " + y, "vcmp " + t + " " + y + " " + x, "vcmp " + t + " " + x + " " + x}
}

// ownKind: does the atom claim values of this field (ok must be true exactly then)?
func ownKind(a atom, fd pref.FieldDescriptor) bool {
	switch a.Kind {
	case "fa":
		return isFloatKind(fd.Kind())
	case "tw":
		return fd.Kind() == pref.MessageKind && fd.Message().FullName() == "google.protobuf.Timestamp"
	default:
		return fd.Kind() == pref.MessageKind && fd.Message().FullName() == "google.protobuf.Duration"
	}
}

// atomExpected: the (equal, ok) answer the property demands of one tolerance atom, or applicable=false.
func atomExpected(a atom, fd pref.FieldDescriptor, x, y pref.Value) (exp string, applicable bool, class string) {
	if !ownKind(a, fd) {
		return "false,false", true, "other-kind"
	}
	if a.A < 0 || a.B < 0 || a.D < 0 {
		return "", false, ""
	}
	switch a.Kind {
	case "fa":
		fx, fy := x.Float(), y.Float()
		switch {
		case sameFloat(fx, fy):
			if !finite(fx) {
				return "true,true", true, "nonfinite-same"
			}
			return "true,true", true, "same"
		case !finite(fx) || !finite(fy):
			return "false,true", true, "nonfinite"
		case !exactFloatOps(a.A, a.B, fx, fy):
			return "", false, ""
		}
		return b2s(approxOracle(a.A, a.B, fx, fy)) + ",true", true, "finite"
	case "tw":
		mx, my := x.Message(), y.Message()
		if !mx.IsValid() || !my.IsValid() {
			return b2s(mx.IsValid() == my.IsValid()) + ",true", true, "invalid"
		}
		tx, ty := mx.Interface().(*timestamppb.Timestamp), my.Interface().(*timestamppb.Timestamp)
		return b2s(withinOracle(tsNanos(tx), tsNanos(ty), a.D)) + ",true", true, "valid"
	case "dw":
		mx, my := x.Message(), y.Message()
		if !mx.IsValid() || !my.IsValid() {
			return b2s(mx.IsValid() == my.IsValid()) + ",true", true, "invalid"
		}
		dx, dy := mx.Interface().(*durationpb.Duration).AsDuration(), my.Interface().(*durationpb.Duration).AsDuration()
		return b2s(withinOracle(big.NewInt(int64(dx)), big.NewInt(int64(dy)), a.D)) + ",true", true, "valid"
	}
	// dp: within p percent of each other
	mx, my := x.Message(), y.Message()
	if !mx.IsValid() || !my.IsValid() {
		return b2s(mx.IsValid() == my.IsValid()) + ",true", true, "invalid"
	}
	dx, dy := int64(mx.Interface().(*durationpb.Duration).AsDuration()), int64(my.Interface().(*durationpb.Duration).AsDuration())
	if !exactDP(float32(a.A), dx, dy) {
		return "", false, ""
	}
	return b2s(dpOracle(float32(a.A), dx, dy)) + ",true", true, "valid"
}

func atomName(k string) string {
	return map[string]string{"fa": "FloatValueApprox", "tw": "TimeValueWithin", "dw": "DurationValueWithin", "dp": "DurationValueWithinP"}[k]
}

func (c vcase) monitor(ms *monitors) string {
	out := c.runCode()
	fd := c.Pos.fd()
	in := c.json()
	key := strings.Join(c.lines()[:1], "")
	for _, o := range out {
		if strings.HasPrefix(o, "panic:") {
			ms.tol.Violate("C16/value/"+c.Spec.token()[:2]+"/panic", "value comparer panicked", in, "an answer", o)
			return fmt.Sprint(out)
		}
	}
	if c.Spec.Comb == "" {
		a := c.Spec.Atoms[0]
		name := atomName(a.Kind)
		if exp, ok, class := atomExpected(a, fd, c.X, c.Y); ok {
			ms.tol.Eval(key, class != "other-kind" && class != "same", nil)
			ms.tol.Count("value:" + a.Kind + ":" + class)
			if out[0] != exp {
				sig := "C16/" + name + "/not-exactly-within-tolerance"
				switch {
				case class == "other-kind":
					sig = "C16/" + name + "/claims-other-kind"
				case class == "nonfinite":
					sig = "C16/FloatValueApprox/nonfinite-accepted"
				case class == "nonfinite-same":
					sig = "C16/FloatValueApprox/nonfinite-not-reflexive"
				case a.Kind == "dw" && exp == "true,true":
					sig += "/rejects"
				case a.Kind == "dw":
					sig += "/accepts"
				}
				ms.tol.Violate(sig, "value comparer answer differs from exact arithmetic / own-kind rule", in, exp, out[0])
			}
		} else {
			ms.tol.Count("skipped-inexact-or-negative")
		}
		if ownKind(a, fd) && a.A >= 0 && a.B >= 0 && a.D >= 0 {
			ms.symrefl.Eval(key, true, nil)
			if out[0] != out[1] {
				ms.symrefl.Violate("C16/"+name+"/not-symmetric", "c(x,y) != c(y,x)", in, out[0], out[1])
			}
			if out[2] != "true,true" {
				sig := "C16/" + name + "/not-reflexive"
				if a.Kind == "fa" && !finite(c.X.Float()) {
					sig = "C16/FloatValueApprox/nonfinite-not-reflexive"
				}
				ms.symrefl.Violate(sig, "c(x,x) is not (true,true)", in, "true,true", out[2])
			}
		}
		return fmt.Sprint(out)
	}
	// ValueAnd / ValueOr: combine the real atoms' answers independently
	ms.logic.Eval(key, true, nil)
	anyOk := false
	all, any := true, false
	for _, a := range c.Spec.Atoms {
		eq, ok := a.build()(fd, c.X, c.Y)
		if ok {
			anyOk = true
			all = all && eq
			any = any || eq
		}
	}
	exp := b2s(all) + "," + b2s(anyOk)
	if c.Spec.Comb == "VO" {
		exp = b2s(any) + "," + b2s(anyOk)
	}
	if out[0] != exp {
		ms.logic.Violate("C16/"+c.Spec.Comb+"/not-conjunction-disjunction", "ValueAnd/ValueOr answer differs from all/any over the comparers that claimed the pair", in, exp, out[0])
	}
	return fmt.Sprint(out)
}

func (g *gen) timeMsg(fd pref.FieldDescriptor) pref.Message {
	if g.r.Intn(12) == 0 {
		if fd.Message().FullName() == "google.protobuf.Timestamp" {
			return (*timestamppb.Timestamp)(nil).ProtoReflect()
		}
		return (*durationpb.Duration)(nil).ProtoReflect()
	}
	var m pref.Message
	if fd.Message().FullName() == "google.protobuf.Timestamp" {
		m = (&timestamppb.Timestamp{}).ProtoReflect()
	} else {
		m = (&durationpb.Duration{}).ProtoReflect()
	}
	g.populate(m, 0)
	m.SetUnknown(nil)
	return m
}

var smallNanos = []int32{0, 1, 2, 3, 4, 5, 8, -1, -2, -4, 500000000}

func (g *gen) vpair(p position, forDP bool) (pref.Value, pref.Value) {
	fd := p.fd()
	switch {
	case forDP && fd.Kind() == pref.MessageKind && fd.Message().FullName() == "google.protobuf.Duration" && g.r.Intn(8) != 0:
		// small durations: the percentages of the atom domain sit on, below and above their relative differences
		x := &durationpb.Duration{Nanos: smallNanos[g.r.Intn(len(smallNanos))]}
		y := &durationpb.Duration{Nanos: smallNanos[g.r.Intn(len(smallNanos))]}
		if g.r.Intn(4) == 0 {
			x.Seconds, y.Seconds = 1, int64(g.r.Intn(3))
		}
		return pref.ValueOfMessage(x.ProtoReflect()), pref.ValueOfMessage(y.ProtoReflect())
	case isFloatKind(fd.Kind()):
		x := g.float()
		y := x
		if g.r.Intn(5) != 0 {
			y = g.nudgeFloat(x)
		}
		return floatValue(fd, x), floatValue(fd, y)
	case fd.Kind() == pref.MessageKind && isWellKnownTime(fd.Message()):
		x := g.timeMsg(fd)
		y := x
		if x.IsValid() {
			y = proto.Clone(x.Interface()).ProtoReflect()
			switch g.r.Intn(6) {
			case 0:
			case 1:
				y = g.timeMsg(fd)
			default:
				g.nudgeTime(y)
			}
		} else if g.r.Intn(2) == 0 {
			y = g.timeMsg(fd)
		}
		return pref.ValueOfMessage(x), pref.ValueOfMessage(y)
	case fd.Kind() == pref.MessageKind:
		holder := p.msg.ProtoReflect().New()
		x := g.value(holder, fd, 2)
		y := pref.ValueOfMessage(cloneExact(x.Message().Interface()).ProtoReflect())
		if g.r.Intn(2) == 0 {
			g.mutate(y.Message(), 1)
		}
		return x, y
	}
	x := g.scalar(fd)
	if g.r.Intn(2) == 0 {
		return x, cloneValue(fd, x)
	}
	return x, g.scalar(fd)
}

func (g *gen) vspec() vspec {
	kinds := []string{"fa", "tw", "dw", "dp"}
	if g.r.Intn(4) == 0 {
		comb := []string{"VA", "VO"}[g.r.Intn(2)]
		v := vspec{Comb: comb, Atoms: []atom{}}
		for n := g.r.Intn(4); n > 0; n-- {
			v.Atoms = append(v.Atoms, g.atom(kinds[g.r.Intn(4)]))
		}
		return v
	}
	return vspec{Atoms: []atom{g.atom(kinds[g.r.Intn(4)])}}
}

// matching spec for the position more often than not, so that the interesting branch is exercised
func (g *gen) vspecFor(p position) vspec {
	fd := p.fd()
	if g.r.Intn(3) == 0 {
		return g.vspec()
	}
	if g.r.Intn(4) == 0 {
		// several comparers that ALL claim this position (same kind, different tolerances): a conjunction /
		// disjunction must consult every one of them, in any order
		var kinds []string
		switch {
		case isFloatKind(fd.Kind()):
			kinds = []string{"fa"}
		case fd.Kind() == pref.MessageKind && fd.Message().FullName() == "google.protobuf.Timestamp":
			kinds = []string{"tw"}
		case fd.Kind() == pref.MessageKind && fd.Message().FullName() == "google.protobuf.Duration":
			kinds = []string{"dw", "dw", "dp"}
		}
		if kinds != nil {
			v := vspec{Comb: []string{"VA", "VO"}[g.r.Intn(2)]}
			for n := 2 + g.r.Intn(2); n > 0; n-- {
				v.Atoms = append(v.Atoms, g.atom(kinds[g.r.Intn(len(kinds))]))
			}
			return v
		}
	}
	switch {
	case isFloatKind(fd.Kind()):
		return vspec{Atoms: []atom{g.atom("fa")}}
	case fd.Kind() == pref.MessageKind && fd.Message().FullName() == "google.protobuf.Timestamp":
		return vspec{Atoms: []atom{g.atom("tw")}}
	case fd.Kind() == pref.MessageKind && fd.Message().FullName() == "google.protobuf.Duration":
		return vspec{Atoms: []atom{g.atom([]string{"dw", "dw", "dp"}[g.r.Intn(3)])}}
	}
	return g.vspec()
}

func runValues(f lib.Flags, res *lib.Result, drv *lib.Driver, ms *monitors) {
	tie := res.Tie("value-comparers", "K1",
		"random (value comparer, field, x, y): field of every kind (ints, floats, bool, string, bytes, enum, message, Timestamp, Duration, list element, map value - also the repeated Timestamp / Duration / wrapper / recursive fields and the Timestamp / Duration map values of the dynamic type verif.c16.Times); floats from small multiples of 1/8 plus NaN/±Inf/-0, y = x nudged by a recorded step; Timestamp/Duration pairs nudged by 1ns..1s steps, typed-nil messages, durations saturating AsDuration; tolerances just below/at/above the introduced difference; comparer = atom | ValueAnd | ValueOr (of random kinds, or 2-3 comparers of the position's own kind with different tolerances). Each case on (x,y),(y,x),(x,x). Non-trivial: distinct cases")
	g := &gen{r: lib.NewRand(f.Seed + 7919)}
	n := f.N(8000, 150000)
	const batch = 1000
	for done := 0; done < n; done += batch {
		var cases []vcase
		var lines []string
		for i := 0; i < batch && done+i < n; i++ {
			g.floatDeltas, g.nsDeltas = nil, nil
			g.special = g.r.Intn(3) == 0
			p := positions[g.r.Intn(len(positions))]
			spec := g.vspecFor(p)
			x, y := g.vpair(p, spec.hasKind("dp"))
			// now that the pair exists, move most tolerances next to the differences it recorded
			for k, a := range spec.Atoms {
				if a.Kind != "dp" && g.r.Intn(4) != 0 {
					spec.Atoms[k] = g.atom(a.Kind)
				}
			}
			c := vcase{Spec: spec, Pos: p, X: x, Y: y}
			if p.fd().Kind() == pref.MessageKind {
				c.DynX, c.DynY = g.r.Intn(3) == 0, g.r.Intn(3) == 0
			}
			cases = append(cases, c)
			lines = append(lines, c.lines()...)
		}
		ans, err := drv.Batch(lines)
		if err != nil {
			tie.Fail(err)
			return
		}
		for i, c := range cases {
			code := c.monitor(ms)
			model := fmt.Sprint([3]string{ans[3*i], ans[3*i+1], ans[3*i+2]})
			if c.inexact() {
				// the exact model cannot be compared here: ask the driver's IEEE tier instead
				if l, ok := c.ieeeLine(); ok {
					a, err := drv.Ask(l)
					if err != nil {
						tie.Fail(err)
						return
					}
					ieee := res.Extra["ieee_tie"].(*lib.Tie)
					ieee.Record(l, true, c.json(), a+",true", c.runCode()[0])
					ieee.Count("from-value-comparers")
					tie.Count("inexact-compared-by-ieee-tier")
					continue
				}
				tie.Count("skipped-inexact")
				continue
			}
			tie.Record(lines[3*i], true, c.json(), model, code)
			tie.Count("spec:" + c.Spec.token()[:2])
			tie.Count("answer:" + ans[3*i])
		}
	}
}

// inexact: the code's float64 arithmetic would round on this case (the model is exact): not compared.
func (c vcase) inexact() bool {
	fd := c.Pos.fd()
	for _, a := range c.Spec.Atoms {
		switch a.Kind {
		case "fa":
			if isFloatKind(fd.Kind()) && !exactFloatOps(a.A, a.B, c.X.Float(), c.Y.Float()) {
				return true
			}
		case "dp":
			if fd.Kind() == pref.MessageKind && fd.Message().FullName() == "google.protobuf.Duration" {
				mx, my := c.X.Message(), c.Y.Message()
				if mx.IsValid() && my.IsValid() {
					dx, dy := int64(mx.Interface().(*durationpb.Duration).AsDuration()), int64(my.Interface().(*durationpb.Duration).AsDuration())
					if !exactDP(float32(a.A), dx, dy) || !exactDP(float32(a.A), dy, dx) || !exactDP(float32(a.A), dx, dx) || !exactDP(float32(a.A), dy, dy) {
						return true
					}
				}
			}
		}
	}
	return false
}

// dpOracle: "within p percent of each other" in exact arithmetic: 100·|x−y| <= p·min(|x|,|y|).
func dpOracle(p float32, x, y int64) bool {
	bx, by := big.NewInt(x), big.NewInt(y)
	d := new(big.Int).Sub(bx, by)
	d.Abs(d)
	lhs := new(big.Rat).SetInt(d.Mul(d, big.NewInt(100)))
	m := new(big.Int).Abs(bx)
	if ay := new(big.Int).Abs(by); ay.Cmp(m) < 0 {
		m = ay
	}
	rhs := new(big.Rat).Mul(ratOfFloat(float64(p)), new(big.Rat).SetInt(m))
	return lhs.Cmp(rhs) <= 0
}

// exactDP: every float64 operation of DurationValueWithinP(p) on (x, y) is computed without rounding:
// the two conversions, the difference, the product with 100 and p·min(|x|,|y|).
func exactDP(p float32, x, y int64) bool {
	if math.IsNaN(float64(p)) || math.IsInf(float64(p), 0) {
		return false
	}
	fx, fy := float64(x), float64(y)
	exact := func(f float64, r *big.Rat) bool {
		return !math.IsNaN(f) && !math.IsInf(f, 0) && ratOfFloat(f).Cmp(r) == 0
	}
	rx, ry := new(big.Rat).SetInt64(x), new(big.Rat).SetInt64(y)
	if !exact(fx, rx) || !exact(fy, ry) {
		return false
	}
	d := new(big.Rat).Sub(rx, ry)
	d.Abs(d)
	if !exact(math.Abs(fx-fy), d) {
		return false
	}
	if !exact(math.Abs(fx-fy)*100, new(big.Rat).Mul(d, big.NewRat(100, 1))) {
		return false
	}
	m := new(big.Rat).Abs(rx)
	if ay := new(big.Rat).Abs(ry); ay.Cmp(m) < 0 {
		m = ay
	}
	return exact(float64(p)*math.Min(math.Abs(fx), math.Abs(fy)), new(big.Rat).Mul(ratOfFloat(float64(p)), m))
}
