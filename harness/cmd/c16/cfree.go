package main

// Collection.Pull WITHOUT backpressure END TO END, free-running subscriber made deterministic (round 6).
//
// The pipeline behind such a Pull is bus -> mergeCollectionExcess -> forwarding loop (filter, equivalence) -> the
// subscriber. merge-excess-schedules drives the merger goroutine alone; the parked-window runs drive the whole
// pipeline but only with the subscriber parked for entire windows. Here the whole pipeline runs with takes ANYWHERE:
// the equivalence handed to the collection is a wrapper that records its calls. The loop calls it exactly once per
// change it takes from the merger and forwards; with WithInclude the include predicate is wrapped as well (it is
// called once for the old and once for the new value of a taken change, whichever exist, BEFORE the equivalence;
// a change outside the filter on both sides is dropped without an equivalence call), so the harness knows when a take has happened
// and whether the loop is now blocked handing the change to the subscriber (the wrapper answered "not equivalent")
// or goes on to take the next one (it answered "equivalent": suppressed). Writes and subscriber receives are issued
// one at a time, each after the previous step is complete: the schedule of receives and takes the merger saw is a
// function of the case, and the model (cfree: mergerRun + the loop's filter and equivalence over what the merger
// hands over, Free.lean) must predict every delivered change.
//
// Mirror for the monitor (independent of the model): per id the value stored when its change was last taken, the
// value stored now, ids waiting in the order of their latest event.

import (
	"context"
	"fmt"
	"sort"
	"strings"
	"sync"

	"github.com/smart-core-os/sc-api/go/types"
	"github.com/smart-core-os/sc-golang/pkg/resource"
	"github.com/smart-core-os/sc-golang/verifharness/lib"
	"google.golang.org/protobuf/proto"
	"google.golang.org/protobuf/types/known/fieldmaskpb"
)

type cfreeOut struct {
	err   string
	evs   []pev
	acts  []string // the schedule as the merger saw it: event tokens | "t"
	calls []bool   // the equivalence's answer at each take that was forwarded
	takes int      // changes the loop took from the merger
	got   []*resource.CollectionChange
	viol  [][3]string
}

func (c pcase) runFreeCollection() cfreeOut {
	var out cfreeOut
	done := make(chan struct{})
	go func() {
		defer close(done)
		if p, msg := lib.Catch(func() { c.runFreeCollectionInner(&out) }); p {
			out.err = "panic:" + msg
		}
	}()
	w := bounded(6 * lossyWait)
	select {
	case <-done:
	case <-w.C:
		w.ranOut()
		return cfreeOut{err: "timeout"}
	}
	return out
}

func (c pcase) runFreeCollectionInner(out *cfreeOut) {
	var E func(x, y proto.Message) bool
	if c.Spec != nil {
		E = guarded(c.Spec.build())
	}
	var mu sync.Mutex
	var calls []bool
	wrapper := func(x, y proto.Message) bool {
		r := E != nil && E(x, y)
		mu.Lock()
		calls = append(calls, r)
		mu.Unlock()
		return r
	}
	ncalls := func() int { mu.Lock(); defer mu.Unlock(); return len(calls) }
	incCalls := 0
	nInc := func() int { mu.Lock(); defer mu.Unlock(); return incCalls }
	included := func(m proto.Message) bool { return m != nil && (c.Inc == nil || c.Inc.holds(m)) }
	var ro []resource.ReadOption
	if c.Mask != nil {
		ro = append(ro, resource.WithReadMask(&fieldmaskpb.FieldMask{Paths: c.Mask}))
	}
	if c.Inc != nil {
		inc := c.Inc
		ro = append(ro, resource.WithInclude(func(_ string, m proto.Message) bool {
			mu.Lock()
			incCalls++
			mu.Unlock()
			return inc.holds(m)
		}))
	}
	if c.UpdatesOnly {
		ro = append(ro, resource.WithUpdatesOnly(true))
	}
	clk := &fakeClock{t: t0}
	opts := []resource.Option{resource.WithClock(clk)}
	if len(c.Ops)%2 == 1 {
		opts = append(opts, resource.WithEquivalence(resource.ComparerFunc(wrapper)))
	} else {
		opts = append(opts, resource.WithMessageEquivalence(wrapper))
	}
	col := resource.NewCollection(opts...)
	same := func(a, b proto.Message) bool { return (a == nil && b == nil) || (a != nil && b != nil && proto.Equal(a, b)) }
	flt := func(m proto.Message) proto.Message {
		if m == nil {
			return nil
		}
		return c.oracleFilter(m)
	}
	class := "exact"
	if c.tolerance() {
		class = "tolerance"
	}

	stored := map[string]proto.Message{}
	apply := func(o cop) (pev, error) {
		e := pev{id: o.Id, old: stored[o.Id]}
		var err error
		switch o.Op {
		case "add":
			e.ct = "A"
			e.new, err = col.Add(o.Id, clone(o.msg))
		case "update":
			e.ct = "U"
			e.new, err = col.Update(o.Id, clone(o.msg))
		case "delete":
			e.ct = "R"
			_, err = col.Delete(o.Id)
		default:
			err = fmt.Errorf("unknown op %q", o.Op)
		}
		if err != nil {
			return e, fmt.Errorf("%s %s: %v", o.Op, o.Id, err)
		}
		if e.new == nil {
			delete(stored, o.Id)
		} else {
			e.new = clone(e.new)
			stored[o.Id] = e.new
		}
		return e, nil
	}
	// initial items, then subscribe and receive the seeds
	i := 0
	for ; i < len(c.Ops) && c.Ops[i].Op != "subscribe"; i++ {
		if _, err := apply(c.Ops[i]); err != nil {
			out.err = err.Error()
			return
		}
	}
	i++
	ctx, cancel := context.WithCancel(context.Background())
	defer cancel()
	ch := col.Pull(ctx, ro...)
	view := map[string]proto.Message{}
	recvB := func() *resource.CollectionChange {
		w := bounded(lossyWait)
		select {
		case x, ok := <-ch:
			if !ok {
				return nil
			}
			return x
		case <-w.C:
			w.ranOut()
			return nil
		}
	}
	if !c.UpdatesOnly {
		nseeds := 0
		for _, m := range stored {
			if included(m) {
				nseeds++
			}
		}
		for n := nseeds; n > 0; n-- {
			x := recvB()
			if x == nil || !x.SeedValue {
				out.err = "seed values not received"
				return
			}
			view[x.Id] = x.NewValue
		}
	}

	// mirror
	lastTold := map[string]proto.Message{}
	var waiting []string
	remove := func(id string) {
		for k, w := range waiting {
			if w == id {
				waiting = append(waiting[:k:k], waiting[k+1:]...)
				return
			}
		}
	}
	isWaiting := func(id string) bool {
		for _, w := range waiting {
			if w == id {
				return true
			}
		}
		return false
	}
	handFull := false
	var hand struct {
		id       string
		old, new proto.Message
	}
	takes, cmps := 0, 0
	incSeen := nInc() // include calls so far (the seeds)
	// takeLoop: while the loop is free and the merger has something queued, the loop takes the front change
	takeLoop := func() bool {
		for !handFull && len(waiting) > 0 {
			takes++
			id := waiting[0]
			t, cur := lastTold[id], stored[id]
			lost := func() bool {
				out.err = fmt.Sprintf("take %d: the loop never looked at the queued change of %s", takes, id)
				out.viol = append(out.viol, [3]string{"C16/Collection.Pull/free/queued-change-not-taken", "the loop takes the queued change once it is free", out.err})
				return false
			}
			if c.Inc != nil {
				// include is asked about the old and the new value of the taken change (those that exist)
				if t != nil {
					incSeen++
				}
				if cur != nil {
					incSeen++
				}
				if !waitFor(func() bool { return nInc() >= incSeen }) {
					return lost()
				}
			}
			oInc, nIncl := included(t), included(cur)
			if !oInc && !nIncl {
				// outside the filter before and after: dropped by the loop, no equivalence call
				out.acts = append(out.acts, "t")
				waiting = waiting[1:]
				continue
			}
			cmps++
			if !waitFor(func() bool { return ncalls() >= cmps }) {
				return lost()
			}
			mu.Lock()
			r := calls[cmps-1]
			mu.Unlock()
			out.acts = append(out.acts, "t")
			waiting = waiting[1:]
			hand.id, hand.old, hand.new = id, nil, nil
			if oInc {
				hand.old = flt(t)
			}
			if nIncl {
				hand.new = flt(cur)
			}
			equiv := E != nil && E(hand.old, hand.new)
			if r != equiv {
				kind, what := "delivered-equivalent", "about to deliver"
				if r {
					kind, what = "suppressed-nonequivalent", "suppressed"
				}
				out.viol = append(out.viol, [3]string{"C16/Collection.Pull/free/" + class + "/" + kind,
					fmt.Sprintf("take %d: id %s from the value last handed over %v to the stored %v (as the subscriber may see them): equivalent=%v", takes, id, hand.old, hand.new, equiv), what})
			}
			handFull = !r
		}
		return true
	}
	recv := func() bool {
		x := recvB()
		if x == nil {
			out.err = "the subscriber was not handed the change the loop decided to deliver"
			out.viol = append(out.viol, [3]string{"C16/Collection.Pull/free/decided-change-not-delivered", "the change of " + hand.id, "nothing"})
			return false
		}
		out.got = append(out.got, x)
		if x.Id != hand.id || !same(x.OldValue, hand.old) || !same(x.NewValue, hand.new) {
			out.viol = append(out.viol, [3]string{"C16/Collection.Pull/free/delivered-not-last-handed-over-to-stored",
				fmt.Sprintf("%s: %v -> %v", hand.id, hand.old, hand.new), showChange(x)})
		}
		wantType := "UPDATE or REPLACE"
		okType := x.ChangeType == types.ChangeType_UPDATE || x.ChangeType == types.ChangeType_REPLACE
		if x.OldValue == nil {
			wantType, okType = "ADD", x.ChangeType == types.ChangeType_ADD
		} else if x.NewValue == nil {
			wantType, okType = "REMOVE", x.ChangeType == types.ChangeType_REMOVE
		}
		if !okType {
			out.viol = append(out.viol, [3]string{"C16/Collection.Pull/free/change-type", wantType, showChange(x)})
		}
		if x.NewValue == nil {
			delete(view, x.Id)
		} else {
			view[x.Id] = x.NewValue
		}
		handFull = false
		return true
	}
	ops := c.Ops[i:]
	wi := 0
	for _, a := range c.Sched {
		switch a {
		case 'w':
			if wi >= len(ops) {
				continue
			}
			o := ops[wi]
			wi++
			e, err := apply(o)
			if err != nil {
				out.err = err.Error()
				return
			}
			out.evs = append(out.evs, e)
			out.acts = append(out.acts, e.id, e.ct, encTop(e.old), encTop(e.new))
			if !isWaiting(e.id) {
				lastTold[e.id] = e.old
			}
			remove(e.id)
			if !(lastTold[e.id] == nil && e.new == nil) {
				waiting = append(waiting, e.id)
			}
			if !takeLoop() {
				return
			}
		case 's':
			if !handFull {
				select {
				case x, ok := <-ch:
					if ok {
						out.got = append(out.got, x)
						out.viol = append(out.viol, [3]string{"C16/Collection.Pull/free/delivery-invented", "nothing (the loop is idle)", showChange(x)})
					}
				default:
				}
				continue
			}
			if !recv() || !takeLoop() {
				return
			}
		}
	}
	for handFull {
		if !recv() || !takeLoop() {
			return
		}
	}
	cancel()
	closed := waitFor(func() bool {
		select {
		case _, ok := <-ch:
			return !ok
		default:
			return false
		}
	})
	if !closed {
		out.err = "pull channel not closed after cancel"
		return
	}
	mu.Lock()
	out.calls = append([]bool(nil), calls...)
	mu.Unlock()
	out.takes = takes
	if len(out.calls) != cmps {
		out.viol = append(out.viol, [3]string{"C16/Collection.Pull/free/equivalence-calls", fmt.Sprintf("%d (one per change taken and forwarded)", cmps), fmt.Sprint(len(out.calls))})
	}
	// the subscriber has caught up: its view is the stored collection (ids always; values unless a tolerance drifts)
	var ids, vids []string
	for id, m := range stored {
		if included(m) {
			ids = append(ids, id)
		}
	}
	for id := range view {
		vids = append(vids, id)
	}
	sort.Strings(ids)
	sort.Strings(vids)
	if !c.UpdatesOnly {
		if strings.Join(ids, ",") != strings.Join(vids, ",") {
			out.viol = append(out.viol, [3]string{"C16/Collection.Pull/free/view-ids", strings.Join(ids, ","), strings.Join(vids, ",")})
		} else if !c.tolerance() {
			for _, id := range ids {
				if w := flt(stored[id]); !same(view[id], w) && !(E != nil && E(view[id], w)) {
					out.viol = append(out.viol, [3]string{"C16/Collection.Pull/free/view-value", fmt.Sprintf("%s: %v", id, w), fmt.Sprint(view[id])})
					break
				}
			}
		}
	}
}

func (c pcase) cfreeLine(out cfreeOut) string {
	return strings.Join(append([]string{"cfree", c.specToken(), c.filterToken(), c.Inc.token(c.Type)}, out.acts...), " ")
}

// cfreeAnswers renders model and code as "n=<takes> d=<delivered changes>".
func (c pcase) cfreeAnswers(out cfreeOut, ans string) (model, code string) {
	flt := func(m proto.Message) proto.Message {
		if m == nil {
			return nil
		}
		return c.oracleFilter(m)
	}
	mf := modelFields(ans)
	model = ans
	if _, ok := mf["m"]; ok {
		n := 0
		if mf["m"] != "" {
			n = len(strings.Split(mf["m"], ","))
		}
		model = fmt.Sprintf("n=%d d=%s q=%s", n, renderModel(mf["d"], out.evs, flt), mf["q"])
	}
	if out.err != "" {
		return model, "error:" + out.err
	}
	return model, fmt.Sprintf("n=%d d=%s q=", out.takes, showChanges(out.got))
}

func (c pcase) monitorFreeCollection(ms *monitors, out cfreeOut) {
	in := c.json()
	ms.free.Eval(fmt.Sprintf("cfree %s %s %s %s %d", c.specToken(), c.filterToken(), c.Inc.token(c.Type), c.Sched, len(out.evs)), c.Spec != nil, nil)
	ms.free.Count(fmt.Sprintf("cfree:events=%d:takes=%d:delivered=%d", min(len(out.evs), 8), min(out.takes, 8), min(len(out.got), 8)))
	for _, v := range out.viol {
		ms.free.Violate(v[0], "Collection.Pull without backpressure: every change the loop takes goes from the value last handed over for that id to the value stored now, it is delivered iff these two are NOT equivalent, ids in the order of their latest event, and once the subscriber has caught up its view has the stored ids (and, under an exact equivalence, the stored values)", in, v[1], v[2])
	}
	if out.err != "" && len(out.viol) == 0 {
		ms.free.Violate("C16/Collection.Pull/free/error", "stepped lossy run failed", in, "a delivery sequence", out.err)
	}
}

func (g *gen) pcaseFreeCollection() pcase {
	c := g.pcaseParked()
	c.Kind = "cfree"
	c.NoDup = false
	var ops []cop
	writes := 0
	seen := false
	for _, o := range c.Ops {
		switch o.Op {
		case "park", "resume":
			continue
		case "subscribe":
			seen = true
		default:
			if seen {
				writes++
			}
		}
		ops = append(ops, o)
	}
	c.Ops = ops
	var sb strings.Builder
	for k := 0; k < writes; k++ {
		for g.r.Intn(100) < 35 {
			sb.WriteByte('s')
		}
		sb.WriteByte('w')
	}
	for g.r.Intn(2) == 0 {
		sb.WriteByte('s')
	}
	c.Sched = sb.String()
	return c
}

func runFreeCollection(f lib.Flags, res *lib.Result, drv *lib.Driver, ms *monitors) {
	tie := res.Tie("collection-pull-free", "K1",
		"Collection.Pull WITHOUT backpressure end to end, free-running subscriber made deterministic: the random parked-family cases (0-3 initial items on ids a,b,c, 1-18 Add/Update/Delete mostly on one focus id with small steps and returns to earlier values, any ancestor type, equivalence none | Equal() | Equal(tolerances around the written steps) handed over wrapped so that every call is seen, optional read mask, every 6th WithUpdatesOnly, on TestAllTypes 40% with WithInclude(float field gt/lt/ge a threshold on or beside a written value), the include predicate wrapped like the equivalence) with a random interleaving of writes and subscriber receives (35% receive before each write), then the subscriber catches up. The model (cfree: mergerRun over the schedule as the merger saw it, then the loop's filter and equivalence) must predict the number of takes and every delivered change (id, type, WHICH old and new value). Non-trivial: an equivalence configured")
	g := &gen{r: lib.NewRand(f.Seed + 32416190)}
	for i, n := 0, f.N(300, 4000); i < n; i++ {
		c := g.pcaseFreeCollection()
		mark := patience.mark()
		out := c.runFreeCollection()
		c.monitorFreeCollection(ms, out)
		ans, err := drv.Ask(c.cfreeLine(out))
		if err != nil {
			tie.Fail(err)
			return
		}
		model, code := c.cfreeAnswers(out, ans)
		tie.Record(c.cfreeLine(out), c.Spec != nil, c.json(), model, code)
		tie.Count(fmt.Sprintf("merged=%d:suppressed=%d", min(len(out.evs)-out.takes, 6), min(len(out.calls)-len(out.got), 6)))
		tie.Count(fmt.Sprintf("include=%v:dropped-outside=%d", c.Inc != nil, min(out.takes-len(out.calls), 4)))
		if c.Spec == nil {
			tie.Count("equivalence:none")
		} else if c.tolerance() {
			tie.Count("equivalence:tolerance")
		} else {
			tie.Count("equivalence:exact")
		}
		if patience.giveUp(mark) {
			return
		}
	}
}
