package main

// Descriptor sweep: EVERY field of EVERY message type registered in the process (all of sc-api's traits
// and types, the test fixtures, the well-known types, descriptor.proto and the adversarially named
// messages of dyn.go) takes part in the default comparison, except change_time of a message called
// Change. For each field: x and y are two messages of the type that differ in that field only (two
// different values; a value against unset), as the field itself, as a list element or as a map value.
// Tied to the Lean model (which is given the full name of the message and the name of the field) and
// judged by the equal-vs-proto.Equal monitor.

import (
	"fmt"
	"sort"

	"github.com/smart-core-os/sc-golang/verifharness/lib"
	"google.golang.org/protobuf/proto"
	pref "google.golang.org/protobuf/reflect/protoreflect"
	"google.golang.org/protobuf/reflect/protoregistry"
	"google.golang.org/protobuf/types/dynamicpb"
)

func allMessageDescriptors() []pref.MessageDescriptor {
	var out []pref.MessageDescriptor
	var rec func(mds pref.MessageDescriptors)
	rec = func(mds pref.MessageDescriptors) {
		for i := 0; i < mds.Len(); i++ {
			md := mds.Get(i)
			if md.IsMapEntry() {
				continue
			}
			out = append(out, md)
			rec(md.Messages())
		}
	}
	protoregistry.GlobalFiles.RangeFiles(func(fd pref.FileDescriptor) bool {
		rec(fd.Messages())
		return true
	})
	sort.Slice(out, func(i, j int) bool { return out[i].FullName() < out[j].FullName() })
	return out
}

func typeOf(md pref.MessageDescriptor) pref.MessageType {
	if mt, err := protoregistry.GlobalTypes.FindMessageByName(md.FullName()); err == nil && mt.Descriptor() == md {
		return mt
	}
	return dynamicpb.NewMessageType(md)
}

// sweepScalar: the k-th (k = 1, 2) non-default value of a scalar kind; ok=false when the kind has none.
func sweepScalar(fd pref.FieldDescriptor, k int) (pref.Value, bool) {
	switch fd.Kind() {
	case pref.BoolKind:
		if k == 2 {
			return pref.Value{}, false
		}
		return pref.ValueOfBool(true), true
	case pref.EnumKind:
		vs := fd.Enum().Values()
		n := 0
		for i := 0; i < vs.Len(); i++ {
			if vs.Get(i).Number() != 0 {
				if n++; n == k {
					return pref.ValueOfEnum(vs.Get(i).Number()), true
				}
			}
		}
		return pref.Value{}, false
	case pref.Int32Kind, pref.Sint32Kind, pref.Sfixed32Kind:
		return pref.ValueOfInt32(int32(k)), true
	case pref.Int64Kind, pref.Sint64Kind, pref.Sfixed64Kind:
		return pref.ValueOfInt64(int64(k)), true
	case pref.Uint32Kind, pref.Fixed32Kind:
		return pref.ValueOfUint32(uint32(k)), true
	case pref.Uint64Kind, pref.Fixed64Kind:
		return pref.ValueOfUint64(uint64(k)), true
	case pref.FloatKind:
		return pref.ValueOfFloat32(float32(k)), true
	case pref.DoubleKind:
		return pref.ValueOfFloat64(float64(k)), true
	case pref.StringKind:
		return pref.ValueOfString([]string{"a", "b"}[k-1]), true
	case pref.BytesKind:
		return pref.ValueOfBytes([]byte{byte(k)}), true
	}
	return pref.Value{}, false
}

// sweepValue: the k-th value for a singular position of fd under parent: scalars as above; a message is
// empty (k = 1) or has its first scalar field set (k = 2, when it has one).
func sweepValue(parent pref.Message, fd pref.FieldDescriptor, k int) (pref.Value, bool) {
	if fd.Kind() == pref.GroupKind {
		return pref.Value{}, false
	}
	if fd.Kind() != pref.MessageKind {
		return sweepScalar(fd, k)
	}
	var m pref.Message
	if isDynamic(parent) {
		m = newChild(fd.Message())
	} else {
		m = typeOf(fd.Message()).New()
	}
	if k == 2 {
		fs := fd.Message().Fields()
		set := false
		for i := 0; i < fs.Len() && !set; i++ {
			f := fs.Get(i)
			if f.IsList() || f.IsMap() || f.Kind() == pref.MessageKind || f.Kind() == pref.GroupKind {
				continue
			}
			if v, ok := sweepScalar(f, 1); ok {
				m.Set(f, v)
				set = true
			}
		}
		if !set {
			return pref.Value{}, false
		}
	}
	return pref.ValueOfMessage(m), true
}

// sweepMessage: a message of type mt with field fd holding the k-th value (k = 0: unset).
func sweepMessage(mt pref.MessageType, fd pref.FieldDescriptor, k int) (m proto.Message, ok bool) {
	msg := mt.New()
	if k == 0 {
		return msg.Interface(), true
	}
	if p, _ := lib.Catch(func() {
		switch {
		case fd.IsMap():
			key, kok := sweepScalar(fd.MapKey(), 1)
			v, vok := sweepValue(msg, fd.MapValue(), k)
			if ok = kok && vok; ok {
				msg.Mutable(fd).Map().Set(key.MapKey(), v)
			}
		case fd.IsList():
			var v pref.Value
			if v, ok = sweepValue(msg, fd, k); ok {
				msg.Mutable(fd).List().Append(v)
			}
		default:
			var v pref.Value
			if v, ok = sweepValue(msg, fd, k); ok {
				msg.Set(fd, v)
			}
		}
	}); p {
		return nil, false
	}
	return msg.Interface(), ok
}

func runSweep(f lib.Flags, res *lib.Result, drv *lib.Driver, ms *monitors) {
	tie := res.Tie("descriptor-sweep", "K2",
		"EVERY field of EVERY message type registered in the process (sc-api traits and types, test fixtures, well-known types, descriptor.proto, and the dynamic messages of dyn.go whose names end in / start with / are 'Change', with fields change_time, last_change_time, xchange_time, change_time_ms, and a change_time in a message nested inside a Change): x and y of that type differing in that one field only - value 1 vs value 2 and value 1 vs unset, the field itself, a list element or a map value; every fifth case has one side as a dynamicpb value. Comparer = Equal(). The model is given the message's full name and the field's name. Non-trivial: every case (all differ)")
	tie.Exhaustive = true
	const batch = 2000
	var cases []ecase
	var lines []string
	flush := func() bool {
		if len(cases) == 0 {
			return true
		}
		ans, err := drv.Batch(lines)
		if err != nil {
			tie.Fail(err)
			return false
		}
		for i, c := range cases {
			code := c.monitor(ms)
			tie.Record(lines[i], true, c.json(), ans[i], firstVerdict(code))
			tie.Count("verdict:" + ans[i])
		}
		cases, lines = cases[:0], lines[:0]
		return true
	}
	n, types, ignored := 0, 0, 0
	for _, md := range allMessageDescriptors() {
		mt := typeOf(md)
		types++
		fs := md.Fields()
		for i := 0; i < fs.Len(); i++ {
			fd := fs.Get(i)
			x, ok := sweepMessage(mt, fd, 1)
			if !ok {
				tie.Count("skipped-field")
				continue
			}
			if fd.Name() == "change_time" && md.Name() == "Change" {
				ignored++
			}
			for _, k := range []int{2, 0} {
				y, ok := sweepMessage(mt, fd, k)
				if !ok {
					continue
				}
				n++
				c := ecase{Spec: plainEqual, X: x, Y: y, Label: fmt.Sprintf("%s.%s:1v%d", md.FullName(), fd.Name(), k), DynX: n%5 == 0, DynY: n%10 == 3}
				cases = append(cases, c)
				lines = append(lines, c.lines()[0])
				if len(cases) == batch && !flush() {
					return
				}
			}
		}
	}
	flush()
	tie.Count(fmt.Sprintf("message-types:%d", types))
	tie.Count(fmt.Sprintf("fields-left-out-by-the-specification:%d", ignored))
}
