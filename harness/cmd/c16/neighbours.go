package main

// Neighbours: other subscribers of the SAME collection, with include predicates of their own, next to the
// observed subscriber of a Collection.Pull run. The *CollectionChange a write publishes is one object
// handed to every listener (with back pressure each Pull works on that very pointer), so what one
// subscriber does while it adapts the change to its own view (include: UPDATE -> ADD / REMOVE) must
// not reach the others. The interleaving is forced through caller code only, without sleeping on a guess:
// the observed subscriber's include function (its own predicate, or "everything" when the case has none)
// returns only when every neighbour has finished with the event at hand - it has asked its predicate
// about the old and the new value and, if the item entered or left its view, has handed its ADD / REMOVE
// to its consumer - so the observed subscriber's read mask, equivalence check and delivery run strictly
// AFTER the neighbours' adaptation of the shared event. The writer starts the next write only when the
// observed subscriber has left its include calls. All waits are bounded (one second); a wait that runs
// out only loses the forcing for the rest of that run. The observed subscriber is judged by the usual no-dup-delivery monitor.

import (
	"context"
	"sync"
	"sync/atomic"
	"time"

	"github.com/smart-core-os/sc-golang/pkg/resource"
	"google.golang.org/protobuf/proto"
)

type neighbour struct {
	spec     incSpec
	answers  []bool // the predicate's answers for the event at hand
	done     bool   // has asked about every value of the event at hand
	expected int    // changes it must have delivered so far (membership changes are always delivered)
	got      int    // changes its consumer has received so far (seeds not counted)
}

type nbSync struct {
	mu     sync.Mutex
	active bool // an event is in flight
	calls  int  // include calls per subscriber for the event at hand: (old exists) + (new exists)
	ns     []*neighbour
	oCalls int // include calls the observed subscriber has completed for the event at hand
	// a wait ran out (the code under test left the protocol, e.g. asked a predicate fewer times than the
	// event has values): no more forcing in this run, the deliveries are judged as they come
	gaveUp bool
}

// nbGiveUps: forcing waits that ran out in this process; after nbMaxGiveUps of them no run forces any more
// (a tree that leaves the protocol must not stall the run).
var nbGiveUps atomic.Int32

const nbMaxGiveUps = 5

// wait: bounded by one second (everything waited for happens in this process, within microseconds); the
// first wait that runs out ends the forcing for the run.
func (s *nbSync) wait(cond func() bool) {
	s.mu.Lock()
	gaveUp := s.gaveUp
	s.mu.Unlock()
	if gaveUp || nbGiveUps.Load() >= nbMaxGiveUps {
		return
	}
	deadline := time.Now().Add(time.Second)
	for i := 0; ; i++ {
		s.mu.Lock()
		ok := cond()
		s.mu.Unlock()
		if ok {
			return
		}
		if time.Now().After(deadline) {
			s.mu.Lock()
			s.gaveUp = true
			s.mu.Unlock()
			nbGiveUps.Add(1)
			return
		}
		if i < 100 {
			time.Sleep(20 * time.Microsecond)
		} else {
			time.Sleep(time.Millisecond)
		}
	}
}

// begin: the writer is about to publish an event with these values.
func (s *nbSync) begin(oldExists, newExists bool) {
	s.mu.Lock()
	defer s.mu.Unlock()
	s.active, s.calls, s.oCalls = true, 0, 0
	if oldExists {
		s.calls++
	}
	if newExists {
		s.calls++
	}
	for _, n := range s.ns {
		n.answers, n.done = nil, false
	}
}

// end: the write returned; published says whether there was an event. Waits for the observed subscriber to
// leave its include calls.
func (s *nbSync) end(published bool) {
	if published {
		s.wait(func() bool { return s.oCalls >= s.calls })
	}
	s.mu.Lock()
	s.active = false
	s.mu.Unlock()
}

func (s *nbSync) neighbourInclude(n *neighbour) resource.FilterFunc {
	return func(_ string, m proto.Message) bool {
		r := n.spec.holds(m)
		s.mu.Lock()
		defer s.mu.Unlock()
		if !s.active || n.done {
			return r // a seed, or a call outside the protocol
		}
		n.answers = append(n.answers, r)
		if len(n.answers) >= s.calls {
			n.done = true
			flips := n.answers[0]
			if len(n.answers) == 2 {
				flips = n.answers[0] != n.answers[1]
			}
			if flips {
				n.expected++
			}
		}
		return r
	}
}

func (s *nbSync) observedInclude(inc *incSpec) resource.FilterFunc {
	return func(_ string, m proto.Message) bool {
		r := inc == nil || inc.holds(m)
		s.mu.Lock()
		active := s.active
		s.mu.Unlock()
		if !active {
			return r
		}
		s.wait(func() bool {
			for _, n := range s.ns {
				if !n.done || n.got < n.expected {
					return false
				}
			}
			return true
		})
		s.mu.Lock()
		s.oCalls++
		s.mu.Unlock()
		return r
	}
}

// subscribe neighbour i (with back pressure) and drain it.
func (s *nbSync) subscribe(ctx context.Context, col *resource.Collection, n *neighbour, wg *sync.WaitGroup) {
	ch := col.Pull(ctx, resource.WithBackpressure(true), resource.WithInclude(s.neighbourInclude(n)))
	wg.Add(1)
	go func() {
		defer wg.Done()
		for c := range ch {
			if c.SeedValue {
				continue
			}
			s.mu.Lock()
			n.got++
			s.mu.Unlock()
		}
	}()
}
