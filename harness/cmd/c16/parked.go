package main

// The LOSSY path of Collection.Pull made deterministic: the subscriber (this goroutine) simply does not
// receive while a WINDOW of writes happens, so the forwarding loop of Pull is blocked handing over one
// change of a sacrificial id and everything written meanwhile is folded by mergeCollectionExcess /
// mergeChanges before the equivalence check sees it. bus.Send is synchronous up to the merger, so the
// content of the queue after the window is a function of the writes: the Lean model (mergerWindow +
// lossyStep, driver op `cmerge`) must predict exactly which changes arrive, in which order, of which type,
// and WHICH old and new value they carry.
//
// Monitor (independent of the model; a plain map of the stored items): a window is ONE change per id for
// the subscriber, from the value stored when the window began (what the subscriber was last told about)
// to the value stored when it ended: delivered iff the item entered or left, or both values exist and are
// not E-equivalent; and the delivered change carries exactly these two values.

import (
	"context"
	"crypto/sha1"
	"encoding/hex"
	"fmt"
	"math"
	"sort"
	"strconv"
	"strings"

	"github.com/smart-core-os/sc-api/go/types"
	"github.com/smart-core-os/sc-golang/internal/testproto"
	"github.com/smart-core-os/sc-golang/pkg/resource"
	"github.com/smart-core-os/sc-golang/verifharness/lib"
	"google.golang.org/protobuf/proto"
	pref "google.golang.org/protobuf/reflect/protoreflect"
)

type pev struct {
	id       string
	ct       string // A | U | R
	old, new proto.Message
}

type parkedWindow struct {
	evs        []pev
	got        []*resource.CollectionChange
	start, end map[string]proto.Message
}

type parkedOut struct {
	err     string
	windows []parkedWindow
}

func copyStored(m map[string]proto.Message) map[string]proto.Message {
	c := make(map[string]proto.Message, len(m))
	for k, v := range m {
		c[k] = v
	}
	return c
}

func (c pcase) runParked() parkedOut {
	var out parkedOut
	done := make(chan struct{})
	go func() {
		defer close(done)
		if p, msg := lib.Catch(func() { c.runParkedInner(&out) }); p {
			out.err = "panic:" + msg
		}
	}()
	w := bounded(4 * lossyWait)
	select {
	case <-done:
	case <-w.C:
		w.ranOut()
		return parkedOut{err: "timeout"}
	}
	return out
}

// markerMsg: the value of the sacrificial items written around a window; it has to pass the include filter.
func (c pcase) markerMsg() proto.Message {
	m := c.Type.New()
	if c.Inc != nil {
		fd := m.Descriptor().Fields().ByName(pref.Name(c.Inc.Field))
		v := c.Inc.Thr + 1
		if c.Inc.Op == "lt" {
			v = c.Inc.Thr - 1
		}
		m.Set(fd, floatValue(fd, v))
	}
	return m.Interface()
}

// visible: what the subscriber may see of a stored item: nothing when absent or outside the include
// filter, else the item under the read mask (independent of pkg/resource and pkg/masks).
func (c pcase) visible(m proto.Message) proto.Message {
	if m == nil || (c.Inc != nil && !c.Inc.holds(m)) {
		return nil
	}
	return c.oracleFilter(m)
}

func (c pcase) runParkedInner(out *parkedOut) {
	clk := &fakeClock{t: t0}
	col := resource.NewCollection(append(c.options(), resource.WithClock(clk))...)
	stored := map[string]proto.Message{}
	apply := func(o cop) (pev, error) {
		e := pev{id: o.Id, old: stored[o.Id]}
		var err error
		switch o.Op {
		case "add":
			e.ct = "A"
			e.new, err = col.Add(o.Id, clone(o.msg))
		case "update":
			e.ct = "U"
			e.new, err = col.Update(o.Id, clone(o.msg))
		case "delete":
			e.ct = "R"
			_, err = col.Delete(o.Id)
		default:
			err = fmt.Errorf("unknown op %q", o.Op)
		}
		if err != nil {
			return e, fmt.Errorf("%s %s: %v", o.Op, o.Id, err)
		}
		if e.new == nil {
			delete(stored, o.Id)
		} else {
			e.new = clone(e.new)
			stored[o.Id] = e.new
		}
		return e, nil
	}
	i := 0
	for ; i < len(c.Ops) && c.Ops[i].Op != "subscribe"; i++ {
		if _, err := apply(c.Ops[i]); err != nil {
			out.err = err.Error()
			return
		}
	}
	ctx, cancel := context.WithCancel(context.Background())
	defer cancel()
	ch := col.Pull(ctx, c.lossyReadOptions()...)
	recv := func() *resource.CollectionChange {
		w := bounded(lossyWait)
		select {
		case x, ok := <-ch:
			if !ok {
				return nil
			}
			return x
		case <-w.C:
			w.ranOut()
			return nil
		}
	}
	seeds := 0
	for _, m := range stored {
		if c.visible(m) != nil && !c.UpdatesOnly {
			seeds++
		}
	}
	for n := seeds; n > 0; n-- {
		x := recv()
		if x == nil || !x.SeedValue {
			out.err = fmt.Sprintf("expected %d seed values, got %v", seeds, x)
			return
		}
	}
	var w *parkedWindow
	for i++; i < len(c.Ops); i++ {
		o := c.Ops[i]
		switch o.Op {
		case "park":
			out.windows = append(out.windows, parkedWindow{start: copyStored(stored)})
			w = &out.windows[len(out.windows)-1]
			// the forwarding loop takes this change and blocks handing it to us: we are not receiving
			if _, err := col.Add(fmt.Sprintf("~park%d", len(out.windows)), c.markerMsg()); err != nil {
				out.err = err.Error()
				return
			}
		case "resume":
			if w == nil {
				out.err = "resume without park"
				return
			}
			end := fmt.Sprintf("~end%d", len(out.windows))
			if _, err := col.Add(end, c.markerMsg()); err != nil {
				out.err = err.Error()
				return
			}
			w.end = copyStored(stored)
			for {
				x := recv()
				if x == nil {
					out.err = "the change of " + end + " (written after the window) never arrived"
					return
				}
				if x.Id == end {
					break
				}
				if !strings.HasPrefix(x.Id, "~") {
					w.got = append(w.got, x)
				}
			}
			w = nil
		default:
			if w == nil {
				out.err = "write outside a window"
				return
			}
			e, err := apply(o)
			if err != nil {
				out.err = err.Error()
				return
			}
			w.evs = append(w.evs, e)
		}
	}
}

func short(enc string) string {
	if len(enc) <= 24 {
		return enc
	}
	h := sha1.Sum([]byte(enc))
	return "#" + hex.EncodeToString(h[:6])
}

func ctName(t types.ChangeType) string { return t.String() }

// parkedTie asks the model for every window and renders both answers as id:TYPE:<old>:<new> lists.
func (c pcase) parkedTie(out parkedOut, drv *lib.Driver) (line, model, code string, err error) {
	var lines []string
	for _, w := range out.windows {
		parts := []string{"cmerge", c.specToken(), c.filterToken(), c.Inc.token(c.Type)}
		for _, e := range w.evs {
			parts = append(parts, e.id, e.ct, encTop(e.old), encTop(e.new))
		}
		lines = append(lines, strings.Join(parts, " "))
	}
	ans, err := drv.Batch(lines)
	if err != nil {
		return "", "", "", err
	}
	var ms, cs []string
	for wi, w := range out.windows {
		a := ans[wi]
		if !strings.HasPrefix(a, "q=") {
			ms = append(ms, a)
		} else {
			var items []string
			for _, it := range strings.Split(strings.TrimPrefix(a, "q="), ",") {
				if it == "" {
					continue
				}
				f := strings.Split(it, ":")
				if len(f) != 4 {
					items = append(items, "!"+it)
					continue
				}
				val := func(p string) string {
					if p == "-" {
						return "nil"
					}
					k, err := strconv.Atoi(p)
					if err != nil || k/2 >= len(w.evs) {
						return "!" + p
					}
					m := w.evs[k/2].old
					if k%2 == 1 {
						m = w.evs[k/2].new
					}
					return short(encTop(c.oracleFilter(m)))
				}
				items = append(items, f[0]+":"+f[1]+":"+val(f[2])+":"+val(f[3]))
			}
			ms = append(ms, strings.Join(items, ","))
		}
		var items []string
		for _, g := range w.got {
			items = append(items, g.Id+":"+ctName(g.ChangeType)+":"+short(encTop(g.OldValue))+":"+short(encTop(g.NewValue)))
		}
		cs = append(cs, strings.Join(items, ","))
	}
	return strings.Join(lines, " | "), strings.Join(ms, " | "), strings.Join(cs, " | "), nil
}

func (c pcase) monitorParked(ms *monitors, out parkedOut) {
	in := c.json()
	const site = "C16/Collection.Pull/lossy/merged-window/"
	if out.err != "" {
		ms.delivery.Violate(site+"error", "parked lossy run failed", in, "every window delivered", out.err)
		return
	}
	var E func(x, y proto.Message) bool
	if c.Spec != nil {
		E = guarded(c.Spec.build())
	}
	for wi, w := range out.windows {
		touched := map[string]bool{}
		var ids []string
		for _, e := range w.evs {
			if !touched[e.id] {
				touched[e.id] = true
				ids = append(ids, e.id)
			}
		}
		sort.Strings(ids)
		got := map[string]*resource.CollectionChange{}
		for _, g := range w.got {
			if _, dup := got[g.Id]; dup || !touched[g.Id] {
				ms.delivery.Violate(site+"unexpected-change", "a window delivered two changes for one id, or a change for an id nobody wrote", in, "at most one change per written id", fmt.Sprintf("window %d: %v", wi, g))
				continue
			}
			got[g.Id] = g
		}
		for _, id := range ids {
			s, e := c.visible(w.start[id]), c.visible(w.end[id])
			equiv := false
			if E != nil && s != nil && e != nil {
				equiv = E(s, e)
			}
			expected := !(s == nil && e == nil) && !equiv
			g := got[id]
			ms.delivery.Eval(fmt.Sprintf("cpark %s %s %s %s|%s", c.specToken(), c.filterToken(), c.Inc.token(c.Type), encTop(s), encTop(e)), E != nil, nil)
			ms.delivery.Count(fmt.Sprintf("cpark:include=%v:events=%d:equiv=%v:delivered=%v", c.Inc != nil, min(len(w.evs), 6), equiv, g != nil))
			desc := fmt.Sprintf("window %d id %s: held %v, stored at the end %v", wi, id, s, e)
			switch {
			case g != nil && !expected && s == nil && e == nil:
				ms.delivery.Violate(site+"invisible-change-delivered", "an item that was absent (or outside the include filter) before and after the window was reported", in, desc+": nothing", fmt.Sprint(g))
			case g != nil && !expected:
				ms.delivery.Violate(site+"delivered-equivalent", "the merged change of a window is equivalent to the value the subscriber holds but was delivered", in, desc+": suppressed", fmt.Sprint(g))
			case g == nil && expected && (s == nil) != (e == nil):
				ms.delivery.Violate(site+"membership-change-suppressed", "an item entered or left during the window and nothing was delivered", in, desc+": delivered", "nothing")
			case g == nil && expected:
				ms.delivery.Violate(site+"suppressed-nonequivalent", "the value stored after the window is NOT equivalent to the value the subscriber holds but nothing was delivered", in, desc+": delivered", "nothing")
			case g != nil:
				if !proto.Equal(g.NewValue, e) && !(g.NewValue == nil && e == nil) {
					ms.delivery.Violate(site+"new-value-not-the-stored-value", "the delivered change does not carry the value stored at the end of the window", in, fmt.Sprint(e), fmt.Sprint(g.NewValue))
				}
				if !proto.Equal(g.OldValue, s) && !(g.OldValue == nil && s == nil) {
					ms.delivery.Violate(site+"old-value-not-what-the-subscriber-holds", "the delivered change's old value (which the equivalence was applied to) is not the value the subscriber was last sent", in, fmt.Sprint(s), fmt.Sprint(g.OldValue))
				}
			}
		}
	}
}

// ---------------------------------------------------------------------------------------------
// generation

func dbl(v float64) proto.Message {
	return &testproto.TestAllTypes{DefaultDouble: v, DefaultString: "k"}
}

// parkedShapes: every sequence of 1..maxLen writes to ONE id (from present: update | delete, from absent:
// add), every written value from vals, for a start state absent | present(vals[0]).
func parkedShapes(maxLen int, vals []float64) [][]cop {
	var out [][]cop
	var rec func(present bool, ops []cop)
	rec = func(present bool, ops []cop) {
		if len(ops) > 0 {
			out = append(out, append([]cop(nil), ops...))
		}
		if len(ops) == maxLen {
			return
		}
		if present {
			rec(false, append(ops, cop{Op: "delete", Id: "k"}))
			for _, v := range vals {
				rec(true, append(ops, cop{Op: "update", Id: "k", msg: dbl(v)}))
			}
		} else {
			for _, v := range vals {
				rec(true, append(ops, cop{Op: "add", Id: "k", msg: dbl(v)}))
			}
		}
	}
	rec(false, nil)
	var withStart [][]cop
	for _, s := range out {
		withStart = append(withStart, append([]cop{{Op: "subscribe"}, {Op: "park"}}, append(s, cop{Op: "resume"})...))
	}
	out = nil
	rec(true, nil)
	for _, s := range out {
		withStart = append(withStart, append([]cop{{Op: "add", Id: "k", msg: dbl(vals[0])}, {Op: "subscribe"}, {Op: "park"}}, append(s, cop{Op: "resume"})...))
	}
	return withStart
}

func (g *gen) pcaseParked() pcase {
	g.floatDeltas, g.nsDeltas = nil, nil
	g.special = false
	g.noUnknown, g.noNegZero = true, true
	defer func() { g.noUnknown, g.noNegZero = false, false }()
	floatStyle := g.r.Intn(2) == 0
	mt := ancestorTypes[g.r.Intn(len(ancestorTypes))]
	var fd pref.FieldDescriptor
	if floatStyle {
		mt = ancestorTypes[0]
		fd = mt.Descriptor().Fields().ByName(pref.Name(includeFields[g.r.Intn(len(includeFields))]))
	}
	c := pcase{Kind: "cpark", Type: mt}
	base := g.newMessage(mt, 1)
	var written []float64
	next := func(prev proto.Message) proto.Message {
		m := proto.Clone(prev)
		r := m.ProtoReflect()
		if floatStyle {
			if g.r.Intn(6) != 0 {
				r.Set(fd, floatValue(fd, g.nudgeFloat(r.Get(fd).Float())))
			}
			if g.r.Intn(4) == 0 {
				g.mutate(r, 1)
			}
			written = append(written, r.Get(fd).Float())
			return m
		}
		for n := g.r.Intn(3); n > 0; n-- {
			g.mutate(r, 1)
		}
		return m
	}
	ids := []string{"a", "b", "c"}
	cur := map[string]proto.Message{}
	for _, id := range ids {
		if g.r.Intn(3) != 0 {
			m := next(base)
			c.Ops = append(c.Ops, cop{Op: "add", Id: id, msg: m})
			cur[id] = m
		}
	}
	c.Ops = append(c.Ops, cop{Op: "subscribe"})
	for w := g.r.Intn(3) + 1; w > 0; w-- {
		c.Ops = append(c.Ops, cop{Op: "park"})
		start := map[string]proto.Message{}
		for k, v := range cur {
			start[k] = v
		}
		focus := ids[g.r.Intn(len(ids))]
		for n := g.r.Intn(6) + 1; n > 0; n-- {
			id := focus
			if g.r.Intn(10) >= 7 {
				id = ids[g.r.Intn(len(ids))]
			}
			prev, ok := cur[id]
			// the value written: a step from the previous one, or back to the one held when the window began
			val := func() proto.Message {
				if h := start[id]; h != nil && g.r.Intn(3) == 0 {
					return proto.Clone(h)
				}
				if prev != nil {
					return next(prev)
				}
				if h := start[id]; h != nil && g.r.Intn(2) == 0 {
					return next(h)
				}
				return next(base)
			}
			switch {
			case !ok:
				m := val()
				c.Ops = append(c.Ops, cop{Op: "add", Id: id, msg: m})
				cur[id] = m
			case g.r.Intn(5) < 2:
				c.Ops = append(c.Ops, cop{Op: "delete", Id: id})
				delete(cur, id)
			default:
				m := val()
				c.Ops = append(c.Ops, cop{Op: "update", Id: id, msg: m})
				cur[id] = m
			}
		}
		c.Ops = append(c.Ops, cop{Op: "resume"})
	}
	if floatStyle {
		switch g.r.Intn(5) {
		case 0:
			c.Spec = nil
		case 1:
			s := plainEqual
			c.Spec, c.NoDup = &s, g.r.Intn(2) == 0
		default:
			c.Spec = &mspec{E: []espec{{V: []vspec{{Atoms: []atom{g.atom("fa")}}}}}}
		}
	} else {
		c.Spec, c.NoDup = g.pullSpec()
	}
	if floatStyle && len(written) > 0 && g.r.Intn(5) < 2 {
		// WithInclude on the nudged field: threshold on / just beside a written value, so windows cross the boundary
		thr := written[g.r.Intn(len(written))] + []float64{0, 0, -0.125, 0.125, -0.0625, 0.0625, 0.5, -1}[g.r.Intn(8)]
		if !math.IsNaN(thr) && !math.IsInf(thr, 0) {
			c.Inc = &incSpec{Field: string(fd.Name()), Op: []string{"gt", "lt", "ge"}[g.r.Intn(3)], Thr: thr}
		}
	}
	c.UpdatesOnly = g.r.Intn(6) == 0
	if g.r.Intn(3) == 0 {
		c.Mask = g.mask(mt, base)
		if c.Mask != nil && floatStyle && g.r.Intn(2) == 0 {
			c.Mask = append(c.Mask, string(fd.Name()))
		}
	}
	return c
}

func runParked(f lib.Flags, res *lib.Result, drv *lib.Driver, ms *monitors) {
	ex := res.Tie("lossy-merge-window-exhaustive", "K2",
		"Collection.Pull WITHOUT backpressure, subscriber parked during one window of writes to one id: ALL write sequences of length 1..3 (thorough: 1..4) — from present: Update | Delete, from absent: Add — every written value from {10, 10.75, 11.5} (held value; within / beyond the tolerance of it, each within the tolerance of its neighbour), start state absent | present(10), equivalence none | WithNoDuplicates | Equal(FloatValueApprox(0,1)), WithInclude none | value > 10.5 (the held value is outside, the other two inside). The model (mergerWindow + lossyStep) must predict the delivered changes: id, type, which old and which new value. Non-trivial: every case")
	ex.Exhaustive = true
	vals := []float64{10, 10.75, 11.5}
	maxLen := 3
	if f.Thorough() {
		maxLen = 4
	}
	exact := plainEqual
	specs := []struct {
		spec  *mspec
		nodup bool
	}{{nil, false}, {&exact, true}, {&mspec{E: []espec{{V: []vspec{{Atoms: []atom{{Kind: "fa", A: 0, B: 1}}}}}}}, false}}
	record := func(tie *lib.Tie, c pcase, nontrivial bool) bool {
		mark := patience.mark()
		out := c.runParked()
		c.monitorParked(ms, out)
		if out.err != "" {
			tie.Record(fmt.Sprint(c.json()), true, c.json(), "(not asked)", "error:"+out.err)
			return !patience.giveUp(mark) // a broken tree must not stall the run (patience.go)
		}
		line, model, code, err := c.parkedTie(out, drv)
		if err != nil {
			tie.Fail(err)
			return false
		}
		tie.Record(line, nontrivial, c.json(), model, code)
		for _, w := range out.windows {
			tie.Count(fmt.Sprintf("window:events=%d:delivered=%d", min(len(w.evs), 6), len(w.got)))
		}
		return true
	}
	incs := []*incSpec{nil, {Field: "default_double", Op: "gt", Thr: 10.5}}
	for _, ops := range parkedShapes(maxLen, vals) {
		for _, s := range specs {
			for _, inc := range incs {
				c := pcase{Kind: "cpark", Type: ancestorTypes[0], Spec: s.spec, NoDup: s.nodup, Inc: inc, Ops: ops}
				if !record(ex, c, true) {
					return
				}
			}
		}
	}
	tie := res.Tie("lossy-merge-window", "K1",
		"random parked-subscriber runs of Collection.Pull without backpressure: 0-3 initial items (ids a,b,c), 1-3 windows of 1-6 writes (Add/Update/Delete, 70% on one focus id, so delete+add+update runs on a held id are frequent), written value = a small step from the previous one (float nudges recorded for the tolerance, or 0-2 random mutations) or the value held when the window began; any ancestor type; equivalence none | WithNoDuplicates | Equal() | Equal(tolerances around the written steps); optional read mask, every 6th with WithUpdatesOnly (no seeds); on TestAllTypes 40% with WithInclude(float field gt/lt/ge a threshold on or beside a written value). Non-trivial: runs with an equivalence configured")
	g := &gen{r: lib.NewRand(f.Seed + 15485863)}
	for i, n := 0, f.N(250, 4000); i < n; i++ {
		c := g.pcaseParked()
		if !record(tie, c, c.Spec != nil) {
			return
		}
		if c.Spec == nil {
			tie.Count("equivalence:none")
		} else if c.tolerance() {
			tie.Count("equivalence:tolerance")
		} else {
			tie.Count("equivalence:exact")
		}
	}
}
