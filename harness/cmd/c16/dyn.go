package main

// A message type no generated package has: the kinds the tolerance comparers are about (Timestamp,
// Duration, float wrappers) as the ELEMENTS of repeated fields and as map values, next to their singular
// occurrences, a recursive repeated field and a nested `Change` with a change_time. Built at start-up
// with protodesc / dynamicpb and registered globally (so replays find it by name).
//
//	syntax = "proto3"; package verif.c16;
//	message Times {
//	  google.protobuf.Timestamp at = 1;
//	  repeated google.protobuf.Timestamp starts = 2;
//	  repeated google.protobuf.Duration lengths = 3;
//	  repeated google.protobuf.DoubleValue levels = 4;
//	  repeated google.protobuf.FloatValue ratios = 5;
//	  map<string, google.protobuf.Timestamp> named = 6;
//	  map<int32, google.protobuf.Duration> spans = 7;
//	  repeated Times children = 8;
//	  google.protobuf.Duration length = 9;
//	  repeated double raw = 10;
//	  repeated Change changes = 11;
//	  message Change { google.protobuf.Timestamp change_time = 1; repeated google.protobuf.Timestamp times = 2; string name = 3; }
//	}
//
// pkg/cmp's time comparers read a Timestamp / Duration through its generated Go type
// (x.Interface().(*timestamppb.Timestamp)), so the well-known children of a dynamic message are kept as
// values of their generated types: newChild creates them that way and concretize restores that after
// an Unmarshal (which creates dynamic children).

import (
	"google.golang.org/protobuf/proto"
	"google.golang.org/protobuf/reflect/protodesc"
	pref "google.golang.org/protobuf/reflect/protoreflect"
	"google.golang.org/protobuf/reflect/protoregistry"
	"google.golang.org/protobuf/types/descriptorpb"
	"google.golang.org/protobuf/types/dynamicpb"
	_ "google.golang.org/protobuf/types/known/durationpb"
	_ "google.golang.org/protobuf/types/known/timestamppb"
	_ "google.golang.org/protobuf/types/known/wrapperspb"
)

var dynTimesType = buildDynTimes()

// equatorTypes: the ancestors of the comparer ties (the Pull ties keep to generated types: the store
// clones what it is given with proto.Clone, which makes dynamic children).
var equatorTypes = append(append([]pref.MessageType{}, ancestorTypes...), dynTimesType, dynTimesType)

func buildDynTimes() pref.MessageType {
	const (
		opt = descriptorpb.FieldDescriptorProto_LABEL_OPTIONAL
		rep = descriptorpb.FieldDescriptorProto_LABEL_REPEATED
	)
	msgField := func(name string, num int32, label descriptorpb.FieldDescriptorProto_Label, typeName string) *descriptorpb.FieldDescriptorProto {
		return &descriptorpb.FieldDescriptorProto{
			Name: proto.String(name), JsonName: proto.String(name), Number: proto.Int32(num), Label: label.Enum(),
			Type: descriptorpb.FieldDescriptorProto_TYPE_MESSAGE.Enum(), TypeName: proto.String(typeName),
		}
	}
	scalar := func(name string, num int32, label descriptorpb.FieldDescriptorProto_Label, t descriptorpb.FieldDescriptorProto_Type) *descriptorpb.FieldDescriptorProto {
		return &descriptorpb.FieldDescriptorProto{
			Name: proto.String(name), JsonName: proto.String(name), Number: proto.Int32(num), Label: label.Enum(), Type: t.Enum(),
		}
	}
	entry := func(name string, key descriptorpb.FieldDescriptorProto_Type, valueType string) *descriptorpb.DescriptorProto {
		return &descriptorpb.DescriptorProto{
			Name:    proto.String(name),
			Field:   []*descriptorpb.FieldDescriptorProto{scalar("key", 1, opt, key), msgField("value", 2, opt, valueType)},
			Options: &descriptorpb.MessageOptions{MapEntry: proto.Bool(true)},
		}
	}
	const ts, du = ".google.protobuf.Timestamp", ".google.protobuf.Duration"
	file, err := protodesc.NewFile(&descriptorpb.FileDescriptorProto{
		Name:       proto.String("verif/c16/times.proto"),
		Package:    proto.String("verif.c16"),
		Syntax:     proto.String("proto3"),
		Dependency: []string{"google/protobuf/timestamp.proto", "google/protobuf/duration.proto", "google/protobuf/wrappers.proto"},
		MessageType: []*descriptorpb.DescriptorProto{{
			Name: proto.String("Times"),
			Field: []*descriptorpb.FieldDescriptorProto{
				msgField("at", 1, opt, ts),
				msgField("starts", 2, rep, ts),
				msgField("lengths", 3, rep, du),
				msgField("levels", 4, rep, ".google.protobuf.DoubleValue"),
				msgField("ratios", 5, rep, ".google.protobuf.FloatValue"),
				msgField("named", 6, rep, ".verif.c16.Times.NamedEntry"),
				msgField("spans", 7, rep, ".verif.c16.Times.SpansEntry"),
				msgField("children", 8, rep, ".verif.c16.Times"),
				msgField("length", 9, opt, du),
				scalar("raw", 10, rep, descriptorpb.FieldDescriptorProto_TYPE_DOUBLE),
				msgField("changes", 11, rep, ".verif.c16.Times.Change"),
			},
			NestedType: []*descriptorpb.DescriptorProto{
				entry("NamedEntry", descriptorpb.FieldDescriptorProto_TYPE_STRING, ts),
				entry("SpansEntry", descriptorpb.FieldDescriptorProto_TYPE_INT32, du),
				{
					Name: proto.String("Change"),
					Field: []*descriptorpb.FieldDescriptorProto{
						msgField("change_time", 1, opt, ts),
						msgField("times", 2, rep, ts),
						scalar("name", 3, opt, descriptorpb.FieldDescriptorProto_TYPE_STRING),
					},
				},
			},
		}},
	}, protoregistry.GlobalFiles)
	if err != nil {
		panic("dyn: " + err.Error())
	}
	if err := protoregistry.GlobalFiles.RegisterFile(file); err != nil {
		panic("dyn: " + err.Error())
	}
	md := file.Messages().ByName("Times")
	mt := dynamicpb.NewMessageType(md)
	if err := protoregistry.GlobalTypes.RegisterMessage(mt); err != nil {
		panic("dyn: " + err.Error())
	}
	if err := protoregistry.GlobalTypes.RegisterMessage(dynamicpb.NewMessageType(md.Messages().ByName("Change"))); err != nil {
		panic("dyn: " + err.Error())
	}
	return mt
}

func isDynamic(m pref.Message) bool {
	_, ok := m.Interface().(*dynamicpb.Message)
	return ok
}

// generatedType: the generated Go type registered for this descriptor's name, if there is one.
func generatedType(md pref.MessageDescriptor) pref.MessageType {
	mt, err := protoregistry.GlobalTypes.FindMessageByName(md.FullName())
	if err != nil {
		return nil
	}
	if isDynamic(mt.New()) {
		return nil
	}
	return mt
}

// newChild: a new, empty message for a message-kind position of a dynamic parent: of the generated type
// when the descriptor has one (well-known types), dynamic otherwise.
func newChild(md pref.MessageDescriptor) pref.Message {
	if mt := generatedType(md); mt != nil {
		return mt.New()
	}
	return dynamicpb.NewMessage(md)
}

// concretize replaces, in place, every dynamic child of a dynamic message that has a generated type by
// a value of that type with the same wire content (unknown fields included).
func concretize(m pref.Message) {
	if !m.IsValid() || !isDynamic(m) {
		return
	}
	conv := func(v pref.Message) (pref.Message, bool) {
		if !isDynamic(v) {
			return nil, false
		}
		mt := generatedType(v.Descriptor())
		if mt == nil {
			return nil, false
		}
		b, err := proto.MarshalOptions{Deterministic: true}.Marshal(v.Interface())
		if err != nil {
			panic(err)
		}
		n := mt.New()
		if err := proto.Unmarshal(b, n.Interface()); err != nil {
			panic(err)
		}
		return n, true
	}
	type fv struct {
		fd pref.FieldDescriptor
		v  pref.Value
	}
	var fs []fv
	m.Range(func(fd pref.FieldDescriptor, v pref.Value) bool { fs = append(fs, fv{fd, v}); return true })
	for _, f := range fs {
		fd, v := f.fd, f.v
		switch {
		case fd.IsMap():
			if fd.MapValue().Message() == nil {
				continue
			}
			mp := v.Map()
			var keys []pref.MapKey
			mp.Range(func(k pref.MapKey, _ pref.Value) bool { keys = append(keys, k); return true })
			for _, k := range keys {
				if n, ok := conv(mp.Get(k).Message()); ok {
					mp.Set(k, pref.ValueOfMessage(n))
				} else {
					concretize(mp.Get(k).Message())
				}
			}
		case fd.Message() == nil:
		case fd.IsList():
			l := v.List()
			for i := 0; i < l.Len(); i++ {
				if n, ok := conv(l.Get(i).Message()); ok {
					l.Set(i, pref.ValueOfMessage(n))
				} else {
					concretize(l.Get(i).Message())
				}
			}
		default:
			if n, ok := conv(v.Message()); ok {
				m.Set(fd, pref.ValueOfMessage(n))
			} else {
				concretize(v.Message())
			}
		}
	}
}

// emptyChild: a new empty message for the singular message field fd of m.
func emptyChild(m pref.Message, fd pref.FieldDescriptor) pref.Message {
	if isDynamic(m) {
		return newChild(fd.Message())
	}
	return m.NewField(fd).Message()
}
