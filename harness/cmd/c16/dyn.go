package main

// A message type no generated package has: the kinds the tolerance comparers are about (Timestamp,
// Duration, float wrappers) as the ELEMENTS of repeated fields and as map values, next to their singular
// occurrences, a recursive repeated field and a nested `Change` with a change_time. Built at start-up
// with protodesc / dynamicpb and registered globally (so replays find it by name).
//
//	syntax = "proto3"; package verif.c16;
//	message Times {
//	  google.protobuf.Timestamp at = 1;
//	  repeated google.protobuf.Timestamp starts = 2;
//	  repeated google.protobuf.Duration lengths = 3;
//	  repeated google.protobuf.DoubleValue levels = 4;
//	  repeated google.protobuf.FloatValue ratios = 5;
//	  map<string, google.protobuf.Timestamp> named = 6;
//	  map<int32, google.protobuf.Duration> spans = 7;
//	  repeated Times children = 8;
//	  google.protobuf.Duration length = 9;
//	  repeated double raw = 10;
//	  repeated Change changes = 11;
//	  repeated LevelChange level_changes = 12;
//	  ChangeLog log = 13;
//	  message Change { google.protobuf.Timestamp change_time = 1; repeated google.protobuf.Timestamp times = 2; string name = 3;
//	                   google.protobuf.Timestamp last_change_time = 4; Stamp stamp = 5;
//	                   message Stamp { google.protobuf.Timestamp change_time = 1; int64 change_time_ms = 2; } }
//	}
//	message LevelChange { string name = 1; google.protobuf.Timestamp change_time = 2; }   // name ENDS in Change
//	message ChangeLog { google.protobuf.Timestamp change_time = 1; repeated Change entries = 2; }  // name STARTS with Change
//	message Change { google.protobuf.Timestamp change_time = 1; int64 change_time_ms = 2; google.protobuf.Timestamp xchange_time = 3; } // top level
//
// Two Go representations. The messages the oracles, the encoders and the mutators work on keep their
// well-known children as values of the generated types (newChild creates them that way, concretize
// restores that after an Unmarshal). The REAL comparers are, in a share of the cases (the DynX / DynY flags
// of a case, recorded for the replay), handed dynamicCopy of a side instead: the same descriptor and wire
// content as a dynamicpb value whose children - Timestamps and Durations included - are dynamicpb values
// too, which is what any dynamicpb message looks like after Unmarshal or proto.Clone. Until /repo c524dfe
// pkg/cmp's time comparers type-asserted *timestamppb.Timestamp / *durationpb.Duration and panicked there.

import (
	"google.golang.org/protobuf/proto"
	"google.golang.org/protobuf/reflect/protodesc"
	pref "google.golang.org/protobuf/reflect/protoreflect"
	"google.golang.org/protobuf/reflect/protoregistry"
	"google.golang.org/protobuf/types/descriptorpb"
	"google.golang.org/protobuf/types/dynamicpb"
	_ "google.golang.org/protobuf/types/known/durationpb"
	_ "google.golang.org/protobuf/types/known/timestamppb"
	_ "google.golang.org/protobuf/types/known/wrapperspb"
)

var dynTimesType = buildDynTimes()

// equatorTypes: the ancestors of the comparer ties (the Pull ties keep to generated types: the store
// clones what it is given with proto.Clone, which makes dynamic children).
var equatorTypes = append(append([]pref.MessageType{}, ancestorTypes...), dynTimesType, dynTimesType)

func buildDynTimes() pref.MessageType {
	const (
		opt = descriptorpb.FieldDescriptorProto_LABEL_OPTIONAL
		rep = descriptorpb.FieldDescriptorProto_LABEL_REPEATED
	)
	msgField := func(name string, num int32, label descriptorpb.FieldDescriptorProto_Label, typeName string) *descriptorpb.FieldDescriptorProto {
		return &descriptorpb.FieldDescriptorProto{
			Name: proto.String(name), JsonName: proto.String(name), Number: proto.Int32(num), Label: label.Enum(),
			Type: descriptorpb.FieldDescriptorProto_TYPE_MESSAGE.Enum(), TypeName: proto.String(typeName),
		}
	}
	scalar := func(name string, num int32, label descriptorpb.FieldDescriptorProto_Label, t descriptorpb.FieldDescriptorProto_Type) *descriptorpb.FieldDescriptorProto {
		return &descriptorpb.FieldDescriptorProto{
			Name: proto.String(name), JsonName: proto.String(name), Number: proto.Int32(num), Label: label.Enum(), Type: t.Enum(),
		}
	}
	entry := func(name string, key descriptorpb.FieldDescriptorProto_Type, valueType string) *descriptorpb.DescriptorProto {
		return &descriptorpb.DescriptorProto{
			Name:    proto.String(name),
			Field:   []*descriptorpb.FieldDescriptorProto{scalar("key", 1, opt, key), msgField("value", 2, opt, valueType)},
			Options: &descriptorpb.MessageOptions{MapEntry: proto.Bool(true)},
		}
	}
	const ts, du = ".google.protobuf.Timestamp", ".google.protobuf.Duration"
	file, err := protodesc.NewFile(&descriptorpb.FileDescriptorProto{
		Name:       proto.String("verif/c16/times.proto"),
		Package:    proto.String("verif.c16"),
		Syntax:     proto.String("proto3"),
		Dependency: []string{"google/protobuf/timestamp.proto", "google/protobuf/duration.proto", "google/protobuf/wrappers.proto"},
		MessageType: []*descriptorpb.DescriptorProto{{
			Name: proto.String("Times"),
			Field: []*descriptorpb.FieldDescriptorProto{
				msgField("at", 1, opt, ts),
				msgField("starts", 2, rep, ts),
				msgField("lengths", 3, rep, du),
				msgField("levels", 4, rep, ".google.protobuf.DoubleValue"),
				msgField("ratios", 5, rep, ".google.protobuf.FloatValue"),
				msgField("named", 6, rep, ".verif.c16.Times.NamedEntry"),
				msgField("spans", 7, rep, ".verif.c16.Times.SpansEntry"),
				msgField("children", 8, rep, ".verif.c16.Times"),
				msgField("length", 9, opt, du),
				scalar("raw", 10, rep, descriptorpb.FieldDescriptorProto_TYPE_DOUBLE),
				msgField("changes", 11, rep, ".verif.c16.Times.Change"),
				msgField("level_changes", 12, rep, ".verif.c16.LevelChange"),
				msgField("log", 13, opt, ".verif.c16.ChangeLog"),
			},
			NestedType: []*descriptorpb.DescriptorProto{
				entry("NamedEntry", descriptorpb.FieldDescriptorProto_TYPE_STRING, ts),
				entry("SpansEntry", descriptorpb.FieldDescriptorProto_TYPE_INT32, du),
				{
					Name: proto.String("Change"),
					Field: []*descriptorpb.FieldDescriptorProto{
						msgField("change_time", 1, opt, ts),
						msgField("times", 2, rep, ts),
						scalar("name", 3, opt, descriptorpb.FieldDescriptorProto_TYPE_STRING),
						msgField("last_change_time", 4, opt, ts),
						msgField("stamp", 5, opt, ".verif.c16.Times.Change.Stamp"),
					},
					NestedType: []*descriptorpb.DescriptorProto{{
						// a change_time whose containing message is NOT called Change (its parent is)
						Name:  proto.String("Stamp"),
						Field: []*descriptorpb.FieldDescriptorProto{msgField("change_time", 1, opt, ts), scalar("change_time_ms", 2, opt, descriptorpb.FieldDescriptorProto_TYPE_INT64)},
					}},
				},
			},
		}, {
			// names that only END in "Change" / only START with it, each with a change_time of its own
			Name: proto.String("LevelChange"),
			Field: []*descriptorpb.FieldDescriptorProto{
				scalar("name", 1, opt, descriptorpb.FieldDescriptorProto_TYPE_STRING),
				msgField("change_time", 2, opt, ts),
			},
		}, {
			Name: proto.String("ChangeLog"),
			Field: []*descriptorpb.FieldDescriptorProto{
				msgField("change_time", 1, opt, ts),
				msgField("entries", 2, rep, ".verif.c16.Change"),
			},
		}, {
			// a TOP-LEVEL message called Change: its change_time is left out like that of a nested one
			Name: proto.String("Change"),
			Field: []*descriptorpb.FieldDescriptorProto{
				msgField("change_time", 1, opt, ts),
				scalar("change_time_ms", 2, opt, descriptorpb.FieldDescriptorProto_TYPE_INT64),
				msgField("xchange_time", 3, opt, ts),
			},
		}},
	}, protoregistry.GlobalFiles)
	if err != nil {
		panic("dyn: " + err.Error())
	}
	if err := protoregistry.GlobalFiles.RegisterFile(file); err != nil {
		panic("dyn: " + err.Error())
	}
	md := file.Messages().ByName("Times")
	mt := dynamicpb.NewMessageType(md)
	if err := protoregistry.GlobalTypes.RegisterMessage(mt); err != nil {
		panic("dyn: " + err.Error())
	}
	var regAll func(mds pref.MessageDescriptors)
	regAll = func(mds pref.MessageDescriptors) {
		for i := 0; i < mds.Len(); i++ {
			d := mds.Get(i)
			if d.IsMapEntry() {
				continue
			}
			if d != md {
				if err := protoregistry.GlobalTypes.RegisterMessage(dynamicpb.NewMessageType(d)); err != nil {
					panic("dyn: " + err.Error())
				}
			}
			regAll(d.Messages())
		}
	}
	regAll(file.Messages())
	return mt
}

func isDynamic(m pref.Message) bool {
	_, ok := m.Interface().(*dynamicpb.Message)
	return ok
}

// generatedType: the generated Go type registered for this descriptor's name, if there is one.
func generatedType(md pref.MessageDescriptor) pref.MessageType {
	mt, err := protoregistry.GlobalTypes.FindMessageByName(md.FullName())
	if err != nil {
		return nil
	}
	if isDynamic(mt.New()) {
		return nil
	}
	return mt
}

// newChild: a new, empty message for a message-kind position of a dynamic parent: of the generated type
// when the descriptor has one (well-known types), dynamic otherwise.
func newChild(md pref.MessageDescriptor) pref.Message {
	if mt := generatedType(md); mt != nil {
		return mt.New()
	}
	return dynamicpb.NewMessage(md)
}

// concretize replaces, in place, every dynamic child of a dynamic message that has a generated type by
// a value of that type with the same wire content (unknown fields included).
func concretize(m pref.Message) {
	if !m.IsValid() || !isDynamic(m) {
		return
	}
	conv := func(v pref.Message) (pref.Message, bool) {
		if !isDynamic(v) {
			return nil, false
		}
		mt := generatedType(v.Descriptor())
		if mt == nil {
			return nil, false
		}
		b, err := proto.MarshalOptions{Deterministic: true, AllowPartial: true}.Marshal(v.Interface())
		if err != nil {
			panic(err)
		}
		n := mt.New()
		if err := unmarshalPartial(b, n.Interface()); err != nil {
			panic(err)
		}
		return n, true
	}
	type fv struct {
		fd pref.FieldDescriptor
		v  pref.Value
	}
	var fs []fv
	m.Range(func(fd pref.FieldDescriptor, v pref.Value) bool { fs = append(fs, fv{fd, v}); return true })
	for _, f := range fs {
		fd, v := f.fd, f.v
		switch {
		case fd.IsMap():
			if fd.MapValue().Message() == nil {
				continue
			}
			mp := v.Map()
			var keys []pref.MapKey
			mp.Range(func(k pref.MapKey, _ pref.Value) bool { keys = append(keys, k); return true })
			for _, k := range keys {
				if n, ok := conv(mp.Get(k).Message()); ok {
					mp.Set(k, pref.ValueOfMessage(n))
				} else {
					concretize(mp.Get(k).Message())
				}
			}
		case fd.Message() == nil:
		case fd.IsList():
			l := v.List()
			for i := 0; i < l.Len(); i++ {
				if n, ok := conv(l.Get(i).Message()); ok {
					l.Set(i, pref.ValueOfMessage(n))
				} else {
					concretize(l.Get(i).Message())
				}
			}
		default:
			if n, ok := conv(v.Message()); ok {
				m.Set(fd, pref.ValueOfMessage(n))
			} else {
				concretize(v.Message())
			}
		}
	}
}

// dynamicCopy: m (valid, of any Go type) as a dynamicpb message of the same descriptor with the same wire
// content (unknown fields included); every message below it is a dynamicpb message as well.
func dynamicCopy(m proto.Message) proto.Message {
	if m == nil || !m.ProtoReflect().IsValid() {
		return m
	}
	b, err := proto.MarshalOptions{Deterministic: true, AllowPartial: true}.Marshal(m)
	if err != nil {
		panic(err)
	}
	d := dynamicpb.NewMessage(m.ProtoReflect().Descriptor())
	if err := unmarshalPartial(b, d); err != nil {
		panic(err)
	}
	return d
}

func dynamicValue(fd pref.FieldDescriptor, v pref.Value) pref.Value {
	if fd.Kind() != pref.MessageKind || !v.Message().IsValid() {
		return v
	}
	return pref.ValueOfMessage(dynamicCopy(v.Message().Interface()).ProtoReflect())
}

// emptyChild: a new empty message for the singular message field fd of m.
func emptyChild(m pref.Message, fd pref.FieldDescriptor) pref.Message {
	if isDynamic(m) {
		return newChild(fd.Message())
	}
	return m.NewField(fd).Message()
}

// unmarshalPartial: proto.Unmarshal that accepts proto2 messages lacking required fields (descriptor.proto
// is among the swept types).
func unmarshalPartial(b []byte, m proto.Message) error {
	return proto.UnmarshalOptions{AllowPartial: true}.Unmarshal(b, m)
}
