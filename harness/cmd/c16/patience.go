package main

// Bounded waits with a run-wide budget (round 6).
//
// Every wait of this harness on the code under test is bounded. A single wait may take up to lossyWait (15 s: a
// loaded machine must never turn a slow goroutine into an alarm). On the unchanged tree no wait ever runs out, so
// the bound costs nothing. On a broken tree, however, "nothing happens" IS the observation (a change that is
// never offered, a subscriber that never converges), every such case costs a full wait and a run with many of
// them used to take minutes. Hence the budget: the waits that RUN OUT may cost `patienceBudget` in total per
// run. Each wait is limited to what is left of it (never less than patienceFloor); a family of cases stops as soon
// as one of its cases ran out of time AND the budget is used up. Families keep running their cases that do not
// time out (those are fast), so a later family still reports its own concrete violations; it only loses at most one
// case to a wait of patienceFloor.
//
// A wait that runs out is always reported by its caller (monitor violation or tie answer "timeout"/"error:..."), so
// once the budget is used up the run is failing anyway: the shorter waits after that cannot cause a false alarm on
// a tree that is fine.

import (
	"fmt"
	"sync"
	"time"
)

const lossyWait = 15 * time.Second

const patienceFloor = 400 * time.Millisecond

type patienceT struct {
	mu       sync.Mutex
	left     time.Duration
	timeouts int
}

var patience = &patienceT{left: 16 * time.Second}

func (p *patienceT) configure(thorough bool) {
	p.mu.Lock()
	defer p.mu.Unlock()
	if thorough {
		p.left = 150 * time.Second
	}
}

// limit: how long a wait that may take `full` is allowed to take now.
func (p *patienceT) limit(full time.Duration) time.Duration {
	p.mu.Lock()
	defer p.mu.Unlock()
	d := p.left
	if d < patienceFloor {
		d = patienceFloor
	}
	if d > full {
		d = full
	}
	return d
}

func (p *patienceT) ranOut(d time.Duration) {
	p.mu.Lock()
	defer p.mu.Unlock()
	p.left -= d
	p.timeouts++
}

// mark / giveUp: `m := patience.mark()` before a case, `patience.giveUp(m)` after it says whether the family
// should stop (the case lost a wait and nothing is left of the budget).
func (p *patienceT) mark() int {
	p.mu.Lock()
	defer p.mu.Unlock()
	return p.timeouts
}

func (p *patienceT) giveUp(mark int) bool {
	p.mu.Lock()
	defer p.mu.Unlock()
	return p.timeouts > mark && p.left <= 0
}

func (p *patienceT) note() string {
	p.mu.Lock()
	defer p.mu.Unlock()
	if p.timeouts == 0 {
		return ""
	}
	return fmt.Sprintf("%d bounded wait(s) on the code under test ran out; budget left %v (families stop at their first timed-out case once it is used up)", p.timeouts, p.left.Round(time.Millisecond))
}

// bwait is one bounded wait: `w := bounded(lossyWait); select { case ...: case <-w.C: w.ranOut(); ... }`.
type bwait struct {
	C <-chan time.Time
	d time.Duration
}

func bounded(full time.Duration) bwait {
	d := patience.limit(full)
	return bwait{C: time.After(d), d: d}
}

func (w bwait) ranOut() { patience.ranOut(w.d) }

// waitFor polls a positive condition (bounded).
func waitFor(cond func() bool) bool {
	d := patience.limit(lossyWait)
	deadline := time.Now().Add(d)
	for {
		if cond() {
			return true
		}
		if time.Now().After(deadline) {
			if cond() {
				return true
			}
			patience.ranOut(d)
			return false
		}
		time.Sleep(time.Millisecond)
	}
}
