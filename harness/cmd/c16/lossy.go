package main

// Pull WITHOUT backpressure + equivalence: the bus drops (Value) or merges (Collection) events the
// subscriber is too slow for, then the equivalence check runs on what is left. Which events survive is a
// scheduling matter, so this is a monitor only (no model tie): whatever was lost,
//   - nothing is invented or reordered: every delivered value is one of the written values, in write order;
//   - no delivered change is E-equivalent to what the subscriber held when it arrived;
//   - the subscriber converges: once the writes stop, its view becomes (E-)equal to the stored state
//     (bounded wait on that positive condition, so a slow machine cannot cause a false alarm).

import (
	"context"
	"fmt"
	"sort"
	"sync"
	"time"

	"github.com/smart-core-os/sc-golang/pkg/resource"
	"github.com/smart-core-os/sc-golang/verifharness/lib"
	"google.golang.org/protobuf/proto"
)

func (c pcase) lossyReadOptions() []resource.ReadOption {
	ro := c.readOptions()
	return ro[1:] // without WithBackpressure(true)
}

func sameOrEquiv(E func(x, y proto.Message) bool, a, b proto.Message) bool {
	if E != nil {
		return E(a, b)
	}
	return proto.Equal(a, b)
}

func (c pcase) runLossyValue(ms *monitors, slow time.Duration) {
	in := c.json()
	in.Op = "lossy-" + c.Kind
	var E func(x, y proto.Message) bool
	if c.Spec != nil {
		E = guarded(c.Spec.build())
	}
	opts := c.options()
	if c.Cur != nil {
		opts = append(opts, resource.WithInitialValue(clone(c.Cur)))
	}
	v := resource.NewValue(opts...)
	ctx, cancel := context.WithCancel(context.Background())
	defer cancel()
	ch := v.Pull(ctx, c.lossyReadOptions()...)
	var mu sync.Mutex
	var got []proto.Message
	closed := make(chan struct{})
	go func() {
		defer close(closed)
		for ch := range ch {
			mu.Lock()
			got = append(got, ch.Value)
			mu.Unlock()
			if slow > 0 {
				time.Sleep(slow)
			}
		}
	}()
	written := []proto.Message{}
	if c.Cur != nil {
		written = append(written, c.oracleFilter(c.Cur))
	}
	var final proto.Message = c.Cur
	for _, w := range c.Writes {
		nv, err := v.Set(clone(w))
		if err != nil {
			ms.delivery.Violate("C16/Value.Pull/lossy/error", "Set failed", in, "ok", err.Error())
			return
		}
		final = clone(nv)
		written = append(written, c.oracleFilter(final))
	}
	want := c.oracleFilter(final)
	converged := waitFor(func() bool {
		mu.Lock()
		defer mu.Unlock()
		if want == nil {
			return len(got) == 0
		}
		return len(got) > 0 && sameOrEquiv(E, got[len(got)-1], want)
	})
	cancel()
	w := bounded(lossyWait)
	select {
	case <-closed:
	case <-w.C:
		w.ranOut()
		ms.delivery.Violate("C16/Value.Pull/lossy/not-closed", "pull channel not closed after cancel", in, "closed", "open")
		return
	}
	ms.delivery.Eval(fmt.Sprintf("lossy-v %s %s %d/%d", c.specToken(), c.filterToken(), len(got), len(written)), E != nil, nil)
	ms.delivery.Count(fmt.Sprintf("lossy-vpull:dropped=%v", len(got) < len(written)))
	if !converged {
		ms.delivery.Violate("C16/Value.Pull/lossy/final-value-not-delivered", "after the writes stopped the subscriber's last value never became (E-)equal to the stored value", in, fmt.Sprint(want), fmt.Sprint(got))
	}
	// in write order, nothing invented
	pos := 0
	for i, g := range got {
		for pos < len(written) && !proto.Equal(written[pos], g) {
			pos++
		}
		if pos == len(written) {
			ms.delivery.Violate("C16/Value.Pull/lossy/not-a-written-value-in-order", "a delivered value is not one of the written values at or after the previous delivery", in, "a subsequence of the writes", fmt.Sprintf("delivery %d = %v", i, g))
			break
		}
	}
	if E != nil {
		for i := 1; i < len(got); i++ {
			if E(got[i-1], got[i]) {
				ms.delivery.Violate("C16/Value.Pull/lossy/delivered-equivalent", "a delivered change is E-equivalent to the value delivered before it", in, "not equivalent", fmt.Sprintf("delivery %d: %v then %v", i, got[i-1], got[i]))
				break
			}
		}
	}
}

func (c pcase) runLossyCollection(ms *monitors, slow time.Duration) {
	in := c.json()
	in.Op = "lossy-" + c.Kind
	var E func(x, y proto.Message) bool
	if c.Spec != nil {
		E = guarded(c.Spec.build())
	}
	col := resource.NewCollection(c.options()...)
	ctx, cancel := context.WithCancel(context.Background())
	defer cancel()
	ch := col.Pull(ctx, c.lossyReadOptions()...)
	var mu sync.Mutex
	view := map[string]proto.Message{}
	dupe := ""
	closed := make(chan struct{})
	go func() {
		defer close(closed)
		for ch := range ch {
			mu.Lock()
			if ch.NewValue == nil {
				delete(view, ch.Id)
			} else {
				if h, ok := view[ch.Id]; ok && E != nil && !c.tolerance() && E(h, ch.NewValue) && dupe == "" {
					dupe = fmt.Sprintf("id %s: held %v, delivered %v", ch.Id, h, ch.NewValue)
				}
				view[ch.Id] = ch.NewValue
			}
			mu.Unlock()
			if slow > 0 {
				time.Sleep(slow)
			}
		}
	}()
	stored := map[string]proto.Message{}
	for _, o := range c.Ops {
		var nv proto.Message
		var err error
		switch o.Op {
		case "add":
			nv, err = col.Add(o.Id, clone(o.msg))
		case "update":
			nv, err = col.Update(o.Id, clone(o.msg))
		default:
			_, err = col.Delete(o.Id)
		}
		if err != nil {
			ms.delivery.Violate("C16/Collection.Pull/lossy/error", o.Op+" failed", in, "ok", err.Error())
			return
		}
		if nv == nil {
			delete(stored, o.Id)
		} else {
			stored[o.Id] = clone(nv)
		}
	}
	want := map[string]proto.Message{}
	for id, m := range stored {
		if c.Inc == nil || c.Inc.holds(m) {
			want[id] = c.oracleFilter(m)
		}
	}
	state := func() string {
		var ids []string
		for id := range view {
			ids = append(ids, id)
		}
		sort.Strings(ids)
		return fmt.Sprint(ids, view)
	}
	converged := waitFor(func() bool {
		mu.Lock()
		defer mu.Unlock()
		if len(view) != len(want) {
			return false
		}
		for id, w := range want {
			h, ok := view[id]
			if !ok {
				return false
			}
			// under a tolerance the known drift (change compared with its own old value) only allows
			// checking membership; with no or an exact equivalence the values must agree
			if !c.tolerance() && !sameOrEquiv(E, h, w) {
				return false
			}
		}
		return true
	})
	cancel()
	w := bounded(lossyWait)
	select {
	case <-closed:
	case <-w.C:
		w.ranOut()
		ms.delivery.Violate("C16/Collection.Pull/lossy/not-closed", "pull channel not closed after cancel", in, "closed", "open")
		return
	}
	ms.delivery.Eval(fmt.Sprintf("lossy-c %s %s %s %d", c.specToken(), c.filterToken(), c.Inc.token(c.Type), len(c.Ops)), E != nil, nil)
	ms.delivery.Count("lossy-cpull")
	if !converged {
		ms.delivery.Violate("C16/Collection.Pull/lossy/view-does-not-converge", "after the writes stopped the subscriber's folded view never matched the stored (included, masked) items", in, fmt.Sprint(want), state())
	}
	if dupe != "" {
		ms.delivery.Violate("C16/Collection.Pull/lossy/delivered-equivalent", "a delivered change is equal to the value the subscriber held for that id", in, "not equivalent", dupe)
	}
}

func runLossy(f lib.Flags, res *lib.Result, ms *monitors) {
	g := &gen{r: lib.NewRand(f.Seed + 32452843)}
	n := f.N(150, 1500)
	for i := 0; i < n; i++ {
		var c pcase
		if i%4 == 3 {
			c = g.pcaseInclude()
		} else {
			c = g.pcase()
		}
		// lengthen the run so that the subscriber falls behind: repeat the writes with small variations
		if c.Kind == "vpull" {
			base := c.Writes
			for k := 0; k < 4; k++ {
				for _, w := range base {
					m := proto.Clone(w)
					if g.r.Intn(2) == 0 {
						g.noUnknown, g.noNegZero = true, true
						g.mutate(m.ProtoReflect(), 1)
						g.noUnknown, g.noNegZero = false, false
					}
					c.Writes = append(c.Writes, m)
				}
			}
		} else {
			base := c.Ops
			for k := 0; k < 3; k++ {
				for _, o := range base {
					if o.Op == "update" {
						c.Ops = append(c.Ops, o)
					}
				}
			}
			c.Ops = replayable(c.Ops)
		}
		slow := time.Duration(g.r.Intn(3)) * 100 * time.Microsecond
		mark := patience.mark()
		if c.Kind == "vpull" {
			c.runLossyValue(ms, slow)
		} else {
			c.runLossyCollection(ms, slow)
		}
		if patience.giveUp(mark) {
			return
		}
	}
}

// replayable drops operations that cannot succeed in sequence (update/delete of an absent id, add of a
// present one) after the list was extended.
func replayable(ops []cop) []cop {
	present := map[string]bool{}
	var out []cop
	for _, o := range ops {
		switch o.Op {
		case "add":
			if present[o.Id] {
				continue
			}
			present[o.Id] = true
		case "update":
			if !present[o.Id] {
				continue
			}
		default:
			if !present[o.Id] {
				continue
			}
			delete(present, o.Id)
		}
		out = append(out, o)
	}
	return out
}
