package main

// Tie + monitor for the equivalence check in Value.Pull / Collection.Pull (C16_no_dup_delivery).

import (
	"context"
	"fmt"
	"sort"
	"strings"
	"sync"
	"time"

	"github.com/smart-core-os/sc-golang/pkg/resource"
	"github.com/smart-core-os/sc-golang/verifharness/lib"
	"google.golang.org/grpc/codes"
	"google.golang.org/grpc/status"
	"google.golang.org/protobuf/proto"
	pref "google.golang.org/protobuf/reflect/protoreflect"
	"google.golang.org/protobuf/reflect/protoregistry"
	"google.golang.org/protobuf/types/known/fieldmaskpb"
)

type cop struct {
	Op  string  `json:"op"` // add | update | delete
	Id  string  `json:"id"`
	Msg msgJSON `json:"msg,omitempty"`
	msg proto.Message
	// Create: an update with WithCreateIfAbsent (no WithExpectAbsent).
	Create bool `json:"create,omitempty"`
	// Rival: a complete write by somebody else, run from inside this write's interceptor callback (At:
	// "before" | "after"), i.e. after this write's first read and before its locked re-validation read.
	Rival *cop   `json:"rival,omitempty"`
	At    string `json:"at,omitempty"`
}

func (o cop) toJSON() cop {
	o.Msg = toJSON(o.msg)
	if o.Rival != nil {
		r := o.Rival.toJSON()
		o.Rival = &r
	}
	return o
}

func (o cop) fromJSON() (cop, error) {
	var err error
	if o.msg, err = fromJSON(o.Msg); err != nil {
		return o, err
	}
	if o.Rival != nil {
		r, err := o.Rival.fromJSON()
		if err != nil {
			return o, err
		}
		o.Rival = &r
	}
	return o, nil
}

// incSpec is an include predicate of the closed family shared with the driver: a float/double top-level
// field (0 when unset) compared with a threshold.
type incSpec struct {
	Field string  `json:"field"`
	Op    string  `json:"op"` // gt | lt | ge
	Thr   float64 `json:"thr"`
}

func (s *incSpec) holds(m proto.Message) bool {
	if m == nil {
		return false
	}
	r := m.ProtoReflect()
	fd := r.Descriptor().Fields().ByName(pref.Name(s.Field))
	v := r.Get(fd).Float()
	switch s.Op {
	case "gt":
		return v > s.Thr
	case "lt":
		return v < s.Thr
	}
	return v >= s.Thr
}

func (s *incSpec) token(mt pref.MessageType) string {
	if s == nil {
		return "any"
	}
	return fmt.Sprintf("%s:%d:%s", s.Op, mt.Descriptor().Fields().ByName(pref.Name(s.Field)).Number(), encFloat(s.Thr))
}

type pcase struct {
	Kind        string // vpull | cpull
	Spec        *mspec // nil: no equivalence configured
	NoDup       bool   // configured through WithNoDuplicates() instead of WithMessageEquivalence
	Type        pref.MessageType
	Mask        []string // top-level field names; nil: no read mask
	Inc         *incSpec // Collection.Pull only; nil: no WithInclude
	UpdatesOnly bool     // WithUpdatesOnly(true): no seed; the subscriber holds nothing until the first delivery
	Cur         proto.Message
	Writes      []proto.Message
	Ops         []cop
	Sched       string // vfree only: 'w' = next write, 's' = the subscriber receives one change
	// Collection.Pull only: other subscribers of the same collection with these include predicates
	// (neighbours.go); even positions subscribe before the observed subscriber, odd ones after it
	Neighbours []incSpec
}

type pcaseJSON struct {
	Op          string    `json:"op"`
	Spec        *mspec    `json:"spec"`
	NoDup       bool      `json:"no_duplicates,omitempty"`
	Type        string    `json:"type"`
	Mask        []string  `json:"mask"`
	Inc         *incSpec  `json:"include,omitempty"`
	UpdatesOnly bool      `json:"updates_only,omitempty"`
	Cur         msgJSON   `json:"cur"`
	Writes      []msgJSON `json:"writes,omitempty"`
	Ops         []cop     `json:"ops,omitempty"`
	Sched       string    `json:"sched,omitempty"`
	Neighbours  []incSpec `json:"neighbours,omitempty"`
}

func (c pcase) json() pcaseJSON {
	j := pcaseJSON{Op: c.Kind, Spec: c.Spec, NoDup: c.NoDup, Type: string(c.Type.Descriptor().FullName()), Mask: c.Mask, Inc: c.Inc, UpdatesOnly: c.UpdatesOnly, Cur: toJSON(c.Cur), Sched: c.Sched, Neighbours: c.Neighbours}
	for _, w := range c.Writes {
		j.Writes = append(j.Writes, toJSON(w))
	}
	for _, o := range c.Ops {
		j.Ops = append(j.Ops, o.toJSON())
	}
	return j
}

func (j pcaseJSON) decode() (pcase, error) {
	mt, err := protoregistry.GlobalTypes.FindMessageByName(pref.FullName(j.Type))
	if err != nil {
		return pcase{}, err
	}
	c := pcase{Kind: j.Op, Spec: j.Spec, NoDup: j.NoDup, Type: mt, Mask: j.Mask, Inc: j.Inc, UpdatesOnly: j.UpdatesOnly, Sched: j.Sched, Neighbours: j.Neighbours}
	if c.Cur, err = fromJSON(j.Cur); err != nil {
		return c, err
	}
	for _, w := range j.Writes {
		m, err := fromJSON(w)
		if err != nil {
			return c, err
		}
		c.Writes = append(c.Writes, m)
	}
	for _, o := range j.Ops {
		if o, err = o.fromJSON(); err != nil {
			return c, err
		}
		c.Ops = append(c.Ops, o)
	}
	return c, nil
}

func (c pcase) options() []resource.Option {
	var opts []resource.Option
	switch {
	case c.Spec == nil:
	case c.NoDup:
		opts = append(opts, resource.WithNoDuplicates())
	case (len(c.Ops)+len(c.Writes))%2 == 1:
		// the general route: any Comparer (chosen by the shape of the case, so a replay takes the same route)
		opts = append(opts, resource.WithEquivalence(resource.ComparerFunc(guarded(c.Spec.build()))))
	default:
		opts = append(opts, resource.WithMessageEquivalence(guarded(c.Spec.build())))
	}
	return opts
}

// guarded: the equivalence runs in the resource's own goroutines, where a panic of the comparer would take
// the whole harness down (and every replay recorded so far with it): it is caught, remembered and reported
// as the run's error (takeComparerPanic).
var comparerPanic struct {
	mu  sync.Mutex
	msg string
}

func guarded(e func(x, y proto.Message) bool) func(x, y proto.Message) bool {
	return func(x, y proto.Message) (r bool) {
		defer func() {
			if p := recover(); p != nil {
				comparerPanic.mu.Lock()
				if comparerPanic.msg == "" {
					comparerPanic.msg = fmt.Sprint(p)
				}
				comparerPanic.mu.Unlock()
				r = false
			}
		}()
		return e(x, y)
	}
}

func takeComparerPanic() string {
	comparerPanic.mu.Lock()
	defer comparerPanic.mu.Unlock()
	m := comparerPanic.msg
	comparerPanic.msg = ""
	return m
}

func (c pcase) readOptions() []resource.ReadOption { return c.readOptionsWith(nil) }

// readOptionsWith: include, when given, takes the place of the case's own include predicate.
func (c pcase) readOptionsWith(include resource.FilterFunc) []resource.ReadOption {
	ro := []resource.ReadOption{resource.WithBackpressure(true)}
	if c.Mask != nil {
		ro = append(ro, resource.WithReadMask(&fieldmaskpb.FieldMask{Paths: c.Mask}))
	}
	if include != nil {
		ro = append(ro, resource.WithInclude(include))
	} else if c.Inc != nil {
		inc := c.Inc
		ro = append(ro, resource.WithInclude(func(_ string, m proto.Message) bool { return inc.holds(m) }))
	}
	if c.UpdatesOnly {
		ro = append(ro, resource.WithUpdatesOnly(true))
	}
	return ro
}

// oracleFilter: the read mask applied independently of pkg/masks: keep only the named top-level fields.
func (c pcase) oracleFilter(m proto.Message) proto.Message {
	if m == nil || c.Mask == nil {
		return m
	}
	cl := proto.Clone(m)
	r := cl.ProtoReflect()
	keep := map[string]bool{}
	for _, n := range c.Mask {
		keep[n] = true
	}
	var drop []pref.FieldDescriptor
	r.Range(func(fd pref.FieldDescriptor, _ pref.Value) bool {
		if !keep[string(fd.Name())] {
			drop = append(drop, fd)
		}
		return true
	})
	for _, fd := range drop {
		r.Clear(fd)
	}
	return cl
}

func (c pcase) filterToken() string {
	if c.Mask == nil {
		return "all"
	}
	var nums []string
	for _, n := range c.Mask {
		nums = append(nums, fmt.Sprint(c.Type.Descriptor().Fields().ByName(pref.Name(n)).Number()))
	}
	return "k" + strings.Join(nums, ".")
}

func (c pcase) specToken() string {
	if c.Spec == nil {
		return "none"
	}
	return c.Spec.token()
}

// pullOut: what the real code did. events[i] is the value carried by the i-th write's event (old/new
// for collections), delivered[i] whether the subscriber received it, got[i] what it received.
type pullOut struct {
	err       string
	seed      []proto.Message // seed values received
	events    []proto.Message // value pull: new value of each write
	olds      []proto.Message // collection pull
	ids       []string
	listed    []string // collection pull with include: ids List(WithInclude) shows after each write
	listErr   string
	delivered []bool
	got       []proto.Message
	refused   int // writes refused (Aborted / NotFound) because their rival changed what they had read
}

type fakeClock struct {
	mu sync.Mutex
	t  time.Time
}

func (f *fakeClock) Now() time.Time  { f.mu.Lock(); defer f.mu.Unlock(); return f.t }
func (f *fakeClock) set(t time.Time) { f.mu.Lock(); f.t = t; f.mu.Unlock() }

var t0 = time.Unix(1700000000, 0).UTC()

func clone(m proto.Message) proto.Message {
	if m == nil {
		return nil
	}
	return proto.Clone(m)
}

func (c pcase) runCode() pullOut {
	var out pullOut
	done := make(chan struct{})
	go func() {
		defer close(done)
		if p, msg := lib.Catch(func() {
			if c.Kind == "vpull" {
				c.runValue(&out)
			} else {
				c.runCollection(&out)
			}
		}); p {
			out.err = "panic:" + msg
		}
	}()
	w := bounded(20 * time.Second)
	select {
	case <-done:
	case <-w.C:
		w.ranOut()
		takeComparerPanic()
		return pullOut{err: "timeout"}
	}
	if m := takeComparerPanic(); m != "" && out.err == "" {
		out.err = "panic in the equivalence:" + m
	}
	return out
}

func (c pcase) runValue(out *pullOut) {
	clk := &fakeClock{t: t0}
	opts := append(c.options(), resource.WithClock(clk))
	if c.Cur != nil {
		opts = append(opts, resource.WithInitialValue(clone(c.Cur)))
	}
	v := resource.NewValue(opts...)
	ctx, cancel := context.WithCancel(context.Background())
	defer cancel()
	ch := v.Pull(ctx, c.readOptions()...)
	type rec struct {
		t    time.Time
		v    proto.Message
		seed bool
	}
	var recs []rec
	collected := make(chan struct{})
	go func() {
		defer close(collected)
		for ch := range ch {
			recs = append(recs, rec{ch.ChangeTime, ch.Value, ch.SeedValue})
		}
	}()
	for i, w := range c.Writes {
		nv, err := v.Set(clone(w), resource.WithWriteTime(t0.Add(time.Duration(i+1)*time.Second)))
		if err != nil {
			out.err = "set:" + err.Error()
			break
		}
		out.events = append(out.events, clone(nv))
	}
	// a final write: Set returns (backpressure) once the pull goroutine has taken it, i.e. after it
	// completely processed (and, if not suppressed, delivered) every earlier event
	sentinel := clone(c.Cur)
	if len(c.Writes) > 0 {
		sentinel = clone(c.Writes[len(c.Writes)-1])
	}
	if sentinel == nil {
		sentinel = c.Type.New().Interface()
	}
	tEnd := t0.Add(time.Hour)
	if _, err := v.Set(sentinel, resource.WithWriteTime(tEnd)); err != nil && out.err == "" {
		out.err = "set:" + err.Error()
	}
	cancel()
	w := bounded(10 * time.Second)
	select {
	case <-collected:
	case <-w.C:
		w.ranOut()
		out.err = "pull channel not closed after cancel"
		return
	}
	out.delivered = make([]bool, len(out.events))
	out.got = make([]proto.Message, len(out.events))
	for _, r := range recs {
		switch {
		case r.seed:
			out.seed = append(out.seed, r.v)
		case r.t.Equal(tEnd):
		default:
			i := int(r.t.Sub(t0)/time.Second) - 1
			if i < 0 || i >= len(out.events) || out.delivered[i] {
				out.err = fmt.Sprintf("unexpected emission at %v", r.t)
				continue
			}
			out.delivered[i] = true
			out.got[i] = r.v
		}
	}
}

func (c pcase) runCollection(out *pullOut) {
	clk := &fakeClock{t: t0}
	col := resource.NewCollection(append(c.options(), resource.WithClock(clk))...)
	ctx, cancel := context.WithCancel(context.Background())
	defer cancel()
	var nb *nbSync
	var nbDrained sync.WaitGroup
	ro := c.readOptions()
	if len(c.Neighbours) > 0 {
		nb = &nbSync{}
		for _, spec := range c.Neighbours {
			nb.ns = append(nb.ns, &neighbour{spec: spec})
		}
		ro = c.readOptionsWith(nb.observedInclude(c.Inc))
		for i := 0; i < len(nb.ns); i += 2 {
			nb.subscribe(ctx, col, nb.ns[i], &nbDrained)
		}
	}
	ch := col.Pull(ctx, ro...)
	if nb != nil {
		for i := 1; i < len(nb.ns); i += 2 {
			nb.subscribe(ctx, col, nb.ns[i], &nbDrained)
		}
	}
	type rec struct {
		t    time.Time
		id   string
		v    proto.Message
		seed bool
	}
	var recs []rec
	collected := make(chan struct{})
	go func() {
		defer close(collected)
		for ch := range ch {
			recs = append(recs, rec{ch.ChangeTime, ch.Id, ch.NewValue, ch.SeedValue})
		}
	}()
	cur := map[string]proto.Message{}
	// every event gets a change time of its own: event k (in the order the writes commit) carries t0+(k+1)s
	setClock := func() { clk.set(t0.Add(time.Duration(len(out.events)+1) * time.Second)) }
	apply := func(o cop, extra ...resource.WriteOption) (proto.Message, error) {
		switch o.Op {
		case "add":
			return col.Add(o.Id, clone(o.msg), extra...)
		case "update":
			if o.Create {
				extra = append(extra, resource.WithCreateIfAbsent())
			}
			return col.Update(o.Id, clone(o.msg), extra...)
		}
		_, err := col.Delete(o.Id)
		return nil, err
	}
	record := func(id string, nv proto.Message) {
		out.ids = append(out.ids, id)
		out.olds = append(out.olds, cur[id])
		out.events = append(out.events, clone(nv))
		if nv == nil {
			delete(cur, id)
		} else {
			cur[id] = clone(nv)
		}
	}
	for _, o := range c.Ops {
		setClock()
		var extra []resource.WriteOption
		if o.Rival != nil && o.Op != "delete" {
			rival, ran := *o.Rival, false
			hook := func(_, _ proto.Message) {
				if ran {
					return
				}
				ran = true
				if nv, err := apply(rival); err == nil {
					record(rival.Id, nv)
				}
				setClock()
			}
			if o.At == "after" {
				extra = append(extra, resource.InterceptAfter(hook))
			} else {
				extra = append(extra, resource.InterceptBefore(hook))
			}
		}
		if nb != nil {
			_, oldExists := cur[o.Id]
			nb.begin(oldExists, o.Op != "delete")
		}
		nv, err := apply(o, extra...)
		if nb != nil {
			nb.end(err == nil)
		}
		if err != nil {
			if code := status.Code(err); o.Rival != nil && (code == codes.Aborted || code == codes.NotFound) {
				// the rival changed what this write had read: refused, nothing happened
				out.refused++
				continue
			}
			out.err = o.Op + ":" + err.Error()
			break
		}
		record(o.Id, nv)
		if c.Inc != nil {
			inc := c.Inc
			var ids []string
			for _, id := range []string{"a", "b"} {
				if m, ok := col.Get(id); ok && inc.holds(m) {
					ids = append(ids, id)
				}
			}
			if n := len(col.List(resource.WithInclude(func(_ string, m proto.Message) bool { return inc.holds(m) }))); n != len(ids) {
				out.listErr = fmt.Sprintf("List(WithInclude) shows %d items, Get+predicate %d", n, len(ids))
			}
			out.listed = append(out.listed, strings.Join(ids, ","))
		}
	}
	tEnd := t0.Add(time.Hour)
	clk.set(tEnd)
	if _, err := col.Add("~sentinel", c.Type.New().Interface()); err != nil && out.err == "" {
		out.err = "add sentinel:" + err.Error()
	}
	cancel()
	w := bounded(10 * time.Second)
	select {
	case <-collected:
	case <-w.C:
		w.ranOut()
		out.err = "pull channel not closed after cancel"
		return
	}
	out.delivered = make([]bool, len(out.events))
	out.got = make([]proto.Message, len(out.events))
	for _, r := range recs {
		if r.t.Equal(tEnd) {
			continue
		}
		i := int(r.t.Sub(t0)/time.Second) - 1
		if r.seed || i < 0 || i >= len(out.events) || out.delivered[i] || out.ids[i] != r.id {
			out.err = fmt.Sprintf("unexpected emission at %v id=%s", r.t, r.id)
			continue
		}
		out.delivered[i] = true
		out.got[i] = r.v
	}
}

func bits(bs []bool) string {
	var sb strings.Builder
	for _, b := range bs {
		if b {
			sb.WriteByte('1')
		} else {
			sb.WriteByte('0')
		}
	}
	return sb.String()
}

// codeAnswer in the driver's format.
func (c pcase) codeAnswer(out pullOut) string {
	if out.err != "" {
		return "error:" + out.err
	}
	s := "d="
	if c.Kind == "vpull" {
		for range out.seed {
			s += "1"
		}
	}
	return s + bits(out.delivered)
}

// line builds the driver request from the events the real code produced (the values carried by the
// events are taken from the code: the model is only about the equivalence decisions).
func (c pcase) line(out pullOut) string {
	parts := []string{c.Kind, c.specToken(), c.filterToken()}
	if len(c.Neighbours) > 0 {
		// the shared-event model (Shared.lean): the observed subscriber next to its neighbours, neighbours first
		parts[0] = "cshared"
	}
	if c.Kind == "vpull" {
		if c.UpdatesOnly {
			parts = append(parts, "nil") // no seed: the loop starts with last = nil whatever is stored
		} else {
			parts = append(parts, encTop(c.Cur))
		}
		for _, e := range out.events {
			parts = append(parts, encTop(e))
		}
	} else {
		parts = append(parts, c.Inc.token(c.Type))
		if len(c.Neighbours) > 0 {
			var ns []string
			for i := range c.Neighbours {
				ns = append(ns, c.Neighbours[i].token(c.Type))
			}
			parts = append(parts, strings.Join(ns, "|"))
		}
		for i, e := range out.events {
			parts = append(parts, encTop(out.olds[i]), encTop(e))
		}
	}
	return strings.Join(parts, " ")
}

func (c pcase) tolerance() bool { return c.Spec != nil && !c.Spec.plain() }

// monitor: the property on the real code. The subscriber's view is folded from what it received.
func (c pcase) monitor(ms *monitors, out pullOut) string {
	in := c.json()
	site := "Value.Pull"
	if c.Kind == "cpull" {
		site = "Collection.Pull"
	}
	if out.err != "" {
		ms.delivery.Violate("C16/"+site+"/error", "pull run failed", in, "a delivery sequence", out.err)
		return c.codeAnswer(out)
	}
	var E func(x, y proto.Message) bool
	if c.Spec != nil {
		E = guarded(c.Spec.build())
	}
	class := "exact"
	if c.tolerance() {
		class = "tolerance"
	}
	held := map[string]proto.Message{}
	heldIsSeed := false
	if c.Kind == "vpull" {
		if c.Cur != nil && !c.UpdatesOnly {
			if len(out.seed) != 1 {
				ms.delivery.Violate("C16/Value.Pull/seed-count", "expected exactly one seed value", in, "1", fmt.Sprint(len(out.seed)))
				return c.codeAnswer(out)
			}
			held[""] = out.seed[0]
			heldIsSeed = true
		} else if len(out.seed) != 0 {
			ms.delivery.Violate("C16/Value.Pull/seed-count", "seed without a current value", in, "0", fmt.Sprint(len(out.seed)))
		}
	}
	for i, ev := range out.events {
		id := ""
		if c.Kind == "cpull" {
			id = out.ids[i]
		}
		n := c.oracleFilter(ev)
		if c.Inc != nil && !c.Inc.holds(ev) {
			n = nil // outside the include filter: the subscriber must not see the item
		}
		h := held[id]
		equiv := false
		if E != nil {
			equiv = E(h, n)
		}
		// nothing held and nothing to show: no change for this subscriber; otherwise deliver iff not equivalent
		expected := !(h == nil && n == nil) && !equiv
		key := fmt.Sprintf("%s %s %s %s %s|%s", c.Kind, c.specToken(), c.filterToken(), c.Inc.token(c.Type), encTop(h), encTop(n))
		ms.delivery.Eval(key, E != nil, nil)
		ms.delivery.Count(fmt.Sprintf("%s:include=%v:equiv=%v:delivered=%v", c.Kind, c.Inc != nil, equiv, out.delivered[i]))
		if out.delivered[i] != expected {
			what, kind := "a change equivalent to the value the subscriber holds was delivered", "delivered-equivalent"
			if !out.delivered[i] {
				what, kind = "a change NOT equivalent to the value the subscriber holds was suppressed", "suppressed-nonequivalent"
			}
			sig := fmt.Sprintf("C16/%s/%s/%s", site, class, kind)
			if c.Kind == "vpull" && c.Mask != nil && heldIsSeed && kind == "delivered-equivalent" {
				sig = "C16/Value.Pull/read-mask/delivered-equivalent-to-seed"
			}
			if c.Kind == "cpull" && (h == nil) != (n == nil) {
				// the item enters or leaves the subscriber's view: never equivalent, whatever the tolerance
				sig = "C16/Collection.Pull/membership-change-suppressed"
				what = "an item entering/leaving the subscriber's view (ADD/REMOVE) was not delivered"
			} else if c.Kind == "cpull" && h == nil && n == nil {
				sig = "C16/Collection.Pull/invisible-change-delivered"
				what = "a change to an item the subscriber neither holds nor may see was delivered"
			}
			ms.delivery.Violate(sig, what, in, fmt.Sprintf("event %d delivered=%v (held=%v new=%v)", i, expected, h, n), fmt.Sprintf("delivered=%v", out.delivered[i]))
		}
		if out.delivered[i] && c.Kind == "cpull" && !proto.Equal(out.got[i], n) {
			// what a delivered change carries as its new value is what the subscriber may see of the item now
			ms.delivery.Violate("C16/Collection.Pull/delivered-value-differs", "a delivered change does not carry the item's value as this subscriber may see it (read mask applied; nothing when the item is gone or outside its include predicate)", in, fmt.Sprintf("event %d new value %v", i, n), fmt.Sprint(out.got[i]))
		}
		if out.delivered[i] {
			if n == nil {
				delete(held, id)
			} else {
				held[id] = out.got[i]
			}
			heldIsSeed = false
		}
		if c.Kind == "cpull" && c.Inc != nil && i < len(out.listed) {
			var ids []string
			for id := range held {
				ids = append(ids, id)
			}
			sort.Strings(ids)
			if view := strings.Join(ids, ","); view != out.listed[i] {
				ms.delivery.Violate("C16/Collection.Pull/include/view-differs-from-List", "after a write the ids in the subscriber's folded view differ from List(WithInclude)", in, fmt.Sprintf("after op %d: {%s}", i, out.listed[i]), "{"+view+"}")
			}
		}
	}
	if out.listErr != "" {
		ms.delivery.Violate("C16/Collection.List/include-count", "List(WithInclude) disagrees with Get + predicate", in, "same count", out.listErr)
	}
	return c.codeAnswer(out)
}

// ---------------------------------------------------------------------------------------------
// generation

func (g *gen) pullSpec() (*mspec, bool) {
	switch g.r.Intn(8) {
	case 0:
		return nil, false
	case 1, 2:
		s := plainEqual
		return &s, true
	case 3:
		s := plainEqual
		return &s, false
	}
	var e espec
	for len(e.V) == 0 {
		e = g.espec(false)
	}
	return &mspec{E: []espec{e}}, false
}

func (g *gen) mask(mt pref.MessageType, sample proto.Message) []string {
	if g.r.Intn(2) == 0 {
		return nil
	}
	fds := mt.Descriptor().Fields()
	var populated []string
	if sample != nil {
		sample.ProtoReflect().Range(func(fd pref.FieldDescriptor, _ pref.Value) bool {
			populated = append(populated, string(fd.Name()))
			return true
		})
		sort.Strings(populated)
	}
	seen := map[string]bool{}
	var names []string
	for n := g.r.Intn(3) + 1; n > 0; n-- {
		var name string
		if len(populated) > 0 && g.r.Intn(4) != 0 {
			name = populated[g.r.Intn(len(populated))]
		} else {
			name = string(fds.Get(g.r.Intn(fds.Len())).Name())
		}
		if !seen[name] {
			seen[name] = true
			names = append(names, name)
		}
	}
	return names
}

func (g *gen) pcase() pcase {
	g.floatDeltas, g.nsDeltas = nil, nil
	g.special = g.r.Intn(6) == 0
	g.noUnknown, g.noNegZero = true, true
	defer func() { g.noUnknown, g.noNegZero = false, false }()
	mt := ancestorTypes[g.r.Intn(len(ancestorTypes))]
	if g.r.Intn(5) == 0 {
		// the dynamic type: the store keeps proto.Clone's of what it is given, whose Timestamp / Duration
		// children are dynamicpb values: the time comparers see those on both sides
		mt = dynTimesType
	}
	c := pcase{Kind: "vpull", Type: mt}
	if g.r.Intn(3) == 0 {
		c.Kind = "cpull"
	}
	base := g.newMessage(mt, 2)
	next := func(prev proto.Message) proto.Message {
		m := proto.Clone(prev)
		for n := g.r.Intn(3); n > 0; n-- {
			g.mutate(m.ProtoReflect(), 1)
		}
		return m
	}
	if c.Kind == "vpull" {
		if g.r.Intn(6) != 0 {
			c.Cur = base
		}
		prev := base
		for n := g.r.Intn(6) + 1; n > 0; n-- {
			prev = next(prev)
			c.Writes = append(c.Writes, prev)
		}
	} else {
		ids := []string{"a", "b"}
		cur := map[string]proto.Message{}
		rivals := g.r.Intn(2) == 0 // writers overtaken, inside their own callback, by a complete rival write
		empty := func() proto.Message { return mt.New().Interface() }
		for n := g.r.Intn(7) + 1; n > 0; n-- {
			id := ids[g.r.Intn(2)]
			prev, ok := cur[id]
			at := []string{"before", "after"}[g.r.Intn(2)]
			switch {
			case rivals && g.r.Intn(2) == 0 && !ok:
				// create-if-absent overtaken by another creator of the same id. The overtaken write goes through iff
				// what the rival stored is equal to the provisional (empty) message; it then REPLACES that item
				rv := empty()
				if g.r.Intn(4) == 0 {
					rv = next(rv)
				}
				var m proto.Message
				switch g.r.Intn(4) {
				case 0, 1:
					m = empty()
				case 2:
					m = next(empty())
				default:
					m = next(base)
				}
				c.Ops = append(c.Ops, cop{Op: "update", Create: true, Id: id, msg: m, At: at, Rival: &cop{Op: "update", Create: true, Id: id, msg: rv}})
				if proto.Equal(rv, empty()) {
					cur[id] = m
				} else {
					cur[id] = rv
				}
			case rivals && g.r.Intn(2) == 0 && ok:
				// an update overtaken by a rival that re-writes the same item (equal or not) or writes the other id
				m := next(prev)
				other := ids[0]
				if id == other {
					other = ids[1]
				}
				switch g.r.Intn(3) {
				case 0:
					c.Ops = append(c.Ops, cop{Op: "update", Id: id, msg: m, At: at, Rival: &cop{Op: "update", Id: id, msg: proto.Clone(prev)}})
					cur[id] = m
				case 1:
					rv := next(prev)
					c.Ops = append(c.Ops, cop{Op: "update", Id: id, msg: m, At: at, Rival: &cop{Op: "update", Id: id, msg: rv}})
					if proto.Equal(rv, prev) {
						cur[id] = m
					} else {
						cur[id] = rv
					}
				default:
					rv := next(base)
					if p, ok := cur[other]; ok && g.r.Intn(2) == 0 {
						rv = proto.Clone(p) // a no-op write of the other item
					}
					c.Ops = append(c.Ops, cop{Op: "update", Id: id, msg: m, At: at, Rival: &cop{Op: "update", Create: true, Id: other, msg: rv}})
					cur[other] = rv
					cur[id] = m
				}
			case !ok:
				m := next(base)
				c.Ops = append(c.Ops, cop{Op: "add", Id: id, msg: m})
				cur[id] = m
			case g.r.Intn(6) == 0:
				c.Ops = append(c.Ops, cop{Op: "delete", Id: id})
				delete(cur, id)
			default:
				m := next(prev)
				c.Ops = append(c.Ops, cop{Op: "update", Id: id, msg: m})
				cur[id] = m
			}
		}
	}
	c.Spec, c.NoDup = g.pullSpec()
	c.Mask = g.mask(mt, base)
	if c.Kind == "vpull" && g.r.Intn(5) == 0 {
		c.UpdatesOnly = true
		if g.r.Intn(2) == 0 && len(c.Writes) > 0 && c.Cur != nil {
			// the first write stores the value that is already there: the subscriber holds nothing, so it is news
			c.Writes[0] = proto.Clone(c.Cur)
		}
	}
	return c
}

var includeFields = []string{"default_double", "default_float", "optional_double"}

// pcaseInclude: Collection.Pull with WithInclude on a float field of TestAllTypes. Every write nudges that
// field by a small recorded step (and sometimes something else); the threshold is placed on, just below
// or just above one of the written values, so writes cross the include boundary by less than, exactly, or
// more than the tolerance.
func (g *gen) pcaseInclude() pcase {
	g.floatDeltas, g.nsDeltas = nil, nil
	g.special = false
	g.noUnknown, g.noNegZero = true, true
	defer func() { g.noUnknown, g.noNegZero = false, false }()
	mt := ancestorTypes[0] // TestAllTypes
	field := includeFields[g.r.Intn(len(includeFields))]
	fd := mt.Descriptor().Fields().ByName(pref.Name(field))
	c := pcase{Kind: "cpull", Type: mt}
	base := g.newMessage(mt, 1)
	base.ProtoReflect().Set(fd, floatValue(fd, floatDomain[g.r.Intn(len(floatDomain))]))
	var written []float64
	next := func(prev proto.Message) proto.Message {
		m := proto.Clone(prev)
		r := m.ProtoReflect()
		if g.r.Intn(5) != 0 {
			r.Set(fd, floatValue(fd, g.nudgeFloat(r.Get(fd).Float())))
		}
		if g.r.Intn(3) == 0 {
			g.mutate(r, 1)
		}
		written = append(written, r.Get(fd).Float())
		return m
	}
	ids := []string{"a", "b"}
	cur := map[string]proto.Message{}
	for n := g.r.Intn(7) + 2; n > 0; n-- {
		id := ids[g.r.Intn(2)]
		prev, ok := cur[id]
		switch {
		case !ok:
			m := next(base)
			c.Ops = append(c.Ops, cop{Op: "add", Id: id, msg: m})
			cur[id] = m
		case g.r.Intn(8) == 0:
			c.Ops = append(c.Ops, cop{Op: "delete", Id: id})
			delete(cur, id)
		default:
			m := next(prev)
			c.Ops = append(c.Ops, cop{Op: "update", Id: id, msg: m})
			cur[id] = m
		}
	}
	thr := written[g.r.Intn(len(written))] + []float64{0, 0, -0.125, 0.125, -0.0625, 0.0625, 0.5, -1}[g.r.Intn(8)]
	c.Inc = &incSpec{Field: field, Op: []string{"gt", "lt", "ge"}[g.r.Intn(3)], Thr: thr}
	switch g.r.Intn(6) {
	case 0:
		c.Spec = nil
	case 1:
		s := plainEqual
		c.Spec, c.NoDup = &s, g.r.Intn(2) == 0
	default:
		c.Spec = &mspec{E: []espec{{V: []vspec{{Atoms: []atom{g.atom("fa")}}}}}}
	}
	if g.r.Intn(3) == 0 {
		c.Mask = g.mask(mt, base)
		if c.Mask != nil && g.r.Intn(2) == 0 {
			c.Mask = append(c.Mask, field)
		}
	}
	return c
}

// pcaseNeighbours: an include run in which 1-3 other subscribers of the collection have include predicates
// of their own over the same field, thresholds next to the written values (so writes carry items into and
// out of THEIR views, also by steps inside the tolerance); the observed subscriber keeps its predicate or
// has none.
func (g *gen) pcaseNeighbours() pcase {
	c := g.pcaseInclude()
	fd := c.Type.Descriptor().Fields().ByName(pref.Name(c.Inc.Field))
	var written []float64
	for _, o := range c.Ops {
		if o.msg != nil {
			written = append(written, o.msg.ProtoReflect().Get(fd).Float())
		}
	}
	for n := 1 + g.r.Intn(3); n > 0; n-- {
		thr := written[g.r.Intn(len(written))] + []float64{0, 0, -0.125, 0.125, -0.0625, 0.0625}[g.r.Intn(6)]
		c.Neighbours = append(c.Neighbours, incSpec{Field: c.Inc.Field, Op: []string{"gt", "lt", "ge"}[g.r.Intn(3)], Thr: thr})
	}
	if g.r.Intn(3) == 0 {
		c.Inc = nil
	}
	return c
}

func runPull(f lib.Flags, res *lib.Result, drv *lib.Driver, ms *monitors) {
	tie := res.Tie("pull-equivalence", "K1",
		"random runs of Value.Pull (initial value or none, 1-6 Sets; every 5th with WithUpdatesOnly: no seed, the subscriber holds nothing, half of them first re-writing the stored value) and Collection.Pull (1-7 Add/Update/Delete on two ids; in half of the runs writers are overtaken, inside their own InterceptBefore/InterceptAfter callback - after their first read, before their locked re-validation read - by a complete rival write: another creator of the same absent id storing the empty or a non-empty message, a rival re-writing the same item with an equal or a different value, a rival writing the other id; refused writes (Aborted/NotFound) announce nothing) with backpressure, equivalence = none | WithNoDuplicates | Equal() | Equal(tolerances around the written differences) configured through WithMessageEquivalence or WithEquivalence(Comparer), read mask = none | 1-3 top-level fields; each write is the previous value mutated in 0-2 places; every third run is a Collection.Pull with WithInclude(float field gt/lt/ge threshold), equivalence none | exact | FloatValueApprox around the written steps, writes nudging the compared field, threshold on / just below / just above a written value, optional read mask (with or without the compared field); every sixth run is such an include run with 1-3 NEIGHBOUR subscribers on the same collection (back pressure, include predicates of their own over the same field, thresholds next to the written values, subscribed before and after the observed subscriber, which keeps its predicate or has none) whose handling of each shared event is forced to complete before the observed subscriber's read mask / equivalence check / delivery (neighbours.go). The model gets the event values the code produced and must reproduce the delivered/suppressed decision of every event. Non-trivial: distinct runs with an equivalence configured")
	g := &gen{r: lib.NewRand(f.Seed + 104729)}
	n := f.N(500, 6000)
	for i := 0; i < n; i++ {
		c := g.pcase()
		if i%3 == 2 {
			c = g.pcaseInclude()
		}
		if i%6 == 4 {
			c = g.pcaseNeighbours()
		}
		mark := patience.mark()
		out := c.runCode()
		code := c.monitor(ms, out)
		if out.err != "" {
			tie.Record(fmt.Sprint(i), true, c.json(), "(not asked)", code)
			if patience.giveUp(mark) {
				return // a broken tree must not stall the run (patience.go)
			}
			continue
		}
		line := c.line(out)
		model, err := drv.Ask(line)
		if err != nil {
			tie.Fail(err)
			return
		}
		tie.Record(line, c.Spec != nil, c.json(), model, code)
		tie.Count(c.Kind + ":" + map[bool]string{true: "mask", false: "nomask"}[c.Mask != nil] + map[bool]string{true: ":include", false: ""}[c.Inc != nil] + map[bool]string{true: ":neighbours", false: ""}[len(c.Neighbours) > 0])
		if c.Spec == nil {
			tie.Count("equivalence:none")
		} else if c.tolerance() {
			tie.Count("equivalence:tolerance")
		} else {
			tie.Count("equivalence:exact")
		}
	}
}
