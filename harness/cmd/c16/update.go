package main

// Tie + monitor for the change Collection.Update announces (Update.lean, round 7): Collection.Pull applies the
// equivalence to the (OldValue, NewValue) a change carries, so the subscriber is judged against what it holds
// only if OldValue is what was stored when the write committed - also when a rival wrote between this write's
// unlocked first read and its locked re-validation read. The rival is a complete write run from inside the
// overtaken write's own interceptor callback (before / after), i.e. exactly in that window, on one goroutine.
//
// Exhaustive (K2): stored at the first read {nothing, empty, v1, v2} x rival {none, set empty, set v1, set v2,
// delete} x WithCreateIfAbsent x WithExpectAbsent x written {empty, v1} x callback {before, after}.

import (
	"context"
	"fmt"
	"time"

	"github.com/smart-core-os/sc-api/go/types"
	"github.com/smart-core-os/sc-golang/internal/testproto"
	"github.com/smart-core-os/sc-golang/pkg/resource"
	"github.com/smart-core-os/sc-golang/verifharness/lib"
	"google.golang.org/grpc/status"
	"google.golang.org/protobuf/proto"
)

type ucase struct {
	Op      string `json:"op"`
	Create  bool   `json:"create_if_absent"`
	Expect  bool   `json:"expect_absent"`
	First   int    `json:"first"`   // -1: nothing stored; else index into updMsgs
	Rival   string `json:"rival"`   // none | set0 | set1 | set2 | delete
	Written int    `json:"written"` // index into updMsgs
	At      string `json:"at"`      // before | after
}

func updMsg(i int) proto.Message {
	switch i {
	case 0:
		return &testproto.TestAllTypes{}
	case 1:
		return &testproto.TestAllTypes{DefaultString: "v1"}
	}
	return &testproto.TestAllTypes{DefaultString: "v2"}
}

func updCode(m proto.Message) string {
	if m == nil {
		return "-"
	}
	for i := 0; i < 3; i++ {
		if proto.Equal(m, updMsg(i)) {
			return fmt.Sprint(i)
		}
	}
	return "9"
}

func optCode(i int) string {
	if i < 0 {
		return "-"
	}
	return fmt.Sprint(i)
}

// again: what is stored when the overtaken write re-validates (the rival has run).
func (c ucase) again() int {
	switch c.Rival {
	case "set0":
		return 0
	case "set1":
		return 1
	case "set2":
		return 2
	case "delete":
		return -1
	}
	return c.First
}

// run returns the code's answer in the driver's notation, the value the write returned, and what was stored
// when the write's interceptor was entered/left (nil hook calls: the interceptor never ran).
func (c ucase) run() (answer string, written string, hookRan bool) {
	clk := &fakeClock{t: t0}
	col := resource.NewCollection(resource.WithClock(clk))
	if c.First >= 0 {
		if _, err := col.Add("x", updMsg(c.First)); err != nil {
			return "error:add:" + err.Error(), "", false
		}
	}
	ctx, cancel := context.WithCancel(context.Background())
	defer cancel()
	ch := col.Pull(ctx, resource.WithUpdatesOnly(true), resource.WithBackpressure(true))
	var got []*resource.CollectionChange
	closed := make(chan struct{})
	go func() {
		defer close(closed)
		for c := range ch {
			got = append(got, c)
		}
	}()
	tOuter := t0.Add(2 * time.Second)
	clk.set(t0.Add(time.Second))
	hook := func(_, _ proto.Message) {
		if hookRan {
			return
		}
		hookRan = true
		switch c.Rival {
		case "set0", "set1", "set2":
			col.Update("x", updMsg(int(c.Rival[3]-'0')), resource.WithCreateIfAbsent())
		case "delete":
			col.Delete("x", resource.WithAllowMissing(true))
		}
		clk.set(tOuter)
	}
	var opts []resource.WriteOption
	if c.Create {
		opts = append(opts, resource.WithCreateIfAbsent())
	}
	if c.Expect {
		opts = append(opts, resource.WithExpectAbsent())
	}
	if c.At == "after" {
		opts = append(opts, resource.InterceptAfter(hook))
	} else {
		opts = append(opts, resource.InterceptBefore(hook))
	}
	var nv proto.Message
	var err error
	if p, msg := lib.Catch(func() { nv, err = col.Update("x", updMsg(c.Written), opts...) }); p {
		return "panic:" + msg, "", hookRan
	}
	// a write of another id: once it returns the pull goroutine has handed over everything before it
	clk.set(t0.Add(time.Hour))
	col.Add("~sentinel", updMsg(0))
	cancel()
	w := bounded(10 * time.Second)
	select {
	case <-closed:
	case <-w.C:
		w.ranOut()
		return "error:pull channel not closed after cancel", "", hookRan
	}
	if err != nil {
		return "err:" + status.Code(err).String(), "", hookRan
	}
	written = updCode(nv)
	answer = "error:no change announced"
	n := 0
	for _, g := range got {
		if g.Id != "x" || !g.ChangeTime.Equal(tOuter) {
			continue
		}
		n++
		t := "UPDATE"
		switch g.ChangeType {
		case types.ChangeType_ADD:
			t = "ADD"
		case types.ChangeType_UPDATE:
		default:
			t = g.ChangeType.String()
		}
		answer = t + " " + updCode(g.OldValue) + " " + updCode(g.NewValue)
	}
	if n > 1 {
		answer = fmt.Sprintf("error:%d changes announced for one write", n)
	}
	return answer, written, hookRan
}

// monitor: the announced OldValue is what was stored at commit time (nothing iff absent: then ADD), the
// announced NewValue is what the write returned. Independent of the model: the harness knows what it stored.
func (c ucase) monitor(ms *monitors, answer, written string, hookRan bool) {
	key := fmt.Sprintf("cupd %+v", c)
	ms.delivery.Eval(key, c.Rival != "none", nil)
	if len(answer) >= 4 && answer[:4] == "err:" {
		return // refused writes announce nothing (checked by the sentinel flush: a stray change would be matched)
	}
	if len(answer) >= 6 && (answer[:6] == "error:" || answer[:6] == "panic:") {
		ms.delivery.Violate("C16/Collection.Update/announcement/error", "a write that went through announced no change, or several, or the run failed", c, "one change", answer)
		return
	}
	stored := c.First
	if hookRan {
		stored = c.again()
	}
	typ := "UPDATE"
	if stored < 0 {
		typ = "ADD"
	}
	exp := typ + " " + optCode(stored) + " " + written
	if answer != exp {
		ms.delivery.Violate("C16/Collection.Update/announced-old-is-not-the-stored-predecessor",
			"the change a write announced does not go from what was stored when it committed to what it stored (the equivalence of Collection.Pull is applied to exactly this pair)",
			c, exp, answer)
	}
}

func runUpdate(f lib.Flags, res *lib.Result, drv *lib.Driver, ms *monitors) {
	tie := res.Tie("update-announcement", "K2",
		"exhaustive: stored at the first read {nothing, empty, v1, v2} x rival run inside the write's own interceptor {none, set empty, set v1, set v2, delete} x WithCreateIfAbsent x WithExpectAbsent x written {empty, v1} x callback {InterceptBefore, InterceptAfter}; the code's answer is the error code or the change announced to a backpressure subscriber (type, OldValue, NewValue as codes); the model gets the value the write returned. Non-trivial: cases with a rival")
	tie.Exhaustive = true
	var cases []ucase
	var lines []string
	var answers [][3]any
	for first := -1; first <= 2; first++ {
		for _, rival := range []string{"none", "set0", "set1", "set2", "delete"} {
			for _, create := range []bool{false, true} {
				for _, expect := range []bool{false, true} {
					for written := 0; written <= 1; written++ {
						for _, at := range []string{"before", "after"} {
							c := ucase{Op: "cupd", Create: create, Expect: expect, First: first, Rival: rival, Written: written, At: at}
							mark := patience.mark()
							answer, wr, hookRan := c.run()
							c.monitor(ms, answer, wr, hookRan)
							if patience.giveUp(mark) {
								tie.Record(fmt.Sprintf("%+v", c), true, c, "(not asked)", answer)
								return
							}
							again := c.First
							if hookRan {
								again = c.again()
							}
							if wr == "" {
								wr = "0" // refused: the model does not look at it
							}
							b := func(v bool) string {
								if v {
									return "1"
								}
								return "0"
							}
							cases = append(cases, c)
							lines = append(lines, fmt.Sprintf("cupd %s %s %s %s %s", b(create), b(expect), optCode(first), optCode(again), wr))
							answers = append(answers, [3]any{answer, wr, hookRan})
						}
					}
				}
			}
		}
	}
	ans, err := drv.Batch(lines)
	if err != nil {
		tie.Fail(err)
		return
	}
	for i, c := range cases {
		code := answers[i][0].(string)
		tie.Record(lines[i]+" "+c.At+" "+c.Rival, c.Rival != "none", c, ans[i], code)
		k := ans[i]
		if len(k) > 3 && k[:3] != "err" {
			k = k[:3]
		}
		tie.Count("answer:" + k)
	}
}
