package main

// And / Or / ValueAnd / ValueOr exhaustively over short comparer lists: every sequence of 0..3 comparers from
// a small alphabet in which several comparers claim the SAME position with different tolerances (so a
// conjunction / disjunction has to consult every one of them, in any order, and "nobody claimed it" is
// distinguishable from "somebody did"), on pairs inside none / some / all of the tolerances.

import (
	"fmt"

	"github.com/smart-core-os/sc-golang/internal/testproto"
	"github.com/smart-core-os/sc-golang/verifharness/lib"
	"google.golang.org/protobuf/proto"
	pref "google.golang.org/protobuf/reflect/protoreflect"
	"google.golang.org/protobuf/types/known/durationpb"
	"google.golang.org/protobuf/types/known/timestamppb"
)

func atomSequences(alpha []atom, maxLen int) [][]atom {
	seqs := [][]atom{{}}
	level := [][]atom{{}}
	for l := 1; l <= maxLen; l++ {
		var next [][]atom
		for _, s := range level {
			for _, a := range alpha {
				next = append(next, append(append([]atom{}, s...), a))
			}
		}
		seqs = append(seqs, next...)
		level = next
	}
	return seqs
}

func runLogic(f lib.Flags, res *lib.Result, drv *lib.Driver, ms *monitors) {
	tie := res.Tie("and-or-exhaustive", "K2",
		"ValueAnd / ValueOr of EVERY sequence of 0..3 comparers from {FloatValueApprox(0,0.25), FloatValueApprox(0,1), TimeValueWithin(1s), DurationValueWithin(1s), DurationValueWithinP(25)} on pairs of a double (1 vs 1.125 / 1.5 / 3), a Timestamp (1s vs 1.5s / 3s), a Duration (4s vs 5s / 4.5s / 9s) and an int field; And / Or of EVERY sequence of 0..3 message comparers from {Equal(), Equal(FloatValueApprox(0,0.25)), Equal(FloatValueApprox(0,1))} on messages whose double differs by 0 / 0.125 / 0.5 / 2. Each on (x,y),(y,x),(x,x). Non-trivial: every case")
	tie.Exhaustive = true
	alpha := []atom{{Kind: "fa", A: 0, B: 0.25}, {Kind: "fa", A: 0, B: 1}, {Kind: "tw", D: 1000000000}, {Kind: "dw", D: 1000000000}, {Kind: "dp", A: 25}}
	fv := func(x float64) pref.Value { return pref.ValueOfFloat64(x) }
	dv := func(s int64, n int32) pref.Value {
		return pref.ValueOfMessage((&durationpb.Duration{Seconds: s, Nanos: n}).ProtoReflect())
	}
	tv := func(s int64, n int32) pref.Value {
		return pref.ValueOfMessage((&timestamppb.Timestamp{Seconds: s, Nanos: n}).ProtoReflect())
	}
	dbl, dur, tim, i32 := posOf("default_double"), posOf("default_duration"), posOf("default_timestamp"), posOf("default_int32")
	pairs := []struct {
		p    position
		x, y pref.Value
	}{
		{dbl, fv(1), fv(1.125)}, {dbl, fv(1), fv(1.5)}, {dbl, fv(1), fv(3)},
		{tim, tv(1, 0), tv(1, 500000000)}, {tim, tv(1, 0), tv(3, 0)},
		{dur, dv(4, 0), dv(5, 0)}, {dur, dv(4, 0), dv(4, 500000000)}, {dur, dv(4, 0), dv(9, 0)},
		{i32, pref.ValueOfInt32(1), pref.ValueOfInt32(2)},
	}
	var vcases []vcase
	var lines []string
	for _, seq := range atomSequences(alpha, 3) {
		for _, comb := range []string{"VA", "VO"} {
			for _, p := range pairs {
				c := vcase{Spec: vspec{Comb: comb, Atoms: seq}, Pos: p.p, X: p.x, Y: p.y}
				if c.inexact() {
					panic("and-or-exhaustive: inexact case")
				}
				vcases = append(vcases, c)
				lines = append(lines, c.lines()...)
			}
		}
	}
	ans, err := drv.Batch(lines)
	if err != nil {
		tie.Fail(err)
		return
	}
	for i, c := range vcases {
		code := c.monitor(ms)
		tie.Record(lines[3*i], true, c.json(), fmt.Sprint([3]string{ans[3*i], ans[3*i+1], ans[3*i+2]}), code)
		tie.Count("value:" + c.Spec.Comb + fmt.Sprint(len(c.Spec.Atoms)))
	}
	// message level
	es := []espec{{}, {V: []vspec{one(atom{Kind: "fa", A: 0, B: 0.25})}}, {V: []vspec{one(atom{Kind: "fa", A: 0, B: 1})}}}
	var eseqs [][]espec
	level := [][]espec{{}}
	eseqs = append(eseqs, []espec{})
	for l := 1; l <= 3; l++ {
		var next [][]espec
		for _, s := range level {
			for _, e := range es {
				next = append(next, append(append([]espec{}, s...), e))
			}
		}
		eseqs = append(eseqs, next...)
		level = next
	}
	msg := func(d float64) proto.Message { return &testproto.TestAllTypes{DefaultDouble: d, DefaultString: "k"} }
	var ecases []ecase
	lines = nil
	for _, seq := range eseqs {
		for _, comb := range []string{"MA", "MO"} {
			for _, d := range []float64{1, 1.125, 1.5, 3} {
				c := ecase{Spec: mspec{Comb: comb, E: seq}, X: msg(1), Y: msg(d), Label: "and-or"}
				ecases = append(ecases, c)
				lines = append(lines, c.lines()...)
			}
		}
	}
	ans, err = drv.Batch(lines)
	if err != nil {
		tie.Fail(err)
		return
	}
	for i, c := range ecases {
		code := c.monitor(ms)
		tie.Record(lines[4*i], true, c.json(), fmt.Sprint([4]string{ans[4*i], ans[4*i+1], ans[4*i+2], ans[4*i+3]}), code)
		tie.Count("message:" + c.Spec.Comb + fmt.Sprint(len(c.Spec.E)))
	}
}
