package main

// Trait-level streams that carry an equivalence (round 7): the models in pkg/trait that either configure
// their resource with a message equivalence by default (electricpb demand: FloatValueApprox(0, 0.01);
// energystoragepb: floats within 0.1, times and durations within 1 s) or re-implement the "compare with the
// last emitted value" rule on top of a collection with cmp.Equal() (openclosepb PullPositions), driven
// through the model's own Update*/Pull* methods under read masks.
//
// The property, on what the subscriber RECEIVES (after the read mask):
//   (1) no delivery is E-equivalent to the delivery before it (E: an oracle written here - proto.Equal /
//       exact arithmetic -, not the code's comparer);
//   (2) no non-equivalent change is suppressed: after every write the subscriber's copy becomes
//       E-equivalent to the masked current value (a positive condition, waited for with the run-wide budget).
// The streams are free-running (no backpressure): every step waits for (2), a final marker write that is
// visible under every mask closes the run, so that every delivery of the run has been collected before (1)
// is evaluated on the whole sequence.

import (
	"context"
	"fmt"
	"sync"
	"time"

	"github.com/smart-core-os/sc-api/go/traits"
	"github.com/smart-core-os/sc-golang/pkg/resource"
	"github.com/smart-core-os/sc-golang/pkg/trait/electricpb"
	"github.com/smart-core-os/sc-golang/pkg/trait/energystoragepb"
	"github.com/smart-core-os/sc-golang/pkg/trait/openclosepb"
	"github.com/smart-core-os/sc-golang/verifharness/lib"
	"google.golang.org/protobuf/proto"
	"google.golang.org/protobuf/types/known/durationpb"
	"google.golang.org/protobuf/types/known/fieldmaskpb"
	"google.golang.org/protobuf/types/known/timestamppb"
)

// tstream: one model instance with an open subscription.
type tstream struct {
	write  func(i int) error                                        // the i-th write of the family's domain
	get    func(opts ...resource.ReadOption) (proto.Message, error) // masked current value
	pull   func(ctx context.Context, opts ...resource.ReadOption) <-chan proto.Message
	marker func() error // a write visible under every mask of the family, used nowhere else
}

type tfamily struct {
	name   string
	sample proto.Message
	masks  [][]string // nil: no mask
	nWrite int
	warm   [2]int                        // two writes that differ visibly under every mask
	equiv  func(x, y proto.Message) bool // the oracle E
	open   func(initial []int) (*tstream, error)
}

type tcase struct {
	Op          string   `json:"op"`
	Family      string   `json:"family"`
	Mask        []string `json:"mask"`
	UpdatesOnly bool     `json:"updates_only,omitempty"`
	Initial     []int    `json:"initial"`
	Writes      []int    `json:"writes"`
}

func pct(dir traits.OpenClosePosition_Direction, p float32) *traits.OpenClosePosition {
	return &traits.OpenClosePosition{Direction: dir, OpenPercent: p}
}

const (
	dirUP   = traits.OpenClosePosition_UP
	dirDOWN = traits.OpenClosePosition_DOWN
	dirLEFT = traits.OpenClosePosition_LEFT
)

// the writes of the openclose family: single positions (created when absent) and preset selections
var ocWrites = []func(m *openclosepb.Model) error{
	func(m *openclosepb.Model) error { return ocOne(m, pct(dirUP, 1)) },
	func(m *openclosepb.Model) error { return ocOne(m, pct(dirUP, 2)) },
	func(m *openclosepb.Model) error { return ocOne(m, pct(dirUP, 100)) },
	func(m *openclosepb.Model) error { return ocOne(m, pct(dirUP, 40)) },
	func(m *openclosepb.Model) error { return ocOne(m, pct(dirDOWN, 10)) },
	func(m *openclosepb.Model) error { return ocOne(m, pct(dirDOWN, 20)) },
	func(m *openclosepb.Model) error { return ocOne(m, pct(dirLEFT, 5)) },
	func(m *openclosepb.Model) error { return ocOne(m, pct(dirUP, 40)) },
	func(m *openclosepb.Model) error { return ocOne(m, pct(dirDOWN, 20)) },
	func(m *openclosepb.Model) error { return ocPreset(m, "open") },
	func(m *openclosepb.Model) error { return ocPreset(m, "half") },
}

var ocInitial = []*traits.OpenClosePosition{pct(dirUP, 100), pct(dirUP, 40), pct(dirDOWN, 20), pct(dirDOWN, 10), pct(dirLEFT, 5)}

func ocOne(m *openclosepb.Model, p *traits.OpenClosePosition) error {
	_, err := m.UpdatePosition(p, resource.WithCreateIfAbsent())
	return err
}

func ocPreset(m *openclosepb.Model, name string) error {
	_, err := m.UpdatePositions(&traits.OpenClosePositions{Preset: &traits.OpenClosePositions_Preset{Name: name}})
	return err
}

func openCloseFamily() tfamily {
	return tfamily{
		name:   "openclose.PullPositions",
		sample: &traits.OpenClosePositions{},
		masks:  [][]string{nil, {"preset"}, {"preset.name"}, {"states"}, {"states.open_percent"}, {"preset", "states.open_percent"}, {"states.direction", "preset"}},
		nWrite: len(ocWrites),
		warm:   [2]int{9, 10},
		equiv:  func(x, y proto.Message) bool { return proto.Equal(x, y) },
		open: func(initial []int) (*tstream, error) {
			var init []*traits.OpenClosePosition
			seen := map[traits.OpenClosePosition_Direction]bool{}
			for _, i := range initial {
				p := ocInitial[i%len(ocInitial)]
				if !seen[p.Direction] {
					seen[p.Direction] = true
					init = append(init, proto.Clone(p).(*traits.OpenClosePosition))
				}
			}
			m := openclosepb.NewModel(
				openclosepb.WithPreset(&traits.OpenClosePositions_Preset{Name: "open"}, pct(dirUP, 100)),
				openclosepb.WithPreset(&traits.OpenClosePositions_Preset{Name: "half"}, pct(dirUP, 40), pct(dirDOWN, 20)),
				openclosepb.WithPreset(&traits.OpenClosePositions_Preset{Name: "marker"}, pct(dirUP, 77), pct(dirDOWN, 77), pct(dirLEFT, 77)),
				openclosepb.WithInitialPositions(init...),
			)
			return &tstream{
				write: func(i int) error { return ocWrites[i](m) },
				get: func(opts ...resource.ReadOption) (proto.Message, error) {
					return m.GetPositions(opts...)
				},
				pull: func(ctx context.Context, opts ...resource.ReadOption) <-chan proto.Message {
					out := make(chan proto.Message)
					in := m.PullPositions(ctx, opts...)
					go func() {
						defer close(out)
						for c := range in {
							out <- c.Positions
						}
					}()
					return out
				},
				marker: func() error {
					// LEFT first: the preset only matches once all three states are there
					if err := ocOne(m, pct(dirLEFT, 77)); err != nil {
						return err
					}
					return ocPreset(m, "marker")
				},
			}, nil
		},
	}
}

func f32(f float32) *float32 { return &f }

// values a binary float represents exactly; 2^-7 = 0.0078125 is inside the demand tolerance (0.01), 2^-6 outside
var demandWrites = []*traits.ElectricDemand{
	{Current: 10, Voltage: f32(230), Rating: 16},
	{Current: 12, Voltage: f32(240), Rating: 32},
	{Current: 10.0078125, Voltage: f32(230), Rating: 16},
	{Current: 10.015625, Voltage: f32(230), Rating: 16},
	{Current: 10, Voltage: f32(230.0078125), Rating: 16},
	{Current: 10, Voltage: f32(231), Rating: 16},
	{Current: 10, Rating: 16},
	{Current: 10, Voltage: f32(230), Rating: 16.0078125},
	{Current: 10.0078125, Voltage: f32(230.0078125), Rating: 16},
	{Current: 11, Voltage: f32(230), Rating: 16},
}

func demandFamily() tfamily {
	spec := espec{V: []vspec{{Atoms: []atom{{Kind: "fa", A: 0, B: 0.01}}}}}
	return tfamily{
		name:   "electric.PullDemand",
		sample: &traits.ElectricDemand{},
		masks:  [][]string{nil, {"current"}, {"voltage"}, {"rating"}, {"current", "voltage"}, {"rating", "voltage"}},
		nWrite: len(demandWrites),
		warm:   [2]int{0, 1},
		equiv:  oracleEquiv(spec),
		open: func(initial []int) (*tstream, error) {
			m := electricpb.NewModel()
			if len(initial) > 0 {
				if _, err := m.UpdateDemand(proto.Clone(demandWrites[initial[0]%len(demandWrites)]).(*traits.ElectricDemand)); err != nil {
					return nil, err
				}
			}
			return &tstream{
				write: func(i int) error {
					_, err := m.UpdateDemand(proto.Clone(demandWrites[i]).(*traits.ElectricDemand))
					return err
				},
				get: func(opts ...resource.ReadOption) (proto.Message, error) { return m.Demand(opts...), nil },
				pull: func(ctx context.Context, opts ...resource.ReadOption) <-chan proto.Message {
					out := make(chan proto.Message)
					in := m.PullDemand(ctx, opts...)
					go func() {
						defer close(out)
						for c := range in {
							out <- c.Value
						}
					}()
					return out
				},
				marker: func() error {
					_, err := m.UpdateDemand(&traits.ElectricDemand{Current: 77, Voltage: f32(77), Rating: 77})
					return err
				},
			}, nil
		},
	}
}

func level(p float32, startNs, timeNs int64, plugged bool) *traits.EnergyLevel {
	return &traits.EnergyLevel{
		Quantity:  &traits.EnergyLevel_Quantity{Percentage: p},
		PluggedIn: plugged,
		Flow: &traits.EnergyLevel_Discharge{Discharge: &traits.EnergyLevel_Transfer{
			StartTime: timestamppb.New(time.Unix(1000, 0).Add(time.Duration(startNs))),
			Time:      durationpb.New(time.Hour + time.Duration(timeNs)),
		}},
	}
}

// tolerances of the energy storage model: floats 0.1, times 1 s, durations 1 s
var levelWrites = []*traits.EnergyLevel{
	level(50, 0, 0, false),
	level(60, 5e9, 5e9, true),
	level(50.0625, 0, 0, false),
	level(50.125, 0, 0, false),
	level(50, 1e9, 0, false),
	level(50, 1e9+1, 0, false),
	level(50, 0, 1e9, false),
	level(50, 0, 1e9+1, false),
	level(50, 5e8, 5e8, false),
	level(50, 0, 0, true),
	{Quantity: &traits.EnergyLevel_Quantity{Percentage: 50}},
}

func levelFamily() tfamily {
	spec := espec{V: []vspec{
		{Atoms: []atom{{Kind: "fa", A: 0, B: 0.1}}},
		{Atoms: []atom{{Kind: "tw", D: int64(time.Second)}}},
		{Atoms: []atom{{Kind: "dw", D: int64(time.Second)}}},
	}}
	return tfamily{
		name:   "energystorage.PullEnergyLevel",
		sample: &traits.EnergyLevel{},
		masks:  [][]string{nil, {"quantity"}, {"quantity.percentage"}, {"discharge"}, {"discharge.time"}, {"discharge.start_time", "plugged_in"}, {"plugged_in", "quantity"}},
		nWrite: len(levelWrites),
		warm:   [2]int{0, 1},
		equiv:  oracleEquiv(spec),
		open: func(initial []int) (*tstream, error) {
			m := energystoragepb.NewModel()
			if len(initial) > 0 {
				if _, err := m.UpdateEnergyLevel(proto.Clone(levelWrites[initial[0]%len(levelWrites)]).(*traits.EnergyLevel)); err != nil {
					return nil, err
				}
			}
			return &tstream{
				write: func(i int) error {
					_, err := m.UpdateEnergyLevel(proto.Clone(levelWrites[i]).(*traits.EnergyLevel))
					return err
				},
				get: func(opts ...resource.ReadOption) (proto.Message, error) { return m.GetEnergyLevel(opts...) },
				pull: func(ctx context.Context, opts ...resource.ReadOption) <-chan proto.Message {
					out := make(chan proto.Message)
					in := m.PullEnergyLevel(ctx, opts...)
					go func() {
						defer close(out)
						for c := range in {
							out <- c.Value
						}
					}()
					return out
				},
				marker: func() error {
					_, err := m.UpdateEnergyLevel(level(77, 77e9, 77e9, true))
					if err == nil {
						_, err = m.UpdateEnergyLevel(level(78, 177e9, 177e9, false))
					}
					return err
				},
			}, nil
		},
	}
}

// oracleEquiv: the equivalence of a simple tolerance spec from proto.Equal and exact arithmetic (tolExpected).
// Pairs on which the code's float arithmetic would round are not judged (reported as "not equivalent AND not
// different": see tverdict).
func oracleEquiv(e espec) func(x, y proto.Message) bool {
	return func(x, y proto.Message) bool {
		exp, ok, _ := tolExpected(e, x, y, false)
		if !ok {
			panic("trait stream domain leaves the exact tier")
		}
		return exp
	}
}

func tfamilies() []tfamily { return []tfamily{openCloseFamily(), demandFamily(), levelFamily()} }

func (c tcase) family() (tfamily, bool) {
	for _, f := range tfamilies() {
		if f.name == c.Family {
			return f, true
		}
	}
	return tfamily{}, false
}

// run drives the case on the real model and evaluates (1) and (2). Returns a summary.
func (c tcase) run(ms *monitors) string {
	fam, ok := c.family()
	if !ok {
		return "unknown family"
	}
	sigBase := "C16/trait/" + fam.name
	st, err := fam.open(c.Initial)
	if err != nil {
		ms.delivery.Violate(sigBase+"/error", "the model refused the initial write", c, "ok", err.Error())
		return "error"
	}
	var opts []resource.ReadOption
	if c.Mask != nil {
		opts = append(opts, resource.WithReadMask(&fieldmaskpb.FieldMask{Paths: append([]string{}, c.Mask...)}))
	}
	getOpts := append([]resource.ReadOption{}, opts...)
	if c.UpdatesOnly {
		opts = append(opts, resource.WithUpdatesOnly(true))
	}
	ctx, cancel := context.WithCancel(context.Background())
	defer cancel()
	var mu sync.Mutex
	var got []proto.Message
	closed := make(chan struct{})
	var stream <-chan proto.Message
	if p, msg := lib.Catch(func() { stream = st.pull(ctx, opts...) }); p {
		ms.delivery.Violate(sigBase+"/panic", "Pull panicked", c, "a stream", msg)
		return "panic"
	}
	go func() {
		defer close(closed)
		for m := range stream {
			mu.Lock()
			got = append(got, proto.Clone(m))
			mu.Unlock()
		}
	}()
	count := func() int { mu.Lock(); defer mu.Unlock(); return len(got) }
	held := func() proto.Message {
		mu.Lock()
		defer mu.Unlock()
		if len(got) == 0 {
			return nil
		}
		return got[len(got)-1]
	}
	current := func() proto.Message {
		m, err := st.get(getOpts...)
		if err != nil {
			return nil
		}
		return m
	}
	converged := func() bool {
		h := held()
		return h != nil && fam.equiv(h, current())
	}
	fail := func(sig, what, exp, obs string) string {
		ms.delivery.Violate(sigBase+sig, what, c, exp, obs)
		return sig
	}
	// the subscription is live once something has arrived: the seed, or - updates only - the first of the
	// alternating warm-up writes that the stream reports
	if c.UpdatesOnly {
		k := 0
		if !waitFor(func() bool {
			if err := st.write(fam.warm[k%2]); err != nil {
				return false
			}
			k++
			time.Sleep(time.Millisecond)
			return count() > 0
		}) {
			return fail("/no-update", "an updates-only subscriber was sent nothing although visible writes kept coming", "a delivery", "none")
		}
	} else if !waitFor(func() bool { return count() > 0 }) {
		return fail("/no-seed", "the subscriber was not sent the current value", "a delivery", "none")
	}
	if !waitFor(converged) {
		return fail("/suppressed-nonequivalent", "the subscriber's copy did not become equivalent to the (masked) current value", fmt.Sprint(current()), fmt.Sprint(held()))
	}
	for i, w := range c.Writes {
		if w < 0 || w >= fam.nWrite {
			return "bad write index"
		}
		if err := st.write(w); err != nil {
			return fail("/error", "the model refused a write of the family's domain", "ok", fmt.Sprintf("write %d (#%d): %v", i, w, err))
		}
		if !waitFor(converged) {
			return fail("/suppressed-nonequivalent", fmt.Sprintf("after write %d (#%d) the subscriber's copy did not become equivalent to the (masked) current value: a non-equivalent change was suppressed", i, w), fmt.Sprint(current()), fmt.Sprint(held()))
		}
	}
	if err := st.marker(); err != nil {
		return fail("/error", "the model refused the marker write", "ok", err.Error())
	}
	want := current()
	if !waitFor(func() bool { h := held(); return h != nil && proto.Equal(h, want) }) {
		return fail("/suppressed-nonequivalent", "the final (marker) value never reached the subscriber", fmt.Sprint(want), fmt.Sprint(held()))
	}
	cancel()
	w := bounded(10 * time.Second)
	select {
	case <-closed:
	case <-w.C:
		w.ranOut()
		return fail("/not-closed", "the stream was not closed after cancel", "closed", "open")
	}
	mu.Lock()
	defer mu.Unlock()
	for i := 1; i < len(got); i++ {
		if fam.equiv(got[i-1], got[i]) {
			return fail("/delivered-equivalent", fmt.Sprintf("delivery %d of %d is equivalent to the one before it: the subscriber was sent what it already holds", i, len(got)), "not equivalent to {"+fmt.Sprint(got[i-1])+"}", "{"+fmt.Sprint(got[i])+"}")
		}
	}
	return fmt.Sprintf("ok:%d deliveries", len(got))
}

func runTraits(f lib.Flags, res *lib.Result, ms *monitors) {
	g := &gen{r: lib.NewRand(f.Seed + 104729)}
	fams := tfamilies()
	n := f.N(210, 4000)
	for i := 0; i < n; i++ {
		fam := fams[i%len(fams)]
		c := tcase{Op: "tstream", Family: fam.name, Mask: fam.masks[g.r.Intn(len(fam.masks))], UpdatesOnly: g.r.Intn(4) == 0, Initial: []int{}, Writes: []int{}}
		for k := g.r.Intn(3); k > 0; k-- {
			c.Initial = append(c.Initial, g.r.Intn(fam.nWrite))
		}
		for k := 1 + g.r.Intn(6); k > 0; k-- {
			c.Writes = append(c.Writes, g.r.Intn(fam.nWrite))
		}
		mark := patience.mark()
		out := c.run(ms)
		key := fmt.Sprintf("%s %v %v %v %v", c.Family, c.Mask, c.UpdatesOnly, c.Initial, c.Writes)
		ms.delivery.Eval(key, true, nil)
		ms.delivery.Count("trait:" + fam.name)
		if len(out) > 2 && out[:3] != "ok:" {
			ms.delivery.Count("trait-outcome:" + out)
		}
		if patience.giveUp(mark) {
			break
		}
	}
}
