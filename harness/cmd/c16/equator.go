package main

// Tie + monitors for message-level comparers: cmp.Equal(...), cmp.And, cmp.Or.

import (
	"fmt"
	"math"
	"math/big"
	"sort"

	"github.com/smart-core-os/sc-golang/internal/testproto"
	"github.com/smart-core-os/sc-golang/verifharness/lib"
	"google.golang.org/protobuf/proto"
)

type monitors struct {
	equal    *lib.Monitor // plain Equal() vs proto.Equal modulo Change.change_time
	tol      *lib.Monitor // tolerance comparers accept exactly the pairs within tolerance, own kind only
	symrefl  *lib.Monitor // symmetry and reflexivity
	logic    *lib.Monitor // And = all, Or = any, ValueAnd/ValueOr with ok
	delivery *lib.Monitor // no-dup-delivery through Pull
	free     *lib.Monitor // free-running lossy stages under stepped schedules
}

func newMonitors(res *lib.Result) *monitors {
	return &monitors{
		equal:    res.Monitor("equal-vs-proto.Equal", "cmp.Equal()(x,y) must equal proto.Equal(x',y') where x',y' are x,y with every Change.change_time cleared; also (y,x) and (x,x)"),
		tol:      res.Monitor("tolerance-exact", "cmp.Equal(tolerance comparers)(x,y) must equal: proto.Equal of x,y with the compared kinds blanked AND every corresponding pair of that kind within tolerance by exact math/big arithmetic (only cases where the code's float ops are exact); value comparers must answer ok=false on other kinds"),
		symrefl:  res.Monitor("symmetry-reflexivity", "every comparer: eq(x,y)==eq(y,x); eq(x,x)==true (non-negative tolerances)"),
		logic:    res.Monitor("and-or", "And(es)(x,y) == all e(x,y); Or(es)(x,y) == any e(x,y); ValueAnd/ValueOr: ok == any ok_i, equal == all/any over the ok ones (true/false when none is ok)"),
		delivery: res.Monitor("no-dup-delivery", "through Value.Pull / Collection.Pull with an equivalence E and backpressure: an update is delivered iff it is not E-equivalent to the value the subscriber holds (last delivered, after the read mask; with WithInclude: after include, membership changes always delivered, folded view ids = List(WithInclude) after every write). WITHOUT backpressure (events dropped/merged by the bus before the equivalence check): deliveries are a subsequence of the writes, no delivery is E-equivalent to the one before it, and the subscriber's view converges to the stored state once writes stop. Round 7: (a) the change a Collection.Update announces goes from what was stored when it committed (nothing iff absent: ADD) to what it stored, for every rival placed between its two reads (exhaustive); (b) trait-level streams with an equivalence of their own (openclose PullPositions: cmp.Equal() against the last emitted positions; electric PullDemand and energystorage PullEnergyLevel: default tolerance equivalences) under read masks and updates-only: no delivery is equivalent (oracle: proto.Equal / exact arithmetic) to the one before it, and after every write the subscriber's copy becomes equivalent to the masked current value"),
		free: res.Monitor("free-running-lossy", "free-running slow subscribers, schedules driven step by step (independent mirrors: latest write; per id the value at the last take, the value now, the order of the latest event). minibus.DropExcess: hands over the latest message, once, nothing else. mergeCollectionExcess: every change handed over goes from the value stored when that id's change was last handed over to the value stored now (ADD/REMOVE/UPDATE|REPLACE accordingly), ids in the order of their latest event, absent->absent not reported, nothing lost. Value.Pull without backpressure end to end: each value taken is the latest write, delivered iff NOT E-equivalent to what the subscriber holds, and a subscriber that has caught up holds the stored value or an equivalent one"),
	}
}

type ecase struct {
	Spec  mspec
	X, Y  proto.Message
	Label string
	// the real comparer is handed dynamicCopy of that side (dyn.go)
	DynX, DynY bool
}

// reps: the two sides in the Go representation the real code is given.
func (c ecase) reps() (x, y proto.Message) {
	x, y = c.X, c.Y
	if c.DynX {
		x = dynamicCopy(x)
	}
	if c.DynY {
		y = dynamicCopy(y)
	}
	return x, y
}

type ecaseJSON struct {
	Op   string  `json:"op"`
	Spec mspec   `json:"spec"`
	X    msgJSON `json:"x"`
	Y    msgJSON `json:"y"`
	DynX bool    `json:"dyn_x,omitempty"`
	DynY bool    `json:"dyn_y,omitempty"`
}

func (c ecase) json() ecaseJSON {
	return ecaseJSON{"cmp", c.Spec, toJSON(c.X), toJSON(c.Y), c.DynX, c.DynY}
}

func (j ecaseJSON) decode() (ecase, error) {
	x, err := fromJSON(j.X)
	if err != nil {
		return ecase{}, err
	}
	y, err := fromJSON(j.Y)
	if err != nil {
		return ecase{}, err
	}
	return ecase{Spec: j.Spec, X: x, Y: y, DynX: j.DynX, DynY: j.DynY}, nil
}

func b2s(b bool) string {
	if b {
		return "true"
	}
	return "false"
}

func callCmp(e func(x, y proto.Message) bool, x, y proto.Message) string {
	var r bool
	if p, msg := lib.Catch(func() { r = e(x, y) }); p {
		return "panic:" + msg
	}
	return b2s(r)
}

// runCode: verdicts of the real comparer on (x,y), (y,x), (x,x), (y,y).
func (c ecase) runCode() [4]string {
	e := c.Spec.build()
	x, y := c.reps()
	return [4]string{callCmp(e, x, y), callCmp(e, y, x), callCmp(e, x, x), callCmp(e, y, y)}
}

func (c ecase) lines() []string {
	t, x, y := c.Spec.token(), encTop(c.X), encTop(c.Y)
	return []string{"cmp " + t + " " + x + " " + y, "cmp " + t + " " + y + " " + x, "cmp " + t + " " + x + " " + x, "cmp " + t + " " + y + " " + y}
}

func valid(m proto.Message) bool { return m != nil && m.ProtoReflect().IsValid() }

// nonNegative: all tolerances of the spec are >= 0 (reflexivity is only claimed then).
func (m mspec) nonNegative() bool {
	for _, e := range m.E {
		for _, v := range e.V {
			for _, a := range v.Atoms {
				if a.A < 0 || a.B < 0 || a.D < 0 {
					return false
				}
			}
		}
	}
	return true
}

func hasNonFiniteFloat(m proto.Message) bool {
	if !valid(m) {
		return false
	}
	_, lv := blank(m, true, false, false)
	for _, f := range lv.floats {
		if !finite(f) {
			return true
		}
	}
	return false
}

// simple: every vspec is a bare atom (no ValueAnd/ValueOr inside) and the spec is a single Equal.
func (m mspec) simple() bool {
	if m.Comb != "" {
		return false
	}
	for _, v := range m.E[0].V {
		if v.Comb != "" {
			return false
		}
	}
	return true
}

// tolExpected computes the verdict demanded by the property for a simple spec, from proto.Equal and
// exact arithmetic. applicable=false when the code's float arithmetic is inexact on some leaf pair or
// a tolerance is negative. sig is non-empty when the only reason for the expectation is a leaf class
// with its own signature (non-finite floats, wrapped durations).
func tolExpected(e espec, x, y proto.Message, keepPresence bool) (expected bool, applicable bool, class string) {
	var fas, tws, dws, dps []atom
	for _, v := range e.V {
		a := v.Atoms[0]
		switch a.Kind {
		case "fa":
			fas = append(fas, a)
		case "tw":
			tws = append(tws, a)
		case "dw":
			dws = append(dws, a)
		case "dp":
			if a.A < 0 {
				return false, false, ""
			}
			dps = append(dps, a)
		}
	}
	sx, sy := stripChangeTime(x, keepPresence), stripChangeTime(y, keepPresence)
	bx, lx := blank(sx, len(fas) > 0, len(tws) > 0, len(dws)+len(dps) > 0)
	by, ly := blank(sy, len(fas) > 0, len(tws) > 0, len(dws)+len(dps) > 0)
	if !proto.Equal(bx, by) {
		return false, true, "structure"
	}
	class = "leaves"
	expected = true
	nonfinite := false
	keys := func(n int, f func(func(string))) []string {
		ks := make([]string, 0, n)
		f(func(k string) { ks = append(ks, k) })
		sort.Strings(ks)
		return ks
	}
	for _, k := range keys(len(lx.floats), func(add func(string)) {
		for k := range lx.floats {
			add(k)
		}
	}) {
		a, b := lx.floats[k], ly.floats[k]
		for _, at := range fas {
			if at.A < 0 || at.B < 0 {
				return false, false, ""
			}
			switch {
			case sameFloat(a, b):
				if !finite(a) {
					class = "nonfinite-same"
				}
			case !finite(a) || !finite(b):
				expected = false
				nonfinite = true
			case !exactFloatOps(at.A, at.B, a, b):
				return false, false, ""
			default:
				if !approxOracle(at.A, at.B, a, b) {
					expected = false
				}
			}
		}
	}
	for k, a := range lx.times {
		b := ly.times[k]
		for _, at := range tws {
			if !withinOracle(tsNanos(a), tsNanos(b), at.D) {
				expected = false
			}
		}
	}
	for k, a := range lx.durs {
		b := ly.durs[k]
		for _, at := range dws {
			if !withinOracle(big.NewInt(int64(a.AsDuration())), big.NewInt(int64(b.AsDuration())), at.D) {
				expected = false
			}
		}
		for _, at := range dps {
			if !exactDP(float32(at.A), int64(a.AsDuration()), int64(b.AsDuration())) {
				return false, false, ""
			}
			if !dpOracle(float32(at.A), int64(a.AsDuration()), int64(b.AsDuration())) {
				expected = false
			}
		}
	}
	if !expected && class == "nonfinite-same" {
		class = "leaves"
	}
	if !expected && nonfinite {
		class = "nonfinite"
	}
	return expected, true, class
}

// monitor evaluates the property on the real code for this case; returns the code's verdicts.
func (c ecase) monitor(ms *monitors) string {
	out := c.runCode()
	key := c.Spec.token() + " " + encTop(c.X) + " " + encTop(c.Y)
	in := c.json()
	different := out[0] == "false"
	for _, o := range out {
		if len(o) > 5 && o[:6] == "panic:" {
			ms.equal.Violate("C16/"+c.specClass()+"/panic", "comparer panicked", in, "a verdict", o)
			return fmt.Sprint(out)
		}
	}
	switch {
	case c.Spec.plain():
		ms.equal.Eval(key, different || c.Label != "", nil)
		exp := proto.Equal(stripChangeTime(c.X, false), stripChangeTime(c.Y, false))
		expKeep := proto.Equal(stripChangeTime(c.X, true), stripChangeTime(c.Y, true))
		sig := "C16/Equal/differs-from-proto.Equal"
		if exp != expKeep && out[0] == b2s(expKeep) {
			// the only difference the comparer reacted to is WHERE change_time is populated
			sig = "C16/Equal/change_time-presence-not-ignored"
		}
		if out[0] != b2s(exp) {
			ms.equal.Violate(sig, "cmp.Equal()(x,y) disagrees with proto.Equal modulo Change.change_time", in, b2s(exp), out[0])
		}
		if out[1] != b2s(exp) {
			ms.equal.Violate(sig+"/(y,x)", "cmp.Equal()(y,x) disagrees with proto.Equal modulo Change.change_time", in, b2s(exp), out[1])
		}
	case c.Spec.simple():
		exp, ok, class := tolExpected(c.Spec.E[0], c.X, c.Y, false)
		expKeep, _, _ := tolExpected(c.Spec.E[0], c.X, c.Y, true)
		if !ok {
			ms.tol.Count("skipped-inexact-or-negative")
			break
		}
		ms.tol.Eval(key, class == "leaves", nil)
		ms.tol.Count("class:" + class + ":" + b2s(exp))
		if out[0] != b2s(exp) {
			sig := "C16/" + c.specClass() + "/not-exactly-within-tolerance"
			if exp != expKeep && out[0] == b2s(expKeep) {
				sig = "C16/Equal/change_time-presence-not-ignored"
			} else if class == "nonfinite-same" {
				sig = "C16/FloatValueApprox/nonfinite-not-reflexive"
			} else if class == "nonfinite" {
				sig = "C16/FloatValueApprox/nonfinite-accepted"
			} else if exp && c.Spec.hasKind("dw") {
				sig += "/rejects"
			} else if !exp && c.Spec.hasKind("dw") {
				sig += "/accepts"
			}
			ms.tol.Violate(sig, "verdict differs from proto.Equal-on-other-kinds AND exact |x-y| <= tolerance", in, b2s(exp), out[0])
		}
	}
	// symmetry / reflexivity for every spec
	ms.symrefl.Eval(key, different, nil)
	if out[0] != out[1] {
		sig := "C16/" + c.specClass() + "/not-symmetric"
		ms.symrefl.Violate(sig, "eq(x,y) != eq(y,x)", in, out[0], out[1])
	}
	if c.Spec.nonNegative() && !(c.Spec.Comb == "MO" && len(c.Spec.E) == 0) {
		for i, m := range []proto.Message{c.X, c.Y} {
			if out[2+i] != "true" {
				sig := "C16/" + c.specClass() + "/not-reflexive"
				if c.Spec.hasKind("fa") && hasNonFiniteFloat(m) && !c.Spec.hasKind("dp") {
					sig = "C16/FloatValueApprox/nonfinite-not-reflexive"
				}
				ms.symrefl.Violate(sig, "eq(x,x) is false", in, "true", out[2+i])
			}
		}
	}
	// And / Or
	if c.Spec.Comb != "" {
		ms.logic.Eval(key, true, nil)
		all, any := true, false
		rx, ry := c.reps()
		for _, e := range c.Spec.E {
			var r bool
			if p, msg := lib.Catch(func() { r = e.build()(rx, ry) }); p {
				ms.equal.Violate("C16/"+c.specClass()+"/panic", "comparer panicked", in, "a verdict", "panic:"+msg)
				return fmt.Sprint(out)
			}
			all = all && r
			any = any || r
		}
		exp := all
		if c.Spec.Comb == "MO" {
			exp = any
		}
		if out[0] != b2s(exp) {
			ms.logic.Violate("C16/"+c.Spec.Comb+"/not-conjunction-disjunction", "And/Or verdict differs from all/any of its parts", in, b2s(exp), out[0])
		}
	}
	return fmt.Sprint(out)
}

// specClass names the comparer family for signatures.
func (c ecase) specClass() string {
	s := c.Spec
	switch {
	case s.plain():
		return "Equal"
	case s.hasKind("dp"):
		return "DurationValueWithinP"
	case s.Comb != "":
		return s.Comb
	}
	kinds := ""
	for _, k := range []string{"fa", "tw", "dw"} {
		if s.hasKind(k) {
			if kinds != "" {
				kinds += "+"
			}
			kinds += atomName(k)
		}
	}
	return kinds
}

// ---------------------------------------------------------------------------------------------
// generation

func (g *gen) tolerance(deltas []float64) float64 {
	if len(deltas) > 0 && g.r.Intn(4) != 0 {
		d := deltas[g.r.Intn(len(deltas))]
		switch g.r.Intn(3) {
		case 0:
			return math.Max(0, d-0.125)
		case 1:
			return d
		}
		return d + 0.125
	}
	return []float64{0, 0.125, 0.25, 1, 1.125, 10}[g.r.Intn(6)]
}

func (g *gen) nsTolerance() int64 {
	if len(g.nsDeltas) > 0 && g.r.Intn(4) != 0 {
		d := g.nsDeltas[g.r.Intn(len(g.nsDeltas))]
		return d + int64(g.r.Intn(3)-1)
	}
	return []int64{0, 1, 1000000000, 999999999, 2000000000}[g.r.Intn(5)]
}

func (g *gen) atom(kind string) atom {
	switch kind {
	case "fa":
		fr := []float64{0, 0, 0.125, 0.25, 0.5, 1}[g.r.Intn(6)]
		mg := g.tolerance(g.floatDeltas)
		if g.r.Intn(4) == 0 {
			mg = 0
		}
		return atom{Kind: "fa", A: fr, B: mg}
	case "tw":
		return atom{Kind: "tw", D: g.nsTolerance()}
	case "dw":
		return atom{Kind: "dw", D: g.nsTolerance()}
	default:
		// percent; the boundaries of the small duration domain (1ns vs 2ns: 100, 4 vs 5: 25, 1000s vs 1001s: 0.1) are in reach
		return atom{Kind: "dp", A: []float64{0, 0.125, 12.5, 25, 50, 100, 150, 200}[g.r.Intn(8)]}
	}
}

func (g *gen) espec(allowDP bool) espec {
	var e espec
	kinds := []string{"fa", "tw", "dw"}
	switch g.r.Intn(10) {
	case 0, 1, 2: // one atom
		e.V = []vspec{{Atoms: []atom{g.atom(kinds[g.r.Intn(3)])}}}
	case 3, 4: // several bare atoms
		for _, k := range kinds {
			if g.r.Intn(3) != 0 {
				e.V = append(e.V, vspec{Atoms: []atom{g.atom(k)}})
			}
		}
	case 5: // ValueAnd / ValueOr inside
		comb := []string{"VA", "VO"}[g.r.Intn(2)]
		v := vspec{Comb: comb, Atoms: []atom{}}
		for n := g.r.Intn(4); n > 0; n-- {
			v.Atoms = append(v.Atoms, g.atom(kinds[g.r.Intn(3)]))
		}
		e.V = []vspec{v}
		if g.r.Intn(2) == 0 {
			e.V = append(e.V, vspec{Atoms: []atom{g.atom(kinds[g.r.Intn(3)])}})
		}
	case 6:
		if allowDP {
			e.V = []vspec{{Atoms: []atom{g.atom("dp")}}}
		}
	case 7:
		// two or three comparers of ONE kind with different tolerances: Equal(a, b) accepts only what both accept
		k := kinds[g.r.Intn(3)]
		for n := 2 + g.r.Intn(2); n > 0; n-- {
			e.V = append(e.V, vspec{Atoms: []atom{g.atom(k)}})
		}
	}
	return e
}

func (g *gen) mspec() mspec {
	switch g.r.Intn(10) {
	case 0, 1, 2, 3:
		return plainEqual
	case 4:
		comb := []string{"MA", "MO"}[g.r.Intn(2)]
		m := mspec{Comb: comb, E: []espec{}}
		for n := g.r.Intn(4); n > 0; n-- {
			m.E = append(m.E, g.espec(false))
		}
		return m
	}
	return mspec{E: []espec{g.espec(true)}}
}

// pair produces (x, y): y is x's ancestor mutated in 0-3 places (x itself mutated in 0-1 places),
// or one of the top-level corner cases.
func (g *gen) pair() (x, y proto.Message, label string) {
	mt := equatorTypes[g.r.Intn(len(equatorTypes))]
	anc := g.newMessage(mt, 3)
	x = cloneExact(anc)
	y = cloneExact(anc)
	n := g.r.Intn(4)
	label = fmt.Sprintf("mut%d", n)
	for i := 0; i < n; i++ {
		label += ":" + g.mutate(y.ProtoReflect(), 2)
	}
	if g.r.Intn(5) == 0 {
		label += "|x:" + g.mutate(x.ProtoReflect(), 2)
	}
	switch g.r.Intn(25) {
	case 0:
		return nil, y, "nil,msg"
	case 1:
		return nil, nil, "nil,nil"
	case 2:
		return mt.Zero().Interface(), y, "typednil,msg"
	case 3:
		return mt.Zero().Interface(), mt.Zero().Interface(), "typednil,typednil"
	case 4:
		return mt.Zero().Interface(), (*testproto.ForeignMessage)(nil), "typednil,typednil-other"
	case 5:
		return nil, mt.Zero().Interface(), "nil,typednil"
	case 6:
		return mt.Zero().Interface(), mt.New().Interface(), "typednil,empty"
	case 7:
		o := g.newMessage(equatorTypes[g.r.Intn(len(equatorTypes))], 2)
		return x, o, "other-ancestor"
	case 8:
		return mt.New().Interface(), (&testproto.ForeignMessage{}).ProtoReflect().New().Interface(), "empty,empty-other-type"
	}
	return x, y, label
}

func runEquator(f lib.Flags, res *lib.Result, drv *lib.Driver, ms *monitors) {
	tie := res.Tie("equator", "K1",
		"random pairs: ancestor of a random type (TestAllTypes, WellKnown, PullAirTemperatureResponse(.Change), PullOnOffResponse, ForeignMessage, and verif.c16.Times - a type built at start-up with protodesc/dynamicpb in which the compared kinds are the ELEMENTS of repeated fields and map values themselves: repeated Timestamp / Duration / DoubleValue / FloatValue / double, map<string,Timestamp>, map<int32,Duration>, a recursive repeated field and a nested Change with change_time) populated from tiny domains; y = ancestor mutated in 0-3 places (scalar set/clear/default, float nudge/NaN/±Inf/-0, message clear/empty/replace, Timestamp/Duration nudge (singular, list element, map value), list append/truncate/swap/element, map set/delete/value, unknown-field append/drop/swap/swap-adjacent/replace/repeat-a-number/replace-with-same-length over varint, bytes, fixed32, fixed64 and group records of three numbers), x sometimes mutated once; top-level nil / typed nil / other type; comparer = Equal(), Equal(tolerances around the introduced differences; also several of one kind), ValueAnd/ValueOr inside, And/Or outside. Each case is evaluated on (x,y),(y,x),(x,x),(y,y). Non-trivial: distinct (spec,x,y) whose (x,y) verdict is false or which carries a mutation")
	g := &gen{r: lib.NewRand(f.Seed)}
	n := f.N(6000, 120000)
	const batch = 500
	for done := 0; done < n; done += batch {
		var cases []ecase
		var lines []string
		for i := 0; i < batch && done+i < n; i++ {
			g.floatDeltas, g.nsDeltas = nil, nil
			g.special = g.r.Intn(3) == 0
			x, y, label := g.pair()
			c := ecase{Spec: g.mspec(), X: x, Y: y, Label: label}
			// a third of the sides go to the real code as dynamicpb values (each side on its own: a generated
			// value is also compared with a dynamic one of the same descriptor)
			c.DynX, c.DynY = valid(x) && g.r.Intn(3) == 0, valid(y) && g.r.Intn(3) == 0
			cases = append(cases, c)
			lines = append(lines, c.lines()...)
		}
		ans, err := drv.Batch(lines)
		if err != nil {
			tie.Fail(err)
			return
		}
		for i, c := range cases {
			code := c.monitor(ms)
			model := fmt.Sprint([4]string{ans[4*i], ans[4*i+1], ans[4*i+2], ans[4*i+3]})
			key := lines[4*i]
			if c.inexactDP() {
				tie.Count("skipped-inexact-float32-division")
				continue
			}
			tie.Record(key, ans[4*i] == "false" || c.Label != "mut0", c.json(), model, code)
			tie.Count("spec:" + c.specClass())
			tie.Count("verdict:" + ans[4*i])
			tie.Count("pair:" + firstLabel(c.Label))
		}
	}
}

func firstLabel(l string) string {
	for i, ch := range l {
		if ch == ':' || ch == '|' {
			return l[:i]
		}
	}
	return l
}

// inexactDP: the spec contains DurationValueWithinP and some pair of Durations of x and y makes one of its
// float64 operations round (the model computes exactly): such cases are not compared in the exact tier.
func (c ecase) inexactDP() bool {
	if !c.Spec.hasKind("dp") {
		return false
	}
	var ds []int64
	for _, m := range []proto.Message{c.X, c.Y} {
		if !valid(m) {
			continue
		}
		_, lv := blank(m, false, false, true)
		for _, d := range lv.durs {
			ds = append(ds, int64(d.AsDuration()))
		}
	}
	for _, p := range c.Spec.dpValues() {
		for _, a := range ds {
			for _, b := range ds {
				if !exactDP(p, a, b) {
					return true
				}
			}
		}
	}
	return false
}

func (m mspec) dpValues() []float32 {
	var ps []float32
	for _, e := range m.E {
		for _, v := range e.V {
			for _, a := range v.Atoms {
				if a.Kind == "dp" {
					ps = append(ps, float32(a.A))
				}
			}
		}
	}
	return ps
}
