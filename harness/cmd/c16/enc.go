package main

// Encoding of protobuf values as the tree tokens understood by driverC16 (see ScVerif/C16/Drv.lean).

import (
	"encoding/hex"
	"fmt"
	"math"
	"math/big"
	"sort"
	"strings"

	"google.golang.org/protobuf/encoding/protowire"
	"google.golang.org/protobuf/proto"
	pref "google.golang.org/protobuf/reflect/protoreflect"
)

// encFloat: n | pi | mi | nz | <int>/<k> (= int / 2^k), exact.
func encFloat(f float64) string {
	switch {
	case math.IsNaN(f):
		return "n"
	case math.IsInf(f, 1):
		return "pi"
	case math.IsInf(f, -1):
		return "mi"
	case f == 0 && math.Signbit(f):
		return "nz"
	case f == 0:
		return "0/0"
	}
	bits := math.Float64bits(f)
	exp := int((bits >> 52) & 0x7ff)
	man := bits & (1<<52 - 1)
	if exp == 0 {
		exp = 1
	} else {
		man |= 1 << 52
	}
	e := exp - 1075
	for man&1 == 0 {
		man >>= 1
		e++
	}
	m := new(big.Int).SetUint64(man)
	k := 0
	if e >= 0 {
		m.Lsh(m, uint(e))
	} else {
		k = -e
	}
	if math.Signbit(f) {
		m.Neg(m)
	}
	return fmt.Sprintf("%s/%d", m.String(), k)
}

func ratOfFloat(f float64) *big.Rat {
	r := new(big.Rat)
	r.SetFloat64(f)
	return r
}

func encScalar(kind pref.Kind, v pref.Value) string {
	switch kind {
	case pref.BoolKind:
		if v.Bool() {
			return "b1"
		}
		return "b0"
	case pref.EnumKind:
		return fmt.Sprintf("e%d", v.Enum())
	case pref.Int32Kind, pref.Sint32Kind, pref.Int64Kind, pref.Sint64Kind, pref.Sfixed32Kind, pref.Sfixed64Kind:
		return fmt.Sprintf("i%d", v.Int())
	case pref.Uint32Kind, pref.Uint64Kind, pref.Fixed32Kind, pref.Fixed64Kind:
		return fmt.Sprintf("u%d", v.Uint())
	case pref.FloatKind, pref.DoubleKind:
		return "f" + encFloat(v.Float())
	case pref.StringKind:
		return "s" + hex.EncodeToString([]byte(v.String()))
	case pref.BytesKind:
		return "y" + hex.EncodeToString(v.Bytes())
	}
	panic("encScalar: kind " + kind.String())
}

// encValue encodes a singular value of field kind `kind`.
func encValue(kind pref.Kind, v pref.Value) string {
	if kind == pref.MessageKind || kind == pref.GroupKind {
		return encMessage(v.Message())
	}
	return encScalar(kind, v)
}

type fieldVal struct {
	fd pref.FieldDescriptor
	v  pref.Value
}

func encMessage(m pref.Message) string {
	var sb strings.Builder
	valid := "M1"
	if !m.IsValid() {
		valid = "M0"
	}
	var fs []fieldVal
	m.Range(func(fd pref.FieldDescriptor, v pref.Value) bool {
		fs = append(fs, fieldVal{fd, v})
		return true
	})
	sort.Slice(fs, func(i, j int) bool { return fs[i].fd.Number() < fs[j].fd.Number() })
	fmt.Fprintf(&sb, "%s,%s,%d", valid, m.Descriptor().FullName(), len(fs))
	for _, f := range fs {
		fd := f.fd
		switch {
		case fd.IsList():
			l := f.v.List()
			fmt.Fprintf(&sb, ",L%d:%s,%d", fd.Number(), fd.Name(), l.Len())
			for i := 0; i < l.Len(); i++ {
				sb.WriteString("," + encValue(fd.Kind(), l.Get(i)))
			}
		case fd.IsMap():
			mp := f.v.Map()
			type kv struct{ k, v string }
			var kvs []kv
			mp.Range(func(k pref.MapKey, v pref.Value) bool {
				kvs = append(kvs, kv{encScalar(fd.MapKey().Kind(), k.Value()), encValue(fd.MapValue().Kind(), v)})
				return true
			})
			sort.Slice(kvs, func(i, j int) bool { return kvs[i].k < kvs[j].k })
			fmt.Fprintf(&sb, ",P%d:%s,%d", fd.Number(), fd.Name(), len(kvs))
			for _, e := range kvs {
				sb.WriteString("," + e.k + "," + e.v)
			}
		default:
			fmt.Fprintf(&sb, ",S%d:%s,%s", fd.Number(), fd.Name(), encValue(fd.Kind(), f.v))
		}
	}
	// unknown fields: the RAW bytes; the model cuts them into records itself (its model of
	// protowire.ConsumeField). Bytes that do not parse are outside the model and never sent here.
	var raw []byte
	if m.IsValid() {
		raw = []byte(m.GetUnknown())
		for b := raw; len(b) > 0; {
			_, _, n := protowire.ConsumeField(b)
			if n < 0 {
				panic("malformed unknown fields in generated message")
			}
			b = b[n:]
		}
	}
	sb.WriteString(",X" + hex.EncodeToString(raw))
	return sb.String()
}

func isNilMsg(m proto.Message) bool { return m == nil }

// encTop encodes a top-level proto.Message argument (nil interface, typed nil, or message).
func encTop(m proto.Message) string {
	if m == nil {
		return "nil"
	}
	return encMessage(m.ProtoReflect())
}
