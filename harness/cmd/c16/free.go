package main

// FREE-RUNNING slow subscribers made deterministic (round 5).
//
// Without backpressure a lossy stage sits between the bus and the forwarding loop of Pull:
// minibus.DropExcess behind Value.Pull, mergeCollectionExcess behind Collection.Pull. WHEN the loop takes
// from the stage is scheduling; the Lean model (Free.lean: dropRun / mergerRun over a schedule of `recv` and
// `take` steps) is proved for EVERY schedule. Here the schedules are driven step by step on the real code:
//
//   - drop-excess-schedules: minibus.DropExcess itself, channel in / channel out, every schedule up to a
//     length (both channels are unbuffered and the goroutine handles one step at a time, so a completed send or
//     receive IS a step of the schedule);
//   - merge-excess-schedules: mergeCollectionExcess itself (resource.VerifMergeCollectionExcess), fed with the
//     events a collection publishes for a simulated store, takes anywhere;
//   - value-pull-free: Value.Pull without backpressure end to end. The equivalence handed to the resource is a
//     wrapper that records its calls: the loop calls it exactly once per value it takes from DropExcess, so the
//     harness knows when a take has happened and whether the loop is now blocked handing the change to the
//     subscriber (it did not receive yet) or idle. Writes and subscriber receives are then issued one at a
//     time, each after the previous step is complete: the schedule is a function of the case.
//
// Monitors use plain Go mirrors that are independent of the model (latest write; per id: value at the last take,
// value now, order of the latest event).

import (
	"context"
	"fmt"
	"strconv"
	"strings"
	"sync"
	"time"

	"github.com/smart-core-os/sc-api/go/types"
	"github.com/smart-core-os/sc-golang/internal/minibus"
	"github.com/smart-core-os/sc-golang/pkg/resource"
	"github.com/smart-core-os/sc-golang/verifharness/lib"
	"google.golang.org/protobuf/proto"
)

// ---------------------------------------------------------------------------------------------
// minibus.DropExcess

type dropIn struct {
	Op    string `json:"op"` // drop
	Sched string `json:"sched"`
}

// driveDrop runs one schedule ('r' = the bus hands over the next number, 't' = the consumer takes).
// Answer in the driver's format; violations of the latest-write oracle in viol.
func driveDrop(sched string) (answer string, viol [][3]string) {
	in := make(chan any)
	out := minibus.DropExcess(in)
	defer close(in)
	var handed []string
	k, latest, pending := 0, 0, false
	take := func(final bool) (string, bool) {
		if pending {
			w := bounded(lossyWait)
			select {
			case x, ok := <-out:
				if !ok {
					return "closed", false
				}
				pending = false
				if x != latest {
					viol = append(viol, [3]string{"C16/DropExcess/handed-over-not-the-latest-message", fmt.Sprint(latest), fmt.Sprint(x)})
				}
				return fmt.Sprint(x), true
			case <-w.C:
				w.ranOut()
				viol = append(viol, [3]string{"C16/DropExcess/latest-message-lost", fmt.Sprint(latest), "nothing offered"})
				return "timeout", false
			}
		}
		select {
		case x, ok := <-out:
			if ok {
				viol = append(viol, [3]string{"C16/DropExcess/message-invented", "nothing (every message was taken)", fmt.Sprint(x)})
				return fmt.Sprint(x), true
			}
			return "closed", false
		default:
		}
		return "-", true
	}
	for _, a := range sched {
		if a == 'r' {
			k++
			w := bounded(lossyWait)
			select {
			case in <- k:
				latest, pending = k, true
			case <-w.C:
				w.ranOut()
				viol = append(viol, [3]string{"C16/DropExcess/blocks-the-bus", "receives", "does not receive"})
				return "error:blocked", viol
			}
			continue
		}
		x, ok := take(false)
		if !ok {
			return "error:" + x, viol
		}
		if x != "-" {
			handed = append(handed, x)
		}
	}
	p, ok := take(true)
	if !ok {
		return "error:" + p, viol
	}
	return "o=" + strings.Join(handed, ",") + " p=" + p, viol
}

func dropLine(sched string) string {
	parts := []string{"drop"}
	k := 0
	for _, a := range sched {
		if a == 'r' {
			k++
			parts = append(parts, "r"+strconv.Itoa(k))
		} else {
			parts = append(parts, "t")
		}
	}
	return strings.Join(parts, " ")
}

func runFreeDrop(f lib.Flags, res *lib.Result, drv *lib.Driver, ms *monitors) {
	tie := res.Tie("drop-excess-schedules", "K2",
		"minibus.DropExcess (the lossy stage of Value.Pull without backpressure) driven directly: ALL schedules of length 1..10 (thorough: 1..13) over {r = the bus hands over the next numbered message, t = the consumer takes}; a take with nothing held is a non-blocking receive that must find nothing; at the end one more take shows what is still held. The model (dropRun) must predict the messages handed over and the one left. Non-trivial: schedules with a take after a receive")
	tie.Exhaustive = true
	maxLen := f.N(10, 13)
	var scheds []string
	var rec func(s string)
	rec = func(s string) {
		if len(s) > 0 {
			scheds = append(scheds, s)
		}
		if len(s) == maxLen {
			return
		}
		rec(s + "r")
		rec(s + "t")
	}
	rec("")
	var lines []string
	for _, s := range scheds {
		lines = append(lines, dropLine(s))
	}
	ans, err := drv.Batch(lines)
	if err != nil {
		tie.Fail(err)
		return
	}
	for i, s := range scheds {
		mark := patience.mark()
		code, viol := driveDrop(s)
		in := dropIn{Op: "drop", Sched: s}
		nontrivial := strings.Contains(s, "rt")
		tie.Record(lines[i], nontrivial, in, ans[i], code)
		tie.Count(fmt.Sprintf("len=%d", len(s)))
		ms.free.Eval("drop "+s, nontrivial, nil)
		for _, v := range viol {
			ms.free.Violate(v[0], "DropExcess must hand over the latest message it was given, once, and nothing else", in, v[1], v[2])
		}
		if patience.giveUp(mark) {
			return // a broken stage must not stall the run (patience.go)
		}
	}
}

// ---------------------------------------------------------------------------------------------
// mergeCollectionExcess

type mact struct {
	Take bool    `json:"take,omitempty"`
	Id   string  `json:"id,omitempty"`
	Op   string  `json:"op,omitempty"` // add | update | delete
	V    float64 `json:"v,omitempty"`
}

type mfreeIn struct {
	Op   string `json:"op"` // mfree
	Acts []mact `json:"acts"`
}

func ctOf(op string) (string, types.ChangeType) {
	switch op {
	case "add":
		return "A", types.ChangeType_ADD
	case "update":
		return "U", types.ChangeType_UPDATE
	}
	return "R", types.ChangeType_REMOVE
}

func showChange(c *resource.CollectionChange) string {
	return c.Id + ":" + ctName(c.ChangeType) + ":" + short(encTop(c.OldValue)) + ":" + short(encTop(c.NewValue))
}

// renderModel turns the model's id:TYPE:<pos>:<pos> list into the code's rendering (values by position in evs).
func renderModel(list string, evs []pev, flt func(proto.Message) proto.Message) string {
	var items []string
	for _, it := range strings.Split(list, ",") {
		if it == "" {
			continue
		}
		f := strings.Split(it, ":")
		if len(f) != 4 {
			items = append(items, "!"+it)
			continue
		}
		val := func(p string) string {
			if p == "-" {
				return "nil"
			}
			k, err := strconv.Atoi(p)
			if err != nil || k/2 >= len(evs) {
				return "!" + p
			}
			m := evs[k/2].old
			if k%2 == 1 {
				m = evs[k/2].new
			}
			return short(encTop(flt(m)))
		}
		items = append(items, f[0]+":"+f[1]+":"+val(f[2])+":"+val(f[3]))
	}
	return strings.Join(items, ",")
}

// modelFields splits "m=.. q=.. d=.." style answers.
func modelFields(ans string) map[string]string {
	out := map[string]string{}
	for _, part := range strings.Split(ans, " ") {
		if i := strings.IndexByte(part, '='); i > 0 {
			out[part[:i]] = part[i+1:]
		}
	}
	return out
}

type mergerOut struct {
	err    string
	evs    []pev
	handed []*resource.CollectionChange
	queue  []*resource.CollectionChange
	viol   [][3]string
}

// driveMerger feeds mergeCollectionExcess with the events of a simulated store and takes where the schedule says.
// The mirror (independent of the model): per id the value stored when its change was last taken (or at the start)
// and the value stored now; ids wait in the order of their latest event; an id that was absent then and is absent
// now is not waiting.
func driveMerger(acts []mact) mergerOut {
	var o mergerOut
	in := make(chan any)
	out := resource.VerifMergeCollectionExcess(in)
	defer close(in)
	stored := map[string]proto.Message{}
	lastTold := map[string]proto.Message{} // value when the id's change was last taken; meaningful while waiting
	var waiting []string
	remove := func(id string) {
		for i, w := range waiting {
			if w == id {
				waiting = append(waiting[:i:i], waiting[i+1:]...)
				return
			}
		}
	}
	isWaiting := func(id string) bool {
		for _, w := range waiting {
			if w == id {
				return true
			}
		}
		return false
	}
	same := func(a, b proto.Message) bool { return (a == nil && b == nil) || (a != nil && b != nil && proto.Equal(a, b)) }
	check := func(c *resource.CollectionChange, where string) {
		if len(waiting) == 0 {
			o.viol = append(o.viol, [3]string{"C16/mergeCollectionExcess/free/change-invented", "nothing (no id is waiting)", where + showChange(c)})
			return
		}
		id := waiting[0]
		waiting = waiting[1:]
		if c.Id != id {
			o.viol = append(o.viol, [3]string{"C16/mergeCollectionExcess/free/order", "the change of " + id + " (ids wait in the order of their latest event)", where + showChange(c)})
			remove(c.Id)
			id = c.Id
		}
		t, cur := lastTold[id], stored[id]
		if !same(c.OldValue, t) {
			o.viol = append(o.viol, [3]string{"C16/mergeCollectionExcess/free/old-value-not-what-was-last-handed-over", fmt.Sprint(t), where + showChange(c)})
		}
		if !same(c.NewValue, cur) {
			o.viol = append(o.viol, [3]string{"C16/mergeCollectionExcess/free/new-value-not-the-stored-value", fmt.Sprint(cur), where + showChange(c)})
		}
		wantType := "UPDATE or REPLACE"
		okType := c.ChangeType == types.ChangeType_UPDATE || c.ChangeType == types.ChangeType_REPLACE
		if t == nil {
			wantType, okType = "ADD", c.ChangeType == types.ChangeType_ADD
		} else if cur == nil {
			wantType, okType = "REMOVE", c.ChangeType == types.ChangeType_REMOVE
		}
		if !okType {
			o.viol = append(o.viol, [3]string{"C16/mergeCollectionExcess/free/change-type", wantType, where + showChange(c)})
		}
	}
	recvB := func() (*resource.CollectionChange, bool) {
		w := bounded(lossyWait)
		select {
		case x, ok := <-out:
			if !ok {
				return nil, false
			}
			return x.(*resource.CollectionChange), true
		case <-w.C:
			w.ranOut()
			return nil, false
		}
	}
	for n, a := range acts {
		where := fmt.Sprintf("step %d: ", n)
		if a.Take {
			if len(waiting) == 0 {
				select {
				case x, ok := <-out:
					if ok {
						c := x.(*resource.CollectionChange)
						o.handed = append(o.handed, c)
						check(c, where)
					}
				default:
				}
				continue
			}
			c, ok := recvB()
			if !ok {
				o.viol = append(o.viol, [3]string{"C16/mergeCollectionExcess/free/pending-change-lost", "the change of " + waiting[0], where + "nothing offered"})
				o.err = "nothing offered at " + where
				return o
			}
			o.handed = append(o.handed, c)
			check(c, where)
			continue
		}
		e := pev{id: a.Id, old: stored[a.Id]}
		var ct types.ChangeType
		e.ct, ct = ctOf(a.Op)
		if a.Op != "delete" {
			e.new = dbl(a.V)
		}
		if (a.Op == "add") != (e.old == nil) {
			o.err = fmt.Sprintf("bad schedule at %s%s of %s", where, a.Op, a.Id)
			return o
		}
		o.evs = append(o.evs, e)
		w := bounded(lossyWait)
		select {
		case in <- &resource.CollectionChange{Id: a.Id, ChangeTime: t0, ChangeType: ct, OldValue: e.old, NewValue: e.new}:
		case <-w.C:
			w.ranOut()
			o.err = "the merger does not receive at " + where
			o.viol = append(o.viol, [3]string{"C16/mergeCollectionExcess/free/blocks-the-bus", "receives", where + "does not receive"})
			return o
		}
		if !isWaiting(a.Id) {
			lastTold[a.Id] = e.old
		}
		remove(a.Id)
		if e.new == nil {
			delete(stored, a.Id)
		} else {
			stored[a.Id] = e.new
		}
		if !(lastTold[a.Id] == nil && e.new == nil) {
			waiting = append(waiting, a.Id)
		}
	}
	// what is left: a marker goes to the back of the queue, everything in front of it is the queue
	marker := &resource.CollectionChange{Id: "~end", ChangeTime: t0, ChangeType: types.ChangeType_ADD, NewValue: dbl(0)}
	w := bounded(lossyWait)
	select {
	case in <- marker:
	case <-w.C:
		w.ranOut()
		o.err = "the merger does not receive the end marker"
		return o
	}
	for {
		c, ok := recvB()
		if !ok {
			o.err = "the end marker never arrived"
			o.viol = append(o.viol, [3]string{"C16/mergeCollectionExcess/free/pending-change-lost", "the queue up to the end marker", "nothing offered"})
			return o
		}
		if c.Id == "~end" {
			break
		}
		o.queue = append(o.queue, c)
		check(c, "left at the end: ")
	}
	if len(waiting) > 0 {
		o.viol = append(o.viol, [3]string{"C16/mergeCollectionExcess/free/pending-change-lost", "changes of " + strings.Join(waiting, ","), "not in the queue at the end"})
	}
	return o
}

func mergerLine(o mergerOut, acts []mact) string {
	parts := []string{"cfree", "none", "all", "any"}
	k := 0
	for _, a := range acts {
		if a.Take {
			parts = append(parts, "t")
			continue
		}
		if k >= len(o.evs) {
			break
		}
		e := o.evs[k]
		k++
		parts = append(parts, e.id, e.ct, encTop(e.old), encTop(e.new))
	}
	return strings.Join(parts, " ")
}

func showChanges(cs []*resource.CollectionChange) string {
	var items []string
	for _, c := range cs {
		items = append(items, showChange(c))
	}
	return strings.Join(items, ",")
}

// mergerShapes: every schedule of length 1..maxLen over: take | for each id, from absent: add(v), from present:
// update(v) | delete, v from vals.
func mergerShapes(maxLen int, ids []string, vals []float64) [][]mact {
	var out [][]mact
	present := map[string]bool{}
	var rec func(acts []mact)
	rec = func(acts []mact) {
		if len(acts) > 0 {
			out = append(out, append([]mact(nil), acts...))
		}
		if len(acts) == maxLen {
			return
		}
		rec(append(acts, mact{Take: true}))
		for _, id := range ids {
			if present[id] {
				present[id] = false
				rec(append(acts, mact{Id: id, Op: "delete"}))
				present[id] = true
				for _, v := range vals {
					rec(append(acts, mact{Id: id, Op: "update", V: v}))
				}
			} else {
				present[id] = true
				for _, v := range vals {
					rec(append(acts, mact{Id: id, Op: "add", V: v}))
				}
				present[id] = false
			}
		}
	}
	rec(nil)
	return out
}

func recordMerger(tie *lib.Tie, drv *lib.Driver, ms *monitors, cases [][]mact) bool {
	outs := make([]mergerOut, len(cases))
	lines := make([]string, len(cases))
	for i, acts := range cases {
		mark := patience.mark()
		outs[i] = driveMerger(acts)
		lines[i] = mergerLine(outs[i], acts)
		if patience.giveUp(mark) {
			cases, outs, lines = cases[:i+1], outs[:i+1], lines[:i+1]
			break
		}
	}
	ans, err := drv.Batch(lines)
	if err != nil {
		tie.Fail(err)
		return false
	}
	ident := func(m proto.Message) proto.Message { return m }
	for i, acts := range cases {
		o := outs[i]
		in := mfreeIn{Op: "mfree", Acts: acts}
		takes, mid := 0, false
		for j, a := range acts {
			if a.Take {
				takes++
				if j > 0 && j < len(acts)-1 {
					mid = true
				}
			}
		}
		mf := modelFields(ans[i])
		model := ans[i]
		if _, ok := mf["m"]; ok {
			model = "m=" + renderModel(mf["m"], o.evs, ident) + " q=" + renderModel(mf["q"], o.evs, ident)
		}
		code := "m=" + showChanges(o.handed) + " q=" + showChanges(o.queue)
		if o.err != "" {
			code = "error:" + o.err
		}
		tie.Record(lines[i], mid, in, model, code)
		tie.Count(fmt.Sprintf("events=%d:takes=%d:handed=%d", min(len(o.evs), 8), min(takes, 6), min(len(o.handed), 6)))
		ms.free.Eval(lines[i], mid, nil)
		for _, v := range o.viol {
			ms.free.Violate(v[0], "every change mergeCollectionExcess hands over must go from the value stored when that id's change was last handed over to the value stored now, ids in the order of their latest event, nothing lost or invented", in, v[1], v[2])
		}
	}
	return true
}

func runFreeMerger(f lib.Flags, res *lib.Result, drv *lib.Driver, ms *monitors) {
	ex := res.Tie("merge-excess-schedules-exhaustive", "K2",
		"mergeCollectionExcess (the lossy stage of Collection.Pull without backpressure) driven directly with the events a collection publishes for a simulated store and takes ANYWHERE: all schedules of length 1..6 (thorough 1..7) over {take, id k: add(v) from absent | update(v) | delete from present, v in {10,11}} and all of length 1..5 (thorough 1..6) over two ids k, j with one value; a take with an empty queue is a non-blocking receive that must find nothing; an end marker shows the queue left. The model (mergerRun) must predict every change handed over (id, type, WHICH old and new value) and the queue left. Non-trivial: a take strictly inside the schedule")
	ex.Exhaustive = true
	cases := mergerShapes(f.N(6, 7), []string{"k"}, []float64{10, 11})
	cases = append(cases, mergerShapes(f.N(5, 6), []string{"k", "j"}, []float64{10})...)
	if !recordMerger(ex, drv, ms, cases) {
		return
	}
	tie := res.Tie("merge-excess-schedules", "K1",
		"random schedules for mergeCollectionExcess driven directly: 8-30 steps over 3 ids, 35% takes, writes valid for the simulated store (add from absent; update 70% / delete 30% from present), values from {10,11,12,13}. Non-trivial: a take strictly inside the schedule")
	g := lib.NewRand(f.Seed + 49979687)
	cases = nil
	for i, n := 0, f.N(400, 6000); i < n; i++ {
		ids := []string{"a", "b", "c"}
		present := map[string]bool{}
		var acts []mact
		for k := 8 + g.Intn(23); k > 0; k-- {
			if g.Intn(100) < 35 {
				acts = append(acts, mact{Take: true})
				continue
			}
			id := ids[g.Intn(3)]
			v := float64(10 + g.Intn(4))
			switch {
			case !present[id]:
				acts = append(acts, mact{Id: id, Op: "add", V: v})
				present[id] = true
			case g.Intn(10) < 3:
				acts = append(acts, mact{Id: id, Op: "delete"})
				present[id] = false
			default:
				acts = append(acts, mact{Id: id, Op: "update", V: v})
			}
		}
		cases = append(cases, acts)
	}
	recordMerger(tie, drv, ms, cases)
}

// ---------------------------------------------------------------------------------------------
// Value.Pull without backpressure, end to end, stepped

type vfreeOut struct {
	err    string
	events []proto.Message // value stored by each write
	acts   []string        // the schedule as the lossy stage saw it: write number | "t"
	calls  []bool          // the equivalence's answer at each take
	seed   proto.Message
	got    []int // write number of each change the subscriber received (seed excluded)
	gotVal []proto.Message
	viol   [][3]string
}

func (c pcase) runFreeValue() vfreeOut {
	var out vfreeOut
	done := make(chan struct{})
	go func() {
		defer close(done)
		if p, msg := lib.Catch(func() { c.runFreeValueInner(&out) }); p {
			out.err = "panic:" + msg
		}
	}()
	w := bounded(6 * lossyWait)
	select {
	case <-done:
	case <-w.C:
		w.ranOut()
		return vfreeOut{err: "timeout"}
	}
	return out
}

func (c pcase) runFreeValueInner(out *vfreeOut) {
	var E func(x, y proto.Message) bool
	if c.Spec != nil {
		E = guarded(c.Spec.build())
	}
	var mu sync.Mutex
	var calls []bool
	wrapper := func(x, y proto.Message) bool {
		r := E != nil && E(x, y)
		mu.Lock()
		calls = append(calls, r)
		mu.Unlock()
		return r
	}
	ncalls := func() int { mu.Lock(); defer mu.Unlock(); return len(calls) }
	clk := &fakeClock{t: t0}
	opts := []resource.Option{resource.WithClock(clk)}
	if len(c.Writes)%2 == 1 {
		opts = append(opts, resource.WithEquivalence(resource.ComparerFunc(wrapper)))
	} else {
		opts = append(opts, resource.WithMessageEquivalence(wrapper))
	}
	if c.Cur != nil {
		opts = append(opts, resource.WithInitialValue(clone(c.Cur)))
	}
	v := resource.NewValue(opts...)
	ctx, cancel := context.WithCancel(context.Background())
	defer cancel()
	ch := v.Pull(ctx, c.lossyReadOptions()...)
	same := func(a, b proto.Message) bool { return (a == nil && b == nil) || (a != nil && b != nil && proto.Equal(a, b)) }
	class := "exact"
	if c.tolerance() {
		class = "tolerance"
	}

	// mirror: what the subscriber holds, the latest write, whether the loop is blocked handing over a change
	var held proto.Message
	handFull := c.Cur != nil && !c.UpdatesOnly
	handWrite := -1 // write number of the change in the loop's hand (-1: the seed)
	pend, latest, takes := false, -1, 0
	take := func() bool {
		takes++
		if !waitFor(func() bool { return ncalls() >= takes }) {
			out.err = fmt.Sprintf("take %d: the loop never looked at the pending value", takes)
			out.viol = append(out.viol, [3]string{"C16/Value.Pull/free/pending-value-not-taken", "the loop takes the pending value once it is free", out.err})
			return false
		}
		mu.Lock()
		r := calls[takes-1]
		mu.Unlock()
		out.acts = append(out.acts, "t")
		w := c.oracleFilter(out.events[latest])
		equiv := E != nil && E(held, w)
		if r != equiv {
			kind, what := "delivered-equivalent", "about to deliver"
			if r {
				kind, what = "suppressed-nonequivalent", "suppressed"
			}
			out.viol = append(out.viol, [3]string{"C16/Value.Pull/free/" + class + "/" + kind,
				fmt.Sprintf("take %d: write %d = %v against held %v: equivalent=%v", takes, latest, w, held, equiv), what})
		}
		pend = false
		handFull = !r
		handWrite = latest
		return true
	}
	recv := func() bool {
		w := bounded(lossyWait)
		select {
		case x, ok := <-ch:
			if !ok {
				out.err = "pull channel closed"
				return false
			}
			if x.SeedValue {
				out.seed = x.Value
				if handWrite != -1 {
					out.viol = append(out.viol, [3]string{"C16/Value.Pull/free/unexpected-seed", fmt.Sprintf("write %d", handWrite), "a seed"})
				}
			} else {
				i := int(x.ChangeTime.Sub(t0)/time.Second) - 1
				out.got = append(out.got, i)
				out.gotVal = append(out.gotVal, x.Value)
				if i != handWrite || i < 0 || i >= len(out.events) || !same(x.Value, c.oracleFilter(out.events[i])) {
					out.viol = append(out.viol, [3]string{"C16/Value.Pull/free/delivered-not-the-latest-write",
						fmt.Sprintf("write %d", handWrite), fmt.Sprintf("write %d: %v", i, x.Value)})
				}
			}
			held = x.Value
			handFull = false
			return true
		case <-w.C:
			w.ranOut()
			out.err = "the subscriber was not handed the change the loop decided to deliver"
			out.viol = append(out.viol, [3]string{"C16/Value.Pull/free/decided-change-not-delivered", fmt.Sprintf("write %d", handWrite), "nothing"})
			return false
		}
	}
	wi := 0
	for _, a := range c.Sched {
		switch a {
		case 'w':
			if wi >= len(c.Writes) {
				continue
			}
			nv, err := v.Set(clone(c.Writes[wi]), resource.WithWriteTime(t0.Add(time.Duration(wi+1)*time.Second)))
			if err != nil {
				out.err = "set:" + err.Error()
				return
			}
			out.events = append(out.events, clone(nv))
			out.acts = append(out.acts, encTop(nv))
			latest, pend = wi, true
			wi++
			if !handFull && !take() {
				return
			}
		case 's':
			if !handFull {
				select {
				case x, ok := <-ch:
					if ok {
						out.viol = append(out.viol, [3]string{"C16/Value.Pull/free/delivery-invented", "nothing (the loop is idle)", fmt.Sprint(x.Value)})
					}
				default:
				}
				continue
			}
			if !recv() || (pend && !take()) {
				return
			}
		}
	}
	// drain: the subscriber catches up
	for handFull {
		if !recv() || (pend && !take()) {
			return
		}
	}
	cancel()
	closed := waitFor(func() bool {
		select {
		case _, ok := <-ch:
			return !ok
		default:
			return false
		}
	})
	if !closed {
		out.err = "pull channel not closed after cancel"
		return
	}
	mu.Lock()
	out.calls = append([]bool(nil), calls...)
	mu.Unlock()
	if len(out.events) > 0 {
		final := c.oracleFilter(out.events[len(out.events)-1])
		if !same(held, final) && !(E != nil && E(held, final)) {
			out.viol = append(out.viol, [3]string{"C16/Value.Pull/free/final-value-not-delivered",
				fmt.Sprintf("the subscriber ends with %v or an equivalent value", final), fmt.Sprint(held)})
		}
	}
}

func (c pcase) vfreeLine(out vfreeOut) string {
	parts := []string{"vfree", c.specToken(), c.filterToken()}
	if c.UpdatesOnly {
		parts = append(parts, "nil")
	} else {
		parts = append(parts, encTop(c.Cur))
	}
	return strings.Join(append(parts, out.acts...), " ")
}

func ints(xs []int) string {
	var s []string
	for _, x := range xs {
		s = append(s, strconv.Itoa(x))
	}
	return strings.Join(s, ",")
}

// vfreeAnswers renders model and code as "n=<takes> d=<delivered bits, seed first> g=<write numbers received>".
func (c pcase) vfreeAnswers(out vfreeOut, ans string) (model, code string) {
	seeded := c.Cur != nil && !c.UpdatesOnly
	mf := modelFields(ans)
	model = ans
	if h, ok := mf["h"]; ok {
		var hs []string
		if h != "" {
			hs = strings.Split(h, ",")
		}
		d := mf["d"]
		off := 0
		if seeded {
			off = 1
		}
		var g []string
		for i, w := range hs {
			if off+i < len(d) && d[off+i] == '1' {
				g = append(g, w)
			}
		}
		model = fmt.Sprintf("n=%d d=%s g=%s p=%s", len(hs), d, strings.Join(g, ","), mf["p"])
	}
	if out.err != "" {
		return model, "error:" + out.err
	}
	d := ""
	if out.seed != nil {
		d = "1"
	}
	for _, r := range out.calls {
		if r {
			d += "0"
		} else {
			d += "1"
		}
	}
	return model, fmt.Sprintf("n=%d d=%s g=%s p=-", len(out.calls), d, ints(out.got))
}

func (c pcase) monitorFreeValue(ms *monitors, out vfreeOut) {
	in := c.json()
	ms.free.Eval(fmt.Sprintf("vfree %s %s %s %d", c.specToken(), c.filterToken(), c.Sched, len(out.events)), c.Spec != nil, nil)
	ms.free.Count(fmt.Sprintf("vfree:writes=%d:takes=%d:delivered=%d", min(len(out.events), 8), min(len(out.calls), 8), min(len(out.got), 8)))
	for _, v := range out.viol {
		ms.free.Violate(v[0], "Value.Pull without backpressure: every value the loop takes is the latest write, it is delivered iff NOT equivalent to what the subscriber holds, and once the subscriber has caught up it holds the stored value or an equivalent one", in, v[1], v[2])
	}
	if out.err != "" && len(out.viol) == 0 {
		ms.free.Violate("C16/Value.Pull/free/error", "stepped lossy run failed", in, "a delivery sequence", out.err)
	}
}

func (g *gen) pcaseFreeValue() pcase {
	var c pcase
	for {
		if c = g.pcase(); c.Kind == "vpull" {
			break
		}
	}
	c.Kind = "vfree"
	c.NoDup = false
	// more writes: small variations of the generated ones, and returns to earlier values
	base := c.Writes
	for k := g.r.Intn(3); k > 0; k-- {
		for _, w := range base {
			m := proto.Clone(w)
			if g.r.Intn(2) == 0 {
				g.noUnknown, g.noNegZero = true, true
				g.mutate(m.ProtoReflect(), 1)
				g.noUnknown, g.noNegZero = false, false
			}
			c.Writes = append(c.Writes, m)
		}
	}
	var sb strings.Builder
	for range c.Writes {
		for g.r.Intn(100) < 40 {
			sb.WriteByte('s')
		}
		sb.WriteByte('w')
	}
	for g.r.Intn(2) == 0 {
		sb.WriteByte('s')
	}
	c.Sched = sb.String()
	return c
}

func runFreeValue(f lib.Flags, res *lib.Result, drv *lib.Driver, ms *monitors) {
	tie := res.Tie("value-pull-free", "K1",
		"Value.Pull WITHOUT backpressure end to end, free-running subscriber made deterministic: random value-pull cases (any ancestor type, 1-18 writes each a small mutation of the previous or a return to an earlier value, optional initial value, read mask, WithUpdatesOnly; equivalence none | Equal() | Equal(tolerances around the written steps), handed over wrapped so that every call is seen) with a random interleaving of writes and subscriber receives (40% receive before each write), then the subscriber catches up. The model (valuePull over dropRun of the schedule as the stage saw it) must predict the number of takes, every decision and WHICH writes are delivered. Non-trivial: an equivalence configured")
	g := &gen{r: lib.NewRand(f.Seed + 86028121)}
	for i, n := 0, f.N(300, 4000); i < n; i++ {
		c := g.pcaseFreeValue()
		mark := patience.mark()
		out := c.runFreeValue()
		c.monitorFreeValue(ms, out)
		ans, err := drv.Ask(c.vfreeLine(out))
		if err != nil {
			tie.Fail(err)
			return
		}
		model, code := c.vfreeAnswers(out, ans)
		tie.Record(c.vfreeLine(out), c.Spec != nil, c.json(), model, code)
		dropped := len(out.events) - len(out.calls)
		tie.Count(fmt.Sprintf("dropped=%d:suppressed=%d", min(dropped, 6), min(len(out.calls)-len(out.got), 6)))
		if patience.giveUp(mark) {
			return
		}
	}
}

func runFree(f lib.Flags, res *lib.Result, drv *lib.Driver, ms *monitors) {
	runFreeDrop(f, res, drv, ms)
	runFreeMerger(f, res, drv, ms)
	runFreeValue(f, res, drv, ms)
	runFreeCollection(f, res, drv, ms)
}

// replayFree re-runs a free-running case from its replay input.
func replayFree(op string, in map[string]any, ms *monitors) (string, bool) {
	switch op {
	case "drop":
		var d dropIn
		if err := reJSON(in, &d); err != nil {
			lib.Fatal(err)
		}
		code, viol := driveDrop(d.Sched)
		for _, v := range viol {
			ms.free.Violate(v[0], "DropExcess must hand over the latest message it was given, once, and nothing else", d, v[1], v[2])
		}
		return code, true
	case "mfree":
		var m mfreeIn
		if err := reJSON(in, &m); err != nil {
			lib.Fatal(err)
		}
		o := driveMerger(m.Acts)
		for _, v := range o.viol {
			ms.free.Violate(v[0], "mergeCollectionExcess free-running", m, v[1], v[2])
		}
		return "m=" + showChanges(o.handed) + " q=" + showChanges(o.queue) + " err=" + o.err, true
	case "cfree":
		var c pcaseJSON
		if err := reJSON(in, &c); err != nil {
			lib.Fatal(err)
		}
		pc, err := c.decode()
		if err != nil {
			lib.Fatal(err)
		}
		out := pc.runFreeCollection()
		pc.monitorFreeCollection(ms, out)
		return fmt.Sprintf("takes=%d delivered=%s err=%q", len(out.calls), showChanges(out.got), out.err), true
	case "vfree":
		var c pcaseJSON
		if err := reJSON(in, &c); err != nil {
			lib.Fatal(err)
		}
		pc, err := c.decode()
		if err != nil {
			lib.Fatal(err)
		}
		out := pc.runFreeValue()
		pc.monitorFreeValue(ms, out)
		return fmt.Sprintf("takes=%d delivered=%v err=%q", len(out.calls), out.got, out.err), true
	}
	return "", false
}
