package main

// A fixed list of small corner cases, run before the random ties (so that the first replay kept for a
// signature is small): one per known or repaired defect and per special-value rule.

import (
	"fmt"
	"math"

	"github.com/smart-core-os/sc-api/go/traits"
	"github.com/smart-core-os/sc-golang/internal/testproto"
	"github.com/smart-core-os/sc-golang/pkg/cmp"
	"github.com/smart-core-os/sc-golang/verifharness/lib"
	"google.golang.org/protobuf/proto"
	pref "google.golang.org/protobuf/reflect/protoreflect"
	"google.golang.org/protobuf/types/known/durationpb"
	"google.golang.org/protobuf/types/known/timestamppb"
)

func posOf(field string) position {
	for _, p := range positions {
		if p.field == field {
			return p
		}
	}
	panic(field)
}

func one(a atom) vspec { return vspec{Atoms: []atom{a}} }

func eq1(as ...atom) mspec {
	var e espec
	for _, a := range as {
		e.V = append(e.V, one(a))
	}
	return mspec{E: []espec{e}}
}

func directedE() []ecase {
	ts := func(s int64, n int32) *timestamppb.Timestamp { return &timestamppb.Timestamp{Seconds: s, Nanos: n} }
	ch := func(name string, t *timestamppb.Timestamp) *traits.PullAirTemperatureResponse_Change {
		return &traits.PullAirTemperatureResponse_Change{Name: name, ChangeTime: t}
	}
	negZero := math.Copysign(0, -1)
	var zero32 int32
	cs := []ecase{
		{Spec: plainEqual, X: ch("a", nil), Y: ch("a", ts(5, 0)), Label: "change_time presence"},
		{Spec: plainEqual, X: ch("a", ts(1, 0)), Y: ch("a", ts(2, 0)), Label: "change_time value"},
		{Spec: plainEqual, X: ch("a", ts(1, 0)), Y: ch("b", ts(1, 0)), Label: "Change other field"},
		{Spec: plainEqual, X: &traits.PullAirTemperatureResponse{Changes: []*traits.PullAirTemperatureResponse_Change{ch("a", nil)}},
			Y: &traits.PullAirTemperatureResponse{Changes: []*traits.PullAirTemperatureResponse_Change{ch("a", ts(7, 1))}}, Label: "nested change_time presence"},
		{Spec: eq1(atom{Kind: "tw", D: 1}), X: ch("a", ts(1, 0)), Y: ch("a", ts(9, 0)), Label: "change_time under TimeValueWithin"},
		{Spec: plainEqual, X: &testproto.WellKnown{DefaultTimestamp: ts(1, 0)}, Y: &testproto.WellKnown{DefaultTimestamp: ts(2, 0)}, Label: "timestamp outside Change"},
		{Spec: plainEqual, X: &testproto.TestAllTypes{DefaultDouble: math.NaN()}, Y: &testproto.TestAllTypes{DefaultDouble: math.NaN()}, Label: "NaN"},
		{Spec: plainEqual, X: &testproto.TestAllTypes{OptionalDouble: &negZero}, Y: &testproto.TestAllTypes{OptionalDouble: new(float64)}, Label: "-0 vs +0"},
		{Spec: plainEqual, X: &testproto.TestAllTypes{OptionalInt32: &zero32}, Y: &testproto.TestAllTypes{}, Label: "present default vs unset"},
		{Spec: plainEqual, X: &testproto.TestAllTypes{DefaultNestedMessage: &testproto.TestAllTypes_NestedMessage{}}, Y: &testproto.TestAllTypes{}, Label: "empty message vs unset"},
		{Spec: plainEqual, X: &testproto.TestAllTypes{DefaultBytes: []byte{}}, Y: &testproto.TestAllTypes{}, Label: "empty bytes vs nil"},
		{Spec: plainEqual, X: &testproto.TestAllTypes{MapInt32Int32: map[int32]int32{1: 0}}, Y: &testproto.TestAllTypes{MapInt32Int32: map[int32]int32{2: 0}}, Label: "map keys"},
		{Spec: plainEqual, X: (*testproto.TestAllTypes)(nil), Y: &testproto.TestAllTypes{}, Label: "typed nil vs empty"},
		{Spec: plainEqual, X: (*testproto.TestAllTypes)(nil), Y: (*testproto.ForeignMessage)(nil), Label: "typed nils of two types"},
		{Spec: eq1(atom{Kind: "fa", A: 0, B: 0.25}), X: &testproto.TestAllTypes{DefaultDouble: math.NaN()}, Y: &testproto.TestAllTypes{DefaultDouble: math.NaN()}, Label: "NaN under FloatValueApprox"},
		{Spec: eq1(atom{Kind: "fa", A: 0, B: 0.25}), X: &testproto.TestAllTypes{RepeatedFloat: []float32{1, 2}}, Y: &testproto.TestAllTypes{RepeatedFloat: []float32{1.25, 2}}, Label: "repeated float at tolerance"},
		{Spec: eq1(atom{Kind: "fa", A: 0, B: 0.25}), X: &testproto.TestAllTypes{RepeatedFloat: []float32{1, 2}}, Y: &testproto.TestAllTypes{RepeatedFloat: []float32{1.375, 2}}, Label: "repeated float above tolerance"},
		{Spec: eq1(atom{Kind: "fa", A: 0, B: 1}), X: &testproto.TestAllTypes{DefaultInt32: 1}, Y: &testproto.TestAllTypes{DefaultInt32: 2}, Label: "int under FloatValueApprox"},
		{Spec: eq1(atom{Kind: "fa", A: 0, B: 1}, atom{Kind: "fa", A: 0, B: 0.25}), X: &testproto.TestAllTypes{DefaultDouble: 1}, Y: &testproto.TestAllTypes{DefaultDouble: 1.5}, Label: "two FloatValueApprox, inside the first only"},
		{Spec: eq1(atom{Kind: "fa", A: 0, B: 0.25}, atom{Kind: "fa", A: 0, B: 1}), X: &testproto.TestAllTypes{DefaultDouble: 1}, Y: &testproto.TestAllTypes{DefaultDouble: 1.5}, Label: "two FloatValueApprox, inside the second only"},
		{Spec: eq1(atom{Kind: "dp", A: 0.125}), X: &testproto.WellKnown{DefaultDuration: &durationpb.Duration{Nanos: 4}}, Y: &testproto.WellKnown{DefaultDuration: &durationpb.Duration{Nanos: 4}}, Label: "DurationValueWithinP same"},
		{Spec: eq1(atom{Kind: "dp", A: 25}), X: &testproto.WellKnown{DefaultDuration: &durationpb.Duration{Nanos: 4}}, Y: &testproto.WellKnown{DefaultDuration: &durationpb.Duration{Nanos: 5}}, Label: "DurationValueWithinP at the tolerance"},
		{Spec: eq1(atom{Kind: "dp", A: 12.5}), X: &testproto.WellKnown{DefaultDuration: &durationpb.Duration{Nanos: 5}}, Y: &testproto.WellKnown{DefaultDuration: &durationpb.Duration{Nanos: 4}}, Label: "DurationValueWithinP beyond the tolerance"},
		// the same kinds of comparison on dynamicpb values (what Unmarshal / proto.Clone of a dynamicpb message hold): one or both sides
		{Spec: eq1(atom{Kind: "tw", D: 1000000000}), X: &testproto.WellKnown{DefaultTimestamp: ts(3, 0)}, Y: &testproto.WellKnown{DefaultTimestamp: ts(4, 0)}, DynX: true, DynY: true, Label: "TimeValueWithin at the tolerance, both dynamicpb"},
		{Spec: eq1(atom{Kind: "tw", D: 1000000000}), X: &testproto.WellKnown{DefaultTimestamp: ts(3, 0)}, Y: &testproto.WellKnown{DefaultTimestamp: ts(4, 1)}, DynY: true, Label: "TimeValueWithin beyond the tolerance, generated vs dynamicpb"},
		{Spec: eq1(atom{Kind: "dw", D: 1000000000}), X: &testproto.WellKnown{DefaultDuration: &durationpb.Duration{Seconds: 3}}, Y: &testproto.WellKnown{DefaultDuration: &durationpb.Duration{Seconds: 4}}, DynX: true, Label: "DurationValueWithin at the tolerance, dynamicpb vs generated"},
		{Spec: eq1(atom{Kind: "dw", D: 1000000000}), X: &testproto.WellKnown{DefaultDuration: &durationpb.Duration{Seconds: 3}}, Y: &testproto.WellKnown{DefaultDuration: &durationpb.Duration{Seconds: 4, Nanos: 1}}, DynX: true, DynY: true, Label: "DurationValueWithin beyond the tolerance, both dynamicpb"},
		{Spec: eq1(atom{Kind: "dw", D: 1000000000}), X: &testproto.WellKnown{DefaultDuration: &durationpb.Duration{Seconds: 9223372037}}, Y: &testproto.WellKnown{DefaultDuration: &durationpb.Duration{Seconds: -9223372037}}, DynX: true, DynY: true, Label: "DurationValueWithin saturating, both dynamicpb"},
		{Spec: eq1(atom{Kind: "dp", A: 25}), X: &testproto.WellKnown{DefaultDuration: &durationpb.Duration{Nanos: 8}}, Y: &testproto.WellKnown{DefaultDuration: &durationpb.Duration{Nanos: 10}}, DynX: true, DynY: true, Label: "DurationValueWithinP at the tolerance, both dynamicpb"},
		{Spec: eq1(atom{Kind: "dp", A: 12.5}), X: &testproto.WellKnown{DefaultDuration: &durationpb.Duration{Nanos: 10}}, Y: &testproto.WellKnown{DefaultDuration: &durationpb.Duration{Nanos: 8}}, DynY: true, Label: "DurationValueWithinP beyond the tolerance, generated vs dynamicpb"},
		{Spec: plainEqual, X: ch("a", ts(1, 0)), Y: ch("a", ts(2, 0)), DynX: true, Label: "change_time value, dynamicpb vs generated"},
		{Spec: plainEqual, X: &testproto.WellKnown{DefaultTimestamp: ts(1, 0)}, Y: &testproto.WellKnown{DefaultTimestamp: ts(1, 0)}, DynX: true, Label: "same timestamp, dynamicpb vs generated"},
	}
	// unknown fields: same records in another order across numbers (equal), within a number (unequal)
	u := func(b ...byte) *testproto.ForeignMessage {
		m := &testproto.ForeignMessage{}
		m.ProtoReflect().SetUnknown(b)
		return m
	}
	// field 1000 varint: tag = 1000<<3|0 = 8000 = 0xc0 0x3e ; field 1001: 0xc8 0x3e
	cs = append(cs,
		ecase{Spec: plainEqual, X: u(0xc0, 0x3e, 1, 0xc8, 0x3e, 2), Y: u(0xc8, 0x3e, 2, 0xc0, 0x3e, 1), Label: "unknown reordered across numbers"},
		ecase{Spec: plainEqual, X: u(0xc0, 0x3e, 1, 0xc0, 0x3e, 2), Y: u(0xc0, 0x3e, 2, 0xc0, 0x3e, 1), Label: "unknown reordered within a number"},
		ecase{Spec: plainEqual, X: u(0xc0, 0x3e, 1), Y: u(), Label: "unknown vs none"},
		// a repeated number: every occurrence counts, not only the last one (same total length)
		ecase{Spec: plainEqual, X: u(0xc0, 0x3e, 1, 0xc0, 0x3e, 2), Y: u(0xc0, 0x3e, 3, 0xc0, 0x3e, 2), Label: "unknown repeated number, first occurrence differs"},
		ecase{Spec: plainEqual, X: u(0xc0, 0x3e, 1, 0xc8, 0x3e, 9, 0xc0, 0x3e, 2), Y: u(0xc0, 0x3e, 3, 0xc0, 0x3e, 2, 0xc8, 0x3e, 9), Label: "unknown repeated number interleaved, first occurrence differs"},
		ecase{Spec: plainEqual, X: u(0xc0, 0x3e, 1, 0xc8, 0x3e, 9, 0xc0, 0x3e, 2), Y: u(0xc0, 0x3e, 1, 0xc0, 0x3e, 2, 0xc8, 0x3e, 9), Label: "unknown repeated number interleaved, equal"},
		// two wire types under one number (varint 0 / empty bytes: same length), and a group
		ecase{Spec: plainEqual, X: u(0xc0, 0x3e, 0, 0xc0, 0x3e, 2), Y: u(0xc2, 0x3e, 0, 0xc0, 0x3e, 2), Label: "unknown wire type differs in a first occurrence"},
		ecase{Spec: plainEqual, X: u(0xc3, 0x3e, 0x08, 1, 0xc4, 0x3e, 0xc8, 0x3e, 2), Y: u(0xc8, 0x3e, 2, 0xc3, 0x3e, 0x08, 1, 0xc4, 0x3e), Label: "unknown group reordered across numbers"},
		ecase{Spec: plainEqual, X: u(0xc3, 0x3e, 0x08, 1, 0xc4, 0x3e, 0xc0, 0x3e, 2), Y: u(0xc3, 0x3e, 0x08, 3, 0xc4, 0x3e, 0xc0, 0x3e, 2), Label: "unknown group content differs, later record equal"},
	)
	return cs
}

func directedV() []vcase {
	f := func(x float64) pref.Value { return pref.ValueOfFloat64(x) }
	d := func(s int64, n int32) pref.Value {
		return pref.ValueOfMessage((&durationpb.Duration{Seconds: s, Nanos: n}).ProtoReflect())
	}
	t := func(s int64, n int32) pref.Value {
		return pref.ValueOfMessage((&timestamppb.Timestamp{Seconds: s, Nanos: n}).ProtoReflect())
	}
	dbl, dur, tim := posOf("default_double"), posOf("default_duration"), posOf("default_timestamp")
	fa := one(atom{Kind: "fa", A: 0.125, B: 0.25})
	return []vcase{
		{Spec: fa, Pos: dbl, X: f(math.NaN()), Y: f(math.NaN())},
		{Spec: fa, Pos: dbl, X: f(math.Inf(1)), Y: f(math.Inf(1))},
		{Spec: fa, Pos: dbl, X: f(math.Inf(-1)), Y: f(math.Inf(1))},
		{Spec: fa, Pos: dbl, X: f(math.Inf(1)), Y: f(1)},
		{Spec: fa, Pos: dbl, X: f(math.NaN()), Y: f(1)},
		{Spec: fa, Pos: dbl, X: f(1), Y: f(1.25)},
		{Spec: fa, Pos: dbl, X: f(1), Y: f(1.375)},
		{Spec: fa, Pos: dbl, X: f(8), Y: f(9)},
		{Spec: fa, Pos: dbl, X: f(8), Y: f(9.125)},
		{Spec: fa, Pos: dbl, X: f(-8), Y: f(8)},
		{Spec: fa, Pos: dbl, X: f(0), Y: f(math.Copysign(0, -1))},
		{Spec: one(atom{Kind: "dw", D: 1000000000}), Pos: dur, X: d(9223372036, 0), Y: d(-9223372036, 0)},
		{Spec: one(atom{Kind: "dw", D: 1000000000}), Pos: dur, X: d(9223372037, 0), Y: d(-9223372037, 0)},
		{Spec: one(atom{Kind: "dw", D: 1000000000}), Pos: dur, X: d(4611686019, 0), Y: d(-4611686019, 0)},
		{Spec: one(atom{Kind: "dw", D: 1000000000}), Pos: dur, X: d(1, 0), Y: d(2, 0)},
		{Spec: one(atom{Kind: "dw", D: 1000000000}), Pos: dur, X: d(1, 0), Y: d(2, 1)},
		{Spec: one(atom{Kind: "tw", D: 1000000000}), Pos: tim, X: t(1, 0), Y: t(2, 0)},
		{Spec: one(atom{Kind: "tw", D: 1000000000}), Pos: tim, X: t(1, 0), Y: t(2, 1)},
		{Spec: one(atom{Kind: "tw", D: 1000000000}), Pos: tim, X: t(9223372037, 0), Y: t(-9223372037, 0)},
		{Spec: one(atom{Kind: "tw", D: math.MaxInt64}), Pos: tim, X: t(1, 0), Y: t(2, 0)},
		{Spec: one(atom{Kind: "dp", A: 0.125}), Pos: dur, X: d(0, 4), Y: d(0, 4)},
		{Spec: one(atom{Kind: "dp", A: 0.5}), Pos: dur, X: d(0, 1), Y: d(0, 4)},
		{Spec: one(atom{Kind: "dp", A: 0.5}), Pos: dur, X: d(0, 0), Y: d(0, 0)},
		// dynamicpb Timestamps / Durations (one or both sides)
		{Spec: one(atom{Kind: "tw", D: 1000000000}), Pos: tim, X: t(3, 0), Y: t(4, 0), DynX: true, DynY: true},
		{Spec: one(atom{Kind: "tw", D: 1000000000}), Pos: tim, X: t(3, 0), Y: t(4, 1), DynY: true},
		{Spec: one(atom{Kind: "dw", D: 1000000000}), Pos: dur, X: d(3, 0), Y: d(4, 0), DynX: true},
		{Spec: one(atom{Kind: "dw", D: 1000000000}), Pos: dur, X: d(3, 0), Y: d(4, 1), DynX: true, DynY: true},
		{Spec: one(atom{Kind: "dw", D: 1000000000}), Pos: dur, X: d(9223372037, 1), Y: d(-9223372037, 0), DynX: true, DynY: true},
		{Spec: one(atom{Kind: "dp", A: 25}), Pos: dur, X: d(0, 8), Y: d(0, 10), DynX: true, DynY: true},
		{Spec: one(atom{Kind: "dp", A: 12.5}), Pos: dur, X: d(0, 10), Y: d(0, 8), DynY: true},
		// several comparers claiming one position: every one of them counts, in either order
		{Spec: vspec{Comb: "VA", Atoms: []atom{{Kind: "fa", A: 0, B: 1}, {Kind: "fa", A: 0, B: 0.25}}}, Pos: dbl, X: f(1), Y: f(1.5)},
		{Spec: vspec{Comb: "VA", Atoms: []atom{{Kind: "fa", A: 0, B: 0.25}, {Kind: "fa", A: 0, B: 1}}}, Pos: dbl, X: f(1), Y: f(1.5)},
		{Spec: vspec{Comb: "VO", Atoms: []atom{{Kind: "fa", A: 0, B: 0.25}, {Kind: "fa", A: 0, B: 1}}}, Pos: dbl, X: f(1), Y: f(1.5)},
		{Spec: vspec{Comb: "VO", Atoms: []atom{{Kind: "fa", A: 0, B: 1}, {Kind: "fa", A: 0, B: 0.25}}}, Pos: dbl, X: f(1), Y: f(1.5)},
		{Spec: vspec{Comb: "VA", Atoms: []atom{{Kind: "dw", D: 2000000000}, {Kind: "dp", A: 25}}}, Pos: dur, X: d(1, 0), Y: d(2, 0)},
		{Spec: vspec{Comb: "VA", Atoms: []atom{{Kind: "tw", D: 2000000000}, {Kind: "tw", D: 1}}}, Pos: tim, X: t(1, 0), Y: t(2, 0)},
		{Spec: one(atom{Kind: "dp", A: 25}), Pos: dur, X: d(0, 4), Y: d(0, 5)},
		{Spec: one(atom{Kind: "dp", A: 25}), Pos: dur, X: d(0, 5), Y: d(0, 4)},
		{Spec: one(atom{Kind: "dp", A: 12.5}), Pos: dur, X: d(0, 4), Y: d(0, 5)},
		{Spec: one(atom{Kind: "dp", A: 100}), Pos: dur, X: d(1, 0), Y: d(2, 0)},
		{Spec: one(atom{Kind: "dp", A: 300}), Pos: dur, X: d(-1, 0), Y: d(2, 0)},
		{Spec: one(atom{Kind: "dp", A: 200}), Pos: dur, X: d(-1, 0), Y: d(2, 0)},
		{Spec: one(atom{Kind: "dp", A: 100}), Pos: dur, X: d(0, 0), Y: d(0, 1)},
	}
}

func directedP() []pcase {
	fm := (&testproto.ForeignMessage{}).ProtoReflect().Type()
	at := (&testproto.TestAllTypes{}).ProtoReflect().Type()
	dd := func(x float64) proto.Message { return &testproto.TestAllTypes{DefaultDouble: x} }
	margin := eq1(atom{Kind: "fa", A: 0, B: 0.5})
	exact := plainEqual
	return []pcase{
		{Kind: "vpull", Spec: &exact, NoDup: true, Type: fm, Mask: []string{"d"}, Cur: &testproto.ForeignMessage{C: 2, D: -1},
			Writes: []proto.Message{&testproto.ForeignMessage{C: 3, D: -1}, &testproto.ForeignMessage{C: 4, D: -1}, &testproto.ForeignMessage{C: 4, D: 5}}},
		{Kind: "vpull", Spec: &exact, Type: fm, Cur: &testproto.ForeignMessage{C: 2},
			Writes: []proto.Message{&testproto.ForeignMessage{C: 2}, &testproto.ForeignMessage{C: 3}, &testproto.ForeignMessage{C: 3}, &testproto.ForeignMessage{C: 2}}},
		{Kind: "vpull", Spec: &margin, Type: at, Cur: dd(1), Writes: []proto.Message{dd(1.5), dd(2), dd(2.5), dd(1.25)}},
		{Kind: "vpull", Spec: nil, Type: fm, Cur: &testproto.ForeignMessage{C: 2}, Writes: []proto.Message{&testproto.ForeignMessage{C: 2}}},
		{Kind: "cpull", Spec: &exact, Type: fm, Mask: []string{"d"}, Ops: []cop{
			{Op: "add", Id: "a", msg: &testproto.ForeignMessage{C: 1, D: 1}}, {Op: "update", Id: "a", msg: &testproto.ForeignMessage{C: 2, D: 1}},
			{Op: "update", Id: "a", msg: &testproto.ForeignMessage{C: 2, D: 2}}, {Op: "delete", Id: "a"}}},
		// tolerance drift: each step is within the margin of the previous value, the subscriber's copy is not
		{Kind: "cpull", Spec: &margin, Type: at, Ops: []cop{
			{Op: "add", Id: "a", msg: dd(1)}, {Op: "update", Id: "a", msg: dd(1.5)}, {Op: "update", Id: "a", msg: dd(2)}}},
		{Kind: "cpull", Spec: &margin, Type: at, Ops: []cop{
			{Op: "add", Id: "a", msg: dd(1)}, {Op: "update", Id: "a", msg: dd(1.5)}, {Op: "update", Id: "a", msg: dd(0.75)}}},
		// include boundary crossed by less than the tolerance: the ADD / REMOVE must still be delivered
		{Kind: "cpull", Spec: &margin, Type: at, Inc: &incSpec{Field: "default_double", Op: "gt", Thr: 21}, Ops: []cop{
			{Op: "add", Id: "a", msg: dd(20.875)}, {Op: "update", Id: "a", msg: dd(21.125)}, {Op: "update", Id: "a", msg: dd(21.25)},
			{Op: "update", Id: "a", msg: dd(20.875)}, {Op: "add", Id: "b", msg: dd(30)}, {Op: "delete", Id: "b"}, {Op: "delete", Id: "a"}}},
		{Kind: "cpull", Spec: &exact, Type: at, Mask: []string{"default_int32"}, Inc: &incSpec{Field: "default_double", Op: "ge", Thr: 21}, Ops: []cop{
			{Op: "add", Id: "a", msg: dd(20)}, {Op: "update", Id: "a", msg: dd(21)}, {Op: "update", Id: "a", msg: dd(22)}, {Op: "update", Id: "a", msg: dd(20)}}},
		{Kind: "cpull", Spec: nil, Type: at, Inc: &incSpec{Field: "default_double", Op: "lt", Thr: 21}, Ops: []cop{
			{Op: "add", Id: "a", msg: dd(22)}, {Op: "update", Id: "a", msg: dd(23)}, {Op: "update", Id: "a", msg: dd(20)}, {Op: "update", Id: "a", msg: dd(19)}}},
	}
}

// malformedUnknown: unknown-field bytes that protowire cannot parse (truncated tag / value). The model
// only has well-formed records, so these pairs are monitored only: cmp.Equal() must behave exactly like
// proto.Equal on them, verdict or panic alike.
func runMalformedUnknown(ms *monitors) {
	u := func(b ...byte) proto.Message {
		m := &testproto.ForeignMessage{C: 1}
		m.ProtoReflect().SetUnknown(b)
		return m
	}
	raws := [][]byte{
		{}, {0xc0}, {0xc0, 0x3e}, {0xc8, 0x3e}, {0xc0, 0x3e, 0x80}, {0xc2, 0x3e, 0x05, 0x01}, {0xc2, 0x3e, 0x01, 0x01},
		{0xc0, 0x3e, 0x01}, {0xc0, 0x3e, 0x01, 0xc8}, {0xc5, 0x3e, 0x01}, {0xff, 0xff}, {0x00, 0x00}, {0x07, 0x01},
	}
	plain := cmp.Equal()
	for _, a := range raws {
		for _, b := range raws {
			x, y := u(a...), u(b...)
			var want string
			var r bool
			if p, msg := lib.Catch(func() { r = proto.Equal(x, y) }); p {
				want = "panic:" + msg
			} else {
				want = b2s(r)
			}
			got := callCmp(plain, x, y)
			ms.equal.Eval(fmt.Sprintf("malformed %x %x", a, b), true, nil)
			ms.equal.Count("malformed-unknown:" + firstLabel(want))
			if got != want {
				ms.equal.Violate("C16/Equal/malformed-unknown/differs-from-proto.Equal", "cmp.Equal() and proto.Equal behave differently on unparsable unknown fields", map[string]any{"op": "malformed", "x": fmt.Sprintf("%x", a), "y": fmt.Sprintf("%x", b)}, want, got)
			}
		}
	}
}

func runDirected(f lib.Flags, res *lib.Result, drv *lib.Driver, ms *monitors) {
	runMalformedUnknown(ms)
	tie := res.Tie("directed-corner-cases", "K2",
		"fixed list: one small case per special-value rule and per repaired/known defect (change_time presence and value, NaN, ±0, presence vs default, empty message/bytes, map keys, typed nil, unknown-field order, non-finite floats under FloatValueApprox, tolerance boundaries, overflowing durations, saturating Time.Sub, DurationValueWithinP, read-mask seed, tolerance drift in Collection.Pull, include boundary crossed within the tolerance)")
	tie.Exhaustive = true
	for _, c := range directedE() {
		ans, err := drv.Batch(c.lines())
		if err != nil {
			tie.Fail(err)
			return
		}
		code := c.monitor(ms)
		tie.Record(c.lines()[0], true, c.json(), fmt.Sprint([4]string{ans[0], ans[1], ans[2], ans[3]}), code)
		tie.Count("cmp")
	}
	for _, c := range directedV() {
		ans, err := drv.Batch(c.lines())
		if err != nil {
			tie.Fail(err)
			return
		}
		code := c.monitor(ms)
		if c.inexact() {
			panic("directed case is inexact")
		}
		tie.Record(c.lines()[0], true, c.json(), fmt.Sprint([3]string{ans[0], ans[1], ans[2]}), code)
		tie.Count("vcmp")
	}
	for i, c := range directedP() {
		out := c.runCode()
		code := c.monitor(ms, out)
		if out.err != "" {
			tie.Record(fmt.Sprint("p", i), true, c.json(), "(not asked)", code)
			continue
		}
		model, err := drv.Ask(c.line(out))
		if err != nil {
			tie.Fail(err)
			return
		}
		tie.Record(c.line(out), true, c.json(), model, code)
		tie.Count(c.Kind)
	}
}
