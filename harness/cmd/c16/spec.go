package main

// Comparer specifications: a closed family shared with the Lean driver, each with its Go construction
// (the real pkg/cmp functions) and its token.

import (
	"fmt"
	"strings"
	"time"

	"github.com/smart-core-os/sc-golang/pkg/cmp"
)

// atom is a tolerance value comparer.
type atom struct {
	Kind string  `json:"kind"` // fa tw dw dp
	A    float64 `json:"a,omitempty"`
	B    float64 `json:"b,omitempty"`
	D    int64   `json:"d,omitempty"`
}

func (a atom) token() string {
	switch a.Kind {
	case "fa":
		return "fa_" + encFloat(a.A) + "_" + encFloat(a.B)
	case "tw":
		return fmt.Sprintf("tw_%d", a.D)
	case "dw":
		return fmt.Sprintf("dw_%d", a.D)
	case "dp":
		return "dp_" + encFloat(float64(float32(a.A)))
	}
	panic("atom kind " + a.Kind)
}

func (a atom) build() cmp.Value {
	switch a.Kind {
	case "fa":
		return cmp.FloatValueApprox(a.A, a.B)
	case "tw":
		return cmp.TimeValueWithin(time.Duration(a.D))
	case "dw":
		return cmp.DurationValueWithin(time.Duration(a.D))
	case "dp":
		return cmp.DurationValueWithinP(float32(a.A))
	}
	panic("atom kind " + a.Kind)
}

// vspec: a single atom (Comb == ""), or ValueAnd / ValueOr of atoms.
type vspec struct {
	Comb  string `json:"comb,omitempty"` // "", "VA", "VO"
	Atoms []atom `json:"atoms"`
}

func (v vspec) token() string {
	if v.Comb == "" {
		return v.Atoms[0].token()
	}
	var ts []string
	for _, a := range v.Atoms {
		ts = append(ts, a.token())
	}
	return v.Comb + "(" + strings.Join(ts, "+") + ")"
}

func (v vspec) build() cmp.Value {
	if v.Comb == "" {
		return v.Atoms[0].build()
	}
	var cs []cmp.Value
	for _, a := range v.Atoms {
		cs = append(cs, a.build())
	}
	if v.Comb == "VA" {
		return cmp.ValueAnd(cs...)
	}
	return cmp.ValueOr(cs...)
}

func (v vspec) hasKind(k string) bool {
	for _, a := range v.Atoms {
		if a.Kind == k {
			return true
		}
	}
	return false
}

// espec: cmp.Equal(vspecs...)
type espec struct {
	V []vspec `json:"v"`
}

func (e espec) token() string {
	var ts []string
	for _, v := range e.V {
		ts = append(ts, v.token())
	}
	return "E[" + strings.Join(ts, ";") + "]"
}

func (e espec) build() cmp.Message {
	var cs []cmp.Value
	for _, v := range e.V {
		cs = append(cs, v.build())
	}
	return cmp.Equal(cs...)
}

// mspec: a single Equal (Comb == ""), or And / Or of Equals.
type mspec struct {
	Comb string  `json:"comb,omitempty"` // "", "MA", "MO"
	E    []espec `json:"e"`
}

func (m mspec) token() string {
	if m.Comb == "" {
		return m.E[0].token()
	}
	var ts []string
	for _, e := range m.E {
		ts = append(ts, e.token())
	}
	return m.Comb + "{" + strings.Join(ts, "|") + "}"
}

func (m mspec) build() cmp.Message {
	if m.Comb == "" {
		return m.E[0].build()
	}
	var cs []cmp.Message
	for _, e := range m.E {
		cs = append(cs, e.build())
	}
	if m.Comb == "MA" {
		return cmp.And(cs...)
	}
	return cmp.Or(cs...)
}

func (m mspec) plain() bool { return m.Comb == "" && len(m.E[0].V) == 0 }

func (m mspec) hasKind(k string) bool {
	for _, e := range m.E {
		for _, v := range e.V {
			if v.hasKind(k) {
				return true
			}
		}
	}
	return false
}

var plainEqual = mspec{E: []espec{{}}}
