package main

// Second float tier: the cases on which the code's floating point arithmetic rounds. The exact-rational
// model cannot be compared there; the driver's IEEE-754 tier (ScVerif/C16/FloatIEEE.lean: Lean core
// Float / Float32, same operation order as the Go code) can. Tie only: the theorems are about exact
// arithmetic, so there is no exact-arithmetic oracle to hold the code to on these inputs.

import (
	"fmt"
	"math"
	"time"

	"github.com/smart-core-os/sc-golang/pkg/cmp"
	"github.com/smart-core-os/sc-golang/verifharness/lib"
	pref "google.golang.org/protobuf/reflect/protoreflect"
	"google.golang.org/protobuf/types/known/durationpb"
)

func fa64Line(fr, mg, x, y float64) string {
	return fmt.Sprintf("fa64 %d %d %d %d", math.Float64bits(fr), math.Float64bits(mg), math.Float64bits(x), math.Float64bits(y))
}

func dp64Line(p float32, x, y int64) string {
	return fmt.Sprintf("dp64 %d %d %d", math.Float32bits(p), x, y)
}

// ieeeLine: the IEEE-tier request for a single-atom value case of the atom's own kind, if there is one.
func (c vcase) ieeeLine() (string, bool) {
	if c.Spec.Comb != "" {
		return "", false
	}
	a := c.Spec.Atoms[0]
	fd := c.Pos.fd()
	switch {
	case a.Kind == "fa" && isFloatKind(fd.Kind()):
		return fa64Line(a.A, a.B, c.X.Float(), c.Y.Float()), true
	case a.Kind == "dp" && ownKind(a, fd) && c.X.Message().IsValid() && c.Y.Message().IsValid():
		dx := c.X.Message().Interface().(*durationpb.Duration).AsDuration()
		dy := c.Y.Message().Interface().(*durationpb.Duration).AsDuration()
		return dp64Line(float32(a.A), int64(dx), int64(dy)), true
	}
	return "", false
}

var decimalFractions = []float64{0.1, 0.01, 0.3, 1e-9, 1.0 / 3, 0.05, 0, 0.7, 2.5}
var decimalMargins = []float64{0, 0.1, 0.001, 1e-12, 0.5, 0.3, 2.2}

func (g *gen) roundingFloat() float64 {
	switch g.r.Intn(8) {
	case 7:
		// the top of the range: differences and products overflow to ±Inf
		f := math.Float64frombits(g.r.Uint64()&^(0x7ff<<52) | uint64(2040+g.r.Intn(7))<<52)
		if g.r.Intn(4) == 0 {
			f = math.MaxFloat64
		}
		if g.r.Intn(2) == 0 {
			f = -f
		}
		return f
	case 0:
		return float64(g.r.Intn(4001)-2000) / 10
	case 1:
		return float64(g.r.Intn(200001)-100000) / 1000
	case 2:
		return 1e15 + float64(g.r.Intn(1000))/7
	case 3:
		return float64(float32(float64(g.r.Intn(4001)-2000) / 10)) // a float32 field's value
	case 4:
		return math.Float64frombits(g.r.Uint64()&^(0x7ff<<52) | uint64(900+g.r.Intn(250))<<52) // random mantissa, moderate exponent
	case 5:
		return float64(g.r.Intn(21)-10) * 5e-324 * float64(g.r.Intn(1000)+1) // subnormals
	}
	return float64(g.r.Intn(2001)-1000) / 3
}

func nudgeUlps(f float64, n int) float64 {
	for ; n > 0; n-- {
		f = math.Nextafter(f, math.Inf(1))
	}
	for ; n < 0; n++ {
		f = math.Nextafter(f, math.Inf(-1))
	}
	return f
}

func runIEEE(f lib.Flags, res *lib.Result, drv *lib.Driver) {
	tie := res.Tie("ieee-rounding", "K1",
		"inputs on which float64/float32 arithmetic rounds: FloatValueApprox(fraction, margin) with decimal fractions/margins (0.1, 0.01, 1/3, 1e-9, ...) on x from decimals, thirds, 1e15-scale, float32-rounded, random-mantissa, subnormal and top-of-range values (differences and products overflow to ±Inf), y = x ± margin / x·(1 ± fraction) computed in float64 and moved by -2..2 ulps (so the comparison sits on the rounding boundary), also across signs; DurationValueWithinP(p) with decimal percentages on int64 durations beyond 2^53 (conversions round), on the boundary x = y·(1 ± p/100) ± 2ns, 1-2 ns apart at huge magnitudes, across signs. Model side: the driver's IEEE tier (Lean core Float/Float32, same operation order as the code). Non-trivial: distinct inputs")
	g := &gen{r: lib.NewRand(f.Seed + 15485863)}
	dbl := posOf("default_double").fd()
	dur := posOf("default_duration").fd()
	n := f.N(6000, 100000)
	var lines []string
	var codes []string
	var inputs []any
	for i := 0; i < n; i++ {
		if i%4 != 3 {
			fr := decimalFractions[g.r.Intn(len(decimalFractions))]
			mg := decimalMargins[g.r.Intn(len(decimalMargins))]
			x := g.roundingFloat()
			var y float64
			switch g.r.Intn(6) {
			case 0:
				y = x + mg
			case 1:
				y = x - mg
			case 2:
				y = x * (1 + fr)
			case 3:
				y = x / (1 + fr)
			case 4:
				y = -x
			default:
				y = g.roundingFloat()
			}
			y = nudgeUlps(y, g.r.Intn(5)-2)
			if g.r.Intn(2) == 0 {
				x, y = y, x
			}
			eq, ok := cmp.FloatValueApprox(fr, mg)(dbl, pref.ValueOfFloat64(x), pref.ValueOfFloat64(y))
			lines = append(lines, fa64Line(fr, mg, x, y))
			codes = append(codes, b2s(eq && ok))
			inputs = append(inputs, map[string]any{"op": "fa64", "fraction": fr, "margin": mg, "x": encFloat(x), "y": encFloat(y)})
			roundingCases = append(roundingCases, rcase{Fr: fr, Mg: mg, X: x, Y: y, code: eq && ok})
			tie.Count("fa64:" + map[bool]string{true: "exact-ops", false: "rounding"}[exactFloatOps(fr, mg, x, y)])
		} else {
			p := []float32{0.1, 10, 1, 100.00001, 50, 1e-3, 33.333332, 0}[g.r.Intn(8)]
			var x, y int64
			switch g.r.Intn(5) {
			case 0:
				x, y = g.r.Int63n(1<<40)-1<<39, g.r.Int63n(1<<40)-1<<39
			case 1:
				x, y = g.r.Int63()-g.r.Int63(), g.r.Int63()-g.r.Int63()
			case 2:
				// on the boundary: x = y·(1 ± p/100) moved by a few ns (also beyond 2^53, where the conversions round)
				y = g.r.Int63n(1<<uint(20+g.r.Intn(42))) + 1
				x = int64(float64(y)*(1+float64(p)/100)) + int64(g.r.Intn(5)-2)
				if g.r.Intn(2) == 0 {
					x = int64(float64(y)/(1+float64(p)/100)) + int64(g.r.Intn(5)-2)
				}
				if g.r.Intn(4) == 0 {
					x = -x
				}
			case 3:
				x = g.r.Int63() - g.r.Int63()
				y = x + int64(g.r.Intn(5)-2)
			default:
				x, y = int64(g.r.Intn(2001)-1000), int64(g.r.Intn(2001)-1000)
			}
			if g.r.Intn(2) == 0 {
				x, y = y, x
			}
			vx := pref.ValueOfMessage(durationpb.New(time.Duration(x)).ProtoReflect())
			vy := pref.ValueOfMessage(durationpb.New(time.Duration(y)).ProtoReflect())
			eq, ok := cmp.DurationValueWithinP(p)(dur, vx, vy)
			lines = append(lines, dp64Line(p, x, y))
			codes = append(codes, b2s(eq && ok))
			inputs = append(inputs, map[string]any{"op": "dp64", "p": float64(p), "x": x, "y": y})
			roundingCases = append(roundingCases, rcase{DP: true, P: p, XD: x, YD: y, code: eq && ok})
			tie.Count("dp64:" + map[bool]string{true: "exact-ops", false: "rounding"}[exactDP(p, x, y)])
		}
	}
	ans, err := drv.Batch(lines)
	if err != nil {
		tie.Fail(err)
		return
	}
	for i := range lines {
		tie.Record(lines[i], true, inputs[i], ans[i], codes[i])
		tie.Count("verdict:" + ans[i])
	}
	res.Extra["ieee_tie"] = tie
}
