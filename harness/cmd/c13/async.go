package main

import (
	"fmt"
	"math/rand"
	"strings"
	"time"

	"github.com/smart-core-os/sc-golang/verifharness/lib"
)

// asyncFrom turns a script pair into one whose client cancels at an arbitrary position p of its
// script (whatever is in flight then), looks at RecvMsg once or twice and sometimes at Header() / Trailer().
func asyncFrom(r *rand.Rand, c scase) (scase, bool) {
	if c.Shape == "unary" || strings.ContainsAny(c.Cli, "xd") {
		return c, false
	}
	cli := splitOps(c.Cli)
	min := 0
	if c.Shape == "unaryS" || c.Shape == "sstream" {
		min = 2 // the request and the half-close come first
	}
	if len(cli) < min {
		return c, false
	}
	p := min + r.Intn(len(cli)-min+1)
	pre := append([]string{}, cli[:p]...)
	for _, op := range pre {
		if op == "t" {
			return c, false
		}
	}
	post := []string{"x", "r"}
	switch r.Intn(9) {
	case 0:
		post = append(post, "t")
	case 1:
		post = []string{"x", "r", "r"}
	case 2:
		post = []string{"x", "r", "r", "r", "t"}
	case 3:
		// Header() after the abort: the header the handler has SENT by the time the client looks, never what it
		// has only staged
		post = []string{"x", "h", "r"}
	case 4:
		post = []string{"x", "r", "h"}
	case 5:
		post = []string{"x", "h", "r", "h", "r"}
	}
	c.Cli = joinOps(append(pre, post...))
	if c.Out == "~" {
		c.Out = "-" // a cancelling script is always named over the wire (see scripted.anon)
	}
	c.Async = true
	c.Amp = 0
	return c, true
}

// allowedAfterAbort is the property's own statement for what a client may see after its own cancel,
// written independently of the model: each RecvMsg gives the handler's next message (in order), the
// cancellation class, or the status the handler script returns; never a clean end unless the script
// returns OK; Header()/Trailer() give metadata; nothing hangs.
func allowedAfterAbort(c scase, events []string) string {
	var sends []string
	for _, op := range splitOps(c.Srv) {
		if op[0] == 'M' {
			sends = append(sends, "m"+op[1:])
		}
	}
	finEv := parseFin(c.Fin).finEvent()
	got := 0
	after := false
	for _, e := range events {
		switch {
		case e == "x" || e == "d":
			after = true
		case strings.HasPrefix(e, "m"):
			if got >= len(sends) || sends[got] != e {
				return "message-out-of-order"
			}
			got++
		case !after:
		case e == "X" || e == "D":
		case e == "TO":
			return "hang"
		case strings.HasPrefix(e, "F"):
			if e != finEv {
				if e == "F0:" {
					return "clean-end-after-own-cancel"
				}
				return "status-not-the-handlers"
			}
		case strings.HasPrefix(e, "h"), strings.HasPrefix(e, "t"):
		default:
			return "unexpected-event"
		}
	}
	return ""
}

func runAsync(f lib.Flags, res *lib.Result, w *world, drv *lib.Driver, pool []scase) {
	tie := res.Tie("wrap-async-model", "K1",
		"script pairs whose client cancels at an arbitrary script position (no quiescence: message pending, handler between a send and its return, handler already returned, ...), derived from the rendezvous pool; the real wrap.ServerToClient client transcript must be a MEMBER of the set Lean Wrap.asyncRuns gives (all possible transcripts); non-trivial = distinct script pair")
	tieG := res.Tie("grpc-async-allowed", "K1",
		"same script pairs over real gRPC/bufconn: the client transcript after the cancel lies in the set of outcomes the property allows (next message in order | cancellation class | the handler script's status | metadata), the same oracle the wrapper is held to")
	mon := res.Monitor("async-cancel",
		"cancel at arbitrary positions, real wrapper: after its own cancel the client sees only the next messages in order, the cancellation class or the handler script's status (never a clean end unless the script returns OK), nothing hangs, the handler returns and the goroutine count goes back to the baseline")
	if drv == nil {
		tie.Fail(fmt.Errorf("no Lean driver given"))
		return
	}
	r := lib.NewRand(f.Seed + 7919)
	want := f.N(300, 6000)
	var cases []scase
	seen := map[string]bool{}
	for tries := 0; len(cases) < want && tries < want*20; tries++ {
		c, ok := asyncFrom(r, pool[r.Intn(len(pool))])
		if !ok || seen[c.key()] || len(splitOps(c.Srv)) > 9 {
			continue
		}
		seen[c.key()] = true
		cases = append(cases, c)
	}
	var q []string
	for _, c := range cases {
		q = append(q, "async "+c.args())
	}
	sets, err := drv.Batch(q)
	if err != nil {
		tie.Fail(err)
		return
	}
	t0 := time.Now()
	defer func() { res.Extra["async_wall_s"] = time.Since(t0).Seconds() }()
	for i, c := range cases {
		if strings.Contains(sets[i], "stuck") && !strings.Contains(sets[i], ";") {
			tie.Count("filtered:prefix-not-rendezvous")
			continue
		}
		ow := runCase(w.wrapEP, w.srv, c, true)
		og := runCase(w.grpcEP, w.srv, c, false)
		got := strings.Join(ow.client, ",")
		member := ""
		for _, t := range strings.Split(sets[i], ";") {
			// a model transcript ending in "stuck" says: after this point the client should not go on (it
			// has seen the end of the call); the real transcript matches if it starts with that part
			if t == got || (strings.HasSuffix(t, ",stuck") && strings.HasPrefix(got+",", strings.TrimSuffix(t, "stuck"))) {
				member = got
			}
		}
		if member == "" {
			member = "none of {" + sets[i] + "}"
		}
		tie.Record(c.key(), true, c, member, got)
		tie.Count("shape:" + c.Shape)
		mon.Eval(c.key(), true, map[string]any{"case": c, "wrapper": ow.text(), "grpc": og.text()})
		if why := allowedAfterAbort(c, ow.client); why != "" {
			mon.Violate("C13/"+c.Shape+"/async/"+why,
				"client cancelled at an arbitrary position: the wrapped client then observed something the property does not allow",
				c, "next message | cancelled | "+c.Fin, ow.text())
		}
		if strings.Contains(ow.server, "handler-not-finished") {
			mon.Violate("C13/"+c.Shape+"/async/handler-did-not-return", "the handler was still running long after the client's cancel", c, "handler returns", ow.text())
		}
		if ow.leak > 0 {
			mon.Violate("C13/"+c.Shape+"/async/goroutine-left", "goroutines above the baseline after a cancelled wrapped call", c, "0", fmt.Sprint(ow.leak))
		}
		if !og.timedOut && !og.skip {
			gw := allowedAfterAbort(c, og.client)
			code := "allowed"
			if gw != "" {
				code = gw + ": " + strings.Join(og.client, ",")
			}
			tieG.Record(c.key(), true, c, "allowed", code)
		}
	}
}

// runResponseThenError: a client-streaming handler that sends its single response (SendAndClose) and
// then returns an error. Real gRPC gives the client the error instead of the response (the response of a
// method without server streaming is only delivered together with an OK status); the wrapper delivers the
// response first. Repaired by 14df317 (the client's RecvMsg of a call without server streaming reads on to the
// handler's return); the script stays as a fixed regression case, and the generator produces the family.
// runTrailerAfterAbort: Trailer() after RecvMsg returned the client's own cancellation. gRPC has received
// no trailers then; the wrapper hands out what the handler has staged so far. Recorded finding.
func runTrailerAfterAbort(w *world, mon *lib.Monitor) {
	c := scase{Shape: "bidi", Out: "-", Srv: "Ta=1,R", Fin: "OK", Cli: "x,r,t"}
	ow := runCase(w.wrapEP, w.srv, c, false)
	og := runCase(w.grpcEP, w.srv, c, false)
	mon.Eval("trailer-after-abort", true, map[string]any{"case": c, "wrapper": ow.text(), "grpc": og.text()})
	if og.timedOut {
		return
	}
	if d := firstDiff(ow.client, og.client); d != "" {
		mon.Violate("C13/bidi/trailer-after-abort/"+d, "Trailer() after the client's own cancel: the wrapped client sees something else than over gRPC", c, og.text(), ow.text())
	}
}

func runResponseThenError(w *world, mon *lib.Monitor) {
	c := scase{Shape: "cstream", Out: "-", Srv: "R,R,M7", Fin: "E9:e0", Cli: "s1,c,r,r"}
	ow := runCase(w.wrapEP, w.srv, c, false)
	og := runCase(w.grpcEP, w.srv, c, false)
	mon.Eval("response-then-error", true, map[string]any{"case": c, "wrapper": ow.text(), "grpc": og.text()})
	if og.timedOut {
		return
	}
	if d := firstDiff(ow.client, og.client); d != "" {
		sig := "C13/cstream/response-then-error/" + d
		mon.Violate(sig, "a client-streaming handler sends its response and then returns an error: the wrapped client sees something else than over gRPC", c, og.text(), ow.text())
	}
}
