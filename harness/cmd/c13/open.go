package main

import (
	"context"
	"errors"
	"fmt"
	"io"
	"runtime"
	"strconv"
	"strings"
	"sync/atomic"
	"time"

	"google.golang.org/grpc"
	"google.golang.org/grpc/status"

	"github.com/smart-core-os/sc-golang/internal/testproto"
	"github.com/smart-core-os/sc-golang/verifharness/lib"
)

// openCase: opening a call on a method name with a client-side stream description.
type openCase struct {
	Via    string `json:"via"`    // "stream" (NewStream) | "invoke" (Invoke)
	Method string `json:"method"` // full method name
	CS     bool   `json:"cs"`     // desc.ClientStreams
	SS     bool   `json:"ss"`     // desc.ServerStreams
	Pre    string `json:"pre"`    // state of the caller's context when the call is opened: "live" | "cancel" | "deadline"
}

func (o openCase) args() string {
	return o.Via + " " + o.Method + " " + strconv.FormatBool(o.CS) + " " + strconv.FormatBool(o.SS) + " " + o.Pre
}

// ctx gives the caller's context in the state the case asks for: live, already cancelled, already expired —
// plainly or WITH A CAUSE ("+K<n>": the context itself, "+A<n>": an ancestor; causeErr kinds) — or "late...": a
// context that is live when the call looks at it first and has ended (cancelled, with a cause for "late+K<n>") by the
// next look.
func (o openCase) ctx() (context.Context, context.CancelFunc) {
	base, k, _ := strings.Cut(o.Pre, "+")
	var kc callerCtx
	if k != "" {
		kc = parseCtx(k)
	}
	switch base {
	case "cancel":
		ctx, cancel := kc.endable(context.Background(), 0)
		cancel()
		return ctx, cancel
	case "deadline":
		ctx, cancel := kc.endable(context.Background(), time.Nanosecond)
		<-ctx.Done()
		return ctx, cancel
	case "late":
		ctx, cancel := kc.endable(context.Background(), 0)
		return &lateEnd{Context: ctx, end: cancel}, cancel
	}
	return context.WithTimeout(context.Background(), opTimeout)
}

// lateEnd is a caller's context that ends right after the first look at it: Err() answers nil once — the context is
// live — and the context is cancelled before that answer is used. (A context may end at any moment; this one does so
// at the earliest moment at which a call has already decided to go ahead.)
type lateEnd struct {
	context.Context
	end   context.CancelFunc
	looks atomic.Int32
}

func (l *lateEnd) Err() error {
	if l.looks.Add(1) == 1 {
		if err := l.Context.Err(); err != nil {
			return err
		}
		l.end()
		return nil
	}
	return l.Context.Err()
}

// openPres: the ended states of the caller's context: cancelled / expired, plainly and with every kind of cause on
// the context itself (K) or on an ancestor (A).
var openPres, lateKinds = func() (pres, late []string) {
	for _, b := range []string{"cancel", "deadline"} {
		pres = append(pres, b)
		for _, k := range causeKinds {
			pres = append(pres, b+"+"+k)
		}
	}
	for _, k := range causeKinds {
		late = append(late, "late+"+k)
	}
	return
}()

var openMethods = []string{svc + "Unary", svc + "ServerStream", svc + "ClientStream", svc + "BidiStream",
	svc + "Nope", "/other.Svc/Unary", "/sc.go.test.TestApi", "Unary", svc + "unary"}

// independent oracle: the service table of test.proto written out by hand
var realShape = map[string][2]bool{ // name -> {clientStreams, serverStreams}
	svc + "Unary": {false, false}, svc + "ServerStream": {false, true}, svc + "ClientStream": {true, false}, svc + "BidiStream": {true, true},
}

func (o openCase) expect() string {
	base, _, _ := strings.Cut(o.Pre, "+")
	switch base {
	case "cancel", "late":
		return "Canceled" // a call on an ended context fails as such, whatever the method (as over gRPC)
	case "deadline":
		return "DeadlineExceeded"
	}
	sh, ok := realShape[o.Method]
	if !ok {
		return "Unimplemented"
	}
	if o.Via == "invoke" {
		if sh != [2]bool{false, false} {
			return "Unimplemented" // Invoke only looks at unary methods
		}
		return "ok"
	}
	if sh != [2]bool{o.CS, o.SS} {
		return "Internal"
	}
	return "ok"
}

func errClass(err error) string {
	switch {
	case err == nil:
		return "ok"
	case err == io.EOF:
		return "EOF"
	case errors.Is(err, context.Canceled):
		return "Canceled"
	case errors.Is(err, context.DeadlineExceeded):
		return "DeadlineExceeded"
	}
	return status.Code(err).String()
}

func openWrapper(w *world, o openCase) string {
	ctx, cancel := o.ctx()
	defer cancel()
	var out string
	fin := within(opTimeout, func() {
		if o.Via == "invoke" {
			// an unknown method must fail before anything runs; a known unary method reaches the handler,
			// which answers FailedPrecondition here because no script is registered: that counts as "ok" (opened)
			err := w.wrapCC.Invoke(ctx, o.Method, &testproto.UnaryRequest{}, &testproto.UnaryResponse{})
			st, _ := status.FromError(err)
			if st.Message() == "no script-id" {
				out = "ok"
			} else {
				out = errClass(err)
			}
			return
		}
		_, err := w.wrapCC.NewStream(ctx, &grpc.StreamDesc{ClientStreams: o.CS, ServerStreams: o.SS}, o.Method)
		out = errClass(err)
	})
	if !fin {
		return "hang"
	}
	return out
}

// openGrpc: the class of outcome of the same open over real gRPC (unknown method only; gRPC does not
// check the shape when the call is opened).
func openGrpc(w *world, o openCase) string {
	ctx, cancel := o.ctx()
	defer cancel()
	if o.Via == "invoke" {
		err := w.grpcCC.Invoke(ctx, o.Method, &testproto.UnaryRequest{}, &testproto.UnaryResponse{})
		if st, _ := status.FromError(err); st.Message() == "no script-id" {
			return "ok"
		}
		return status.Code(err).String()
	}
	cs, err := w.grpcCC.NewStream(ctx, &grpc.StreamDesc{ClientStreams: o.CS, ServerStreams: o.SS}, o.Method)
	if err != nil {
		return status.Code(err).String()
	}
	_ = cs.CloseSend()
	err = cs.RecvMsg(&testproto.UnaryResponse{})
	return status.Code(err).String()
}

func checkOpen(w *world, mon *lib.Monitor, o openCase) string {
	got := openWrapper(w, o)
	want := o.expect()
	mon.Eval(o.args(), true, map[string]any{"case": o, "wrapper": got})
	if strings.HasPrefix(o.Pre, "late") {
		// the context ended after the call had decided to go ahead: the call ends as cancelled, or with the handler's
		// answer when that came first — on both transports (each looks at the context at moments of its own)
		g := openGrpc(w, o)
		mon.Count("late:" + got + "/grpc:" + g)
		for _, r := range [][2]string{{"wrapper", got}, {"grpc", g}} {
			if r[1] != "Canceled" && r[1] != "ok" {
				mon.Violate("C13/open/"+o.Via+"/late-ended-context-not-reported-as-such",
					"the caller's context ended right after the call was let in ("+r[0]+"): the call must end as cancelled (or with the handler's answer)",
					o, "Canceled|ok", r[1])
			}
		}
		return got
	}
	if got != want {
		kind := "shape-mismatch-not-Internal"
		if o.Pre != "live" {
			kind = "ended-context-not-reported-as-such"
		} else if want == "Unimplemented" {
			kind = "unknown-method-not-Unimplemented"
		} else if want == "ok" {
			kind = "matching-call-rejected"
		}
		mon.Violate("C13/open/"+o.Via+"/"+kind,
			"opening a call: unknown methods must give Unimplemented, a mismatched streaming shape Internal, a matching one must open",
			o, want, got)
	}
	if o.Pre != "live" {
		// real gRPC: the same open on an ended context
		g := openGrpc(w, o)
		mon.Count("grpc-ended-context:" + g)
		if g != got {
			mon.Violate("C13/open/"+o.Via+"/ended-context-differs-from-grpc",
				"call opened on an already cancelled / expired context: wrapper and real gRPC give different outcomes", o, g, got)
		}
	} else if _, known := realShape[o.Method]; !known && len(o.Method) > 0 && o.Method[0] == '/' && strings.Count(o.Method, "/") == 2 {
		// a well-formed name of a method the server does not have: real gRPC answers Unimplemented too
		g := openGrpc(w, o)
		mon.Count("grpc-unknown:" + g)
		if g != got {
			mon.Violate("C13/open/"+o.Via+"/unknown-method-differs-from-grpc",
				"unknown method: wrapper and real gRPC give different codes", o, g, got)
		}
	}
	return got
}

func runOpen(f lib.Flags, res *lib.Result, w *world, drv *lib.Driver) {
	tie := res.Tie("conn-model", "K2",
		"exhaustive: 9 method names (4 real, unknown in service, other service, malformed, wrong case) x {NewStream with 4 desc flag combinations, Invoke} on a live context, and x {Invoke, NewStream with the method's own flags} on an already cancelled / already expired context x {plain, ended with a cause: own error / status error / the other context error wrapped, on the context itself / on an ancestor}; Lean Conn.newStream/Conn.invoke result class = real wrapper; every case is non-trivial")
	tie.Exhaustive = true
	mon := res.Monitor("open",
		"unknown method -> Unimplemented (also compared with real gRPC), shape mismatch -> Internal, matching shape opens; a call on an ended context (cancelled / expired, with or without a cause, also one ending right after Invoke's entry check) ends as cancelled / deadline exceeded as over real gRPC; oracle = hand-written table of test.proto")
	var cases []openCase
	for _, m := range openMethods {
		for _, cs := range []bool{false, true} {
			for _, ss := range []bool{false, true} {
				cases = append(cases, openCase{"stream", m, cs, ss, "live"})
			}
		}
		cases = append(cases, openCase{"invoke", m, false, false, "live"})
		for _, pre := range openPres {
			cases = append(cases, openCase{"invoke", m, false, false, pre})
			sh := realShape[m]
			cases = append(cases, openCase{"stream", m, sh[0], sh[1], pre})
		}
	}
	// (monitor only: the outcome is a set) the context ends right after Invoke's entry check
	var late []openCase
	for _, pre := range append([]string{"late"}, lateKinds...) {
		for i := 0; i < 4; i++ {
			late = append(late, openCase{"invoke", svc + "Unary", false, false, pre})
		}
	}
	var model []string
	if drv != nil {
		var q []string
		for _, c := range cases {
			q = append(q, "open "+c.args())
		}
		var err error
		if model, err = drv.Batch(q); err != nil {
			tie.Fail(err)
			drv = nil
		}
	} else {
		tie.Fail(fmt.Errorf("no Lean driver given"))
	}
	base := settleBase()
	for i, c := range cases {
		got := checkOpen(w, mon, c)
		if drv != nil {
			tie.Record(c.args(), true, c, model[i], got)
			tie.Count(got)
		}
	}
	for _, c := range late {
		checkOpen(w, mon, c)
	}
	if n := settle(base); n > 0 {
		mon.Violate("C13/open/goroutine-left", "goroutines above the baseline after opening and cancelling calls", nil, "0", fmt.Sprint(n))
	}
}

func settleBase() int {
	time.Sleep(20 * time.Millisecond)
	return runtime.NumGoroutine()
}
