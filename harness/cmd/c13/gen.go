package main

import (
	"math/rand"
	"strconv"
	"strings"
)

var mdKeys = []string{"a", "b"}
var errWords = []string{"e0", "boom"}
var errCodes = []int{2, 3, 5, 6, 7, 8, 9, 10, 11, 12, 13, 14, 16}

func genMD(r *rand.Rand) string {
	n := r.Intn(3) // 0..2 pairs; an empty SetHeader is a real edge (gRPC accepts it even after the headers went out)
	var ps []pair
	for i := 0; i < n; i++ {
		ps = append(ps, pair{mdKeys[r.Intn(len(mdKeys))], strconv.Itoa(1 + r.Intn(3))})
	}
	return mdText(ps)
}

// genFin: what the handler returns, over every class of error VALUE a handler can produce (see parseFin): nil,
// a status error, a plain error, a status error wrapped once (%w) or twice (own type with Unwrap), a context
// error of the handler's own (bare or wrapped), io.EOF (bare or wrapped).
func genFin(r *rand.Rand) string {
	code := func() string { return strconv.Itoa(errCodes[r.Intn(len(errCodes))]) }
	word := func() string { return errWords[r.Intn(len(errWords))] }
	switch r.Intn(12) {
	case 0, 1, 2, 3:
		return "OK"
	case 4:
		return "P" + word()
	case 5, 6, 7:
		return "E" + code() + ":" + word()
	case 8:
		return "V" + code() + ":" + word()
	case 9:
		return "U" + code() + ":" + word()
	case 10:
		return []string{"CX", "CD", "KX", "KD"}[r.Intn(4)]
	default:
		return []string{"Z", "Y"}[r.Intn(2)]
	}
}

// genCtx: what the caller's context carries besides outgoing metadata. Most callers of a wrapped server are
// handlers themselves (routers, proxies, models calling models): incoming metadata of their own request
// (also under the keys the scripts use for outgoing / header metadata), a peer, values, a deadline.
func genCtx(r *rand.Rand) string {
	var items []string
	if r.Intn(5) >= 2 {
		if r.Intn(4) != 0 {
			var ps []pair
			for i, n := 0, r.Intn(3); i < n; i++ {
				ps = append(ps, pair{ctxKeys[r.Intn(len(ctxKeys))], strconv.Itoa(5 + r.Intn(3))})
			}
			items = append(items, "I"+mdText(ps))
		}
		if r.Intn(3) == 0 {
			items = append(items, "D")
		}
		if r.Intn(3) == 0 {
			items = append(items, "P")
		}
	}
	if r.Intn(3) == 0 {
		// the caller gives a cause for ending its context (or an ancestor of the call's context has one)
		items = append(items, causeKinds[r.Intn(len(causeKinds))])
	}
	if len(items) == 0 {
		return "-"
	}
	return strings.Join(items, ",")
}

var causeKinds = []string{"K0", "K1", "K2", "A0", "A1", "A2"}

var ctxKeys = []string{"up", "u", "a"}

func genLocal(r *rand.Rand) string {
	if r.Intn(6) == 0 {
		return "E" // the handler's behaviour depends on the request metadata it sees
	}
	switch r.Intn(4) {
	case 0:
		return "H" + genMD(r)
	case 1:
		return "S" + genMD(r)
	case 2:
		return "T" + genMD(r)
	default:
		return "H" + genMD(r)
	}
}

// genCase builds a script pair in lockstep (so that most candidates satisfy the rendezvous hypothesis;
// the Lean predicate WFScripts, asked through the driver, is the final filter). size bounds the number
// of message events (0..5).
func genCase(r *rand.Rand, size int) scase {
	shapeNames := []string{"unary", "unaryS", "sstream", "cstream", "bidi"}
	shape := shapeNames[r.Intn(len(shapeNames))]
	c := scase{Shape: shape, Out: "-", Reuse: r.Intn(4) == 0}
	if r.Intn(3) == 0 {
		c.Out = "u=" + strconv.Itoa(r.Intn(3))
		switch r.Intn(4) {
		case 0:
			c.Out += "+v=1"
		case 1:
			c.Out += "+u=" + strconv.Itoa(3+r.Intn(2)) // a second value of the same key
		}
	}
	var srv, cli []string
	msg := func() string { return strconv.Itoa(r.Intn(9)) }
	locals := func(max int) {
		for k := r.Intn(max + 1); k > 0; k-- {
			srv = append(srv, genLocal(r))
		}
	}
	nmsg := 0
	if size > 0 {
		nmsg = r.Intn(size + 1)
	}
	switch shape {
	case "unary", "unaryS":
		cli = append(cli, "s"+msg(), "c")
		srv = append(srv, "R")
		locals(3)
		wait := r.Intn(12) == 0
		if wait && shape == "unaryS" {
			srv = append(srv, "W")
			c.Fin = "OK"
			abortTail(r, &cli)
			break
		}
		if wait {
			// Invoke with the caller's context ending while the handler is parked: RecvMsg fails as such and the
			// grpc.Header call option is filled from Header() after the abort
			srv = append(srv, "W")
			c.Fin = "OK"
			a := "x"
			if r.Intn(6) == 0 {
				a = "d"
			}
			cli = append(cli, a, "r", "h")
			break
		}
		if r.Intn(2) == 0 {
			srv = append(srv, "M"+msg())
			c.Fin = "OK"
		} else {
			c.Fin = genFin(r)
			for c.Fin == "OK" {
				c.Fin = genFin(r)
			}
		}
		if shape == "unary" {
			cli = append(cli, "r", "h", "t")
		} else {
			if r.Intn(3) == 0 {
				cli = append(cli, "h")
			}
			cli = append(cli, "r")
			if c.Fin == "OK" && r.Intn(4) != 0 {
				cli = append(cli, "r")
			}
			tail(r, &cli, c.Fin == "OK" && cli[len(cli)-2] != "r")
		}
	case "sstream":
		cli = append(cli, "s"+msg(), "c")
		srv = append(srv, "R")
		hdrSent := false
		for i := 0; i < nmsg; i++ {
			locals(2)
			srv = append(srv, "M"+msg())
			if r.Intn(4) == 0 {
				cli = append(cli, "h")
			}
			cli = append(cli, "r")
			hdrSent = true
			if r.Intn(5) == 0 {
				cli = append(cli, "h")
			}
		}
		_ = hdrSent
		locals(2)
		if r.Intn(7) == 0 {
			srv = append(srv, "W")
			c.Fin = "OK"
			abortTail(r, &cli)
			break
		}
		c.Fin = genFin(r)
		if r.Intn(3) == 0 {
			cli = append(cli, "h")
		}
		cli = append(cli, "r")
		tail(r, &cli, false)
	case "cstream", "bidi":
		closed := false
		aborted := false
		for i := 0; i < nmsg && !aborted; i++ {
			locals(1)
			k := r.Intn(10)
			switch {
			case k < 5 && !closed: // client -> server
				cli = append(cli, "s"+msg())
				srv = append(srv, "R")
			case k < 6 && !closed:
				cli = append(cli, "c")
				closed = true
			case k < 7 && closed:
				srv = append(srv, "R") // sees eof
			case shape == "bidi": // server -> client
				srv = append(srv, "M"+msg())
				if r.Intn(4) == 0 {
					cli = append(cli, "h")
				}
				cli = append(cli, "r")
			}
			if r.Intn(12) == 0 {
				if r.Intn(2) == 0 && !closed {
					srv = append(srv, "R")
				} else {
					srv = append(srv, "W")
				}
				abortTail(r, &cli)
				aborted = true
			}
		}
		if aborted {
			c.Fin = "OK"
			break
		}
		if !closed && r.Intn(2) == 0 {
			cli = append(cli, "c")
			closed = true
			if r.Intn(2) == 0 {
				srv = append(srv, "R")
			}
		}
		locals(2)
		if shape == "cstream" && r.Intn(6) == 0 {
			// the handler answers (SendAndClose), perhaps touches metadata, and then returns an ERROR:
			// the client must be given the error, never the response
			srv = append(srv, "M"+msg())
			locals(2)
			c.Fin = genFin(r)
			for c.Fin == "OK" {
				c.Fin = genFin(r)
			}
			if r.Intn(3) == 0 {
				cli = append(cli, "h")
			}
			cli = append(cli, "r")
			if r.Intn(2) == 0 {
				cli = append(cli, "r")
			}
			tail(r, &cli, false)
		} else if shape == "cstream" && r.Intn(2) == 0 {
			srv = append(srv, "M"+msg())
			if r.Intn(3) == 0 {
				locals(2) // metadata calls after the response, before the OK return
			}
			c.Fin = "OK"
			if r.Intn(3) == 0 {
				cli = append(cli, "h")
			}
			cli = append(cli, "r")
			if r.Intn(4) != 0 {
				cli = append(cli, "r")
				tail(r, &cli, false)
			} else {
				tail(r, &cli, true)
			}
		} else {
			c.Fin = genFin(r)
			if shape == "cstream" {
				for c.Fin == "OK" {
					c.Fin = genFin(r)
				}
			}
			if r.Intn(3) == 0 {
				cli = append(cli, "h")
			}
			cli = append(cli, "r")
			tail(r, &cli, false)
		}
		if !closed && r.Intn(3) == 0 {
			cli = append(cli, "c")
		}
	}
	if r.Intn(3) == 0 {
		// a handler that looks at its request metadata first thing (after the generated code has read the request)
		at := 0
		if len(srv) > 0 && srv[0] == "R" && shape != "cstream" && shape != "bidi" {
			at = 1
		}
		srv = append(srv[:at:at], append([]string{"E"}, srv[at:]...)...)
	}
	c.Srv = joinOps(srv)
	c.Cli = joinOps(cli)
	c.Ctx = genCtx(r)
	if !c.Reuse && r.Intn(4) == 0 {
		c.Pass = passModes[r.Intn(len(passModes))]
	}
	if c.Out == "-" && r.Intn(3) == 0 && !strings.ContainsAny(c.Cli, "xd") {
		c.Out = "~" // no outgoing metadata at all (a handler passing its own context on)
	}
	if !c.Reuse && c.Pass == "" && (shape == "unary" || shape == "sstream") && r.Intn(5) < 2 {
		// the same script through the typed client of a generated trait wrapper
		if v := viaNames[r.Intn(len(viaNames))]; viaOK(v, shape, c.Cli) {
			c.Via = v
		}
	}
	// occasional perturbation: explores the boundary of the hypothesis (most are filtered out by WFScripts)
	if r.Intn(10) == 0 && len(cli) > 1 {
		i := r.Intn(len(cli))
		switch r.Intn(3) {
		case 0:
			cli = append(cli[:i:i], cli[i+1:]...)
		case 1:
			cli = append(cli[:i:i], append([]string{"h"}, cli[i:]...)...)
		default:
			cli = append(cli[:i:i], append([]string{"r"}, cli[i:]...)...)
		}
		c.Cli = joinOps(cli)
		if c.Via != "" && !viaOK(c.Via, shape, c.Cli) {
			c.Via = ""
		}
	}
	return c
}

// tail: after the terminal recv the client may look at header and trailer (noTrailer: the terminal
// status has not been read yet, Trailer() is not defined then).
func tail(r *rand.Rand, cli *[]string, noTrailer bool) {
	switch r.Intn(4) {
	case 0:
		*cli = append(*cli, "h")
		if !noTrailer {
			*cli = append(*cli, "t")
		}
	case 1:
		if !noTrailer {
			*cli = append(*cli, "t")
		}
		*cli = append(*cli, "h")
	case 2:
		if !noTrailer {
			*cli = append(*cli, "t")
		}
	}
}

func abortTail(r *rand.Rand, cli *[]string) {
	a := "x"
	if r.Intn(6) == 0 {
		a = "d"
	}
	// after its own abort the client reads the terminal RecvMsg and, often, Header(): metadata the handler has only
	// STAGED with SetHeader has not left the server (the hypothesis admits the read when no header was sent before
	// the abort: WFScripts)
	switch r.Intn(7) {
	case 0:
		*cli = append(*cli, a, "h", "r")
	case 1:
		*cli = append(*cli, a, "r", "h")
	case 2:
		*cli = append(*cli, a, "h", "r", "h")
	case 3:
		// ... and after the handler has unwound from the abort and returned (w): still nothing it only staged
		*cli = append(*cli, a, "r", "w", "h")
	case 4:
		*cli = append(*cli, a, "w", "h", "r")
	default:
		*cli = append(*cli, a, "r")
	}
}

// fixed small cases first: they make the first replay per signature small, and contain the scripts of
// the two divergences found by the side-by-side probe.
func basicCases() []scase {
	return append(append(basicScripts(), causeCases()...), append(append(passCases(), ctxCases()...), append(finCases(), viaCases()...)...)...)
}

// causeCases: every abort script of basicScripts (cancel at each position the scripts have: before anything was sent,
// with the handler parked in RecvMsg / on its context, Header() reads after the abort) on caller contexts that end
// WITH A CAUSE — three of the six kinds each (on the call's context / on an ancestor x own error, status error, the
// other context error wrapped), also through the generated wrappers; one script ended by a deadline with a cause.
// A real connection reports Canceled / DeadlineExceeded whatever the cause.
func causeCases() []scase {
	var out []scase
	i := 0
	for _, c := range basicScripts() {
		if !strings.Contains(c.Cli, "x") {
			continue
		}
		for j := 0; j < 3; j++ {
			v := c
			v.Ctx = causeKinds[(i+2*j)%len(causeKinds)]
			out = append(out, v)
		}
		i++
	}
	out = append(out, scase{Shape: "sstream", Out: "-", Srv: "R,M1,W", Fin: "OK", Cli: "s2,c,r,d,r", Ctx: "K2"},
		scase{Shape: "unary", Out: "-", Srv: "R,Ha=1,W", Fin: "OK", Cli: "s1,c,d,r,h", Ctx: "Iup=7,A0"})
	for vi, v := range viaNames {
		for si, s := range [][4]string{{"unary", "R,Ha=1,W", "OK", "s1,c,x,r,h"}, {"sstream", "R,M1,W", "OK", "s2,c,r,x,r"}} {
			if viaOK(v, s[0], s[3]) {
				out = append(out, scase{Shape: s[0], Out: "-", Srv: s[1], Fin: s[2], Cli: s[3], Ctx: causeKinds[(vi+3*si)%len(causeKinds)], Via: v})
			}
		}
	}
	return out
}

func basicScripts() []scase {
	return mk([][5]string{
		{"unary", "-", "R,M1", "OK", "s1,c,r,h,t"},
		{"unary", "u=1", "R,Ha=1,Tb=2,M1", "OK", "s1,c,r,h,t"},
		{"unary", "-", "R", "E5:e0", "s1,c,r,h,t"},
		{"unary", "-", "R", "Pboom", "s1,c,r,h,t"},
		{"unary", "-", "R,Ha=1", "E5:e0", "s1,c,r,h,t"},        // staged header + error before any message
		{"unary", "-", "R,Ha=1,Tb=1", "E9:boom", "s1,c,r,h,t"}, // same with trailer
		{"unary", "-", "R,Sa=1,Ha=2,M1", "OK", "s1,c,r,h,t"},   // SetHeader after SendHeader
		{"unary", "-", "R,Sa=1,Sa=2,M1", "OK", "s1,c,r,h,t"},
		{"unaryS", "-", "R,M1", "OK", "s1,c,r,r,h,t"},
		{"unaryS", "-", "R,Ha=1", "E5:e0", "s1,c,h,r,t"},
		{"sstream", "-", "R", "OK", "s0,c,r,h,t"},
		{"sstream", "-", "R,Ha=1", "OK", "s0,c,r,h,t"},
		{"sstream", "-", "R,Ha=1", "E7:e0", "s0,c,h,r,t"},
		{"sstream", "-", "R,M1,M2", "OK", "s2,c,r,r,r,t"},
		{"sstream", "-", "R,Ha=1,M1,Hb=2,M2", "OK", "s2,c,r,h,r,h,r,h,t"},
		{"sstream", "-", "R,Ha=1,M1,H,M2", "OK", "s2,c,r,h,r,h,r,h,t"},
		{"sstream", "-", "R,M1,W", "OK", "s2,c,r,x,r"},
		{"sstream", "-", "R,M1,W", "OK", "s2,c,r,d,r"},
		{"cstream", "-", "R,R,M7", "OK", "s1,c,r,r,h,t"},
		{"cstream", "-", "R,R,Ta=1", "E3:e0", "s1,c,r,h,t"},
		{"cstream", "-", "R,R", "OK", "s1,x,r"},
		{"cstream", "-", "R,R,M7", "E9:e0", "s1,c,r,r,h,t"},              // response, then an error
		{"cstream", "-", "R,R,Ha=1,M7,Tb=1,Hc=1", "Pboom", "s1,c,r,h,t"}, // same with metadata around the response
		{"cstream", "-", "R,R,M7,Tb=1", "OK", "s1,c,r,r,h,t"},            // trailer set after the response
		{"bidi", "-", "R,M1,R,M2,R", "OK", "s1,r,s2,r,c,r,t"},
		{"bidi", "-", "Sa=1,R,Hb=1,M1", "OK", "h,s1,r,h,r,h,t"},
		{"bidi", "-", "Ha=1,Tb=1", "E5:e0", "r,h,t"},
		{"bidi", "-", "R,W", "OK", "s1,x,r"},
		{"bidi", "-", "R,R", "OK", "s1,d,r"},
		{"bidi", "u=1+u=2", "Ha=1,R,W", "OK", "s1,x,r"},
		// Header() after the client's own abort, header metadata staged but not sent: nothing has left the server
		{"bidi", "-", "Ha=1,R", "OK", "x,h,r"},
		{"bidi", "-", "Ha=1,R,W", "OK", "s1,x,r,h"},
		{"bidi", "-", "R", "OK", "x,h,r,h"},
		{"bidi", "-", "Ha=1,R", "OK", "x,r,w,h"}, // the handler has returned from the abort by the time Header() is read
		{"sstream", "-", "R,Ha=1,W", "OK", "s0,c,x,w,h,r"},
		{"cstream", "-", "Ha=1,R,R", "OK", "s1,x,w,h,r"},
		{"cstream", "-", "Ha=1+b=2,R,R", "OK", "s1,x,h,r"},
		{"cstream", "-", "Ha=1,R", "OK", "d,h,r"},
		{"sstream", "-", "R,Ha=1,W", "OK", "s0,c,x,h,r"},
		{"unaryS", "-", "R,Ha=1,Tb=1,W", "OK", "s1,c,x,r,h"},
		{"unary", "-", "R,Ha=1,W", "OK", "s1,c,x,r,h"},
		{"unary", "-", "R,W", "OK", "s1,c,x,r,h"},
		{"unary", "-", "R,Ha=1,W", "OK", "s1,c,d,r,h"},
	})
}

// finCases: every class of error value a handler can return (parseFin), for every call shape, at the first
// position (before any message) and after a message where the shape has one.
func finCases() []scase {
	fins := []string{"V5:e0", "U9:boom", "V14:e0", "CX", "CD", "KX", "KD", "Z", "Y", "Pe0", "E5:e0"}
	scripts := [][3]string{
		{"unary", "R", "s1,c,r,h,t"},
		{"unary", "R,Ha=1,Tb=1", "s1,c,r,h,t"},
		{"unaryS", "R", "s1,c,r,h,t"},
		{"sstream", "R", "s1,c,r,h,t"},
		{"sstream", "R,M1", "s1,c,r,r,h,t"},
		{"cstream", "R,R", "s1,c,r,h,t"},
		{"cstream", "R,R,M7", "s1,c,r,r,t"},
		{"bidi", "R,M1,R", "s1,r,c,r,h,t"},
		{"bidi", "-", "r,t"},
	}
	var out []scase
	for _, f := range fins {
		for _, s := range scripts {
			out = append(out, scase{Shape: s[0], Out: "-", Srv: s[1], Fin: f, Cli: s[2]})
		}
	}
	return out
}

// viaCases: every sampled generated trait wrapper (via.go) with handlers that attach header and trailer metadata in
// every way (SetHeader / SendHeader / SetTrailer, before a response, with an error, with a wrapped error), unary
// calls (call options grpc.Header / grpc.Trailer) and server-streaming calls, and every kind of caller context.
func viaCases() []scase {
	scripts := [][4]string{
		{"unary", "R,M3", "OK", "s2,c,r,h,t"},
		{"unary", "R,Ha=1,Tb=2,M1", "OK", "s1,c,r,h,t"},
		{"unary", "R,Sa=1,Tb=2+c=3,M0", "OK", "s1,c,r,h,t"},
		{"unary", "R,Ha=1,Tb=1", "E5:e0", "s1,c,r,h,t"},
		{"unary", "R,Tb=1", "V9:boom", "s1,c,r,h,t"},
		{"unary", "R,E,M1", "OK", "s1,c,r,h,t"},
		{"unary", "R,Ha=1,W", "OK", "s1,c,x,r,h"},
		{"sstream", "R,Ha=1,M1,Tb=2,M2", "OK", "s2,c,r,h,r,r,h,t"},
		{"sstream", "R,Sa=1,Tb=1", "E7:e0", "s0,c,h,r,t"},
		{"sstream", "R,M1,W", "OK", "s2,c,r,x,r"},
	}
	kinds := [][2]string{{"-", "-"}, {"u=1", "Iup=7+u=9"}, {"~", "Iup=7,D,P"}}
	var out []scase
	for _, v := range viaNames {
		for ki, k := range kinds {
			for _, s := range scripts {
				if !viaOK(v, s[0], s[3]) || (k[0] == "~" && strings.Contains(s[3], "x")) {
					continue
				}
				if ki > 0 && !strings.Contains(s[1], "E") && s[2] != "OK" {
					continue
				}
				out = append(out, scase{Shape: s[0], Out: k[0], Srv: s[1], Fin: s[2], Cli: s[3], Ctx: k[1], Via: v})
			}
		}
	}
	return out
}

// parkedCases (real runs only, monitor only): the caller's context ends WHILE the client is inside a blocking op and
// the handler is busy with work of its own that does not watch the call's context (G) or waits for the context (W):
// the call must end for the client at once and as cancelled / expired, whatever the handler goes on to return —
// in particular in the window after the single response of a method without server streaming was handed over
// (SendAndClose returned) and before the handler returns.
func parkedCases() []scase {
	var out []scase
	add := func(shape, srv, fin, cli string) {
		out = append(out, scase{Shape: shape, Out: "-", Srv: srv, Fin: fin, Cli: cli})
	}
	for _, f := range []string{"OK", "E9:e0", "Pboom", "V5:e0"} {
		add("cstream", "R,R,M7,G", f, "s1,c,y,r")           // response handed over, handler still busy
		add("cstream", "R,R,Ha=1,M7,Tb=1,G", f, "s1,c,y,r") // (no Header() read after the abort: a header was sent, see WFScripts)
		add("cstream", "R,M7,G", f, "s1,y,r")               // answered without waiting for the half-close
		add("cstream", "R,R,G", f, "s1,c,y,r")              // busy before any response
		add("unaryS", "R,G", f, "s1,c,y,r")
		add("sstream", "R,M1,G", f, "s1,c,r,y,r")
		add("bidi", "R,M1,G", f, "s1,r,y,r")
		add("bidi", "G", f, "y,r")
		add("unary", "R,Ha=1,G", f, "s1,c,x,r,h")
	}
	// a unary call (Invoke) whose handler is busy with work of its own: on the bare connection and through every
	// sampled generated wrapper (each unary method, typed client and UnwrapService client) — whatever sits between the
	// typed client and the handler must release the caller the moment its context ends
	for _, f := range []string{"OK", "E9:e0"} {
		add("unary", "R,G", f, "s1,c,x,r,h")
		for _, v := range viaNames {
			if !viaOK(v, "unary", "s1,c,x,r,h") {
				continue
			}
			for _, srv := range []string{"R,G", "R,Ha=1,Tb=2,G", "R,G,M3"} {
				if f != "OK" && srv != "R,G" {
					continue
				}
				out = append(out, scase{Shape: "unary", Out: "-", Srv: srv, Fin: f, Cli: "s1,c,x,r,h", Via: v})
			}
		}
	}
	for _, v := range viaNames {
		if viaOK(v, "sstream", "s1,c,y,r") {
			out = append(out, scase{Shape: "sstream", Out: "-", Srv: "R,G", Fin: "OK", Cli: "s1,c,y,r", Via: v})
			out = append(out, scase{Shape: "sstream", Out: "-", Srv: "R,M1,G", Fin: "E9:e0", Cli: "s1,c,r,y,r", Via: v})
		}
	}
	// ... ended by the caller's deadline instead of a cancel
	add("unary", "R,G", "OK", "s1,c,d,r,h")
	out = append(out, scase{Shape: "unary", Out: "-", Srv: "R,Ha=1,G", Fin: "E9:e0", Cli: "s1,c,d,r,h", Via: "update"})
	add("cstream", "R,R,M7,G", "OK", "s1,c,z,r") // the same window, ended by the deadline
	add("cstream", "R,R,M7,G", "E9:e0", "s1,c,z,r")
	add("bidi", "R,M1,G", "OK", "s1,r,z,r")
	add("cstream", "R,R,M7,W", "OK", "s1,c,y,r") // the handler notices the cancel itself and returns it
	// the same windows on contexts that end with a cause (every kind; deadline scripts: one)
	n := len(out)
	for i := 0; i < n; i++ {
		c := out[i]
		if c.Fin != "OK" && c.Via == "" {
			continue
		}
		if strings.ContainsAny(c.Cli, "zd") && c.Srv != "R,R,M7,G" {
			continue
		}
		c.Ctx = causeKinds[i%len(causeKinds)]
		out = append(out, c)
	}
	return out
}

// parkedVariants: the cancel scripts of parkedCases on generated caller contexts, outgoing metadata, payloads and
// handler errors of every class.
func parkedVariants(r *rand.Rand, n int) []scase {
	base := parkedCases()
	var out []scase
	for i := 0; i < n; i++ {
		c := base[r.Intn(len(base))]
		if strings.ContainsAny(c.Cli, "zd") {
			continue
		}
		if c.Via == "" && r.Intn(2) == 0 {
			// the same script through a generated wrapper where it can be driven through one
			if v := viaNames[r.Intn(len(viaNames))]; viaOK(v, c.Shape, c.Cli) {
				c.Via = v
			}
		}
		c.Fin = genFin(r)
		c.Ctx = genCtx(r)
		if r.Intn(2) == 0 {
			c.Out = "u=" + strconv.Itoa(r.Intn(3))
		}
		d := strconv.Itoa(2 + r.Intn(7))
		c.Srv = strings.ReplaceAll(strings.ReplaceAll(c.Srv, "M7", "M"+d), "M1", "M"+d)
		out = append(out, c)
	}
	return out
}

// watchCases (real runs only, monitor only): finished calls of every shape — clean end, error before / after a message,
// on the bare connection and through the generated wrappers — whose handler ties a helper goroutine to its context right
// before returning; the caller's context stays live after the call. The helper must end with the call.
func watchCases() []scase {
	var out []scase
	for _, s := range [][4]string{
		{"unary", "R,M1", "OK", "s1,c,r,h,t"},
		{"unary", "R,Ha=1", "E5:e0", "s1,c,r,h,t"},
		{"unary", "R", "Pboom", "s1,c,r,h,t"},
		{"unaryS", "R,M1", "OK", "s1,c,r,r,h,t"},
		{"unaryS", "R", "E9:e0", "s1,c,r,t"},
		{"sstream", "R,M1,M2", "OK", "s2,c,r,r,r,t"},
		{"sstream", "R,M1", "E9:quota", "s2,c,r,r,t"},
		{"cstream", "R,R,M7", "OK", "s1,c,r,r,h,t"},
		{"cstream", "R,R", "E3:e0", "s1,c,r,t"},
		{"bidi", "R,M1,R,M2,R", "OK", "s1,r,s2,r,c,r,t"},
		{"bidi", "R,M1,R", "E5:e0", "s1,r,c,r,t"},
	} {
		out = append(out, scase{Shape: s[0], Out: "-", Srv: s[1], Fin: s[2], Cli: s[3], Watch: true})
		if s[2] == "OK" {
			out = append(out, scase{Shape: s[0], Out: "u=1", Srv: s[1], Fin: s[2], Cli: s[3], Ctx: "Iup=7,D,P", Watch: true})
		}
		for _, v := range viaNames {
			if (s[0] == "unary" || s[0] == "sstream") && viaOK(v, s[0], s[3]) {
				out = append(out, scase{Shape: s[0], Out: "-", Srv: s[1], Fin: s[2], Cli: s[3], Via: v, Watch: true})
			}
		}
	}
	return out
}

// abandonCases (real wrapper only, monitor only): the client stops reading and cancels while the handler is inside a
// SendMsg that nobody will receive, then makes no further call. Outside "every send meets a ready receiver" as far as
// transcripts go, but "a cancelled call leaves no goroutine behind" holds for it: the handler's SendMsg must give way
// to the end of the call's context.
func abandonCases() []scase {
	var out []scase
	for _, s := range [][4]string{
		{"sstream", "R,M1,M2,M3", "OK", "s2,c,r,x"},
		{"sstream", "R,Sa=1,M1", "OK", "s2,c,x"},
		{"sstream", "R,M1,M2", "E9:e0", "s2,c,h,r,x"},
		{"bidi", "R,M1,M2", "OK", "s1,r,x"},
		{"bidi", "M1,R", "OK", "x"},
		{"cstream", "R,M7,R", "OK", "s1,x"},
	} {
		out = append(out, scase{Shape: s[0], Out: "-", Srv: s[1], Fin: s[2], Cli: s[3], Abandon: true})
		out = append(out, scase{Shape: s[0], Out: "u=1", Srv: s[1], Fin: s[2], Cli: s[3], Ctx: "K0", Abandon: true})
	}
	for _, v := range viaNames {
		if viaOK(v, "sstream", "s2,c,r,x") {
			out = append(out, scase{Shape: "sstream", Out: "-", Srv: "R,M1,M2,M3", Fin: "OK", Cli: "s2,c,r,x", Via: v, Abandon: true})
		}
	}
	return out
}

// passCases: every call shape with a party whose message type is not the other side's (pass.go), messages in
// both directions, payload 0 included (an int32 zero is not encoded at all).
func passCases() []scase {
	scripts := [][4]string{
		{"unary", "R,M3", "OK", "s2,c,r,h,t"},
		{"unaryS", "R,M3", "OK", "s2,c,r,r,t"},
		{"sstream", "R,M0,M4", "OK", "s2,c,r,r,r,t"},
		{"cstream", "R,R,R,M5", "OK", "s1,s2,c,r,r,t"},
		{"bidi", "R,M1,R,M2", "OK", "s1,r,s0,r,c,r,t"},
	}
	var out []scase
	for _, mode := range passModes {
		for _, s := range scripts {
			out = append(out, scase{Shape: s[0], Out: "-", Srv: s[1], Fin: s[2], Cli: s[3], Pass: mode})
		}
	}
	return out
}

// ctxCases: every call shape on the context kinds a caller can have (incoming metadata only, outgoing only, both,
// neither, with deadline / peer / values), with a handler that echoes the request metadata it sees.
func ctxCases() []scase {
	scripts := [][4]string{
		{"unary", "R,E,M1", "OK", "s1,c,r,h,t"},
		{"unaryS", "R,E,M1", "OK", "s1,c,r,r,h,t"},
		{"sstream", "R,E,M1", "OK", "s1,c,r,r,h,t"},
		{"cstream", "R,E,R,M1", "OK", "s1,c,r,r,h,t"},
		{"bidi", "R,E,M1", "OK", "s1,r,h,c,r,t"},
	}
	kinds := [][2]string{ // out, ctx
		{"~", "-"}, {"~", "Iup=7"}, {"-", "Iup=7"}, {"u=1", "-"}, {"u=1", "Iup=7+u=9"}, {"~", "Iup=7,D,P"}, {"u=1+u=2", "I,D"}, {"-", "P"},
	}
	var out []scase
	for _, k := range kinds {
		for _, s := range scripts {
			out = append(out, scase{Shape: s[0], Out: k[0], Srv: s[1], Fin: s[2], Cli: s[3], Ctx: k[1]})
		}
	}
	return out
}

func mk(xs [][5]string) []scase {
	var out []scase
	for _, x := range xs {
		out = append(out, scase{Shape: x[0], Out: x[1], Srv: x[2], Fin: x[3], Cli: x[4]})
	}
	return out
}

// ampCases: the client is parked in RecvMsg when the handler returns a status / ends cleanly, and the
// handler has derived many child contexts from the call's context (amp thousand). All call shapes.
func ampCases(amp int) []scase {
	cs := mk([][5]string{
		{"unary", "-", "R", "E9:e0", "s1,c,r,h,t"},
		{"unaryS", "-", "R", "E9:e0", "s1,c,r,t"},
		{"unaryS", "-", "R,M2", "OK", "s1,c,r,r,t"},
		{"sstream", "-", "R,M1,M2", "E9:quota", "s2,c,r,r,r,t"},
		{"sstream", "-", "R,M1,M2,M3", "OK", "s3,c,r,r,r,r,t"},
		{"sstream", "-", "R", "OK", "s0,c,r"},
		{"cstream", "-", "R,R", "E3:e0", "s1,c,r,t"},
		{"cstream", "-", "R,R,M4", "OK", "s1,c,r,r,t"},
		{"bidi", "-", "R,M1,R", "E5:e0", "s1,r,c,r,t"},
		{"bidi", "-", "R,M1", "OK", "s1,r,r,t"},
	})
	for i := range cs {
		cs[i].Amp = amp
	}
	return cs
}
