package main

import (
	"fmt"
	"strings"

	"github.com/smart-core-os/sc-golang/verifharness/lib"
)

// Tie invoke-model (K2): whole unary calls against the Lean select-level model of wrapper.Invoke
// (ScVerif/C13/Invoke.lean, driver ops `select invoke …`): the caller's goroutine followed through the selects of
// SendMsg / RecvMsg / Header with the stream frozen in the state the handler's script leaves it in.
//
// For each header/trailer prelude of the handler (staged, sent, late SetHeader, trailer) and each client — the bare
// wrap.ServerToClient connection and typed clients of the sampled GENERATED wrappers, directly and through
// UnwrapService — three families:
//
//	parked   the handler takes the request, runs the prelude and is then busy with work that does not watch its
//	         context (G); the caller's context is cancelled from the side (two scripts: its deadline passes)
//	status   the handler returns an error of each class after the prelude
//	reply    the handler answers
//
// and the caller's result, grpc.Header variable and grpc.Trailer variable after the call are compared with the model's.
func runInvoke(f lib.Flags, res *lib.Result, w *world, drv *lib.Driver) {
	tie := res.Tie("invoke-model", "K2",
		"exhaustive over 6 handler preludes (nothing, SetHeader, SendHeader, SetHeader+SetTrailer, SendHeader then a late SetHeader, SetTrailer with two keys) x 9 clients (bare ServerToClient connection; every sampled unary method of the generated wrappers — OnOffApi.GetOnOff, OnOffApi.UpdateOnOff, OnOffInfo.DescribeOnOff, MetadataApi.GetMetadata — through the wrapper's typed client and through a typed client on UnwrapService) x {handler parked on work that ignores its context with the caller cancelling from the side, handler returning each of 4 classes of error value, handler answering} plus two parked scripts ended by the caller's deadline: result of the call, grpc.Header and grpc.Trailer variables afterwards = Lean Invoke.lean `frozen` (the caller's goroutine through the ready select cases of SendMsg / RecvMsg / Header with the stream in the state the script leaves); every case non-trivial")
	tie.Exhaustive = true
	if drv == nil {
		tie.Fail(fmt.Errorf("no Lean driver given"))
		return
	}
	type icase struct {
		q    string
		c    scase
		from int // first client event of the call's result
	}
	join := func(parts ...string) string {
		var out []string
		for _, p := range parts {
			if p != "" {
				out = append(out, p)
			}
		}
		return joinOps(out)
	}
	var cases []icase
	for _, p := range []string{"", "Ha=1", "Sa=1", "Ha=1,Tb=2", "Sa=1,Hb=2", "Tb=2+c=3"} {
		for _, v := range append([]string{""}, viaNames...) {
			if v != "" && !viaOK(v, "unary", "s1,c,r,h,t") {
				continue
			}
			cases = append(cases, icase{"select invoke " + join(p, "x") + " - 0",
				scase{Shape: "unary", Out: "-", Srv: join("R", p, "G"), Fin: "OK", Cli: "s1,c,x,r,h,t", Via: v}, 3})
			for _, fin := range []string{"E5:e0", "Pboom", "Z", "V9:boom"} {
				cases = append(cases, icase{"select invoke " + join(p, "C"+fin) + " - 0",
					scase{Shape: "unary", Out: "-", Srv: join("R", p), Fin: fin, Cli: "s1,c,r,h,t", Via: v}, 2})
			}
			cases = append(cases, icase{"select invoke " + join(p) + " 3 0",
				scase{Shape: "unary", Out: "-", Srv: join("R", p, "M3"), Fin: "OK", Cli: "s1,c,r,h,t", Via: v}, 2})
		}
	}
	cases = append(cases,
		icase{"select invoke Ha=1,Tb=2,d - 0", scase{Shape: "unary", Out: "-", Srv: "R,Ha=1,Tb=2,G", Fin: "OK", Cli: "s1,c,d,r,h,t"}, 3},
		icase{"select invoke Sa=1,d - 0", scase{Shape: "unary", Out: "-", Srv: "R,Sa=1,G", Fin: "E9:e0", Cli: "s1,c,d,r,h,t", Via: "update"}, 3})
	var q []string
	for _, c := range cases {
		q = append(q, c.q)
	}
	model, err := drv.Batch(q)
	if err != nil {
		tie.Fail(err)
		return
	}
	for i, c := range cases {
		o := runCase(w.wrapEP, w.srv, c.c, false)
		if o.skip {
			continue
		}
		got := "TO"
		if !o.timedOut && len(o.client) > c.from {
			got = strings.Join(o.client[c.from:], "/")
		}
		code := got
		if member(model[i], got) {
			code = model[i]
		}
		tie.Record(c.c.key()+" invoke", true, c.c, model[i], code)
		tie.Count("family:" + []string{"", "", "status-or-reply", "parked"}[c.from])
		if c.c.Via != "" {
			tie.Count("client:generated-wrapper")
		} else {
			tie.Count("client:bare")
		}
	}
}
