package main

import (
	"strconv"

	"google.golang.org/protobuf/encoding/protowire"
	"google.golang.org/protobuf/proto"
	"google.golang.org/protobuf/reflect/protodesc"
	"google.golang.org/protobuf/reflect/protoreflect"
	"google.golang.org/protobuf/types/descriptorpb"
	"google.golang.org/protobuf/types/dynamicpb"
	"google.golang.org/protobuf/types/known/emptypb"
	"google.golang.org/protobuf/types/known/wrapperspb"
)

// Pass-through parties: a side of the call whose message TYPE is not the other side's (a proxy / recorder /
// gateway driving the connection with a generic type, a peer built from another revision of the .proto).
// A real connection carries bytes: whatever the receiver's type does not declare stays in the message as
// unknown fields and is there again when the receiver re-encodes or forwards it. The wrapper has to hand
// over the same content (permissiveProtoMerge's marshal/unmarshal branch for mismatched descriptors).
//
// Modes (scase.Pass):
//
//	empty : the client receives every response into emptypb.Empty (declares nothing)
//	other : the client receives into another message type with the same layout (wrapperspb String/Int32Value)
//	wide  : the client sends its requests, and the handler (where its API lets it: SendMsg) its responses, as a
//	        message of a wider type: payload in field 1 plus a field 15 the receiver's type does not declare
//
// In every mode a message is read back from its RE-ENCODING (wirePayload), as a forwarding receiver would see it.
var passModes = []string{"empty", "other", "wide"}

const extraField = 15

var wideS, wideN protoreflect.MessageDescriptor

func init() {
	str := descriptorpb.FieldDescriptorProto_TYPE_STRING.Enum()
	i32 := descriptorpb.FieldDescriptorProto_TYPE_INT32.Enum()
	opt := descriptorpb.FieldDescriptorProto_LABEL_OPTIONAL.Enum()
	field := func(name string, num int32, t *descriptorpb.FieldDescriptorProto_Type) *descriptorpb.FieldDescriptorProto {
		return &descriptorpb.FieldDescriptorProto{Name: proto.String(name), Number: proto.Int32(num), Type: t, Label: opt, JsonName: proto.String(name)}
	}
	fd, err := protodesc.NewFile(&descriptorpb.FileDescriptorProto{
		Name:    proto.String("verif/c13/wide.proto"),
		Package: proto.String("verif.c13"),
		Syntax:  proto.String("proto3"),
		MessageType: []*descriptorpb.DescriptorProto{
			{Name: proto.String("WideS"), Field: []*descriptorpb.FieldDescriptorProto{field("msg", 1, str), field("extra", extraField, str)}},
			{Name: proto.String("WideN"), Field: []*descriptorpb.FieldDescriptorProto{field("n", 1, i32), field("extra", extraField, str)}},
		},
	}, nil)
	if err != nil {
		panic(err)
	}
	wideS = fd.Messages().ByName("WideS")
	wideN = fd.Messages().ByName("WideN")
}

// wideMsg: payload n in field 1 (as a string "m<n>" or as an int32, like the method's own type) and "x<n>" in field 15.
func wideMsg(intPayload bool, n int) proto.Message {
	d := wideS
	if intPayload {
		d = wideN
	}
	m := dynamicpb.NewMessage(d)
	if intPayload {
		m.Set(d.Fields().ByNumber(1), protoreflect.ValueOfInt32(int32(n)))
	} else {
		m.Set(d.Fields().ByNumber(1), protoreflect.ValueOfString(word(n)))
	}
	m.Set(d.Fields().ByNumber(extraField), protoreflect.ValueOfString("x"+strconv.Itoa(n)))
	return m
}

// otherMsg: an empty message of another generated type with the same layout as the method's own.
func otherMsg(intPayload bool) proto.Message {
	if intPayload {
		return &wrapperspb.Int32Value{}
	}
	return &wrapperspb.StringValue{}
}

func emptyMsg() proto.Message { return &emptypb.Empty{} }

// wirePayload re-encodes m — declared and unknown fields alike, as a receiver that forwards or stores the message
// does — and reads the payload (field 1) and the extra field back from the bytes. wantExtra: the sender put "x<n>"
// into field 15. The result is the payload number, with a suffix when something the sender sent is not there.
func wirePayload(m proto.Message, intPayload, wantExtra bool) string {
	b, err := proto.Marshal(m)
	if err != nil {
		return "marshal-error"
	}
	n := -1
	if intPayload {
		n = 0 // proto3: a zero scalar is not encoded
	}
	extra, hasExtra := "", false
	for len(b) > 0 {
		num, typ, k := protowire.ConsumeTag(b)
		if k < 0 {
			return "bad-wire"
		}
		b = b[k:]
		switch typ {
		case protowire.VarintType:
			v, k := protowire.ConsumeVarint(b)
			if k < 0 {
				return "bad-wire"
			}
			b = b[k:]
			if num == 1 {
				n = int(int32(v))
			}
		case protowire.BytesType:
			v, k := protowire.ConsumeBytes(b)
			if k < 0 {
				return "bad-wire"
			}
			b = b[k:]
			if num == 1 {
				n = unword(string(v))
			} else if num == extraField {
				extra, hasExtra = string(v), true
			}
		default:
			k := protowire.ConsumeFieldValue(num, typ, b)
			if k < 0 {
				return "bad-wire"
			}
			b = b[k:]
		}
	}
	s := strconv.Itoa(n)
	switch {
	case wantExtra && !hasExtra:
		return s + "-undeclared-field-lost"
	case wantExtra && extra != "x"+s:
		return s + "-undeclared-field-" + extra
	case !wantExtra && hasExtra:
		return s + "-unexpected-field-" + extra
	}
	return s
}

// handlerSendsWide: in mode "wide" the handler sends its responses as wide messages where the generated API
// gives it SendMsg (all streaming handlers); a unary handler returns its typed response.
func handlerSendsWide(shape, pass string) bool {
	return pass == "wide" && (shape == "sstream" || shape == "cstream" || shape == "bidi")
}
