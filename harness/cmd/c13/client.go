package main

import (
	"context"
	"errors"
	"fmt"
	"io"
	"runtime"
	"strconv"
	"strings"
	"sync/atomic"
	"time"

	"google.golang.org/grpc"
	"google.golang.org/grpc/codes"
	"google.golang.org/grpc/metadata"
	"google.golang.org/grpc/peer"
	"google.golang.org/grpc/status"
	"google.golang.org/protobuf/proto"

	"github.com/smart-core-os/sc-golang/internal/testproto"
)

const svc = "/sc.go.test.TestApi/"

var opTimeout = 3 * time.Second
var deadlineAfter = 400 * time.Millisecond

// patience: how long a helper goroutine of a returned handler is given to notice that its context has ended.
var patience = 500 * time.Millisecond

// after a few ops that hung for the full bound the hang is established: later waits are kept short so
// that a broken tree is reported in minutes, not hours
var hangs atomic.Int32

// lateMutate changes the client's outgoing metadata map in place after the call was opened: a value of every
// user key is overwritten (same backing array), a value is appended, a key is added. A real connection has
// serialised the metadata by then; the wrapped handler must hold its own copy (cloneMD).
func lateMutate(md metadata.MD) {
	for k, v := range md {
		if internalKeys[k] {
			continue
		}
		if len(v) > 0 {
			v[0] = "changed-after-open"
		}
		md[k] = append(v, "appended-after-open")
	}
	md["zz"] = []string{"added-after-open"}
}

type appKey struct{}

// upstreamAddr: the peer of the request the caller is itself serving.
type upstreamAddr struct{}

func (upstreamAddr) Network() string { return "upstream" }
func (upstreamAddr) String() string  { return "upstream-caller:1" }

type shapeInfo struct {
	method string
	desc   *grpc.StreamDesc
	newReq func(n int) proto.Message
	newRes func() proto.Message
	resN   func(m proto.Message) int
	intPay bool // the payload field (1) of the method's messages is an int32 (else a string "m<n>")
}

// mkReq / mkRes / resEv: the client's message values for the case's pass-through mode (pass.go).
func (info shapeInfo) mkReq(c scase, n int) proto.Message {
	if c.Pass == "wide" {
		return wideMsg(info.intPay, n)
	}
	return info.newReq(n)
}

func (info shapeInfo) mkRes(c scase) proto.Message {
	switch c.Pass {
	case "empty":
		return emptyMsg()
	case "other":
		return otherMsg(info.intPay)
	}
	return info.newRes()
}

func (info shapeInfo) resEv(c scase, m proto.Message) string {
	if c.Pass == "" {
		return strconv.Itoa(info.resN(m))
	}
	return wirePayload(m, info.intPay, handlerSendsWide(c.Shape, c.Pass))
}

var shapes = map[string]shapeInfo{
	"unary": {method: svc + "Unary", desc: &grpc.StreamDesc{},
		newReq: func(n int) proto.Message { return &testproto.UnaryRequest{Msg: word(n)} },
		newRes: func() proto.Message { return &testproto.UnaryResponse{} },
		resN:   func(m proto.Message) int { return unword(m.(*testproto.UnaryResponse).Msg) }},
	"sstream": {method: svc + "ServerStream", desc: &testproto.TestApi_ServiceDesc.Streams[0], intPay: true,
		newReq: func(n int) proto.Message { return &testproto.ServerStreamRequest{NumRes: int32(n)} },
		newRes: func() proto.Message { return &testproto.ServerStreamResponse{} },
		resN:   func(m proto.Message) int { return int(m.(*testproto.ServerStreamResponse).Counter) }},
	"cstream": {method: svc + "ClientStream", desc: &testproto.TestApi_ServiceDesc.Streams[1],
		newReq: func(n int) proto.Message { return &testproto.ClientStreamRequest{Msg: word(n)} },
		newRes: func() proto.Message { return &testproto.ClientStreamResponse{} },
		resN:   func(m proto.Message) int { return unword(m.(*testproto.ClientStreamResponse).Msg) }},
	"bidi": {method: svc + "BidiStream", desc: &testproto.TestApi_ServiceDesc.Streams[2],
		newReq: func(n int) proto.Message { return &testproto.BidiStreamRequest{Msg: word(n)} },
		newRes: func() proto.Message { return &testproto.BidiStreamResponse{} },
		resN:   func(m proto.Message) int { return unword(m.(*testproto.BidiStreamResponse).Msg) }},
}

func init() { shapes["unaryS"] = shapes["unary"] }

// errEvent canonicalises a terminal error: status code + message; a plain error is Unknown on both
// transports; cancellation and deadline expiry are compared by class.
func errEvent(err error) string {
	if err == io.EOF {
		return "F0:"
	}
	if errors.Is(err, context.Canceled) {
		return "X"
	}
	if errors.Is(err, context.DeadlineExceeded) {
		return "D"
	}
	st, _ := status.FromError(err)
	switch st.Code() {
	case codes.Canceled:
		return "X"
	case codes.DeadlineExceeded:
		return "D"
	}
	return "F" + strconv.Itoa(int(st.Code())) + ":" + st.Message()
}

// outcome of one scripted call on one transport
type outcome struct {
	client   []string
	server   string
	timedOut bool
	skip     bool // the machine was too slow for a deadline script: nothing is concluded
	leak     int  // goroutines above the baseline after the call (wrapper only)
	// helperLeft: the handler has returned and the call is over, but the handler's context has not ended (Watch)
	helperLeft bool
	call       *call
	sentReq    []proto.Message // client's own request objects
	gotRes     []proto.Message // client's own response objects
}

func (o outcome) text() string { return strings.Join(o.client, ",") + "|" + o.server }

// within runs f with a bound; false = did not return in time.
func within(d time.Duration, f func()) bool {
	if hangs.Load() >= 3 {
		d = 300 * time.Millisecond
	}
	done := make(chan struct{})
	go func() { defer close(done); f() }()
	select {
	case <-done:
		return true
	case <-time.After(d):
		hangs.Add(1)
		return false
	}
}

func settle(base int) int {
	var n int
	for i := 0; i < 400; i++ {
		n = runtime.NumGoroutine()
		if n <= base {
			return 0
		}
		if i < 20 {
			runtime.Gosched()
		} else {
			time.Sleep(time.Millisecond)
		}
	}
	return n - base
}

// quiesce waits (bounded) until nothing is in flight towards the handler and the handler is blocked
// waiting for the client (or has returned): the script position at which the property's hypothesis
// ("every send meets a ready receiver") allows a cancel. gRPC buffers client sends, so without this
// the cancel could overtake a message the client already sent.
func quiesce(cl *call, sent int, closedSend bool) {
	for i := 0; i < 2000; i++ {
		ph := cl.phase.Load()
		if ph == 2 || ph == 3 || (ph == 1 && int(cl.nrecvd.Load()) >= sent && !closedSend) {
			return
		}
		if i < 50 {
			runtime.Gosched()
		} else {
			time.Sleep(200 * time.Microsecond)
		}
	}
}

// runCase executes the script pair on cc. measureLeak compares the goroutine count before and after.
func runCase(ep *endpoint, srv *scripted, c scase, measureLeak bool) outcome {
	cc := ep.cc
	info, ok := shapes[c.Shape]
	if !ok {
		panic("bad shape " + c.Shape)
	}
	var via viaSvc
	if c.Via != "" {
		if !viaOK(c.Via, c.Shape, c.Cli) {
			panic("case cannot be driven through the generated wrapper: " + c.String())
		}
		via = viaSvcs[c.Via]
		if via.newRes != nil {
			info.newRes, info.resN = via.newRes, via.resN
		}
	}
	cl := &call{ops: parseSrv(c.Srv), fin: parseFin(c.Fin), amp: c.Amp, reuse: c.Reuse, pass: c.Pass, shape: c.Shape, gate: make(chan struct{}), done: make(chan struct{}),
		watch: c.Watch, released: make(chan struct{})}
	id := srv.register(cl)
	defer srv.calls.Delete(id)
	var out outcome
	out.call = cl
	base := 0
	if measureLeak {
		base = runtime.NumGoroutine()
	}

	anon := c.Out == "~"
	var outMD metadata.MD
	if anon {
		// no outgoing metadata at all: the script cannot be named over the wire
		srv.anon.Store(cl)
		defer srv.anon.Store(nil)
	} else {
		outMD = toMD(parseMD(c.Out))
		outMD.Set("script-id", id)
	}
	cops := parseCli(c.Cli)
	hasDeadline := false
	for _, op := range cops {
		if op.K == 'd' || op.K == 'z' {
			hasDeadline = true
		}
	}
	// the caller's context: plain, or that of a handler serving a request of its own (incoming metadata,
	// peer and application values), possibly with a far deadline
	parent := context.Background()
	kctx := parseCtx(c.Ctx)
	if kctx.hasIn {
		parent = metadata.NewIncomingContext(parent, toMD(kctx.in))
	}
	if kctx.values {
		parent = peer.NewContext(parent, &peer.Peer{Addr: upstreamAddr{}})
		parent = context.WithValue(parent, appKey{}, "upstream-value")
	}
	if kctx.deadline {
		var cancelFar context.CancelFunc
		parent, cancelFar = context.WithTimeout(parent, time.Hour)
		defer cancelFar()
	}
	var ctx context.Context
	var cancel context.CancelFunc
	if hasDeadline {
		ctx, cancel = kctx.endable(parent, deadlineAfter)
	} else {
		ctx, cancel = kctx.endable(parent, 0)
	}
	defer cancel()
	if !anon {
		ctx = metadata.NewOutgoingContext(ctx, outMD)
	}
	ev := func(s string) { out.client = append(out.client, s) }
	started := false

	if c.Shape == "unary" {
		// Invoke = send, CloseSend, recv, Header, Trailer in one call (grpc.Header / grpc.Trailer options).
		// With an abort op the caller's context ends while Invoke is blocked (the handler has taken the request and
		// is parked): cancelled from the side once the handler is quiescent, or left to its deadline; the call is
		// then made with the grpc.Header option only (script s,c,x|d,r,h).
		var n int
		abortOp := byte(0)
		wantTrailer := false
		for _, op := range cops {
			switch op.K {
			case 's':
				n = op.N
			case 'x', 'd':
				abortOp = op.K
			case 't':
				wantTrailer = true
			}
		}
		req := info.mkReq(c, n)
		res := info.mkRes(c)
		var hdr, trl metadata.MD
		var err error
		started = true
		opts := []grpc.CallOption{grpc.Header(&hdr)}
		if abortOp == 0 || wantTrailer {
			opts = append(opts, grpc.Trailer(&trl))
		}
		parks := strings.ContainsAny(c.Srv, "WG") // the handler's script comes to a parking op
		if abortOp == 'x' {
			go func() {
				if parks {
					// (a loaded machine: give the handler time to get there before concluding anything)
					for i := 0; i < 4000 && !cl.parked.Load(); i++ {
						time.Sleep(500 * time.Microsecond)
					}
				}
				quiesce(cl, 1, true)
				cancel()
			}()
		}
		var viaN int
		call := func() { err = cc.Invoke(ctx, info.method, req, res, opts...) }
		if c.Via != "" {
			// the typed client of the generated wrapper (resp. of the gRPC connection), same call options
			call = func() { viaN, req, res, err = via.unary(ep.typed[c.Via], ctx, n, opts...) }
		}
		if !within(opTimeout, call) {
			// the call is still blocked: what the caller did so far (request handed over, its context ended from the
			// side / by its deadline while the handler was parked) and then the hang
			out.timedOut = true
			if abortOp != 0 && ctx.Err() != nil && cl.parked.Load() {
				ev("ok")
				ev("cl")
				ev(string(abortOp))
			}
			ev("TO")
		} else {
			out.sentReq = append(out.sentReq, req)
			ev("ok")
			ev("cl")
			if abortOp != 0 {
				ev(string(abortOp))
			}
			if err != nil {
				ev(errEvent(err))
			} else if c.Via != "" {
				ev("m" + strconv.Itoa(viaN))
			} else {
				ev("m" + info.resEv(c, res))
				out.gotRes = append(out.gotRes, res)
			}
			ev("h" + canonMD(hdr))
			if abortOp == 0 || wantTrailer {
				ev("t" + canonMD(trl))
			}
			if abortOp != 0 && parks && !cl.parked.Load() {
				out.skip = true // the context ended before the handler had got to its parking op (loaded machine)
			}
		}
	} else {
		var cs grpc.ClientStream
		var err error
		open := func() { cs, err = cc.NewStream(ctx, info.desc, info.method) }
		opened := false // the typed client of a generated wrapper sends the request and half-closes when it opens the stream
		if c.Via != "" {
			open = func() { cs, _, err = via.stream(ep.typed[c.Via], ctx, parseCli(c.Cli)[0].N) }
			opened = true
		}
		if !within(opTimeout, open) {
			out.timedOut = true
			ev("TO")
		} else if err != nil {
			ev("open:" + errEvent(err))
		} else {
			started = true
			if !anon {
				// the call is open: like any gRPC client may, the caller now changes its own metadata map
				lateMutate(outMD)
			}
			closedSend := false
			var reused proto.Message
			nsent := 0
			t0 := time.Now()
		loop:
			for i, op := range cops {
				var e string
				fin := within(opTimeout, func() {
					switch op.K {
					case 's':
						if opened && i == 0 {
							e = "ok"
							nsent++
							return
						}
						m := info.mkReq(c, op.N)
						if c.Reuse {
							// one request object for all sends, overwritten as soon as SendMsg has returned
							if reused == nil {
								reused = m
							} else {
								proto.Reset(reused)
								proto.Merge(reused, m)
							}
							m = reused
						}
						if err := cs.SendMsg(m); err != nil {
							e = "serr"
						} else {
							e = "ok"
							nsent++
							if c.Reuse {
								proto.Reset(reused)
								proto.Merge(reused, info.newReq(99))
							} else {
								out.sentReq = append(out.sentReq, m)
							}
						}
					case 'c':
						if opened && i == 1 {
							e = "cl"
							closedSend = true
							return
						}
						if err := cs.CloseSend(); err != nil {
							e = "clerr"
						} else {
							e = "cl"
							closedSend = true
						}
					case 'r':
						m := info.mkRes(c)
						if err := cs.RecvMsg(m); err != nil {
							e = errEvent(err)
						} else {
							e = "m" + info.resEv(c, m)
							out.gotRes = append(out.gotRes, m)
						}
					case 'h':
						md, err := cs.Header()
						if err != nil {
							e = "herr"
						} else {
							e = "h" + canonMD(md)
						}
					case 't':
						e = "t" + canonMD(cs.Trailer())
					case 'x':
						if c.Abandon {
							// the handler is inside a SendMsg nobody will receive (bounded wait; then a moment for it to
							// really be parked on the hand-over)
							for i := 0; i < 4000 && !cl.sending.Load(); i++ {
								time.Sleep(250 * time.Microsecond)
							}
							time.Sleep(2 * time.Millisecond)
						} else if !c.Async {
							quiesce(cl, nsent, closedSend)
						}
						cancel()
						e = "x"
					case 'y':
						// cancelled from the side while the client is inside its NEXT op: fired once the handler is parked
						go func() {
							for i := 0; i < 4000 && !cl.parked.Load(); i++ {
								time.Sleep(500 * time.Microsecond)
							}
							quiesce(cl, nsent, true)
							cancel()
						}()
						e = "x"
					case 'z':
						// the deadline passes while the client is inside its next op
						if time.Since(t0) > deadlineAfter/2 {
							e = "slow"
							return
						}
						e = "d"
					case 'w':
						select {
						case <-cl.done:
						case <-time.After(opTimeout / 2):
						}
						e = "w"
					case 'd':
						if time.Since(t0) > deadlineAfter/2 {
							e = "slow" // the machine was too slow to reach this point well before the deadline
							return
						}
						quiesce(cl, nsent, closedSend)
						<-ctx.Done()
						e = "d"
					}
				})
				if !fin {
					out.timedOut = true
					ev("TO")
					break loop
				}
				if e != "w" {
					ev(e)
				}
				if e == "slow" {
					out.skip = true
					break loop
				}
				if i > 0 && cops[i-1].K == 'z' && !cl.parked.Load() {
					out.skip = true // the deadline passed before the handler had got to its parking op (loaded machine)
				}
			}
		}
	}
	if hasDeadline {
		reached := false
		for _, e := range out.client {
			if e == "d" {
				reached = true
			}
		}
		if !reached {
			out.skip = true
		}
	}
	close(cl.gate)
	aborted := hasDeadline || out.timedOut
	for _, op := range cops {
		if op.K == 'x' || op.K == 'y' {
			aborted = true
		}
	}
	if aborted {
		cancel()
	}
	if started {
		// a finished call must unwind on its own (no cancel); an aborted one after the cancel
		select {
		case <-cl.done:
		case <-time.After(40 * time.Millisecond):
			if aborted && !measureLeak && !cl.entered.Load() {
				break // cancelled before the handler was ever started (gRPC): nothing to wait for
			}
			select {
			case <-cl.done:
			case <-time.After(opTimeout):
				cl.logf("handler-not-finished")
			}
		}
	}
	if c.Watch && started && !aborted {
		// the call has finished and the handler has returned: what the handler tied to its context must be over too,
		// while the CALLER's context is still live (it is cancelled only when this function returns)
		select {
		case <-cl.done:
			select {
			case <-cl.released:
			case <-time.After(patience):
				out.helperLeft = true
			}
		default:
		}
	}
	out.server = cl.serverLog()
	if measureLeak && c.Amp == 0 {
		out.leak = settle(base) // (with the amplifier the harness's own release goroutine is still busy)
	}
	return out
}

var _ = fmt.Sprint
