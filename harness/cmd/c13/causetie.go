package main

import (
	"context"
	"errors"
	"fmt"
	"strings"
	"time"

	"google.golang.org/grpc"
	"google.golang.org/grpc/status"

	"github.com/smart-core-os/sc-golang/internal/testproto"
	"github.com/smart-core-os/sc-golang/pkg/wrap"
	"github.com/smart-core-os/sc-golang/verifharness/lib"
)

// chainCase: a family of contexts around the context a call is made with, and what ends them.
//
//	grand -> parent -> self (the call's context)      parent -> sibling      grand -> uncle
//
// Born: which of grand / parent / self is created with a deadline that has already passed ("g0": grand, cause kind 0;
// "p-": parent, no cause; "" = none). Ends: cancel functions called afterwards, in order: <level><kind>, level
// g|p|s|b (sibling)|u (uncle), kind - (plain cancel) | 0..2 (cancel with a cause, causeErr).
type chainCase struct {
	Born string   `json:"born"`
	Ends []string `json:"ends"`
}

func (c chainCase) key() string { return "born=" + c.Born + " ends=" + strings.Join(c.Ends, ",") }

// model gives the ends of the CHAIN of the call's context in the order they happen, as the Lean model takes them:
// what happens to contexts that are not ancestors of the call's context is left out.
func (c chainCase) model() string {
	var evs []string
	if c.Born != "" {
		evs = append(evs, "d"+c.Born[1:])
	}
	for _, e := range c.Ends {
		if strings.ContainsAny(e[:1], "gps") {
			evs = append(evs, "c"+e[1:])
		}
	}
	if len(evs) == 0 {
		return "-"
	}
	return strings.Join(evs, ",")
}

// build makes the contexts with the real context package and applies the ends; returns the call's context.
func (c chainCase) build() (context.Context, func()) {
	var undo []func()
	cancels := map[byte]func(kind byte){}
	mk := func(level byte, parent context.Context) context.Context {
		if c.Born != "" && c.Born[0] == level {
			past := time.Now().Add(-time.Minute)
			var ctx context.Context
			var stop context.CancelFunc
			if c.Born[1] == '-' {
				ctx, stop = context.WithDeadline(parent, past)
			} else {
				ctx, stop = context.WithDeadlineCause(parent, past, causeErr(int(c.Born[1]-'0'), true))
			}
			undo = append(undo, stop)
			parent = ctx
		}
		ctx, cancel := context.WithCancelCause(parent)
		cancels[level] = func(kind byte) {
			if kind == '-' {
				cancel(nil)
			} else {
				cancel(causeErr(int(kind-'0'), false))
			}
		}
		undo = append(undo, func() { cancel(nil) })
		return ctx
	}
	grand := mk('g', context.Background())
	parent := mk('p', context.WithValue(grand, appKey2{}, 2))
	self := mk('s', parent)
	mk('b', parent)
	mk('u', grand)
	for _, e := range c.Ends {
		cancels[e[0]](e[1])
	}
	return self, func() {
		for _, u := range undo {
			u()
		}
	}
}

// expect: independent oracle — the first end on the chain of the call's context decides, as such.
func (c chainCase) expect() string {
	if c.Born != "" {
		return "DeadlineExceeded:context deadline exceeded"
	}
	for _, e := range c.Ends {
		if strings.ContainsAny(e[:1], "gps") {
			return "Canceled:context canceled"
		}
	}
	return ""
}

// readErr: how a caller reads an error it is handed.
func readErr(err error) string {
	switch {
	case err == nil:
		return "OK"
	case errors.Is(err, context.Canceled):
		return "Canceled:" + err.Error()
	case errors.Is(err, context.DeadlineExceeded):
		return "DeadlineExceeded:" + err.Error()
	}
	st, _ := status.FromError(err)
	return st.Code().String() + ":" + st.Message()
}

// chainReal: the state of the call's context (ctx.Err() class / context.Cause text) and what every place of pkg/wrap
// that reports the end of the context says, read as a caller reads it (distinct answers, first seen first).
func chainReal(w *world, c chainCase) (state string, reads []string) {
	ctx, undo := c.build()
	defer undo()
	switch ctx.Err() {
	case nil:
		return "live", []string{"OK"}
	case context.Canceled:
		state = "X/" + context.Cause(ctx).Error()
	case context.DeadlineExceeded:
		state = "D/" + context.Cause(ctx).Error()
	default:
		state = "?/" + ctx.Err().Error()
	}
	add := func(err error) {
		r := readErr(err)
		for _, x := range reads {
			if x == r {
				return
			}
		}
		reads = append(reads, r)
	}
	done := within(opTimeout, func() {
		add(w.wrapCC.Invoke(ctx, svc+"Unary", &testproto.UnaryRequest{}, &testproto.UnaryResponse{}))
		_, err := w.wrapCC.NewStream(ctx, &grpc.StreamDesc{ServerStreams: true}, svc+"ServerStream")
		add(err)
		s := wrap.NewClientServerStream(ctx)
		add(s.Client().RecvMsg(&testproto.UnaryResponse{}))
		add(s.Server().SendHeader(nil))
		add(s.Server().SendMsg(&testproto.UnaryResponse{}))
		add(s.Server().RecvMsg(&testproto.UnaryRequest{}))
		s.Close(nil)
	})
	if !done {
		reads = append(reads, "hang")
	}
	return state, reads
}

func chainCases(maxEnds int) []chainCase {
	var alphabet []string
	for _, l := range "gpsbu" {
		for _, k := range "-012" {
			alphabet = append(alphabet, string(l)+string(k))
		}
	}
	var seqs [][]string
	var rec func(pre []string, n int)
	rec = func(pre []string, n int) {
		seqs = append(seqs, append([]string(nil), pre...))
		if n == 0 {
			return
		}
		for _, a := range alphabet {
			rec(append(pre, a), n-1)
		}
	}
	rec(nil, maxEnds)
	borns := []string{""}
	for _, l := range "gps" {
		for _, k := range "-02" {
			borns = append(borns, string(l)+string(k))
		}
	}
	var out []chainCase
	for _, b := range borns {
		for _, s := range seqs {
			if b != "" && len(s) >= maxEnds {
				continue // (a chain that was born ended: one cancel less)
			}
			out = append(out, chainCase{Born: b, Ends: s})
		}
	}
	return out
}

func checkChain(w *world, mon *lib.Monitor, c chainCase) string {
	state, reads := chainReal(w, c)
	got := state + " " + strings.Join(reads, ";")
	mon.Eval(c.key(), true, map[string]any{"case": c, "real": got})
	if want := c.expect(); want != "" {
		for _, r := range reads {
			if r != want {
				mon.Violate("C13/context-end/not-reported-as-such",
					"the call's context (or an ancestor) has ended, with or without a cause: every place of the wrapper that reports it must say cancelled / deadline exceeded as such, as a real connection does",
					c, want, r)
				break
			}
		}
	}
	return got
}

func runChain(f lib.Flags, res *lib.Result, w *world, drv *lib.Driver) {
	tie := res.Tie("ctx-model", "K2",
		"exhaustive: a family of real contexts (grand -> parent -> the call's context, a sibling, an uncle; each with a cancel-cause function; one of the three on the chain optionally created with a deadline already passed, with or without a cause) x every sequence of up to 2 (thorough 3; one less when born expired) cancel calls on any of the five with no cause / own error / status error / wrapped other context error; Lean ctxRun over the ends of the CHAIN only (ctx.Err() class, context.Cause text) and Wrap.siteError read by callerReads for all 8 report sites = the real context package and the real Invoke / NewStream / clientStream.RecvMsg / serverStream.SendHeader / SendMsg / RecvMsg on that context")
	tie.Exhaustive = true
	mon := res.Monitor("context-end",
		"for every such family and sequence in which the call's context has ended: Invoke, NewStream, the client half's RecvMsg and the handler half's SendHeader / SendMsg / RecvMsg all report Canceled \"context canceled\" / DeadlineExceeded \"context deadline exceeded\" according to what ended the chain first (hand-written oracle), never the cause")
	cases := chainCases(f.N(2, 3))
	var model []string
	if drv != nil {
		var q []string
		for _, c := range cases {
			q = append(q, "ctxrun "+c.model())
		}
		var err error
		if model, err = drv.Batch(q); err != nil {
			tie.Fail(err)
			drv = nil
		}
	} else {
		tie.Fail(fmt.Errorf("no Lean driver given"))
	}
	for i, c := range cases {
		got := checkChain(w, mon, c)
		if drv != nil {
			tie.Record(c.key(), true, c, model[i], got)
			tie.Count(strings.SplitN(got, "/", 2)[0])
		}
	}
}
