package main

import (
	"context"
	"errors"
	"fmt"
	"io"

	"github.com/smart-core-os/sc-api/go/traits"
	"github.com/smart-core-os/sc-api/go/types"
	"google.golang.org/grpc"
	"google.golang.org/grpc/codes"
	"google.golang.org/grpc/metadata"
	"google.golang.org/grpc/status"
	"google.golang.org/protobuf/proto"
	"google.golang.org/protobuf/types/known/fieldmaskpb"

	"github.com/smart-core-os/sc-golang/pkg/trait/metadatapb"
	"github.com/smart-core-os/sc-golang/pkg/trait/onoffpb"
	"github.com/smart-core-os/sc-golang/pkg/wrap"
)

// Generated trait wrappers as the client of the transcript comparison (scase.Via).
//
// Users of the library do not call wrap.ServerToClient themselves: they obtain a wrapped server from the GENERATED
// adapters (onoffpb.WrapApi, onoffpb.WrapInfo, metadatapb.WrapApi, ... one per service, all rendered from
// cmd/protoc-gen-wrapper's template). What such an adapter hands out is a typed client; whatever sits between that
// typed client and the wrapped server (today: nothing but the connection of ServerToClient) is part of "a client
// using the wrapped server". A sample of services from two trait packages and three generated files is driven with
// the same scripted handlers and the same scripts as TestApi: the typed client of the generated wrapper against the
// typed client of a bufconn gRPC connection to the same server, call options (grpc.Header / grpc.Trailer) included.
//
// Each sampled service maps the script's payload number onto its own messages:
//
//	onoff    OnOffApi    GetOnOff (unary)     request name "m<n>", response state n
//	update   OnOffApi    UpdateOnOff (unary)  request name "m<n>" + on_off.state n, response state n
//	                     PullOnOff (sstream)  request name "m<n>", response changes[0].name "m<n>"
//	info     OnOffInfo   DescribeOnOff (unary) response resource_support.writable_fields.paths[0] "m<n>"
//	metadata MetadataApi GetMetadata (unary)  response name "m<n>";  PullMetadata (sstream) changes[0].name
type viaSvc struct {
	unary  func(typed any, ctx context.Context, n int, opts ...grpc.CallOption) (int, proto.Message, proto.Message, error)
	stream func(typed any, ctx context.Context, n int, opts ...grpc.CallOption) (grpc.ClientStream, proto.Message, error)
	newRes func() proto.Message
	resN   func(proto.Message) int
}

// "<svc>+us": the typed client is built by the caller on the connection the generated wrapper hands out through
// UnwrapService() (pkg/wrap.ServiceUnwrapper) — how routers and proxies reach a wrapped server.
var viaNames = []string{"onoff", "info", "metadata", "update", "onoff+us", "info+us", "metadata+us", "update+us"}

var viaBase = []string{"onoff", "info", "metadata", "update"}

func init() {
	for _, n := range viaBase {
		viaSvcs[n+"+us"] = viaSvcs[n]
	}
}

// adapter: something an application stacks on a wrapped server that still lets wrap.UnwrapFully through.
type adapter struct{ inner any }

func (a adapter) Unwrap() any { return a.inner }

var viaSvcs = map[string]viaSvc{
	"onoff": {
		unary: func(typed any, ctx context.Context, n int, opts ...grpc.CallOption) (int, proto.Message, proto.Message, error) {
			req := &traits.GetOnOffRequest{Name: word(n)}
			res, err := typed.(traits.OnOffApiClient).GetOnOff(ctx, req, opts...)
			if err != nil {
				return 0, req, nil, err
			}
			return int(res.State), req, res, nil
		},
		stream: func(typed any, ctx context.Context, n int, opts ...grpc.CallOption) (grpc.ClientStream, proto.Message, error) {
			req := &traits.PullOnOffRequest{Name: word(n)}
			cs, err := typed.(traits.OnOffApiClient).PullOnOff(ctx, req, opts...)
			return cs, req, err
		},
		newRes: func() proto.Message { return &traits.PullOnOffResponse{} },
		resN: func(m proto.Message) int {
			ch := m.(*traits.PullOnOffResponse).Changes
			if len(ch) != 1 {
				return -1
			}
			return unword(ch[0].Name)
		},
	},
	// the second unary method of the same generated wrapper (a write: the request carries a message of its own)
	"update": {
		unary: func(typed any, ctx context.Context, n int, opts ...grpc.CallOption) (int, proto.Message, proto.Message, error) {
			req := &traits.UpdateOnOffRequest{Name: word(n), OnOff: &traits.OnOff{State: traits.OnOff_State(n)}}
			res, err := typed.(traits.OnOffApiClient).UpdateOnOff(ctx, req, opts...)
			if err != nil {
				return 0, req, nil, err
			}
			return int(res.State), req, res, nil
		},
	},
	"info": {
		unary: func(typed any, ctx context.Context, n int, opts ...grpc.CallOption) (int, proto.Message, proto.Message, error) {
			req := &traits.DescribeOnOffRequest{Name: word(n)}
			res, err := typed.(traits.OnOffInfoClient).DescribeOnOff(ctx, req, opts...)
			if err != nil {
				return 0, req, nil, err
			}
			p := res.GetResourceSupport().GetWritableFields().GetPaths()
			if len(p) != 1 {
				return -1, req, res, nil
			}
			return unword(p[0]), req, res, nil
		},
	},
	"metadata": {
		unary: func(typed any, ctx context.Context, n int, opts ...grpc.CallOption) (int, proto.Message, proto.Message, error) {
			req := &traits.GetMetadataRequest{Name: word(n)}
			res, err := typed.(traits.MetadataApiClient).GetMetadata(ctx, req, opts...)
			if err != nil {
				return 0, req, nil, err
			}
			return unword(res.Name), req, res, nil
		},
		stream: func(typed any, ctx context.Context, n int, opts ...grpc.CallOption) (grpc.ClientStream, proto.Message, error) {
			req := &traits.PullMetadataRequest{Name: word(n)}
			cs, err := typed.(traits.MetadataApiClient).PullMetadata(ctx, req, opts...)
			return cs, req, err
		},
		newRes: func() proto.Message { return &traits.PullMetadataResponse{} },
		resN: func(m proto.Message) int {
			ch := m.(*traits.PullMetadataResponse).Changes
			if len(ch) != 1 {
				return -1
			}
			return unword(ch[0].Name)
		},
	},
}

// viaOK: the case can be driven through the generated wrapper of service via.
func viaOK(via, shape, cli string) bool {
	svc, ok := viaSvcs[via]
	if !ok {
		return false
	}
	switch shape {
	case "unary":
		return svc.unary != nil
	case "sstream":
		ops := splitOps(cli)
		return svc.stream != nil && len(ops) >= 2 && ops[0][0] == 's' && ops[1] == "c"
	}
	return false
}

// endpoint: one transport to the scripted servers — the generic connection (TestApi) and the typed clients of the
// sampled trait services (generated wrappers on the wrapper side, generated gRPC clients on the bufconn side).
type endpoint struct {
	cc      grpc.ClientConnInterface
	typed   map[string]any
	servers map[string]any // the server values behind the generated wrappers (wrapper side only)
}

func wrapEndpoint(s *scripted, cc grpc.ClientConnInterface) *endpoint {
	ep := &endpoint{cc: cc, servers: map[string]any{}, typed: map[string]any{}}
	oo, oi, md := &onoffSrv{s: s}, &onoffInfoSrv{s: s}, &metadataSrv{s: s}
	ep.servers["onoff"], ep.servers["info"], ep.servers["metadata"], ep.servers["update"] = oo, oi, md, oo
	wo, wi, wm := onoffpb.WrapApi(oo), onoffpb.WrapInfo(oi), metadatapb.WrapApi(md)
	ep.typed["onoff"], ep.typed["info"], ep.typed["metadata"], ep.typed["update"] = wo, wi, wm, wo
	co, _ := wo.UnwrapService()
	ci, _ := wi.UnwrapService()
	cm, _ := wm.UnwrapService()
	ep.typed["onoff+us"] = traits.NewOnOffApiClient(co)
	ep.typed["info+us"] = traits.NewOnOffInfoClient(ci)
	ep.typed["metadata+us"] = traits.NewMetadataApiClient(cm)
	ep.typed["update+us"] = ep.typed["onoff+us"]
	return ep
}

func registerTraits(gs *grpc.Server, s *scripted) {
	traits.RegisterOnOffApiServer(gs, &onoffSrv{s: s})
	traits.RegisterOnOffInfoServer(gs, &onoffInfoSrv{s: s})
	traits.RegisterMetadataApiServer(gs, &metadataSrv{s: s})
}

func grpcEndpoint(cc *grpc.ClientConn) *endpoint {
	ep := &endpoint{cc: cc, typed: map[string]any{
		"onoff":    traits.NewOnOffApiClient(cc),
		"info":     traits.NewOnOffInfoClient(cc),
		"metadata": traits.NewMetadataApiClient(cc),
	}}
	ep.typed["update"] = ep.typed["onoff"]
	for _, n := range viaBase {
		ep.typed[n+"+us"] = ep.typed[n]
	}
	return ep
}

// unwrapReal: k adapters stacked on the generated wrapper of service name; what wrap.UnwrapFully gives back.
func unwrapReal(ep *endpoint, name string, k int) string {
	var obj any = ep.typed[name]
	for i := 0; i < k; i++ {
		obj = adapter{inner: obj}
	}
	switch got := wrap.UnwrapFully(obj); {
	case got == ep.servers[name]:
		return "plain0" // the server value that was wrapped
	case got == ep.typed[name]:
		return "wrapper"
	default:
		return fmt.Sprintf("other:%T", got)
	}
}

// --- scripted trait servers ------------------------------------------------------------------------

// tUnaryIO: a unary trait method run by the script engine (request payload from the request's name).
type tUnaryIO struct {
	c     context.Context
	n     int
	req   proto.Message
	first bool
	has   bool
	resN  int
}

func (u *tUnaryIO) ctx() context.Context            { return u.c }
func (u *tUnaryIO) setHeader(md metadata.MD) error  { return grpc.SetHeader(u.c, md) }
func (u *tUnaryIO) sendHeader(md metadata.MD) error { return grpc.SendHeader(u.c, md) }
func (u *tUnaryIO) setTrailer(md metadata.MD)       { _ = grpc.SetTrailer(u.c, md) }
func (u *tUnaryIO) send(n int) (proto.Message, error) {
	u.has, u.resN = true, n
	return nil, nil
}
func (u *tUnaryIO) sendAny(proto.Message) error {
	return errors.New("a unary handler returns its typed response")
}
func (u *tUnaryIO) recv() (int, proto.Message, error) {
	if !u.first {
		u.first = true
		return u.n, u.req, nil
	}
	return 0, nil, io.EOF
}

func runTUnary[R any](s *scripted, ctx context.Context, name string, req proto.Message, mk func(n int) *R) (*R, error) {
	c, err := s.lookup(ctx)
	if err != nil {
		return nil, err
	}
	u := &tUnaryIO{c: ctx, n: unword(name), req: req}
	if err := c.run(u); err != nil {
		return nil, err
	}
	if !u.has {
		return nil, status.Error(codes.Internal, "script gave no response")
	}
	return mk(u.resN), nil
}

// tStreamIO: a server-streaming trait method run by the script engine.
type tStreamIO struct {
	st    grpc.ServerStream
	n     int
	req   proto.Message
	first bool
	mk    func(n int) proto.Message
}

func (u *tStreamIO) ctx() context.Context            { return u.st.Context() }
func (u *tStreamIO) setHeader(md metadata.MD) error  { return u.st.SetHeader(md) }
func (u *tStreamIO) sendHeader(md metadata.MD) error { return u.st.SendHeader(md) }
func (u *tStreamIO) setTrailer(md metadata.MD)       { u.st.SetTrailer(md) }
func (u *tStreamIO) send(n int) (proto.Message, error) {
	m := u.mk(n)
	return m, u.st.SendMsg(m)
}
func (u *tStreamIO) sendAny(m proto.Message) error { return u.st.SendMsg(m) }
func (u *tStreamIO) recv() (int, proto.Message, error) {
	if !u.first {
		u.first = true
		return u.n, u.req, nil
	}
	return 0, nil, io.EOF
}

func runTStream(s *scripted, st grpc.ServerStream, name string, req proto.Message, mk func(n int) proto.Message) error {
	c, err := s.lookup(st.Context())
	if err != nil {
		return err
	}
	return c.run(&tStreamIO{st: st, n: unword(name), req: req, mk: mk})
}

type onoffSrv struct {
	traits.UnimplementedOnOffApiServer
	s *scripted
}

func (o *onoffSrv) GetOnOff(ctx context.Context, req *traits.GetOnOffRequest) (*traits.OnOff, error) {
	return runTUnary(o.s, ctx, req.Name, req, func(n int) *traits.OnOff { return &traits.OnOff{State: traits.OnOff_State(n)} })
}

func (o *onoffSrv) UpdateOnOff(ctx context.Context, req *traits.UpdateOnOffRequest) (*traits.OnOff, error) {
	return runTUnary(o.s, ctx, req.Name, req, func(n int) *traits.OnOff { return &traits.OnOff{State: traits.OnOff_State(n)} })
}

func (o *onoffSrv) PullOnOff(req *traits.PullOnOffRequest, st grpc.ServerStreamingServer[traits.PullOnOffResponse]) error {
	return runTStream(o.s, st, req.Name, req, func(n int) proto.Message {
		return &traits.PullOnOffResponse{Changes: []*traits.PullOnOffResponse_Change{{Name: word(n)}}}
	})
}

type onoffInfoSrv struct {
	traits.UnimplementedOnOffInfoServer
	s *scripted
}

func (o *onoffInfoSrv) DescribeOnOff(ctx context.Context, req *traits.DescribeOnOffRequest) (*traits.OnOffSupport, error) {
	return runTUnary(o.s, ctx, req.Name, req, func(n int) *traits.OnOffSupport {
		return &traits.OnOffSupport{ResourceSupport: &types.ResourceSupport{WritableFields: &fieldmaskpb.FieldMask{Paths: []string{word(n)}}}}
	})
}

type metadataSrv struct {
	traits.UnimplementedMetadataApiServer
	s *scripted
}

func (o *metadataSrv) GetMetadata(ctx context.Context, req *traits.GetMetadataRequest) (*traits.Metadata, error) {
	return runTUnary(o.s, ctx, req.Name, req, func(n int) *traits.Metadata { return &traits.Metadata{Name: word(n)} })
}

func (o *metadataSrv) PullMetadata(req *traits.PullMetadataRequest, st grpc.ServerStreamingServer[traits.PullMetadataResponse]) error {
	return runTStream(o.s, st, req.Name, req, func(n int) proto.Message {
		return &traits.PullMetadataResponse{Changes: []*traits.PullMetadataResponse_Change{{Name: word(n)}}}
	})
}
