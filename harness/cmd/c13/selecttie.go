package main

import (
	"context"
	"fmt"
	"io"
	"strings"
	"sync"
	"time"

	"google.golang.org/grpc"
	"google.golang.org/grpc/metadata"

	"github.com/smart-core-os/sc-golang/internal/testproto"
	"github.com/smart-core-os/sc-golang/pkg/wrap"
	"github.com/smart-core-os/sc-golang/verifharness/lib"
)

// Tie select-model (K2, exhaustive): the client half's blocking calls on a bare wrap.ClientServerStream brought into
// a state by set-up ops, against the Lean select-level model (ScVerif/C13/Select.lean, driver op `select`).
//
// A set-up is a sequence of ops on a fresh stream: H<md> SetHeader, S<md> SendHeader, T<md> SetTrailer, x / d the
// caller's context ends (cancel / deadline), C<fin> Close(error value, every class of parseFin). Then, optionally, a
// handler goroutine is put inside SendMsg (offer) or RecvMsg (taker), and ONE client call is made with a time bound:
// RecvMsg, SendMsg, Header(), Trailer(). The model lists what each ready select case returns; the real result must
// be a member of that list, and the call must block exactly when the list is empty.
type selCase struct {
	Call  string `json:"call"`  // client half: recv | send | header | trailer | await; handler's half: ssend | srecv
	Setup string `json:"setup"` // comma separated set-up ops, "-" for none
	Offer int    `json:"offer"` // -1: no handler in SendMsg; else the payload it offers
	Taker bool   `json:"taker"` // a handler is inside RecvMsg
}

func (c selCase) args() string {
	o := "-"
	if c.Offer >= 0 {
		o = fmt.Sprint(c.Offer)
	}
	t := "0"
	if c.Taker {
		t = "1"
	}
	return "select " + c.Call + " " + c.Setup + " " + o + " " + t
}

func selCases() []selCase {
	heads := []string{"", "Ha=1", "Sa=1", "Ha=1,Sb=2", "Sa=1,Hb=2", "Tc=3"}
	fins := []string{"OK", "E5:e0", "Pboom", "Z", "Y", "V5:e0", "U9:boom", "CX", "KD"}
	var tails []string
	tails = append(tails, "", "x", "d")
	for _, f := range fins {
		tails = append(tails, "C"+f, "x,C"+f, "C"+f+",x")
	}
	tails = append(tails, "d,COK", "d,CE5:e0")
	join := func(a, b string) string {
		switch {
		case a == "" && b == "":
			return "-"
		case a == "":
			return b
		case b == "":
			return a
		}
		return a + "," + b
	}
	var out []selCase
	for _, h := range heads {
		for _, t := range tails {
			for _, call := range []string{"recv", "send", "header", "trailer"} {
				out = append(out, selCase{Call: call, Setup: join(h, t), Offer: -1})
			}
			// the handler's half: its SendMsg / RecvMsg on the same states, also after the client's half-close
			if !strings.Contains(t, "C") {
				// (a SendMsg after Close is a handler still sending after it returned: outside any call)
				out = append(out, selCase{Call: "ssend", Setup: join(h, t), Offer: -1})
			}
			out = append(out, selCase{Call: "srecv", Setup: join(h, t), Offer: -1},
				selCase{Call: "srecv", Setup: join(join(h, "c"), t), Offer: -1})
			if t == "" && (h == "" || h == "Sa=1" || h == "Ha=1") {
				out = append(out, selCase{Call: "ssend", Setup: join(h, t), Offer: -1, Taker: true},
					selCase{Call: "srecv", Setup: join(h, t), Offer: 4},
					selCase{Call: "srecv", Setup: join(h, t), Offer: -1, Taker: true},
					selCase{Call: "ssend", Setup: join(h, "c"), Offer: -1, Taker: true})
				// the stream is live: a handler inside SendMsg / RecvMsg
				out = append(out, selCase{Call: "recv", Setup: join(h, t), Offer: 3},
					selCase{Call: "header", Setup: join(h, t), Offer: 3},
					selCase{Call: "send", Setup: join(h, t), Offer: -1, Taker: true},
					selCase{Call: "send", Setup: join(h, t), Offer: 3})
			}
		}
	}
	return out
}

// selReal runs the case on a real ClientServerStream. bound: how long a call may take before it counts as blocked.
func selReal(c selCase, bound time.Duration) string {
	// (the context a cancel op ends carries a cause: the stream reports ctx.Err(), never why the context ended)
	parent, cancelCause := context.WithCancelCause(context.Background())
	cancel := func() { cancelCause(causeErr(len(c.Setup)%3, false)) }
	defer cancel()
	// a deadline set-up op needs a context whose deadline the harness can make pass at that point
	exp := &expiring{done: make(chan struct{})}
	hasDeadline := false
	for _, op := range splitOps(c.Setup) {
		if op == "d" {
			hasDeadline = true
		}
	}
	var s *wrap.ClientServerStream
	if hasDeadline {
		s = wrap.NewClientServerStream(exp)
	} else {
		s = wrap.NewClientServerStream(parent)
	}
	ss, cs := s.Server(), s.Client()
	for _, op := range splitOps(c.Setup) {
		switch op[0] {
		case 'H':
			_ = ss.SetHeader(toMD(parseMD(op[1:])))
		case 'S':
			_ = ss.SendHeader(toMD(parseMD(op[1:])))
		case 'T':
			ss.SetTrailer(toMD(parseMD(op[1:])))
		case 'x':
			cancel()
		case 'd':
			exp.expire()
			<-cs.Context().Done() // (a context type of the harness's own: the stream's child context follows asynchronously)
		case 'C':
			s.Close(parseFin(op[1:]).err())
		case 'c':
			_ = cs.CloseSend()
		}
	}
	server := c.Call == "ssend" || c.Call == "srecv"
	helperDone := make(chan struct{})
	switch {
	case server && c.Offer >= 0:
		go func() { // the client inside SendMsg
			defer close(helperDone)
			_ = cs.SendMsg(&testproto.UnaryRequest{Msg: word(c.Offer)})
		}()
	case server && c.Taker:
		go func() { // the client inside RecvMsg
			defer close(helperDone)
			_ = cs.RecvMsg(&testproto.UnaryResponse{})
		}()
	case c.Offer >= 0:
		go func() {
			defer close(helperDone)
			_ = ss.SendMsg(&testproto.UnaryResponse{Msg: word(c.Offer)})
		}()
	case c.Taker:
		go func() {
			defer close(helperDone)
			_ = ss.RecvMsg(&testproto.UnaryRequest{})
		}()
	default:
		close(helperDone)
	}
	var res string
	done := make(chan struct{})
	go func() {
		defer close(done)
		switch c.Call {
		case "recv":
			m := &testproto.UnaryResponse{}
			if err := cs.RecvMsg(m); err != nil {
				res = errEvent(err)
			} else {
				res = m.Msg
			}
		case "send":
			if err := cs.SendMsg(&testproto.UnaryRequest{Msg: "m1"}); err != nil {
				res = "serr"
			} else {
				res = "ok"
			}
		case "header":
			var md metadata.MD
			md, err := cs.Header()
			if err != nil {
				res = "herr"
			} else {
				res = "h" + canonMD(md)
			}
		case "trailer":
			res = "t" + canonMD(cs.Trailer())
		case "ssend":
			if err := ss.SendMsg(&testproto.UnaryResponse{Msg: "m2"}); err != nil {
				res = errEvent(err)
			} else {
				res = "ok"
			}
		case "srecv":
			m := &testproto.UnaryRequest{}
			if err := ss.RecvMsg(m); err == io.EOF {
				res = "eof"
			} else if err != nil {
				res = errEvent(err)
			} else {
				res = m.Msg
			}
		}
	}()
	select {
	case <-done:
	case <-time.After(bound):
		cancel() // release the blocked call and the helper
		exp.expire()
		select {
		case <-done:
		case <-time.After(2 * time.Second):
		}
		res = "blocks"
	}
	cancel()
	exp.expire()
	select {
	case <-helperDone:
	case <-time.After(2 * time.Second):
	}
	return res
}

// expiring: a context whose deadline the harness lets pass at a chosen point of the set-up.
type expiring struct {
	done chan struct{}
	once sync.Once
}

func (e *expiring) expire()                     { e.once.Do(func() { close(e.done) }) }
func (e *expiring) Deadline() (time.Time, bool) { return time.Unix(0, 0), true }
func (e *expiring) Done() <-chan struct{}       { return e.done }
func (e *expiring) Value(any) any               { return nil }
func (e *expiring) Err() error {
	select {
	case <-e.done:
		return context.DeadlineExceeded
	default:
		return nil
	}
}

func member(set, got string) bool {
	for _, t := range strings.Split(set, ";") {
		if t == got {
			return true
		}
	}
	return false
}

func runSelect(f lib.Flags, res *lib.Result, w *world, drv *lib.Driver) {
	tie := res.Tie("select-model", "K2",
		"exhaustive: set-up sequences on a bare wrap.ClientServerStream (6 header/trailer preludes x {live, cancelled, deadline passed, Close(err) for 9 classes of error value alone / after / before the cancel, Close after the deadline}) x one client call (RecvMsg, SendMsg, Header, Trailer), live streams also with a handler inside SendMsg / RecvMsg; plus every list of up to three call options (grpc.Header / grpc.Trailer on four variables, an ignored option) on a successful and a failing unary call through the bare connection, a generated wrapper and a typed client on UnwrapService (Lean Opts.lean collectMetadata: the caller's variables afterwards), plus wrap.UnwrapFully through the generated wrappers with 0-3 adapters stacked on them (Lean Unwrap.lean), plus the wait for the status after a single response (client-streaming calls through ServerToClient: handler returned each class of error value / parked with the caller cancelling / its deadline passing). Lean Select.lean lists what every READY select case returns after the same set-up run through the model's setHeader/sendHeader/abort/close: the real result is a member of that list, and the call blocks exactly when the list is empty; every case non-trivial")
	tie.Exhaustive = true
	if drv == nil {
		tie.Fail(fmt.Errorf("no Lean driver given"))
		return
	}
	cases := selCases()
	var q []string
	for _, c := range cases {
		q = append(q, c.args())
	}
	model, err := drv.Batch(q)
	if err != nil {
		tie.Fail(err)
		return
	}
	for i, c := range cases {
		got := selReal(c, 60*time.Millisecond)
		if got == "blocks" && model[i] != "blocks" {
			got = selReal(c, 2*time.Second) // a loaded machine: measure again with a generous bound before judging
		}
		code := got
		if member(model[i], got) {
			code = model[i]
		}
		tie.Record(c.args(), true, c, model[i], code)
		tie.Count("call:" + c.Call)
		if got == "blocks" {
			tie.Count("blocks")
		}
	}
	// wrap.UnwrapFully through the generated wrappers (one Unwrapper each) and k adapters stacked on them
	for _, name := range []string{"onoff", "info", "metadata"} {
		for k := 0; k <= 3; k++ {
			m, err := drv.Ask(fmt.Sprintf("unwrap %d", k+1))
			if err != nil {
				tie.Fail(err)
				return
			}
			tie.Record(fmt.Sprintf("unwrap %s %d", name, k), true, map[string]any{"service": name, "adapters": k}, m, unwrapReal(w.wrapEP, name, k))
			tie.Count("call:unwrap")
		}
	}
	runOptLists(tie, res, w, drv)
	// the wait for the status after the single response, through whole client-streaming calls
	type aw struct {
		setup string
		c     scase
		at    int
	}
	var aws []aw
	for _, fin := range []string{"OK", "E9:e0", "Pboom", "Z", "Y", "V5:e0", "U9:boom", "CX", "KD"} {
		aws = append(aws, aw{"Sa=1,C" + fin, scase{Shape: "cstream", Out: "-", Srv: "R,R,Sa=1,M7", Fin: fin, Cli: "s1,c,r"}, 2})
		aws = append(aws, aw{"x", scase{Shape: "cstream", Out: "-", Srv: "R,R,M7,G", Fin: fin, Cli: "s1,c,y,r"}, 3})
	}
	aws = append(aws, aw{"d", scase{Shape: "cstream", Out: "-", Srv: "R,R,M7,G", Fin: "OK", Cli: "s1,c,z,r"}, 3})
	for _, a := range aws {
		m, err := drv.Ask("select await " + a.setup + " - 0")
		if err != nil {
			tie.Fail(err)
			return
		}
		o := runCase(w.wrapEP, w.srv, a.c, false)
		if o.skip || len(o.client) <= a.at {
			continue
		}
		got := o.client[a.at]
		if got == "m7" {
			got = "deliver"
		}
		code := got
		if member(m, got) {
			code = m
		}
		tie.Record("await "+a.c.key(), true, a.c, m, code)
		tie.Count("call:await")
	}
}

// optsCall makes one unary call whose handler sets header a=1 and trailer b=2 (and answers, or fails with NotFound)
// with the given list of call options — h<i> = grpc.Header(&vars[i]), t<i> = grpc.Trailer(&vars[i]), o = an option
// the wrapper documents as ignored — and prints the caller's four variables afterwards.
func optsCall(ep *endpoint, srv *scripted, via string, list []string, fail bool) string {
	fin := "OK"
	ops := "R,Ha=1,Tb=2,M1"
	if fail {
		fin, ops = "E5:e0", "R,Ha=1,Tb=2"
	}
	cl := &call{ops: parseSrv(ops), fin: parseFin(fin), shape: "unary", gate: make(chan struct{}), done: make(chan struct{})}
	id := srv.register(cl)
	defer srv.calls.Delete(id)
	defer close(cl.gate)
	ctx, cancel := context.WithTimeout(metadata.NewOutgoingContext(context.Background(), metadata.Pairs("script-id", id)), opTimeout)
	defer cancel()
	var vars [4]metadata.MD
	var opts []grpc.CallOption
	for _, o := range list {
		switch o[0] {
		case 'h':
			opts = append(opts, grpc.Header(&vars[o[1]-'0']))
		case 't':
			opts = append(opts, grpc.Trailer(&vars[o[1]-'0']))
		default:
			opts = append(opts, grpc.WaitForReady(true))
		}
	}
	var err error
	if via != "" {
		_, _, _, err = viaSvcs[via].unary(ep.typed[via], ctx, 1, opts...)
	} else {
		err = ep.cc.Invoke(ctx, svc+"Unary", &testproto.UnaryRequest{Msg: "m1"}, &testproto.UnaryResponse{}, opts...)
	}
	if (err != nil) != fail {
		return "unexpected-result:" + errEvent(err)
	}
	var parts []string
	for i, v := range vars {
		if v == nil {
			parts = append(parts, fmt.Sprintf("%d=nil", i))
		} else {
			parts = append(parts, fmt.Sprintf("%d=%s", i, canonMD(v)))
		}
	}
	return strings.Join(parts, ";")
}

// runOptLists: every list of up to three call options over {Header(&v0), Header(&v1), Trailer(&v2), Trailer(&v3),
// an ignored option} on a unary call, successful and failing: bare ServerToClient connection and the generated
// onoff wrapper against the Lean collectMetadata (tie), and both against real gRPC (monitor).
func runOptLists(tie *lib.Tie, res *lib.Result, w *world, drv *lib.Driver) {
	mon := res.Monitor("call-options",
		"unary calls with every list of up to three call options (grpc.Header / grpc.Trailer on four variables, an ignored option), handler setting header and trailer metadata, successful and failing: the caller's variables after the call are the same through wrap.ServerToClient, through a generated trait wrapper and over real gRPC")
	alphabet := []string{"h0", "h1", "t2", "t3", "o"}
	lists := [][]string{{}}
	for n, from := 0, 0; n < 3; n++ {
		to := len(lists)
		for _, l := range lists[from:to] {
			for _, a := range alphabet {
				lists = append(lists, append(append([]string{}, l...), a))
			}
		}
		from = to
	}
	for _, l := range lists {
		m, err := drv.Ask("opts a=1 b=2 " + joinOps(l))
		if err != nil {
			tie.Fail(err)
			return
		}
		for _, fail := range []bool{false, true} {
			in := map[string]any{"options": joinOps(l), "fails": fail}
			key := fmt.Sprintf("opts %s %v", joinOps(l), fail)
			g := optsCall(w.grpcEP, w.srv, "", l, fail)
			for _, via := range []string{"", "onoff", "metadata+us"} {
				got := optsCall(w.wrapEP, w.srv, via, l, fail)
				tie.Record(key+" via="+via, true, in, m, got)
				tie.Count("call:options")
				mon.Eval(key+" via="+via, true, in)
				if got != g {
					site := "bare"
					if via != "" {
						site = "generated-wrapper"
					}
					mon.Violate("C13/unary/call-options/"+site, "the caller's grpc.Header / grpc.Trailer variables after a unary call differ between the wrapped server and real gRPC",
						map[string]any{"options": joinOps(l), "fails": fail, "via": via}, g, got)
				}
			}
		}
	}
}
