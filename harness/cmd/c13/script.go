package main

import (
	"context"
	"errors"
	"fmt"
	"io"
	"sort"
	"strconv"
	"strings"
	"time"

	"google.golang.org/grpc/codes"
	"google.golang.org/grpc/metadata"
	"google.golang.org/grpc/status"
)

// A case is one pair of rendezvous scripts for one call shape. The textual form is shared with the
// Lean driver (ScVerif/C13/Drv.lean):
//
//	shape : unary | unaryS | sstream | cstream | bidi   (unaryS = the unary method driven through NewStream)
//	out   : client outgoing metadata, "-" or k=v+k=v; "~" = the caller's context carries NO outgoing metadata at all
//	ctx   : what else the caller's context carries: "-" or comma separated
//	          I<md> incoming metadata (the caller is itself serving a request)   D a far deadline
//	          P a peer and an application value (request-scoped values of the caller's own request)
//	          K<n> the context the script cancels / whose deadline passes ends WITH A CAUSE (WithCancelCause,
//	          WithTimeoutCause) of kind n (causeErr)   A<n> the same on an ancestor of the call's context
//	srv   : server handler ops, comma separated, "-" for none
//	          H<md> SetHeader   S<md> SendHeader   T<md> SetTrailer   M<n> send message n   R receive
//	          W block until the call's context ends (a handler waiting on its own event source)
//	          E SetHeader(the request metadata the handler sees): a handler whose behaviour depends on its context
//	fin   : what the handler returns: OK | E<code>:<word> (status error) | P<word> (plain, non-status error)
//	cli   : client ops, comma separated
//	          s<n> send message n   c CloseSend   r RecvMsg   h Header()   t Trailer()   x cancel ctx   d wait for deadline
//	          w (after x, real runs only; not sent to the model) wait until the handler has returned: the client's
//	            next read happens after the handler has unwound from the abort instead of racing with it
//	          y the caller's context is cancelled FROM THE SIDE while the client is inside its next op (fired once the
//	            handler is parked: W or G)   z the same for the deadline: it passes while the client is inside its next op
//	srv op G (real runs only): the handler does work of its own that does NOT watch the call's context — parked until
//	            the client script is over, then it goes on with its script and returns what `fin` says
type scase struct {
	Shape string `json:"shape"`
	Out   string `json:"out"`
	Srv   string `json:"srv"`
	Fin   string `json:"fin"`
	Cli   string `json:"cli"`
	Ctx   string `json:"ctx,omitempty"`
	// options of the real run only (the model has no counterpart: see the trusted base):
	// Amp: the handler derives Amp*1000 child contexts from the call's context right before it returns
	// (a handler with per-item worker contexts) — cancelling the stream context then takes long enough for
	// the internal order of Close to become observable by a client parked in RecvMsg.
	// Reuse: both sides reuse one message object for all their sends and overwrite it right after SendMsg returns
	// (modelled: the driver gets the flag; the legacy model answers with the overwritten payload 99).
	// Async: the client's cancel is NOT held back until the handler is quiescent: it fires at its script
	// position whatever is in flight (compared with the model's SET of possible transcripts).
	// Pass: one side's message TYPE is not the other's (pass.go: empty | other | wide): a real connection carries
	// bytes, so fields the receiver's type does not declare survive as unknown fields; messages are read back from
	// their re-encoding. The model's messages are payload numbers: the transcript must be the one without the option.
	// Watch: the handler ties a helper goroutine to its context right before it returns (a subscription clean-up,
	// `go func() { <-ctx.Done(); … }()`): a real gRPC server ends the handler's context when the handler returns, so the
	// helper ends with the call whatever the caller does with its own context afterwards.
	Watch bool `json:"watch,omitempty"`
	// Abandon: the client's cancel (op x) waits until the handler is INSIDE SendMsg with nobody receiving — the client has
	// stopped reading — and the client makes no further call (wrapper only: over gRPC that send is buffered).
	Abandon bool   `json:"abandon,omitempty"`
	Async   bool   `json:"async,omitempty"`
	Amp     int    `json:"amp,omitempty"`
	Reuse   bool   `json:"reuse,omitempty"`
	Pass    string `json:"pass,omitempty"`
	// Via: the call is made with the typed client of a GENERATED trait wrapper (via.go: onoff | info | metadata) instead
	// of a bare wrap.ServerToClient connection to TestApi — unary and server-streaming scripts only.
	Via string `json:"via,omitempty"`
}

func (c scase) key() string {
	k := fmt.Sprintf("%s amp=%d async=%v", c.args(), c.Amp, c.Async)
	if strings.ContainsAny(c.Cli, "wyz") {
		k += " cli=" + c.Cli
	}
	if c.Via != "" {
		k += " via=" + c.Via
	}
	if c.Pass != "" {
		k += " pass=" + c.Pass
	}
	if c.Watch {
		k += " watch"
	}
	if c.Abandon {
		k += " abandon"
	}
	return k
}

func (c scase) args() string {
	r := "0"
	if c.Reuse {
		r = "1"
	}
	return c.Shape + " " + c.Out + " " + c.Srv + " " + c.Fin + " " + modelCli(c.Cli) + " " + r + " " + c.ctx()
}

// modelCli drops the scheduling op `w` (the model's answer does not depend on how far the handler has unwound).
func modelCli(cli string) string {
	if !strings.Contains(cli, "w") {
		return cli
	}
	var out []string
	for _, op := range splitOps(cli) {
		if op != "w" {
			out = append(out, op)
		}
	}
	return joinOps(out)
}

func (c scase) ctx() string {
	if c.Ctx == "" {
		return "-"
	}
	return c.Ctx
}

// callerCtx is the parsed form of scase.Ctx.
type callerCtx struct {
	hasIn    bool
	in       []pair
	deadline bool
	values   bool
	// the call's context ends WITH A CAUSE (context.WithCancelCause / WithTimeoutCause): 'K' = the context the call
	// is made with, 'A' = an ancestor of it; causeKind = which error (causeErr). 0 = plain contexts.
	causeAt   byte
	causeKind int
}

// causeErr: the cause a caller gives for ending its context. kind 0: an error of its own, 1: a status error,
// 2: an error wrapping the OTHER context error (a cancel explained by an upstream deadline and vice versa).
func causeErr(kind int, deadline bool) error {
	switch kind {
	case 1:
		return status.Error(codes.NotFound, "gone")
	case 2:
		if deadline {
			return fmt.Errorf("upstream: %w", context.Canceled)
		}
		return fmt.Errorf("upstream: %w", context.DeadlineExceeded)
	}
	return errors.New("operator gave up")
}

// endable gives a context derived from parent that the script can end: by cancel(), or by its deadline when
// timeout > 0 — plain (WithCancel / WithTimeout), or with a cause given for either end, on the context itself or
// on an ancestor of the context returned.
func (cc callerCtx) endable(parent context.Context, timeout time.Duration) (context.Context, context.CancelFunc) {
	if cc.causeAt == 0 {
		if timeout > 0 {
			return context.WithTimeout(parent, timeout)
		}
		return context.WithCancel(parent)
	}
	var ctx context.Context
	var cancel context.CancelFunc
	if timeout > 0 {
		var stop context.CancelFunc
		ctx, stop = context.WithTimeoutCause(parent, timeout, causeErr(cc.causeKind, true))
		cancel = stop
	} else {
		var cancelCause context.CancelCauseFunc
		ctx, cancelCause = context.WithCancelCause(parent)
		cancel = func() { cancelCause(causeErr(cc.causeKind, false)) }
	}
	if cc.causeAt == 'A' {
		child, cancelChild := context.WithCancel(context.WithValue(ctx, appKey2{}, 1))
		anc := cancel
		return child, func() { anc(); cancelChild() }
	}
	return ctx, cancel
}

type appKey2 struct{}

func parseCtx(s string) callerCtx {
	var cc callerCtx
	if s == "" || s == "-" {
		return cc
	}
	for _, t := range strings.Split(s, ",") {
		switch {
		case t == "D":
			cc.deadline = true
		case t == "P":
			cc.values = true
		case len(t) == 2 && (t[0] == 'K' || t[0] == 'A') && t[1] >= '0' && t[1] <= '2':
			cc.causeAt, cc.causeKind = t[0], int(t[1]-'0')
		case strings.HasPrefix(t, "I"):
			cc.hasIn = true
			cc.in = parseMD(t[1:])
		default:
			panic("bad ctx item " + t)
		}
	}
	return cc
}

// userMD drops the transport's own keys (what canonMD does not print).
func userMD(md metadata.MD) metadata.MD {
	out := metadata.MD{}
	for k, v := range md {
		if internalKeys[k] || strings.HasPrefix(k, ":") {
			continue
		}
		out[k] = append([]string(nil), v...)
	}
	return out
}

type pair struct{ k, v string }

func parseMD(s string) []pair {
	if s == "" || s == "-" {
		return nil
	}
	var out []pair
	for _, kv := range strings.Split(s, "+") {
		i := strings.IndexByte(kv, '=')
		if i <= 0 {
			panic("bad md " + s)
		}
		out = append(out, pair{kv[:i], kv[i+1:]})
	}
	return out
}

func toMD(ps []pair) metadata.MD {
	md := metadata.MD{}
	for _, p := range ps {
		md[p.k] = append(md[p.k], p.v)
	}
	return md
}

// grpc-internal keys never compared (only user keys are part of the property)
var internalKeys = map[string]bool{
	"content-type": true, "user-agent": true, ":authority": true, "grpc-accept-encoding": true,
	"grpc-encoding": true, "grpc-timeout": true, "te": true, ":method": true, ":path": true, ":scheme": true,
	"grpc-status": true, "grpc-message": true, "grpc-status-details-bin": true, "script-id": true,
	"accept-encoding": true, "grpc-previous-rpc-attempts": true, "grpc-retry-pushback-ms": true,
}

// canonMD prints user metadata sorted by key, values of one key in order.
func canonMD(md metadata.MD) string {
	keys := make([]string, 0, len(md))
	for k := range md {
		if internalKeys[k] || strings.HasPrefix(k, ":") {
			continue
		}
		keys = append(keys, k)
	}
	sort.Strings(keys)
	var parts []string
	for _, k := range keys {
		for _, v := range md[k] {
			parts = append(parts, k+"="+v)
		}
	}
	return "{" + strings.Join(parts, "+") + "}"
}

type sop struct {
	K  byte
	MD []pair
	N  int
}

type cop struct {
	K byte
	N int
}

func splitOps(s string) []string {
	if s == "" || s == "-" {
		return nil
	}
	return strings.Split(s, ",")
}

func parseSrv(s string) []sop {
	var out []sop
	for _, t := range splitOps(s) {
		switch t[0] {
		case 'H', 'S', 'T':
			out = append(out, sop{K: t[0], MD: parseMD(t[1:])})
		case 'M':
			n, err := strconv.Atoi(t[1:])
			if err != nil {
				panic("bad srv op " + t)
			}
			out = append(out, sop{K: 'M', N: n})
		case 'R', 'W', 'E', 'G':
			out = append(out, sop{K: t[0]})
		default:
			panic("bad srv op " + t)
		}
	}
	return out
}

func parseCli(s string) []cop {
	var out []cop
	for _, t := range splitOps(s) {
		switch t[0] {
		case 's':
			n, err := strconv.Atoi(t[1:])
			if err != nil {
				panic("bad cli op " + t)
			}
			out = append(out, cop{K: 's', N: n})
		case 'c', 'r', 'h', 't', 'x', 'd', 'w', 'y', 'z':
			out = append(out, cop{K: t[0]})
		default:
			panic("bad cli op " + t)
		}
	}
	return out
}

type fin struct {
	Kind byte // what the handler returns: see parseFin
	Code int
	Msg  string
}

// parseFin: the error VALUE the handler returns, by class (how a gRPC server turns each into the call's status is
// the oracle finEvent; the wrapper has to end the call the same way):
//
//	OK            nil
//	E<code>:<w>   status.Error(code, w)
//	P<w>          errors.New(w)                                   a plain error
//	V<code>:<w>   fmt.Errorf("w: %w", status.Error(code, w))       a status error WRAPPED by an annotating caller
//	U<code>:<w>   a custom error type (Error() = w, Unwrap()) around a %w-wrapped status error: two levels
//	CX | CD       context.Canceled | context.DeadlineExceeded      returned by the handler on its own
//	KX | KD       fmt.Errorf("w: %w", <context error>)
//	Z             io.EOF (typically the EOF of the handler's own Recv handed on)
//	Y             fmt.Errorf("w: %w", io.EOF)
func parseFin(s string) fin {
	codeMsg := func(k byte) fin {
		i := strings.IndexByte(s, ':')
		if i < 0 {
			panic("bad fin " + s)
		}
		c, err := strconv.Atoi(s[1:i])
		if err != nil {
			panic("bad fin " + s)
		}
		return fin{Kind: k, Code: c, Msg: s[i+1:]}
	}
	switch {
	case s == "OK":
		return fin{Kind: 'O'}
	case s == "CX", s == "CD", s == "KX", s == "KD":
		return fin{Kind: s[0], Msg: s[1:]}
	case s == "Z", s == "Y":
		return fin{Kind: s[0]}
	case strings.HasPrefix(s, "E"), strings.HasPrefix(s, "V"), strings.HasPrefix(s, "U"):
		return codeMsg(s[0])
	case strings.HasPrefix(s, "P"):
		return fin{Kind: 'P', Msg: s[1:]}
	}
	panic("bad fin " + s)
}

// annotated: an error type of the handler's own that carries a cause.
type annotated struct {
	msg   string
	cause error
}

func (a *annotated) Error() string { return a.msg }
func (a *annotated) Unwrap() error { return a.cause }

func (f fin) err() error {
	ctxErr := func() error {
		if f.Msg == "D" {
			return context.DeadlineExceeded
		}
		return context.Canceled
	}
	switch f.Kind {
	case 'E':
		return status.Error(codes.Code(f.Code), f.Msg)
	case 'P':
		return errors.New(f.Msg)
	case 'V':
		return fmt.Errorf("w: %w", status.Error(codes.Code(f.Code), f.Msg))
	case 'U':
		return &annotated{msg: f.Msg, cause: fmt.Errorf("w: %w", status.Error(codes.Code(f.Code), "inner"))}
	case 'C':
		return ctxErr()
	case 'K':
		return fmt.Errorf("w: %w", ctxErr())
	case 'Z':
		return io.EOF
	case 'Y':
		return fmt.Errorf("w: %w", io.EOF)
	}
	return nil
}

// finEvent: the terminal event a client must see for what the handler returned — the rule of a gRPC server written
// out by hand (independent of grpc's status package and of the model): a status error, also one reachable through
// Unwrap, keeps its code (the text is that of the outermost error); a context error is Canceled / DeadlineExceeded
// (compared by class); anything else, io.EOF included, is Unknown with the error's text.
func (f fin) finEvent() string {
	switch f.Kind {
	case 'O':
		return "F0:"
	case 'E', 'U':
		return "F" + strconv.Itoa(f.Code) + ":" + f.Msg
	case 'V':
		return "F" + strconv.Itoa(f.Code) + ":w: rpc error: code = " + codes.Code(f.Code).String() + " desc = " + f.Msg
	case 'P':
		return "F2:" + f.Msg
	case 'C', 'K':
		return f.Msg // "X" | "D"
	case 'Z':
		return "F2:EOF"
	case 'Y':
		return "F2:w: EOF"
	}
	return "?"
}

func joinOps(xs []string) string {
	if len(xs) == 0 {
		return "-"
	}
	return strings.Join(xs, ",")
}

func mdText(ps []pair) string {
	var parts []string
	for _, p := range ps {
		parts = append(parts, p.k+"="+p.v)
	}
	return strings.Join(parts, "+")
}

func (c scase) String() string {
	s := fmt.Sprintf("%s out=%s ctx=%s srv=%s fin=%s cli=%s", c.Shape, c.Out, c.ctx(), c.Srv, c.Fin, c.Cli)
	if c.Pass != "" {
		s += " pass=" + c.Pass
	}
	if c.Via != "" {
		s += " via=" + c.Via
	}
	return s
}
