package main

import (
	"context"
	"errors"
	"fmt"
	"io"
	"strconv"
	"strings"
	"sync"
	"sync/atomic"
	"time"

	"google.golang.org/grpc"
	"google.golang.org/grpc/codes"
	"google.golang.org/grpc/metadata"
	"google.golang.org/grpc/status"
	"google.golang.org/protobuf/proto"

	"github.com/smart-core-os/sc-golang/internal/testproto"
)

// call is the server-side view of one scripted RPC. The script is found through the "script-id"
// request metadata, so one server value serves the wrapper and the bufconn gRPC server alike.
type call struct {
	ops   []sop
	fin   fin
	amp   int    // derive amp*1000 child contexts before returning
	reuse bool   // reuse one response object for all sends, overwrite it after each send
	pass  string // pass-through mode (pass.go): "wide" = the requests carry a field the handler's type does not declare
	shape string
	gate  chan struct{} // closed by the client driver once the client script has finished
	done  chan struct{} // closed when the handler returns

	phase    atomic.Int32  // 0 running, 1 blocked in recv, 2 blocked in wait, 3 returned
	nrecvd   atomic.Int32  // messages the handler has received so far
	entered  atomic.Bool   // the handler has started (over gRPC a call cancelled at once may never reach it)
	parked   atomic.Bool   // the handler has reached a W or G op
	sending  atomic.Bool   // the handler is inside SendMsg
	watch    bool          // start a helper goroutine tied to the handler's context right before returning
	released chan struct{} // closed by that helper when the handler's context has ended

	mu    sync.Mutex
	log   []string
	recvd []proto.Message // messages as the handler received them (handler's own objects)
	sent  []proto.Message // messages as the handler sent them
}

func (c *call) logf(s string) {
	c.mu.Lock()
	c.log = append(c.log, s)
	c.mu.Unlock()
}

func (c *call) serverLog() string {
	c.mu.Lock()
	defer c.mu.Unlock()
	return strings.Join(c.log, ",")
}

type scripted struct {
	testproto.UnimplementedTestApiServer
	calls  sync.Map
	nextID atomic.Int64
	// anon: the script of the one call in progress whose caller's context carries no outgoing metadata at all
	// (so no script-id can travel). Calls are run one at a time; only scripts without cancel / deadline use it,
	// so no late handler of an earlier call can pick up a later call's script.
	anon atomic.Pointer[call]
}

func (s *scripted) register(c *call) string {
	id := strconv.FormatInt(s.nextID.Add(1), 10)
	s.calls.Store(id, c)
	return id
}

func (s *scripted) lookup(ctx context.Context) (*call, error) {
	md, _ := metadata.FromIncomingContext(ctx)
	ids := md.Get("script-id")
	var c *call
	switch {
	case len(ids) == 1:
		v, ok := s.calls.Load(ids[0])
		if !ok {
			return nil, status.Error(codes.FailedPrecondition, "unknown script-id")
		}
		c = v.(*call)
	case len(ids) == 0 && s.anon.Load() != nil:
		c = s.anon.Load()
	default:
		return nil, status.Error(codes.FailedPrecondition, "no script-id")
	}
	c.entered.Store(true)
	// what the handler sees of its context: the request metadata, whether there is a deadline, and the
	// outgoing metadata of its own context (what a downstream call made with this context would transmit)
	c.logf("in" + canonMD(md))
	if _, ok := ctx.Deadline(); ok {
		c.logf("dl")
	}
	if omd, _ := metadata.FromOutgoingContext(ctx); canonMD(omd) != "{}" {
		c.logf("o" + canonMD(omd))
	}
	return c, nil
}

// sio is what a scripted handler can do, per call shape.
type sio interface {
	ctx() context.Context
	setHeader(metadata.MD) error
	sendHeader(metadata.MD) error
	setTrailer(metadata.MD)
	send(n int) (proto.Message, error)
	recv() (int, proto.Message, error)
	sendAny(m proto.Message) error // ServerStream.SendMsg with a message of any type (nil: the API has none)
}

// got: the payload of a request as the handler has it. With a pass-through client it is read from the message's
// re-encoding (a handler that stores or forwards its request), which shows fields its type does not declare.
func (c *call) got(typed int, m proto.Message) string {
	if c.pass == "" || m == nil {
		return strconv.Itoa(typed)
	}
	return wirePayload(m, c.shape == "sstream", c.pass == "wide")
}

// abort: one of the handler's blocking calls failed because the call's context ended (client cancel /
// deadline). Like most real handlers the scripted one returns the error it was given.
func (c *call) abort(err error) error {
	c.logf("abort")
	return err
}

func (c *call) run(io_ sio) error {
	defer close(c.done)
	defer c.phase.Store(3)
	ctx := io_.ctx()
	for _, op := range c.ops {
		switch op.K {
		case 'H':
			if err := io_.setHeader(toMD(op.MD)); err != nil {
				c.logf("Herr")
			}
		case 'E':
			// the request metadata as the handler's context gives it NOW (the client may have changed its own
			// outgoing metadata map since it opened the call: that must not show here)
			now, _ := metadata.FromIncomingContext(ctx)
			if err := io_.setHeader(userMD(now)); err != nil {
				c.logf("Herr")
			}
		case 'S':
			if err := io_.sendHeader(toMD(op.MD)); err != nil {
				c.logf("Serr")
			}
		case 'T':
			io_.setTrailer(toMD(op.MD))
		case 'M':
			var m proto.Message
			var err error
			c.sending.Store(true)
			if handlerSendsWide(c.shape, c.pass) {
				err = io_.sendAny(wideMsg(c.shape == "sstream", op.N))
			} else {
				m, err = io_.send(op.N)
			}
			c.sending.Store(false)
			if err != nil {
				return c.abort(err)
			}
			if m != nil {
				c.mu.Lock()
				c.sent = append(c.sent, m)
				c.mu.Unlock()
			}
		case 'G':
			// work of the handler's own that does not watch the call's context: parked until the client script is over
			c.parked.Store(true)
			c.phase.Store(2)
			select {
			case <-c.gate:
			case <-time.After(5 * time.Second):
				c.logf("gate-expired")
			}
			c.phase.Store(0)
		case 'W':
			c.parked.Store(true)
			c.phase.Store(2)
			select {
			case <-ctx.Done():
			case <-time.After(5 * time.Second):
				c.logf("wait-expired")
			}
			return c.abort(status.FromContextError(ctx.Err()).Err())
		case 'R':
			c.phase.Store(1)
			n, m, err := io_.recv()
			c.phase.Store(0)
			if err == nil {
				c.nrecvd.Add(1)
			}
			if err == io.EOF {
				c.logf("eof")
			} else if err != nil {
				return c.abort(err)
			} else {
				c.logf("g" + c.got(n, m))
				c.mu.Lock()
				c.recvd = append(c.recvd, m)
				c.mu.Unlock()
			}
		}
	}
	if c.amp > 0 {
		deriveChildren(ctx, c.amp*1000)
	}
	if c.watch {
		go func() {
			<-ctx.Done()
			close(c.released)
		}()
	}
	return c.fin.err()
}

// deriveChildren: what a handler with per-item worker contexts does. The children are kept alive
// until the call's context ends and are then released.
func deriveChildren(ctx context.Context, n int) {
	cancels := make([]context.CancelFunc, 0, n)
	for i := 0; i < n; i++ {
		_, cancel := context.WithCancel(ctx)
		cancels = append(cancels, cancel)
	}
	go func() {
		<-ctx.Done()
		for _, cancel := range cancels {
			cancel()
		}
	}()
}

func word(n int) string { return "m" + strconv.Itoa(n) }

func unword(s string) int {
	n, err := strconv.Atoi(strings.TrimPrefix(s, "m"))
	if err != nil {
		return -1
	}
	return n
}

// --- unary ---------------------------------------------------------------------------------------

type unaryIO struct {
	c     context.Context
	req   *testproto.UnaryRequest
	first bool
	res   *testproto.UnaryResponse
}

func (u *unaryIO) ctx() context.Context            { return u.c }
func (u *unaryIO) setHeader(md metadata.MD) error  { return grpc.SetHeader(u.c, md) }
func (u *unaryIO) sendHeader(md metadata.MD) error { return grpc.SendHeader(u.c, md) }
func (u *unaryIO) setTrailer(md metadata.MD)       { _ = grpc.SetTrailer(u.c, md) }
func (u *unaryIO) send(n int) (proto.Message, error) {
	u.res = &testproto.UnaryResponse{Msg: word(n)}
	return u.res, nil
}
func (u *unaryIO) sendAny(proto.Message) error {
	return errors.New("a unary handler returns its typed response")
}
func (u *unaryIO) recv() (int, proto.Message, error) {
	if !u.first {
		u.first = true
		return unword(u.req.Msg), u.req, nil
	}
	return 0, nil, io.EOF
}

func (s *scripted) Unary(ctx context.Context, req *testproto.UnaryRequest) (*testproto.UnaryResponse, error) {
	c, err := s.lookup(ctx)
	if err != nil {
		return nil, err
	}
	u := &unaryIO{c: ctx, req: req}
	if err := c.run(u); err != nil {
		return nil, err
	}
	if u.res == nil {
		return nil, status.Error(codes.Internal, "script gave no response")
	}
	return u.res, nil
}

// --- server stream -------------------------------------------------------------------------------

type sstreamIO struct {
	st    grpc.ServerStreamingServer[testproto.ServerStreamResponse]
	req   *testproto.ServerStreamRequest
	first bool
	reuse *testproto.ServerStreamResponse
}

func (u *sstreamIO) ctx() context.Context            { return u.st.Context() }
func (u *sstreamIO) setHeader(md metadata.MD) error  { return u.st.SetHeader(md) }
func (u *sstreamIO) sendHeader(md metadata.MD) error { return u.st.SendHeader(md) }
func (u *sstreamIO) setTrailer(md metadata.MD)       { u.st.SetTrailer(md) }
func (u *sstreamIO) send(n int) (proto.Message, error) {
	if u.reuse != nil {
		u.reuse.Counter = int32(n)
		err := u.st.Send(u.reuse)
		u.reuse.Counter = 99 // the handler goes on using its object
		return nil, err
	}
	m := &testproto.ServerStreamResponse{Counter: int32(n)}
	return m, u.st.Send(m)
}
func (u *sstreamIO) sendAny(m proto.Message) error { return u.st.SendMsg(m) }
func (u *sstreamIO) recv() (int, proto.Message, error) {
	if !u.first {
		u.first = true
		return int(u.req.NumRes), u.req, nil
	}
	return 0, nil, io.EOF
}

func (s *scripted) ServerStream(req *testproto.ServerStreamRequest, st grpc.ServerStreamingServer[testproto.ServerStreamResponse]) error {
	c, err := s.lookup(st.Context())
	if err != nil {
		return err
	}
	io_ := &sstreamIO{st: st, req: req}
	if c.reuse {
		io_.reuse = &testproto.ServerStreamResponse{}
	}
	return c.run(io_)
}

// --- client stream -------------------------------------------------------------------------------

type cstreamIO struct {
	st grpc.ClientStreamingServer[testproto.ClientStreamRequest, testproto.ClientStreamResponse]
}

func (u *cstreamIO) ctx() context.Context            { return u.st.Context() }
func (u *cstreamIO) setHeader(md metadata.MD) error  { return u.st.SetHeader(md) }
func (u *cstreamIO) sendHeader(md metadata.MD) error { return u.st.SendHeader(md) }
func (u *cstreamIO) setTrailer(md metadata.MD)       { u.st.SetTrailer(md) }
func (u *cstreamIO) send(n int) (proto.Message, error) {
	m := &testproto.ClientStreamResponse{Msg: word(n)}
	return m, u.st.SendAndClose(m)
}
func (u *cstreamIO) sendAny(m proto.Message) error { return u.st.SendMsg(m) }
func (u *cstreamIO) recv() (int, proto.Message, error) {
	m, err := u.st.Recv()
	if err != nil {
		return 0, nil, err
	}
	return unword(m.Msg), m, nil
}

func (s *scripted) ClientStream(st grpc.ClientStreamingServer[testproto.ClientStreamRequest, testproto.ClientStreamResponse]) error {
	c, err := s.lookup(st.Context())
	if err != nil {
		return err
	}
	return c.run(&cstreamIO{st: st})
}

// --- bidi ----------------------------------------------------------------------------------------

type bidiIO struct {
	st    grpc.BidiStreamingServer[testproto.BidiStreamRequest, testproto.BidiStreamResponse]
	reuse *testproto.BidiStreamResponse
}

func (u *bidiIO) ctx() context.Context            { return u.st.Context() }
func (u *bidiIO) setHeader(md metadata.MD) error  { return u.st.SetHeader(md) }
func (u *bidiIO) sendHeader(md metadata.MD) error { return u.st.SendHeader(md) }
func (u *bidiIO) setTrailer(md metadata.MD)       { u.st.SetTrailer(md) }
func (u *bidiIO) send(n int) (proto.Message, error) {
	if u.reuse != nil {
		u.reuse.Msg = word(n)
		err := u.st.Send(u.reuse)
		u.reuse.Msg = "m99"
		return nil, err
	}
	m := &testproto.BidiStreamResponse{Msg: word(n)}
	return m, u.st.Send(m)
}
func (u *bidiIO) sendAny(m proto.Message) error { return u.st.SendMsg(m) }
func (u *bidiIO) recv() (int, proto.Message, error) {
	m, err := u.st.Recv()
	if err != nil {
		return 0, nil, err
	}
	return unword(m.Msg), m, nil
}

func (s *scripted) BidiStream(st grpc.BidiStreamingServer[testproto.BidiStreamRequest, testproto.BidiStreamResponse]) error {
	c, err := s.lookup(st.Context())
	if err != nil {
		return err
	}
	io_ := &bidiIO{st: st}
	if c.reuse {
		io_.reuse = &testproto.BidiStreamResponse{}
	}
	return c.run(io_)
}

var _ = fmt.Sprint
