// Harness for C13 (the in-process wrapper is indistinguishable from a real gRPC connection).
//
// Two K1 ties and the property's monitor:
//   - wrap-model : Lean Wrap.run      vs the real wrap.ServerToClient connection
//   - grpc-model : Lean GrpcRef.run   vs a real gRPC server/client pair over bufconn
//   - monitor    : the two REAL transcripts compared directly (this is the property), goroutines
//     back to baseline after each wrapper call, messages copied across the boundary,
//     unknown method / shape mismatch codes.
package main

import (
	"context"
	"encoding/json"
	"fmt"
	"net"
	"os"
	"runtime"
	"strings"

	"github.com/smart-core-os/sc-api/go/traits"
	"google.golang.org/grpc"
	"google.golang.org/grpc/credentials/insecure"
	"google.golang.org/grpc/test/bufconn"
	"google.golang.org/protobuf/proto"

	"github.com/smart-core-os/sc-golang/internal/testproto"
	"github.com/smart-core-os/sc-golang/pkg/wrap"
	"github.com/smart-core-os/sc-golang/verifharness/lib"
)

type world struct {
	srv     *scripted
	wrapCC  grpc.ClientConnInterface
	grpcCC  *grpc.ClientConn
	wrapEP  *endpoint // wrapCC + the generated trait wrappers of the sampled services
	grpcEP  *endpoint // grpcCC + typed gRPC clients of the same services
	cleanup func()
}

func newWorld() *world {
	w := &world{srv: &scripted{}}
	w.wrapCC = wrap.ServerToClient(testproto.TestApi_ServiceDesc, w.srv)
	lis := bufconn.Listen(1 << 20)
	gs := grpc.NewServer()
	testproto.RegisterTestApiServer(gs, w.srv)
	registerTraits(gs, w.srv)
	go func() { _ = gs.Serve(lis) }()
	cc, err := grpc.NewClient("passthrough:///bufnet",
		grpc.WithContextDialer(func(ctx context.Context, _ string) (net.Conn, error) { return lis.DialContext(ctx) }),
		grpc.WithTransportCredentials(insecure.NewCredentials()))
	if err != nil {
		lib.Fatal(err)
	}
	w.grpcCC = cc
	w.wrapEP = wrapEndpoint(w.srv, w.wrapCC)
	w.grpcEP = grpcEndpoint(cc)
	w.cleanup = func() { cc.Close(); gs.Stop() }
	return w
}

func main() {
	f := lib.ParseFlags()
	if f.Replay != "" {
		os.Exit(replay(f))
	}
	res := lib.NewResult("C13", f)
	w := newWorld()
	defer w.cleanup()
	var drv *lib.Driver
	if f.Driver != "" {
		d, err := lib.StartDriver(f.Driver)
		if err != nil {
			lib.Fatal(err)
		}
		drv = d
		defer drv.Close()
	}
	runScripts(f, res, w, drv)
	runOpen(f, res, w, drv)
	runSelect(f, res, w, drv)
	runInvoke(f, res, w, drv)
	runChain(f, res, w, drv)
	if err := res.Write(f.Out); err != nil {
		lib.Fatal(err)
	}
}

// firstDiff classifies the first difference between two client transcripts.
func firstDiff(a, b []string) string {
	n := len(a)
	if len(b) < n {
		n = len(b)
	}
	for i := 0; i < n; i++ {
		if a[i] != b[i] {
			return evKind(a[i]) + "-vs-" + evKind(b[i])
		}
	}
	if len(a) != len(b) {
		return "length"
	}
	return ""
}

// diffAfterAbort: the two transcripts agree up to and including the client's own abort event.
func diffAfterAbort(a, b []string) bool {
	for i := 0; i < len(a) && i < len(b); i++ {
		if a[i] != b[i] {
			return false
		}
		if a[i] == "x" || a[i] == "d" {
			return true
		}
	}
	return false
}

func evKind(e string) string {
	switch {
	case e == "ok" || e == "serr":
		return "send"
	case e == "cl" || e == "clerr":
		return "closesend"
	case e == "X":
		return "cancelled"
	case e == "D":
		return "deadline"
	case e == "TO":
		return "hang"
	case strings.HasPrefix(e, "open:"):
		return "open-error"
	case strings.HasPrefix(e, "F0:"):
		return "end-ok"
	case strings.HasPrefix(e, "F"):
		return "status"
	case strings.HasPrefix(e, "m"):
		return "message"
	case strings.HasPrefix(e, "h"):
		return "header"
	case strings.HasPrefix(e, "t"):
		return "trailer"
	}
	return "other"
}

// checkCase evaluates the property on one script pair: wrapper vs bufconn gRPC, plus leak and copy.
func checkCase(w *world, mon *lib.Monitor, c scase) (ow, og outcome) {
	if strings.ContainsAny(c.Cli, "dz") {
		// a script that waits for the caller's deadline is a pure wait on both transports: the two runs are made side
		// by side (each has its own call record; such scripts never use the anonymous slot). The goroutine count is
		// taken around both; only if it does not come back is the wrapper run again on its own, with its own count.
		base := runtime.NumGoroutine()
		ch := make(chan outcome, 1)
		go func() { ch <- runCase(w.grpcEP, w.srv, c, false) }()
		ow = runCase(w.wrapEP, w.srv, c, false)
		og = <-ch
		if !ow.skip && !og.skip && !og.timedOut && c.Amp == 0 && settle(base) > 0 {
			ow = runCase(w.wrapEP, w.srv, c, true)
		}
	} else {
		ow = runCase(w.wrapEP, w.srv, c, true)
		og = runCase(w.grpcEP, w.srv, c, false)
	}
	if og.skip || ow.skip {
		og.timedOut = true
		mon.Count("skipped:too-slow-for-deadline")
		return
	}
	if og.timedOut {
		// the reference transport itself did not complete: the case is outside the hypothesis (or the
		// machine is overloaded); nothing is concluded from it
		mon.Count("skipped:grpc-incomplete")
		return
	}
	mon.Eval(c.key(), true, map[string]any{"case": c, "wrapper": ow.text(), "grpc": og.text()})
	mon.Count("shape:" + c.Shape)
	if c.Pass != "" {
		mon.Count("pass:" + c.Pass)
	}
	if d := firstDiff(ow.client, og.client); d != "" {
		site := "client-transcript"
		if diffAfterAbort(ow.client, og.client) {
			site = "after-abort" // the first difference lies behind the client's own cancel / deadline
		}
		mon.Violate("C13/"+c.Shape+"/"+site+"/"+d,
			"a client of the wrapped server observes something else than over a real gRPC connection (wrapper-vs-grpc, first difference)",
			c, og.text(), ow.text())
	} else if ow.server != og.server {
		mon.Violate("C13/"+c.Shape+"/server-view",
			"the handler observed different inputs / header-call results under the wrapper than under gRPC",
			c, og.server, ow.server)
	}
	for _, o := range []struct {
		name string
		out  outcome
	}{{"wrapper", ow}, {"grpc", og}} {
		if o.out.helperLeft {
			mon.Violate("C13/"+c.Shape+"/goroutine-left/handler-context-live-after-return",
				"the call has finished and the handler has returned, but the handler's context has not ended ("+o.name+"): a goroutine the handler tied to its context stays behind for as long as the caller's context lives",
				c, "handler's context ended", "still live after "+patience.String())
		}
	}
	if ow.leak > 0 && !ow.helperLeft {
		mon.Violate("C13/"+c.Shape+"/goroutine-left",
			"goroutines above the baseline after the wrapped call finished or was cancelled",
			c, "0", fmt.Sprint(ow.leak))
	}
	if !c.Reuse && c.Pass == "" {
		checkCopy(mon, c, ow)
	}
	return
}

// checkAbandon: a client that stops reading and cancels while the handler is inside SendMsg (wrapper only).
func checkAbandon(w *world, mon *lib.Monitor, c scase) {
	ow := runCase(w.wrapEP, w.srv, c, true)
	mon.Eval(c.key(), true, map[string]any{"case": c, "wrapper": ow.text()})
	mon.Count("abandon")
	switch {
	case ow.timedOut || strings.Contains(ow.server, "handler-not-finished"):
		mon.Violate("C13/"+c.Shape+"/abandoned/handler-did-not-return",
			"the client stopped reading and cancelled while the handler was inside SendMsg: the handler must be released by the end of the call's context",
			c, "handler returns", ow.text())
	case ow.leak > 0:
		mon.Violate("C13/"+c.Shape+"/abandoned/goroutine-left",
			"goroutines above the baseline after a call the client abandoned and cancelled", c, "0", fmt.Sprint(ow.leak))
	}
}

// checkCopy: the objects the handler received are not the client's objects (and vice versa), and
// mutating one side's message after the call does not change the other side's.
func checkCopy(mon *lib.Monitor, c scase, o outcome) {
	cl := o.call
	cl.mu.Lock()
	defer cl.mu.Unlock()
	for i, m := range cl.recvd {
		if i >= len(o.sentReq) {
			break
		}
		before := proto.Clone(m)
		mutate(o.sentReq[i])
		if m == o.sentReq[i] || !proto.Equal(before, m) {
			mon.Violate("C13/"+c.Shape+"/request-not-copied",
				"the handler's request object is (or aliases) the client's: mutating the client's message changed the handler's",
				c, fmt.Sprint(before), fmt.Sprint(m))
		}
	}
	for i, m := range o.gotRes {
		if i >= len(cl.sent) {
			break
		}
		before := proto.Clone(m)
		mutate(cl.sent[i])
		if m == cl.sent[i] || !proto.Equal(before, m) {
			mon.Violate("C13/"+c.Shape+"/response-not-copied",
				"the client's response object is (or aliases) the handler's: mutating the handler's message changed the client's",
				c, fmt.Sprint(before), fmt.Sprint(m))
		}
	}
}

func mutate(m proto.Message) {
	switch x := m.(type) {
	case *testproto.UnaryRequest:
		x.Msg += "!"
	case *testproto.UnaryResponse:
		x.Msg += "!"
	case *testproto.ServerStreamRequest:
		x.NumRes += 1000
	case *testproto.ServerStreamResponse:
		x.Counter += 1000
	case *testproto.ClientStreamRequest:
		x.Msg += "!"
	case *testproto.ClientStreamResponse:
		x.Msg += "!"
	case *testproto.BidiStreamRequest:
		x.Msg += "!"
	case *testproto.BidiStreamResponse:
		x.Msg += "!"
	case *traits.GetOnOffRequest:
		x.Name += "!"
	case *traits.UpdateOnOffRequest:
		x.Name += "!"
		if x.OnOff != nil {
			x.OnOff.State++
		}
	case *traits.PullOnOffRequest:
		x.Name += "!"
	case *traits.DescribeOnOffRequest:
		x.Name += "!"
	case *traits.GetMetadataRequest:
		x.Name += "!"
	case *traits.PullMetadataRequest:
		x.Name += "!"
	}
}

func runScripts(f lib.Flags, res *lib.Result, w *world, drv *lib.Driver) {
	tieW := res.Tie("wrap-model", "K1",
		"script pairs for unary/unaryS/sstream/cstream/bidi generated in lockstep from one PRNG (0-5 messages, SetHeader/SendHeader/SetTrailer at each position, status/plain error/OK, half-close, cancel and deadline with the handler blocked, Header() reads after the client's own cancel — at once and after the handler has unwound and returned — when no header had been sent, Invoke cancelled / timed out while the handler is parked), kept when the Lean predicate WFScripts holds; a quarter of the non-reuse pairs run with a pass-through party (client receiving into emptypb.Empty / another type of the same layout, requests and responses of a wider dynamic type with a field the receiver does not declare; messages read back from their re-encoding: the transcript must be the model's); Lean Wrap.run transcript = transcript of the real wrap.ServerToClient connection; non-trivial = distinct script pair")
	tieG := res.Tie("grpc-model", "K1",
		"same script pairs; Lean GrpcRef.run transcript = transcript of a real gRPC client/server over bufconn running the same scripted TestApi server")
	mon := res.Monitor("wrapper-vs-grpc",
		"the property itself on the real code: for every generated script pair the client transcript (send results, messages, terminal code+message or cancelled/deadline class, user header and trailer metadata) and the handler's view are equal between wrap.ServerToClient and bufconn gRPC, also when one side's message type is not the other's (fields the receiver's type does not declare survive the hand-over as they survive the wire) and for Header() after the client's own cancel; goroutine count returns to the baseline after each wrapped call; request/response objects are distinct and unaffected by mutation of the other side's copy")

	r := lib.NewRand(f.Seed)
	cases := basicCases()
	// the internal order of Close must be unobservable: handler with many derived contexts, client parked in RecvMsg
	cases = append(cases, ampCases(f.N(100, 300))...)
	n := f.N(1500, 40000)
	for i := 0; i < n; i++ {
		size := 0
		switch {
		case i < n/10:
			size = 1
		case i < n/3:
			size = 3
		default:
			size = 5
		}
		cases = append(cases, genCase(r, size))
	}
	// de-duplicate
	seen := map[string]bool{}
	uniq := cases[:0]
	for _, c := range cases {
		if !seen[c.key()] {
			seen[c.key()] = true
			uniq = append(uniq, c)
		}
	}
	cases = uniq

	var wf []string
	var mW, mG []string
	if drv != nil {
		var q []string
		for _, c := range cases {
			q = append(q, "wf "+c.args())
		}
		var err error
		if wf, err = drv.Batch(q); err != nil {
			tieW.Fail(err)
			tieG.Fail(err)
			return
		}
		q = q[:0]
		for _, c := range cases {
			q = append(q, "wrap "+c.args())
		}
		if mW, err = drv.Batch(q); err != nil {
			tieW.Fail(err)
			return
		}
		q = q[:0]
		for _, c := range cases {
			q = append(q, "grpc "+c.args())
		}
		if mG, err = drv.Batch(q); err != nil {
			tieG.Fail(err)
			return
		}
	}
	deadlines := 0
	maxDeadlines := f.N(12, 150)
	for i, c := range cases {
		if drv != nil {
			if wf[i] != "true" {
				tieW.Count("filtered:" + wf[i])
				continue
			}
		}
		if strings.Contains(c.Cli, "d") {
			if deadlines >= maxDeadlines {
				continue
			}
			deadlines++
		}
		ow, og := checkCase(w, mon, c)
		if og.timedOut {
			continue
		}
		if drv != nil {
			tieW.Record(c.key(), true, c, mW[i], ow.text())
			tieG.Record(c.key(), true, c, mG[i], og.text())
			tieW.Count("shape:" + c.Shape)
			for _, e := range og.client {
				tieG.Count("event:" + evKind(e))
			}
		}
	}
	runStress(f, w, mon)
	for _, c := range append(parkedCases(), parkedVariants(r, f.N(40, 600))...) {
		checkCase(w, mon, c)
		mon.Count("parked")
	}
	tieH := res.Tie("handler-ctx-model", "K2",
		"finished calls of every shape (clean end, errors; bare connection, generated wrappers; plain and loaded caller contexts) whose handler ties a helper goroutine to its context right before returning, the caller's context kept live: Lean Wrap.handlerCtxDone / GrpcRef.handlerCtxDone in the state 'handler returned, caller's context live' = whether the helper was released on the real wrapper / over real gRPC")
	tieH.Exhaustive = true
	for _, c := range watchCases() {
		ow, og := checkCase(w, mon, c)
		mon.Count("watch")
		if drv == nil {
			tieH.Fail(fmt.Errorf("no Lean driver given"))
			break
		}
		if og.timedOut || ow.timedOut {
			continue
		}
		model, err := drv.Batch([]string{"hctx " + c.Shape + " true false"})
		if err != nil {
			tieH.Fail(err)
			break
		}
		tieH.Record(c.key(), true, c, model[0], fmt.Sprintf("%v/%v", !ow.helperLeft, !og.helperLeft))
		tieH.Count(c.Shape)
	}
	for _, c := range abandonCases() {
		checkAbandon(w, mon, c)
	}
	runResponseThenError(w, mon)
	runTrailerAfterAbort(w, mon)
	var pool []scase
	for i, c := range cases {
		if drv != nil && wf[i] == "true" && !strings.ContainsAny(c.Cli, "xd") && c.Amp == 0 {
			if c.Shape == "cstream" && c.Fin != "OK" && strings.Contains(c.Srv, "M") {
				continue // response-then-error: the asynchronous outcome sets are stated for the streaming run only
			}
			pool = append(pool, c)
		}
	}
	if len(pool) > 0 {
		runAsync(f, res, w, drv, pool)
	}
	if drv == nil {
		tieW.Fail(fmt.Errorf("no Lean driver given"))
		tieG.Fail(fmt.Errorf("no Lean driver given"))
	}
}

// runStress repeats terminal-status scripts (client parked in RecvMsg when the handler returns) on
// the wrapper without any amplifier: every repetition must give the transcript real gRPC gives.
func runStress(f lib.Flags, w *world, mon *lib.Monitor) {
	reps := f.N(400, 4000)
	for _, c := range ampCases(0) {
		og := runCase(w.grpcEP, w.srv, c, false)
		if og.timedOut || og.skip {
			continue
		}
		for i := 0; i < reps; i++ {
			ow := runCase(w.wrapEP, w.srv, c, false)
			mon.Count("stress-repetition")
			if d := firstDiff(ow.client, og.client); d != "" {
				mon.Violate("C13/"+c.Shape+"/client-transcript/"+d,
					"repeated run of one script: a client of the wrapped server observes something else than over a real gRPC connection (wrapper-vs-grpc, first difference)",
					c, og.text(), ow.text())
				break
			}
		}
	}
}

func replay(f lib.Flags) int {
	rp, err := lib.ReadReplay(f.Replay)
	if err != nil {
		lib.Fatal(err)
	}
	b, _ := json.Marshal(rp.Input)
	w := newWorld()
	defer w.cleanup()
	m := lib.NewMonitor("replay", "")
	var oc openCase
	var c scase
	var ch chainCase
	if json.Unmarshal(b, &ch) == nil && (ch.Born != "" || len(ch.Ends) > 0) {
		fmt.Printf("replay %+v: %s\n", ch, checkChain(w, m, ch))
	} else if json.Unmarshal(b, &oc) == nil && oc.Method != "" {
		checkOpen(w, m, oc)
		fmt.Printf("replay %+v\n", oc)
	} else if json.Unmarshal(b, &c) == nil && c.Shape != "" {
		ow, og := checkCase(w, m, c)
		fmt.Printf("replay %v\n  wrapper: %s\n  grpc   : %s\n", c, ow.text(), og.text())
	} else {
		fmt.Println("replay: no concrete input in file (", rp.Kind, rp.Broken, ")")
		return 2
	}
	if len(m.Violations) > 0 {
		for _, v := range m.Violations {
			fmt.Printf("STILL FAILS %s: %s (expected %s, observed %s)\n", v.Signature, v.What, v.Expected, v.Observed)
		}
		return 1
	}
	fmt.Println("replay: property holds on this input now")
	return 0
}
