package main

import (
	"context"
	"fmt"
	"math/rand"
	"strconv"
	"strings"
	"time"

	"github.com/smart-core-os/sc-api/go/types"
	"google.golang.org/protobuf/types/known/wrapperspb"

	"github.com/smart-core-os/sc-golang/pkg/resource"
	"github.com/smart-core-os/sc-golang/verifharness/lib"
)

// SlowScenario: ONE writer and one LOSSY (non-backpressure) subscriber whose consumer pauses while a window
// of writes is performed and then drains. Deterministic (single writer, no overlapping publications): the
// folded view after the last drain must equal Get/List.
type SlowScenario struct {
	Res     string           `json:"res"`
	Init    map[string]int64 `json:"init"`
	Ops     []WOp            `json:"ops"`
	Windows []int            `json:"windows"` // the consumer drains after each window of this many writes
	UO      bool             `json:"uo,omitempty"`
	Late    int              `json:"late,omitempty"` // subscribe after this many writes (0 = before the first)
}

func (sc SlowScenario) key() string {
	var ops []string
	for _, o := range sc.Ops {
		ops = append(ops, o.encode())
	}
	return fmt.Sprintf("%s|%v|%s|%v|%v|%d", sc.Res, sc.Init, strings.Join(ops, ";"), sc.Windows, sc.UO, sc.Late)
}

type slowResult struct {
	view     map[string]int64
	touched  map[string]bool
	events   []string
	contents map[string]int64
	timeout  string
}

// runSlow executes the scenario on the real code. No hooks: the consumer is driven by the harness.
func runSlow(sc SlowScenario) *slowResult {
	w := newWorld(Scenario{Res: sc.Res, Init: sc.Init})
	ctx, cancel := context.WithCancel(context.Background())
	defer cancel()
	res := &slowResult{view: map[string]int64{}, touched: map[string]bool{}}
	opts := []resource.ReadOption{resource.WithUpdatesOnly(sc.UO), resource.WithBackpressure(false)}
	var collCh <-chan *resource.CollectionChange
	var valCh <-chan *resource.ValueChange
	subscribed := false
	subscribe := func() {
		if sc.Res == "value" {
			valCh = w.val.Pull(ctx, opts...)
		} else {
			collCh = w.coll.Pull(ctx, opts...)
		}
		subscribed = true
	}
	apply := func(id string, v int64, del bool) {
		res.touched[id] = true
		if del {
			delete(res.view, id)
			res.events = append(res.events, id+"=nil")
		} else {
			res.view[id] = v
			res.events = append(res.events, fmt.Sprintf("%s=%d", id, v))
		}
	}
	// drain: the consumer receives until the marker of this window
	drain := func(n int, lastVal int64, hasLast bool) {
		if !subscribed {
			return
		}
		deadline := time.After(3 * time.Second)
		if sc.Res == "value" {
			if !hasLast {
				return
			}
			for {
				select {
				case e, ok := <-valCh:
					if !ok {
						res.timeout = "stream closed"
						return
					}
					v, present := msgVal(e.Value)
					apply("0", v, !present)
					if present && v == lastVal {
						return
					}
				case <-deadline:
					res.timeout = fmt.Sprintf("the value %d written last in window %d was never received", lastVal, n)
					return
				}
			}
		}
		marker := "zz" + strconv.Itoa(n)
		w.coll.Update(marker, wrapperspb.Int64(sentinelVal), resource.WithCreateIfAbsent())
		for {
			select {
			case e, ok := <-collCh:
				if !ok {
					res.timeout = "stream closed"
					return
				}
				if strings.HasPrefix(e.Id, "zz") {
					if e.Id == marker {
						return
					}
					continue
				}
				id := strings.TrimPrefix(e.Id, "i")
				if e.ChangeType == types.ChangeType_REMOVE {
					apply(id, 0, true)
				} else {
					v, _ := msgVal(e.NewValue)
					apply(id, v, false)
				}
			case <-deadline:
				res.timeout = fmt.Sprintf("the marker written after window %d was never received", n)
				return
			}
		}
	}
	if sc.Late == 0 {
		subscribe()
	}
	done := 0
	for n, size := range sc.Windows {
		var lastVal int64
		hasLast := false
		for i := 0; i < size && done < len(sc.Ops); i++ {
			op := sc.Ops[done]
			if err := w.exec(op); err == nil && op.K != "d" {
				if v, ok := w.contents()[strconv.Itoa(op.ID)]; ok {
					lastVal, hasLast = v, true
				}
			}
			done++
			if !subscribed && done == sc.Late {
				subscribe()
				hasLast = false // what was written before subscribing arrives as the seed, if at all
				if sc.Res == "value" && !sc.UO {
					if v, ok := w.contents()["0"]; ok {
						lastVal, hasLast = v, true
					}
				}
			}
		}
		drain(n, lastVal, hasLast)
		if res.timeout != "" {
			break
		}
	}
	res.contents = w.contents()
	return res
}

func judgeSlow(sc SlowScenario, r *slowResult) *verdict {
	mode := "lossy-single-writer"
	if r.timeout != "" {
		return &verdict{fmt.Sprintf("C03/%s/%s/not-delivered", sc.Res, mode), "a lossy subscriber that resumed receiving never got the latest change: " + r.timeout, "the change", "none within 3s; events " + strings.Join(r.events, ";")}
	}
	for id := 0; id < 9; id++ {
		k := strconv.Itoa(id)
		if sc.UO && !r.touched[k] {
			continue
		}
		want, wok := r.contents[k]
		got, gok := r.view[k]
		if wok == gok && want == got {
			continue
		}
		return &verdict{fmt.Sprintf("C03/%s/%s/stale-view", sc.Res, mode),
			fmt.Sprintf("single writer, lossy subscriber pausing for windows %v: view ends with id %s = %v(present %v) but the store holds %v(present %v)", sc.Windows, k, got, gok, want, wok),
			"view = " + showView(r.contents), "view = " + showView(r.view) + " from events " + strings.Join(r.events, ";")}
	}
	return nil
}

// slowExhaustive: every sequence over {write, delete} of one id up to length maxLen (add / update / delete /
// re-add / delete of a missing id all occur), both initial states, every split into one or two windows.
func slowExhaustive(maxLen int) []SlowScenario {
	var out []SlowScenario
	for _, res := range []string{"coll", "value"} {
		for n := 1; n <= maxLen; n++ {
			for bits := 0; bits < 1<<n; bits++ {
				var ops []WOp
				skip := false
				for i := 0; i < n; i++ {
					if bits&(1<<i) != 0 {
						if res == "value" {
							skip = true
						}
						ops = append(ops, WOp{K: "d", ID: 0})
					} else {
						ops = append(ops, WOp{K: "s", ID: 0, V: int64(10 + i)})
					}
				}
				if skip {
					continue
				}
				for _, present := range []bool{false, true} {
					init := map[string]int64{}
					if res == "coll" {
						init["5"] = 7 // ballast: the seed keeps the forwarder busy, every change waits in the merger
					}
					if present {
						init["0"] = 1
					}
					out = append(out, SlowScenario{Res: res, Init: init, Ops: ops, Windows: []int{n}})
					for cut := 1; cut < n && n <= 4; cut++ {
						out = append(out, SlowScenario{Res: res, Init: init, Ops: ops, Windows: []int{cut, n - cut}})
					}
					if n <= 3 {
						out = append(out, SlowScenario{Res: res, Init: init, Ops: ops, Windows: []int{n}, UO: res == "coll"})
						out = append(out, SlowScenario{Res: res, Init: init, Ops: ops, Windows: []int{n}, Late: 1})
					}
				}
			}
		}
	}
	return out
}

func genSlow(rng *rand.Rand) SlowScenario {
	sc := SlowScenario{Res: "coll", Init: map[string]int64{}}
	if rng.Intn(4) == 0 {
		sc.Res = "value"
	}
	ids := []int{0}
	if sc.Res == "coll" {
		if rng.Intn(2) == 0 {
			ids = append(ids, 1)
		}
		if rng.Intn(3) > 0 {
			sc.Init["5"] = 7
		}
	}
	for _, id := range ids {
		if rng.Intn(2) == 0 {
			sc.Init[strconv.Itoa(id)] = int64(1 + rng.Intn(3))
		}
	}
	n := 2 + rng.Intn(5)
	for i := 0; i < n; i++ {
		id := ids[rng.Intn(len(ids))]
		switch k := rng.Intn(6); {
		case k < 3 || sc.Res == "value":
			sc.Ops = append(sc.Ops, WOp{K: "s", ID: id, V: int64(10 + i)})
		case k < 5:
			sc.Ops = append(sc.Ops, WOp{K: "d", ID: id})
		default:
			sc.Ops = append(sc.Ops, WOp{K: "c", ID: id, E: int64(1 + rng.Intn(3)), V: int64(10 + i)})
		}
	}
	left := n
	for left > 0 {
		k := 1 + rng.Intn(left)
		sc.Windows = append(sc.Windows, k)
		left -= k
	}
	sc.UO = sc.Res == "coll" && rng.Intn(5) == 0
	if rng.Intn(4) == 0 {
		sc.Late = rng.Intn(n)
	}
	return sc
}

// driverLine: the scenario as a schedule of the model: one writer, one lossy subscriber whose consumer only
// receives (`R`) at the end of each window
func (sc SlowScenario) driverLine() string {
	base := Scenario{Res: sc.Res, Init: sc.Init, Writers: [][]WOp{sc.Ops}}
	var sched []string
	if sc.Late == 0 {
		sched = append(sched, "s0")
	}
	done := 0
	for _, size := range sc.Windows {
		for i := 0; i < size && done < len(sc.Ops); i++ {
			sched = append(sched, "c0", "n0", "d0")
			done++
			if sc.Late != 0 && done == sc.Late {
				sched = append(sched, "s0")
			}
		}
		sched = append(sched, "R")
	}
	line := base.driverLine(nil)
	f := strings.Fields(line)
	// run <init> <progs> <subs> <sched>
	return fmt.Sprintf("run %s %s %s1n %s", f[1], f[2], b01(sc.UO), strings.Join(sched, ","))
}

func slowMonitor(f lib.Flags, res *lib.Result, rng *rand.Rand) {
	mon := res.Monitor("converges-lossy-slow-consumer",
		"single writer + one LOSSY subscriber whose consumer pauses for a window of k writes and then drains (marker write per window): every sequence over {write, delete} of one id up to length 5 (add, update, delete, re-add, delete-missing), both initial states, one or two windows, seeded / updates-only / late subscribe, plus random sequences on 1-2 ids with compare-and-set; view folded after the last drain vs Get/List; deterministic, so any stale view is a violation")
	all := slowExhaustive(5)
	for i := 0; i < f.N(300, 4000); i++ {
		all = append(all, genSlow(rng))
	}
	tie := res.Tie("slow-lossy-model", "K1",
		"the slow-lossy-consumer scenarios as schedules of the model with its merge stage (deliveries accumulate in the pending list, `R` = the consumer drains at the end of a window): store and the subscriber's view after the last drain vs run(model); non-trivial = some window holds more than one write")
	var lines, codes []string
	var inputs []any
	var nontriv []bool
	defer func() {
		drv, err := lib.StartDriver(f.Driver)
		if err != nil {
			tie.Fail(err)
			return
		}
		answers, err := drv.Batch(lines)
		drv.Close()
		if err != nil {
			tie.Fail(err)
			return
		}
		for i := range lines {
			uo := strings.Contains(lines[i], " 11n ")
			tie.Record(lines[i], nontriv[i], inputs[i], stripModel(answers[i], func(int) bool { return !uo }), codes[i])
		}
	}()
	for _, sc := range all {
		r := runSlow(sc)
		multi := false
		for _, wdw := range sc.Windows {
			if wdw > 1 {
				multi = true
			}
		}
		mon.Eval(sc.key(), multi, nil)
		mon.Count(fmt.Sprintf("%s/len%d", sc.Res, len(sc.Ops)))
		in := map[string]any{"mode": "lossy-slow", "res": sc.Res, "init": sc.Init, "ops": sc.Ops, "windows": sc.Windows, "uo": sc.UO, "late": sc.Late}
		if v := judgeSlow(sc, r); v != nil {
			mon.Violate(v.sig, v.what, in, v.expected, v.observed)
		}
		if r.timeout == "" {
			vw := showView(r.view)
			if sc.UO {
				vw = "?"
			}
			lines = append(lines, sc.driverLine())
			codes = append(codes, "store="+showView(r.contents)+"|S0=live:"+vw)
			inputs = append(inputs, in)
			nontriv = append(nontriv, multi)
		}
	}
}

// ---------------------------------------------------------------------------------------------
// subscriber churn (hooked, single writer): a subscriber goes away, a new one registers while a publication
// is in progress, the send goes on (including the bus's garbage collection), more writes follow

func churnWitnesses() []Scenario {
	w3 := [][]WOp{{{K: "s", ID: 0, V: 11}, {K: "s", ID: 0, V: 12}, {K: "s", ID: 1, V: 13}, {K: "s", ID: 0, V: 14}}}
	v3 := [][]WOp{{{K: "s", ID: 0, V: 11}, {K: "s", ID: 0, V: 12}, {K: "s", ID: 0, V: 13}, {K: "s", ID: 0, V: 14}}}
	var out []Scenario
	for _, res := range []string{"coll", "value"} {
		ws := w3
		if res == "value" {
			ws = v3
		}
		for _, bpB := range []bool{true, false} {
			// A and C subscribe, one full write, A goes away; next write: commit, listener copy taken; B subscribes
			// mid-publication; the send proceeds (A found dead => collect), then two more full writes
			out = append(out,
				Scenario{Res: res, Churn: true, Init: map[string]int64{}, Writers: ws, Subs: []SubSpec{{BP: true}, {BP: true}, {BP: bpB}},
					Sched: []string{"s0", "s1", "c0", "n0", "d0", "d0", "x0", "c0", "n0", "s2", "d0", "d0"}},
				// B registers between the two deliveries
				Scenario{Res: res, Churn: true, Init: map[string]int64{}, Writers: ws, Subs: []SubSpec{{BP: true}, {BP: true}, {BP: bpB}},
					Sched: []string{"s0", "s1", "x0", "c0", "n0", "d0", "s2", "d0"}},
				// the dead listener is the only other one
				Scenario{Res: res, Churn: true, Init: map[string]int64{}, Writers: ws, Subs: []SubSpec{{BP: false}, {BP: bpB}},
					Sched: []string{"s0", "x0", "c0", "n0", "s1", "d0"}},
				// the dead listener registered after the live one
				Scenario{Res: res, Churn: true, Init: map[string]int64{}, Writers: ws, Subs: []SubSpec{{BP: true}, {BP: true}, {BP: bpB, UO: res == "coll"}},
					Sched: []string{"s1", "s0", "x0", "c0", "n0", "d0", "s2", "d0"}},
			)
		}
	}
	return out
}

func genChurn(rng *rand.Rand) Scenario {
	sc := genScenario(rng, 1)
	sc.Churn = true
	sc.MaxGone = 1 + rng.Intn(2)
	// one writer with 3-5 writes, 3 subscribers without PullID
	for len(sc.Writers[0]) < 3+rng.Intn(3) {
		id := rng.Intn(2)
		if sc.Res == "value" {
			id = 0
		}
		sc.Writers[0] = append(sc.Writers[0], WOp{K: "s", ID: id, V: int64(20 + len(sc.Writers[0]))})
	}
	for len(sc.Subs) < 3 {
		sc.Subs = append(sc.Subs, SubSpec{BP: rng.Intn(2) == 0})
	}
	for i := range sc.Subs {
		sc.Subs[i].OID = nil
		if sc.Res == "value" && sc.Subs[i].UO {
			sc.Subs[i].BP = true
		}
	}
	return sc
}
