package main

import (
	"context"
	"fmt"
	"math/rand"
	"sort"
	"strconv"
	"strings"
	"sync"
	"time"

	"github.com/smart-core-os/sc-api/go/traits"
	"github.com/smart-core-os/sc-api/go/types"
	"google.golang.org/protobuf/proto"

	"github.com/smart-core-os/sc-golang/pkg/cmp"
	"github.com/smart-core-os/sc-golang/pkg/resource"
	"github.com/smart-core-os/sc-golang/verifharness/cmd/c02/k4"
	"github.com/smart-core-os/sc-golang/verifharness/lib"
)

// ---------------------------------------------------------------------------------------------
// read masks: several concurrent subscribers of ONE resource with DIFFERENT read masks (single writer).
// Messages are traits.Brightness with two independent fields (level_percent, target_level_percent).

type pair struct{ L, T int }

type MOp struct {
	K  string `json:"k"` // "s" write both fields | "d" delete
	ID int    `json:"id"`
	L  int    `json:"l,omitempty"`
	T  int    `json:"t,omitempty"`
	WT *int   `json:"wt,omitempty"` // WithWriteTime, see WOp.WT
	Sp int    `json:"sp,omitempty"` // the caller's spelling of the id, see WOp.Sp
}

type MSub struct {
	Mask []string `json:"mask"` // nil = no read mask
	BP   bool     `json:"bp,omitempty"`
	Late int      `json:"late,omitempty"` // subscribes after this many writes
	// Incl: WithInclude with a function of the closed family shared with the driver ("" = none): "a" level even,
	// "b" target even, "c" level >= 5, "d" id even and target < 5 (Collection only). The function reads the STORED item.
	Incl string `json:"incl,omitempty"`
}

// included: the include functions, written on plain pairs (independent of the repository's include / filter code)
func included(name string, id int, p pair) bool {
	switch name {
	case "a":
		return p.L%2 == 0
	case "b":
		return p.T%2 == 0
	case "c":
		return p.L >= 5
	case "d":
		return id%2 == 0 && p.T < 5
	}
	return true
}

func includeFunc(name string) resource.FilterFunc {
	return func(id string, m proto.Message) bool {
		if id == "zz" { // the harness's own marker item is visible to everybody
			return true
		}
		n, err := strconv.Atoi(decodeID(id))
		if err != nil { // not a stored id: an item nobody may be shown
			return false
		}
		p, ok := pairOf(m)
		return ok && included(name, n, p)
	}
}

func includeOption(name string) resource.ReadOption { return resource.WithInclude(includeFunc(name)) }

type MaskScenario struct {
	Res  string         `json:"res"`
	Init map[string]int `json:"init"` // id -> level (target = level+1)
	Ops  []MOp          `json:"ops"`
	Subs []MSub         `json:"subs"`
	// Eq: the resource's equivalence ("" = none): "e" WithNoDuplicates, "l" / "t" WithEquivalence comparing only
	// level / only target (an absent message is equivalent to an absent one only); "a" a TOLERANCE:
	// WithMessageEquivalence(cmp.Equal(cmp.FloatValueApprox(0, tol))) - every field within tol of the other message's,
	// reflexive and symmetric but NOT transitive (the default equivalence of the electric, fan speed and energy storage
	// models). Clock: see scriptClock.
	Eq    string `json:"eq,omitempty"`
	Clock string `json:"clock,omitempty"`
	// Icpt: the collection has an id interceptor (icptFunc in main.go); operations spell their ids as MOp.Sp says
	Icpt string `json:"icpt,omitempty"`
}

// eqPair: the equivalences on plain pairs (the oracle's own copy)
func eqPair(name string, a, b pair) bool {
	switch name {
	case "l":
		return a.L == b.L
	case "t":
		return a.T == b.T
	case "a":
		return absInt(a.L-b.L) <= tol && absInt(a.T-b.T) <= tol
	}
	return a == b
}

// tol: the margin of the tolerance equivalence "a" (the driver's comparer `a` / `A` uses the same number)
const tol = 2

// tolMarker: the marker written last to a Value with the tolerance equivalence: farther than tol from every value of a
// scenario, whatever the subscriber holds
const tolMarker = -1000

func absInt(x int) int {
	if x < 0 {
		return -x
	}
	return x
}

// relViews: the same ids, and equivalent values (equal ones without an equivalence)
func relViews(name string, view, want map[string]pair) bool {
	if len(view) != len(want) {
		return false
	}
	for id, w := range want {
		v, ok := view[id]
		if !ok || !eqPair(name, v, w) {
			return false
		}
	}
	return true
}

func resourceOptions(eq, clock string) []resource.Option {
	var opts []resource.Option
	switch eq {
	case "e":
		opts = append(opts, resource.WithNoDuplicates())
	case "l", "t":
		opts = append(opts, resource.WithEquivalence(resource.ComparerFunc(func(x, y proto.Message) bool {
			px, okx := pairOf(x)
			py, oky := pairOf(y)
			if !okx || !oky {
				return okx == oky
			}
			if eq == "l" {
				return px.L == py.L
			}
			return px.T == py.T
		})))
	case "a":
		opts = append(opts, resource.WithMessageEquivalence(cmp.Equal(cmp.FloatValueApprox(0, tol))))
	}
	if clock != "" {
		opts = append(opts, resource.WithClock(&scriptClock{kind: clock}))
	}
	return opts
}

func (sc MaskScenario) key() string { return fmt.Sprintf("%+v", sc) }

func bright(l, t int) *traits.Brightness {
	return &traits.Brightness{LevelPercent: float32(l), TargetLevelPercent: float32(t)}
}

func pairOf(m proto.Message) (pair, bool) {
	b, ok := m.(*traits.Brightness)
	if !ok || b == nil {
		return pair{}, false
	}
	return pair{int(b.LevelPercent), int(b.TargetLevelPercent)}, true
}

// project: what a reader with this mask must see of p (independent of the repository's filter code)
func project(p pair, mask []string) pair {
	if mask == nil {
		return p
	}
	var q pair
	for _, f := range mask {
		switch f {
		case "level_percent":
			q.L = p.L
		case "target_level_percent":
			q.T = p.T
		}
	}
	return q
}

type mconsumer struct {
	mu     sync.Mutex
	view   map[string]pair
	events []string
	marker chan struct{}
	n      int
}

func (c *mconsumer) apply(id string, p pair, del bool) {
	c.mu.Lock()
	defer c.mu.Unlock()
	c.n++
	if del {
		delete(c.view, id)
		c.events = append(c.events, id+"=nil")
	} else {
		c.view[id] = p
		c.events = append(c.events, fmt.Sprintf("%s={%d,%d}", id, p.L, p.T))
	}
}

func showPairs(m map[string]pair) string {
	var ids []string
	for id := range m {
		ids = append(ids, id)
	}
	sort.Strings(ids)
	var parts []string
	for _, id := range ids {
		parts = append(parts, fmt.Sprintf("%s={%d,%d}", id, m[id].L, m[id].T))
	}
	return strings.Join(parts, ",")
}

var maskFailures int

type maskResult struct {
	views    []map[string]pair
	contents map[string]pair
}

func runMasks(sc MaskScenario) (*verdict, *maskResult) {
	ctx, cancel := context.WithCancel(context.Background())
	defer cancel()
	var coll *resource.Collection
	var val *resource.Value
	if sc.Res == "value" {
		opts := resourceOptions(sc.Eq, sc.Clock)
		if l, ok := sc.Init["0"]; ok {
			opts = append(opts, resource.WithInitialValue(bright(l, l+1)))
		}
		val = resource.NewValue(opts...)
	} else {
		opts := resourceOptions(sc.Eq, sc.Clock)
		if f := icptFunc(sc.Icpt); f != nil {
			opts = append(opts, resource.WithIDInterceptor(f))
		}
		for k, l := range sc.Init {
			n, _ := strconv.Atoi(k)
			opts = append(opts, resource.WithInitialRecord(spell(sc.Icpt, n, n+1), bright(l, l+1)))
		}
		coll = resource.NewCollection(opts...)
	}
	cons := make([]*mconsumer, len(sc.Subs))
	marker := -1
	if sc.Eq == "a" {
		marker = tolMarker
	}
	subscribe := func(i int) {
		s := sc.Subs[i]
		c := &mconsumer{view: map[string]pair{}, marker: make(chan struct{}, 1)}
		cons[i] = c
		opts := []resource.ReadOption{resource.WithBackpressure(s.BP)}
		if s.Mask != nil {
			opts = append(opts, resource.WithReadPaths(&traits.Brightness{}, s.Mask...))
		}
		if s.Incl != "" && sc.Res != "value" {
			opts = append(opts, includeOption(s.Incl))
		}
		if sc.Res == "value" {
			ch := val.Pull(ctx, opts...)
			go func() {
				for e := range ch {
					p, ok := pairOf(e.Value)
					if ok && (p.L == marker || p.T == marker) { // the marker written last for backpressured Value subscribers
						select {
						case c.marker <- struct{}{}:
						default:
						}
						continue
					}
					c.apply("0", p, !ok)
				}
			}()
			return
		}
		ch := coll.Pull(ctx, opts...)
		go func() {
			for e := range ch {
				if e.Id == "zz" {
					select {
					case c.marker <- struct{}{}:
					default:
					}
					continue
				}
				id := decodeID(e.Id)
				if e.ChangeType == types.ChangeType_REMOVE {
					c.apply(id, pair{}, true)
				} else {
					p, _ := pairOf(e.NewValue)
					c.apply(id, p, false)
				}
			}
		}()
	}
	for i, s := range sc.Subs {
		if s.Late == 0 {
			subscribe(i)
		}
	}
	for n, op := range sc.Ops {
		var wopts []resource.WriteOption
		if op.WT != nil {
			wopts = append(wopts, resource.WithWriteTime(wtTime(*op.WT)))
		}
		switch {
		case op.K == "d":
			coll.Delete(spell(sc.Icpt, op.ID, op.Sp), wopts...)
		case sc.Res == "value":
			val.Set(bright(op.L, op.T), wopts...)
		default:
			coll.Update(spell(sc.Icpt, op.ID, op.Sp), bright(op.L, op.T), append(wopts, resource.WithCreateIfAbsent())...)
		}
		for i, s := range sc.Subs {
			if cons[i] == nil && s.Late == n+1 {
				subscribe(i)
			}
		}
	}
	for i := range sc.Subs {
		if cons[i] == nil {
			subscribe(i)
		}
	}
	// what Get / List return now
	contents := map[string]pair{}
	if sc.Res == "value" {
		if p, ok := pairOf(val.Get()); ok {
			contents["0"] = p
		}
	} else {
		for id := 0; id < 9; id++ {
			if m, ok := coll.Get(spell(sc.Icpt, id, 1)); ok {
				p, _ := pairOf(m)
				contents[strconv.Itoa(id)] = p
			}
		}
	}
	limit := 3 * time.Second
	if maskFailures >= 3 {
		limit = 30 * time.Millisecond
	}
	if sc.Res == "coll" {
		coll.Update("zz", bright(-1, -1), resource.WithCreateIfAbsent())
	}
	// a Value whose subscribers are all backpressured gets a marker too (a lossy subscriber's single pending slot would
	// lose the final value to it: those are awaited by polling, which needs every write to store a fresh value)
	valueMarker := sc.Res == "value"
	for _, s := range sc.Subs {
		valueMarker = valueMarker && s.BP
	}
	if valueMarker {
		val.Set(bright(marker, marker))
	}
	site := "masks-single-writer"
	for _, s := range sc.Subs {
		if s.Incl != "" && sc.Res != "value" {
			site = "include-masks-single-writer"
		}
	}
	if sc.Eq != "" {
		site = "equivalence-" + site
	}
	if sc.Eq == "a" {
		site = "tolerance-" + site
	}
	for i, c := range cons {
		want := map[string]pair{}
		for id, p := range contents {
			n, _ := strconv.Atoi(id)
			if sc.Res == "value" || included(sc.Subs[i].Incl, n, p) {
				want[id] = project(p, sc.Subs[i].Mask)
			}
		}
		ok := false
		// (a Value subscriber whose read mask hides the only field the equivalence compares is sent nothing after its seed,
		// the marker included: it is awaited by polling, nothing can follow the seed)
		hidden := false
		if sc.Res == "value" && sc.Subs[i].Mask != nil && (sc.Eq == "l" || sc.Eq == "t") {
			field := map[string]string{"l": "level_percent", "t": "target_level_percent"}[sc.Eq]
			hidden = true
			for _, f := range sc.Subs[i].Mask {
				if f == field {
					hidden = false
				}
			}
		}
		if sc.Res == "coll" || (valueMarker && !hidden) {
			select {
			case <-c.marker:
			case <-time.After(limit):
				maskFailures++
				return &verdict{"C03/" + sc.Res + "/" + site + "/sentinel-not-delivered", fmt.Sprintf("subscriber %d (%+v) never received the sentinel", i, sc.Subs[i]), "sentinel", "none"}, nil
			}
			c.mu.Lock()
			ok = relViews(sc.Eq, c.view, want)
			c.mu.Unlock()
		} else {
			// every write stores fresh values in both fields: the subscriber is drained when its last event is
			// the projection of the final value (bounded wait, immediate when right)
			deadline := time.Now().Add(limit)
			for {
				c.mu.Lock()
				ok = relViews(sc.Eq, c.view, want)
				c.mu.Unlock()
				if ok || time.Now().After(deadline) {
					break
				}
				time.Sleep(100 * time.Microsecond)
			}
		}
		if !ok {
			maskFailures++
			c.mu.Lock()
			defer c.mu.Unlock()
			return &verdict{fmt.Sprintf("C03/%s/%s/stale-view", sc.Res, site),
				fmt.Sprintf("single writer, %d subscribers with different read masks / include functions: subscriber %d (%+v) ends with a view that is not the projection under its own mask of the items of Get/List its include function accepts", len(sc.Subs), i, sc.Subs[i]),
				"view = " + showPairs(want), "view = " + showPairs(c.view) + " from events " + strings.Join(c.events, ";")}, nil
		}
		if sc.Res == "coll" && (sc.Eq == "" || sc.Eq == "e") {
			// "exactly what List returns": the real List with the subscriber's own options (items sorted by id, the
			// marker item last) against the view
			lopts := []resource.ReadOption{}
			if sc.Subs[i].Mask != nil {
				lopts = append(lopts, resource.WithReadPaths(&traits.Brightness{}, sc.Subs[i].Mask...))
			}
			if sc.Subs[i].Incl != "" {
				lopts = append(lopts, includeOption(sc.Subs[i].Incl))
			}
			var listed []string
			for _, m := range coll.List(lopts...) {
				p, _ := pairOf(m)
				listed = append(listed, fmt.Sprintf("{%d,%d}", p.L, p.T))
			}
			if len(listed) > 0 {
				listed = listed[:len(listed)-1] // the marker
			}
			c.mu.Lock()
			var ids []string
			for id := range c.view {
				ids = append(ids, id)
			}
			sort.Strings(ids)
			var viewed []string
			for _, id := range ids {
				viewed = append(viewed, fmt.Sprintf("{%d,%d}", c.view[id].L, c.view[id].T))
			}
			evs := strings.Join(c.events, ";")
			c.mu.Unlock()
			if strings.Join(listed, ",") != strings.Join(viewed, ",") {
				maskFailures++
				return &verdict{fmt.Sprintf("C03/coll/%s/view-differs-from-List", site),
					fmt.Sprintf("subscriber %d (%+v): the folded view is not what List returns with the same read mask and include function", i, sc.Subs[i]),
					"items " + strings.Join(listed, ","), "items " + strings.Join(viewed, ",") + " from events " + evs}, nil
			}
		}
	}
	mr := &maskResult{contents: contents}
	for _, c := range cons {
		c.mu.Lock()
		v := map[string]pair{}
		for k, p := range c.view {
			v[k] = p
		}
		c.mu.Unlock()
		mr.views = append(mr.views, v)
	}
	return nil, mr
}

func showPairsDrv(m map[string]pair) string {
	var ids []string
	for id := range m {
		ids = append(ids, id)
	}
	sort.Strings(ids)
	var parts []string
	for _, id := range ids {
		if m[id].T == 0 {
			parts = append(parts, fmt.Sprintf("%s=%d", id, m[id].L))
		} else {
			parts = append(parts, fmt.Sprintf("%s=%d.%d", id, m[id].L, m[id].T))
		}
	}
	return strings.Join(parts, ",")
}

func maskLetter(m []string) string {
	switch {
	case m == nil:
		return "n"
	case len(m) == 2:
		return "b"
	case m[0] == "level_percent":
		return "l"
	}
	return "t"
}

// driverLine: the same scenario as a schedule of the model (single writer, free-running consumers)
func (sc MaskScenario) driverLine() string {
	var init []string
	var ids []string
	for k := range sc.Init {
		ids = append(ids, k)
	}
	sort.Strings(ids)
	for _, k := range ids {
		init = append(init, fmt.Sprintf("%s:%d.%d", k, sc.Init[k], sc.Init[k]+1))
	}
	is := strings.Join(init, ",")
	if is == "" {
		is = "-"
	}
	var ops []string
	for _, o := range sc.Ops {
		if o.K == "d" {
			ops = append(ops, fmt.Sprintf("d/%d", rawID(sc.Icpt, o.ID, o.Sp)))
		} else {
			ops = append(ops, fmt.Sprintf("u/%d/w%d.%d", rawID(sc.Icpt, o.ID, o.Sp), o.L, o.T))
		}
	}
	var subs []string
	for _, s := range sc.Subs {
		incl := "n"
		if s.Incl != "" && sc.Res != "value" {
			incl = s.Incl
		}
		eq := sc.Eq
		if sc.Res == "value" {
			eq = strings.ToUpper(eq)
		}
		subs = append(subs, "0"+b01(!s.BP)+maskLetter(s.Mask)+incl+eq)
	}
	var sched []string
	done := make([]bool, len(sc.Subs))
	for i, s := range sc.Subs {
		if s.Late == 0 {
			sched = append(sched, "s"+strconv.Itoa(i))
			done[i] = true
		}
	}
	for n := range sc.Ops {
		sched = append(sched, "c0", "n0")
		for range sc.Subs {
			sched = append(sched, "d0", "R")
		}
		for i, s := range sc.Subs {
			if !done[i] && s.Late == n+1 {
				sched = append(sched, "s"+strconv.Itoa(i))
				done[i] = true
			}
		}
	}
	for i := range sc.Subs {
		if !done[i] {
			sched = append(sched, "s"+strconv.Itoa(i))
		}
	}
	if sc.Icpt != "" {
		return fmt.Sprintf("runi %d %s %s %s %s", icptMod, is, strings.Join(ops, ";"), strings.Join(subs, ","), strings.Join(sched, ","))
	}
	return fmt.Sprintf("run %s %s %s %s", is, strings.Join(ops, ";"), strings.Join(subs, ","), strings.Join(sched, ","))
}

// stripModel keeps store and per-subscriber state:view of a model answer
func stripModel(ans string, withView func(i int) bool) string {
	var out []string
	for _, p := range strings.Split(ans, "|") {
		switch {
		case strings.HasPrefix(p, "store="):
			out = append(out, p)
		case strings.HasPrefix(p, "S"):
			eq := strings.IndexByte(p, '=')
			i, _ := strconv.Atoi(p[1:eq])
			f := strings.SplitN(p[eq+1:], ":", 3)
			if len(f) != 3 {
				return ans
			}
			if withView(i) {
				out = append(out, p[:eq+1]+f[0]+":"+f[1])
			} else {
				out = append(out, p[:eq+1]+f[0]+":?")
			}
		}
	}
	return strings.Join(out, "|")
}

var maskChoices = [][]string{nil, {"level_percent"}, {"target_level_percent"}, {"level_percent", "target_level_percent"}}

func maskWitnesses() []MaskScenario {
	var out []MaskScenario
	ops := []MOp{{K: "s", ID: 0, L: 20, T: 30}, {K: "s", ID: 0, L: 40, T: 50}, {K: "s", ID: 0, L: 60, T: 70}}
	for _, res := range []string{"value", "coll"} {
		for _, bp := range []bool{true, false} {
			for a := 0; a < len(maskChoices); a++ {
				for b := 0; b < len(maskChoices); b++ {
					if a == b {
						continue
					}
					out = append(out, MaskScenario{Res: res, Init: map[string]int{"0": 10}, Ops: ops,
						Subs: []MSub{{Mask: maskChoices[a], BP: bp}, {Mask: maskChoices[b], BP: bp}}})
				}
			}
		}
	}
	return out
}

var inclChoices = []string{"", "a", "b", "c", "d"}

// includeMaskWitnesses: every (read mask, include function) pair on a Collection, backpressured and lossy, next to an
// unmasked subscriber with the same include function: items enter the included set by ADD and by UPDATE, are updated
// inside it, leave it by UPDATE and by REMOVE, and are written while outside it — for each function of the family,
// whichever field the mask hides.
func includeMaskWitnesses() []MaskScenario {
	ops := []MOp{
		{K: "s", ID: 0, L: 2, T: 2}, {K: "s", ID: 1, L: 3, T: 7}, {K: "s", ID: 0, L: 4, T: 4}, {K: "s", ID: 0, L: 7, T: 1},
		{K: "s", ID: 1, L: 6, T: 8}, {K: "s", ID: 2, L: 8, T: 0}, {K: "s", ID: 0, L: 9, T: 3}, {K: "s", ID: 1, L: 1, T: 9},
		{K: "d", ID: 2}, {K: "s", ID: 0, L: 6, T: 6}, {K: "s", ID: 2, L: 5, T: 4}, {K: "s", ID: 1, L: 8, T: 2}, {K: "d", ID: 0},
	}
	var out []MaskScenario
	for _, bp := range []bool{true, false} {
		for _, incl := range inclChoices[1:] {
			for _, mask := range maskChoices {
				out = append(out, MaskScenario{Res: "coll", Init: map[string]int{"0": 1, "2": 4}, Ops: ops,
					Subs: []MSub{{Mask: mask, BP: bp, Incl: incl}, {Mask: nil, BP: bp, Incl: incl}, {Mask: mask, BP: bp, Incl: incl, Late: 5}}})
			}
		}
	}
	return out
}

// eqWitnesses: resources with an equivalence (no duplicates; only level compared; only target compared) x every read
// mask x {backpressure, lossy}, next to an unmasked and a late subscriber: writes of an equal body, of a body differing
// in one field, delete and re-creation with the SAME body (also of an item of the seed), changes back and forth; and on
// Collections with an include function: items leaving the included set and coming back with the same masked body.
func eqWitnesses() []MaskScenario {
	var out []MaskScenario
	cops := []MOp{{K: "s", ID: 0, L: 2, T: 2}, {K: "s", ID: 0, L: 2, T: 2}, {K: "s", ID: 0, L: 2, T: 3}, {K: "d", ID: 0},
		{K: "s", ID: 0, L: 2, T: 3}, {K: "d", ID: 2}, {K: "s", ID: 1, L: 1, T: 1}, {K: "s", ID: 2, L: 4, T: 5}, {K: "d", ID: 1},
		{K: "s", ID: 1, L: 1, T: 1}, {K: "s", ID: 0, L: 3, T: 3}, {K: "s", ID: 0, L: 2, T: 3}}
	vops := []MOp{{K: "s", ID: 0, L: 2, T: 2}, {K: "s", ID: 0, L: 2, T: 2}, {K: "s", ID: 0, L: 2, T: 3}, {K: "s", ID: 0, L: 3, T: 3},
		{K: "s", ID: 0, L: 2, T: 3}, {K: "s", ID: 0, L: 2, T: 2}, {K: "s", ID: 0, L: 2, T: 3}}
	iops := []MOp{{K: "s", ID: 0, L: 2, T: 4}, {K: "s", ID: 0, L: 3, T: 4}, {K: "s", ID: 0, L: 2, T: 4}, {K: "s", ID: 0, L: 2, T: 5},
		{K: "s", ID: 0, L: 2, T: 4}, {K: "s", ID: 0, L: 6, T: 4}, {K: "s", ID: 0, L: 2, T: 4}, {K: "s", ID: 0, L: 6, T: 4},
		{K: "s", ID: 0, L: 2, T: 7}, {K: "s", ID: 0, L: 2, T: 4}, {K: "s", ID: 0, L: 6, T: 4}}
	for _, bp := range []bool{true, false} {
		for _, eq := range []string{"e", "l", "t"} {
			for _, mask := range maskChoices {
				subs := []MSub{{Mask: mask, BP: bp}, {Mask: nil, BP: bp}, {Mask: mask, BP: bp, Late: 4}}
				out = append(out, MaskScenario{Res: "coll", Init: map[string]int{"2": 4}, Ops: cops, Subs: subs, Eq: eq})
				if bp { // bodies recur: a lossy Value subscriber could not tell when it is drained
					out = append(out, MaskScenario{Res: "value", Init: map[string]int{"0": 2}, Ops: vops, Subs: subs, Eq: eq})
				}
				for _, incl := range inclChoices[1:] {
					out = append(out, MaskScenario{Res: "coll", Init: map[string]int{}, Ops: iops, Eq: eq,
						Subs: []MSub{{Mask: mask, BP: bp, Incl: incl}, {Mask: mask, BP: !bp, Incl: incl, Late: 3}}})
				}
			}
		}
	}
	return out
}

// tolWitnesses: resources with a TOLERANCE equivalence (cmp.FloatValueApprox, not transitive). On a Value (compared
// with the value SENT last): ramps whose every step is within the tolerance of its predecessor but which accumulate
// far beyond it, up and down, ending on the ramp (no larger step afterwards) or followed by one; SIGN changes between
// values of the same or nearly the same magnitude, of both fields, of one, as the last write and in the middle;
// oscillation inside the tolerance; x every read mask x {all backpressured (marker, exact), with lossy subscribers
// (polled, within tolerance)} next to an unmasked and a late subscriber. On a Collection (each change compared with the
// value it replaced: a drift below the tolerance is C16's recorded finding, not driven) every step of an item is either
// none or beyond the tolerance in BOTH fields, sign changes of equal magnitude included, with deletes and re-creations
// of a body within tolerance of the deleted one; backpressured subscribers.
func tolWitnesses() []MaskScenario {
	var out []MaskScenario
	ramp := func(l, t, dl, dt, n int) []MOp {
		var ops []MOp
		for i := 1; i <= n; i++ {
			ops = append(ops, MOp{K: "s", L: l + i*dl, T: t + i*dt})
		}
		return ops
	}
	vhist := [][]MOp{
		ramp(3, 4, 1, 1, 6),  // 3,4 -> 9,10 in steps of 1
		ramp(3, 4, 2, -2, 5), // steps of exactly the tolerance, the fields in opposite directions (crossing zero)
		ramp(3, 4, -1, 0, 8), // one field only, through zero to -5
		append(ramp(3, 4, 1, 1, 5), MOp{K: "s", L: 30, T: 40}),
		append(ramp(3, 4, 1, 2, 4), ramp(7, 12, -1, -2, 4)...),                                       // up and back: ends where it began
		{{K: "s", L: 5, T: 6}, {K: "s", L: -5, T: -6}},                                               // sign change as the last write
		{{K: "s", L: 5, T: 6}, {K: "s", L: -5, T: 6}, {K: "s", L: -5, T: -6}, {K: "s", L: 5, T: -7}}, // one field at a time, nearly the same magnitude
		{{K: "s", L: -8, T: -9}, {K: "s", L: 8, T: 9}, {K: "s", L: 9, T: 10}, {K: "s", L: -9, T: -10}, {K: "s", L: -8, T: -9}, {K: "s", L: 7, T: 10}},
		{{K: "s", L: 4, T: 5}, {K: "s", L: 5, T: 4}, {K: "s", L: 3, T: 6}, {K: "s", L: 4, T: 5}, {K: "s", L: 2, T: 3}, {K: "s", L: 1, T: -1}, {K: "s", L: -1, T: 1}},
	}
	for _, ops := range vhist {
		for _, lossy := range []bool{false, true} {
			for _, mask := range maskChoices {
				subs := []MSub{{Mask: mask, BP: true}, {Mask: nil, BP: !lossy}, {Mask: mask, BP: !lossy, Late: len(ops) / 2}}
				out = append(out, MaskScenario{Res: "value", Init: map[string]int{"0": 3}, Ops: ops, Subs: subs, Eq: "a"})
			}
		}
		out = append(out, MaskScenario{Res: "value", Init: map[string]int{}, Ops: ops, Eq: "a",
			Subs: []MSub{{BP: true}, {Mask: maskChoices[1], BP: true, Late: 1}}})
	}
	cops := []MOp{{K: "s", ID: 0, L: 5, T: 6}, {K: "s", ID: 0, L: -5, T: -6}, {K: "s", ID: 0, L: -5, T: -6}, {K: "s", ID: 1, L: 9, T: -9},
		{K: "s", ID: 0, L: 5, T: 6}, {K: "d", ID: 0}, {K: "s", ID: 0, L: 6, T: 5}, {K: "s", ID: 1, L: -9, T: 9}, {K: "s", ID: 2, L: -4, T: -5},
		{K: "d", ID: 1}, {K: "s", ID: 1, L: -8, T: 8}, {K: "s", ID: 0, L: -6, T: -5}, {K: "s", ID: 2, L: 4, T: 5}, {K: "s", ID: 1, L: 8, T: -8}}
	for _, mask := range maskChoices {
		out = append(out, MaskScenario{Res: "coll", Init: map[string]int{"2": 4}, Ops: cops, Eq: "a",
			Subs: []MSub{{Mask: mask, BP: true}, {Mask: nil, BP: true}, {Mask: mask, BP: true, Late: 6}}})
	}
	return out
}

// genTol: a random scenario on a resource with the tolerance equivalence. Value: a walk of small steps (within the
// tolerance), jumps and negations; Collection: every step none or beyond the tolerance in both fields (see tolWitnesses)
func genTol(rng *rand.Rand) MaskScenario {
	sc := MaskScenario{Res: "value", Init: map[string]int{}, Eq: "a"}
	if rng.Intn(3) == 0 {
		sc.Res = "coll"
	}
	n := 3 + rng.Intn(8)
	cur := map[int]*pair{}
	ids := 1
	if sc.Res == "coll" {
		ids = 2
	}
	for id := 0; id < ids; id++ {
		if rng.Intn(2) == 0 {
			l := 2 + rng.Intn(6)
			sc.Init[strconv.Itoa(id)] = l
			cur[id] = &pair{l, l + 1}
		}
	}
	far := func(x int) int { // a value beyond the tolerance of x, never the marker's
		d := tol + 1 + rng.Intn(6)
		if rng.Intn(2) == 0 {
			d = -d
		}
		return x + d
	}
	for i := 0; i < n; i++ {
		id := rng.Intn(ids)
		c := cur[id]
		var p pair
		switch {
		case c == nil:
			p = pair{rng.Intn(19) - 9, rng.Intn(19) - 9}
		case sc.Res == "coll" && rng.Intn(6) == 0:
			sc.Ops = append(sc.Ops, MOp{K: "d", ID: id})
			cur[id] = nil
			continue
		case sc.Res == "coll":
			switch rng.Intn(4) {
			case 0:
				p = *c
			case 1:
				if absInt(c.L) > tol/2 && absInt(c.T) > tol/2 {
					p = pair{-c.L, -c.T}
				} else {
					p = pair{far(c.L), far(c.T)}
				}
			default:
				p = pair{far(c.L), far(c.T)}
			}
		default:
			switch rng.Intn(6) {
			case 0:
				p = pair{-c.L, -c.T}
			case 1:
				p = pair{-c.L, c.T}
			case 2:
				p = pair{far(c.L), far(c.T)}
			default: // a small step, most often in one direction: ramps
				d := 1 + rng.Intn(tol)
				if rng.Intn(4) == 0 {
					d = -d
				}
				p = pair{c.L + d, c.T + rng.Intn(2*tol+1) - tol}
			}
		}
		sc.Ops = append(sc.Ops, MOp{K: "s", ID: id, L: p.L, T: p.T})
		q := p
		cur[id] = &q
	}
	lossy := sc.Res == "value" && rng.Intn(2) == 0
	ns := 2 + rng.Intn(2)
	for i := 0; i < ns; i++ {
		s := MSub{Mask: maskChoices[rng.Intn(len(maskChoices))], BP: !lossy || rng.Intn(2) == 0}
		if rng.Intn(3) == 0 {
			s.Late = rng.Intn(n + 1)
		}
		sc.Subs = append(sc.Subs, s)
	}
	if rng.Intn(3) == 0 {
		sc.Clock = clockKinds[rng.Intn(len(clockKinds))]
		for i := range sc.Ops {
			sc.Ops[i].WT = genWT(rng)
		}
	}
	return sc
}

func genMasks(rng *rand.Rand) MaskScenario {
	sc := MaskScenario{Res: "coll", Init: map[string]int{}}
	if rng.Intn(3) == 0 {
		sc.Res = "value"
	}
	ids := 1
	if sc.Res == "coll" {
		ids += rng.Intn(2)
	}
	for id := 0; id < ids; id++ {
		if rng.Intn(2) == 0 {
			sc.Init[strconv.Itoa(id)] = 2 + 2*id
		}
	}
	n := 2 + rng.Intn(4)
	for i := 0; i < n; i++ {
		id := rng.Intn(ids)
		if sc.Res == "coll" && rng.Intn(5) == 0 {
			sc.Ops = append(sc.Ops, MOp{K: "d", ID: id})
		} else {
			sc.Ops = append(sc.Ops, MOp{K: "s", ID: id, L: 20 + 4*i, T: 21 + 4*i})
		}
	}
	withIncl := sc.Res == "coll" && rng.Intn(2) == 0
	if withIncl { // small values of either parity, so that items move into and out of the included sets
		for i := range sc.Ops {
			sc.Ops[i].L, sc.Ops[i].T = rng.Intn(10), rng.Intn(10)
		}
	}
	if rng.Intn(3) == 0 {
		// an equivalence on the resource and bodies from a small alphabet, so that equal and equivalent bodies recur
		sc.Eq = []string{"e", "l", "t"}[rng.Intn(3)]
		for k := range sc.Init {
			sc.Init[k] = rng.Intn(2)
		}
		for i := range sc.Ops {
			sc.Ops[i].L, sc.Ops[i].T = rng.Intn(3), rng.Intn(3)
		}
	}
	if rng.Intn(2) == 0 {
		sc.Clock = clockKinds[rng.Intn(len(clockKinds))]
		for i := range sc.Ops {
			sc.Ops[i].WT = genWT(rng)
		}
	}
	ns := 2 + rng.Intn(2)
	for i := 0; i < ns; i++ {
		s := MSub{Mask: maskChoices[rng.Intn(len(maskChoices))], BP: rng.Intn(2) == 0}
		if withIncl {
			s.Incl = inclChoices[rng.Intn(len(inclChoices))]
		}
		if rng.Intn(3) == 0 {
			s.Late = rng.Intn(n + 1)
		}
		if sc.Res == "value" && sc.Eq != "" {
			s.BP = true // bodies recur: see eqWitnesses
		}
		sc.Subs = append(sc.Subs, s)
	}
	if sc.Res == "coll" && rng.Intn(3) == 0 {
		// a collection with an id interceptor, every call spelling its id its own way
		sc.Icpt = icptKinds[rng.Intn(len(icptKinds))]
		for i := range sc.Ops {
			sc.Ops[i].Sp = rng.Intn(2)
		}
	}
	return sc
}

func masksMonitor(f lib.Flags, res *lib.Result, rng *rand.Rand) {
	mon := res.Monitor("converges-read-masks",
		"single writer, 2-3 concurrent subscribers of one Value / Collection of two-field messages with DIFFERENT read masks (none, each field, both), backpressure on/off, subscribing before or between writes; each subscriber's folded view at quiescence vs the projection of Get/List under its OWN mask (projection computed independently); all ordered pairs of distinct masks x {Value, Collection} x {backpressure, lossy} + random; on Collections also WithInclude with a function of a closed family reading the STORED item (level even, target even, level >= 5, id even and target < 5) combined with every mask (in particular masks hiding the field the function reads): scripted sequences moving items into / inside / out of the included set by ADD, UPDATE and REMOVE for every (mask, function) pair + random; the view must be the masked image of the items the function accepts AND equal what List returns with the same mask and function; resources created with an equivalence (WithNoDuplicates; WithEquivalence comparing only level / only target, an absent message equivalent to an absent one only) x every mask x {backpressure, lossy} x {Value, Collection}, with and without include functions: equal rewrites, changes of one field, delete and re-creation with the SAME body (also of a seeded item), items leaving the included set and returning with the same masked body, bodies from a three-letter alphabet at random: the view must hold the same items as Get/List and equivalent bodies (equal ones WithNoDuplicates); resources with a TOLERANCE equivalence (WithMessageEquivalence(cmp.Equal(cmp.FloatValueApprox(0, 2))): reflexive, symmetric, not transitive) - on a Value ramps whose every step is within the tolerance of its predecessor (one field, both, opposite directions, through zero, up and back, ending on the ramp or followed by a jump), sign changes between equal and nearly equal magnitudes (last write / in the middle / one field at a time), oscillation, x every mask x {all backpressured: marker far beyond everything; with lossy subscribers: polled} + random walks of small steps, negations and jumps: the value held must be within the tolerance of Get, field by field; on a Collection (each change compared with the value it replaced: a drift below the tolerance is C16's finding and not driven) steps that are none or beyond the tolerance in both fields, sign changes included, deletes and re-creations, backpressured, scripted + random: same items and bodies within tolerance; write times equal / decreasing / zero and scripted clocks on half of the random scenarios; deterministic, so any difference is a violation")
	all := append(maskWitnesses(), includeMaskWitnesses()...)
	all = append(all, eqWitnesses()...)
	all = append(all, tolWitnesses()...)
	for i := 0; i < f.N(200, 3000); i++ {
		all = append(all, genMasks(rng))
	}
	for i := 0; i < f.N(100, 1500); i++ {
		all = append(all, genTol(rng))
	}
	tie := res.Tie("masks-model", "K1",
		"the read-mask scenarios as schedules of the model (single writer; every delivery immediately received; subscriber i carries its mask as a projection and its include function; the model's view is the fold of what its forwarder emits: include on the stored values, then the mask): store and every subscriber's view at quiescence vs run(model), the model applying the resource's equivalence as Collection.Pull (own old vs new value) / Value.Pull (value sent last vs new value) do; under an equivalence coarser than equality the views of lossy and of Value subscribers are compared by equivalence class; under the tolerance (comparer a / A of the driver: fields within 2, a zero - unpopulated - field equivalent to a zero field only, as cmp.Equal compares which fields are populated first) backpressured subscribers ended by a marker are compared exactly and polled / lossy ones not at all (the monitor judges them); non-trivial = subscribers with different masks")
	var lines, codes []string
	var inputs []any
	var nontriv []bool
	var scs []MaskScenario
	for _, sc := range all {
		distinct := false
		for i := range sc.Subs {
			if fmt.Sprint(sc.Subs[i].Mask) != fmt.Sprint(sc.Subs[0].Mask) {
				distinct = true
			}
		}
		mon.Eval(sc.key(), distinct, nil)
		mon.Count(sc.Res)
		in := map[string]any{"mode": "masks", "res": sc.Res, "init": sc.Init, "ops": sc.Ops, "subs": sc.Subs, "eq": sc.Eq, "clock": sc.Clock, "icpt": sc.Icpt}
		v, mr := runMasks(sc)
		if v != nil {
			mon.Violate(v.sig, v.what, in, v.expected, v.observed)
		}
		if mr != nil {
			code := "store=" + showPairsDrv(mr.contents)
			for i, vw := range mr.views {
				code += fmt.Sprintf("|S%d=live:%s", i, showPairsDrv(vw))
			}
			lines = append(lines, sc.driverLine())
			codes = append(codes, code)
			inputs = append(inputs, in)
			nontriv = append(nontriv, distinct)
			scs = append(scs, sc)
		}
	}
	drv, err := lib.StartDriver(f.Driver)
	if err != nil {
		tie.Fail(err)
		return
	}
	answers, err := drv.Batch(lines)
	drv.Close()
	if err != nil {
		tie.Fail(err)
		return
	}
	for i := range lines {
		tie.Record(lines[i], nontriv[i], inputs[i], classViews(stripModel(answers[i], func(int) bool { return true }), scs[i]), classViews(codes[i], scs[i]))
	}
}

// classViews: under an equivalence coarser than equality a LOSSY subscriber's view is determined only up to the
// equivalence (which of two equivalent bodies it holds depends on what its merge stage happened to combine): the views
// of lossy subscribers are compared by equivalence class (the compared field only); everything else exactly.
func classViews(ans string, sc MaskScenario) string {
	if sc.Eq == "a" {
		// a tolerance has no classes. A Collection subscriber with backpressure and the subscribers of a Value that ends
		// with the marker (all backpressured) have received every change: compared exactly. Otherwise (a lossy subscriber:
		// what it holds depends on what its stage merged; a polled one counts as drained once within tolerance) the
		// view is the monitor's business (within tolerance of Get), not the tie's.
		exact := true
		for _, sb := range sc.Subs {
			exact = exact && sb.BP
		}
		if exact {
			return ans
		}
		parts := strings.Split(ans, "|")
		for k, p := range parts {
			if eq := strings.IndexByte(p, '='); strings.HasPrefix(p, "S") && eq > 0 {
				parts[k] = p[:eq+1] + "~"
			}
		}
		return strings.Join(parts, "|")
	}
	if sc.Eq != "l" && sc.Eq != "t" {
		return ans
	}
	parts := strings.Split(ans, "|")
	for k, p := range parts {
		if !strings.HasPrefix(p, "S") {
			continue
		}
		eq := strings.IndexByte(p, '=')
		i, _ := strconv.Atoi(p[1:eq])
		if i >= len(sc.Subs) || (sc.Subs[i].BP && sc.Res != "value") {
			// (a Value subscriber counts as drained as soon as its view is equivalent to the final value: by class too)
			continue
		}
		f := strings.SplitN(p[eq+1:], ":", 2)
		if len(f) != 2 || f[1] == "" {
			continue
		}
		var items []string
		for _, kv := range strings.Split(f[1], ",") {
			x := strings.SplitN(kv, "=", 2)
			lt := strings.SplitN(x[1], ".", 2)
			if sc.Eq == "l" {
				items = append(items, x[0]+"="+lt[0]+".~")
			} else if len(lt) == 2 {
				items = append(items, x[0]+"=~."+lt[1])
			} else {
				items = append(items, x[0]+"=~.0")
			}
		}
		parts[k] = p[:eq+1] + f[0] + ":" + strings.Join(items, ",")
	}
	return strings.Join(parts, "|")
}

// ---------------------------------------------------------------------------------------------
// lossy subscriber seeded with a change whose publication is still to come (hooked, single writer):
// the writer is parked between commit and Bus.Send, a LOSSY subscriber takes its snapshot and listens, the
// publication (a duplicate of the seed) follows, further writes follow while the consumer is paused, then it drains.

type DupScenario struct {
	Res     string `json:"res"`
	Present bool   `json:"present"` // the id exists before the first write (so the in-flight change is an UPDATE, else an ADD)
	Ballast bool   `json:"ballast"`
	Rest    []WOp  `json:"rest"` // writes after the publication of the first one, consumer still paused
}

func (sc DupScenario) key() string { return fmt.Sprintf("%+v", sc) }

func runDup(ctl *k4.Controller, sc DupScenario) (*verdict, string) {
	init := map[string]int64{}
	if sc.Present {
		init["0"] = 1
	}
	if sc.Ballast && sc.Res == "coll" {
		init["5"] = 7
	}
	w := newWorld(Scenario{Res: sc.Res, Init: init})
	ctx, cancel := context.WithCancel(context.Background())
	defer cancel()
	ops := append([]WOp{{K: "s", ID: 0, V: 10}}, sc.Rest...)
	th := ctl.Spawn(0, func(yield func(string)) {
		for _, op := range ops {
			yield("start")
			w.exec(op)
		}
	})
	// commit of the first write; parked before Bus.Send
	ctl.StepWait(th)
	if th.Status != k4.Parked || (th.Point != ptUpdSend && th.Point != ptValSend) {
		return &verdict{"C03/" + sc.Res + "/lossy-seed-dup/harness", "writer did not park before its publication", ptUpdSend, th.Point}, ""
	}
	// the lossy subscriber: snapshot (includes the committed change) + listen; its consumer is paused
	opts := []resource.ReadOption{resource.WithBackpressure(false)}
	var collCh <-chan *resource.CollectionChange
	var valCh <-chan *resource.ValueChange
	if sc.Res == "value" {
		valCh = w.val.Pull(ctx, opts...)
	} else {
		collCh = w.coll.Pull(ctx, opts...)
	}
	// the publication and the remaining writes
	for th.Status == k4.Parked {
		ctl.StepWait(th)
	}
	contents := w.contents()
	view := map[string]int64{}
	var events []string
	deadline := time.After(3 * time.Second)
	if sc.Res == "value" {
		want, wok := contents["0"]
		for wok {
			select {
			case e := <-valCh:
				v, _ := msgVal(e.Value)
				view["0"] = v
				events = append(events, fmt.Sprintf("0=%d", v))
				if v == want {
					wok = false
				}
			case <-deadline:
				wok = false
			}
		}
	} else {
		w.coll.Update("zz", nil2sentinel(), resource.WithCreateIfAbsent())
	loop:
		for {
			select {
			case e := <-collCh:
				if e.Id == "zz" {
					break loop
				}
				id := strings.TrimPrefix(e.Id, "i")
				if e.ChangeType == types.ChangeType_REMOVE {
					delete(view, id)
					events = append(events, id+"=nil")
				} else {
					v, _ := msgVal(e.NewValue)
					view[id] = v
					events = append(events, fmt.Sprintf("%s=%d", id, v))
				}
			case <-deadline:
				return &verdict{"C03/coll/lossy-seed-dup/sentinel-not-delivered", "the marker written after the writes was never received", "marker", strings.Join(events, ";")}, ""
			}
		}
	}
	code := "store=" + showView(contents) + "|S0=live:" + showView(view)
	if showView(view) == showView(contents) {
		return nil, code
	}
	class := "other"
	if _, inStore := contents["0"]; !inStore {
		if _, inView := view["0"]; inView && !sc.Present {
			class = "seeded-id-survives-delete"
		}
	}
	return &verdict{fmt.Sprintf("C03/%s/lossy-seed-dup/stale-view/%s", sc.Res, class),
		fmt.Sprintf("single writer; a lossy subscriber was seeded with a change published only afterwards (present before: %v), then writes %v while its consumer was paused: the drained view differs from the store", sc.Present, sc.Rest),
		"view = " + showView(contents), "view = " + showView(view) + " from events " + strings.Join(events, ";")}, code
}

func (sc DupScenario) driverLine() string {
	init := map[string]int64{}
	if sc.Present {
		init["0"] = 1
	}
	if sc.Ballast && sc.Res == "coll" {
		init["5"] = 7
	}
	ops := append([]WOp{{K: "s", ID: 0, V: 10}}, sc.Rest...)
	base := Scenario{Res: sc.Res, Init: init, Writers: [][]WOp{ops}}
	sched := []string{"c0", "s0", "n0", "d0"}
	for range sc.Rest {
		sched = append(sched, "c0", "n0", "d0")
	}
	sched = append(sched, "R")
	f := strings.Fields(base.driverLine(nil))
	return fmt.Sprintf("run %s %s 01n %s", f[1], f[2], strings.Join(sched, ","))
}

func dupScenarios() []DupScenario {
	var out []DupScenario
	for _, res := range []string{"coll", "value"} {
		for n := 0; n <= 3; n++ {
			for bits := 0; bits < 1<<n; bits++ {
				var rest []WOp
				skip := false
				for i := 0; i < n; i++ {
					if bits&(1<<i) != 0 {
						if res == "value" {
							skip = true
						}
						rest = append(rest, WOp{K: "d", ID: 0})
					} else {
						rest = append(rest, WOp{K: "s", ID: 0, V: int64(20 + i)})
					}
				}
				if skip {
					continue
				}
				for _, present := range []bool{false, true} {
					for _, ballast := range []bool{false, true} {
						if res == "value" && ballast {
							continue
						}
						out = append(out, DupScenario{Res: res, Present: present, Ballast: ballast, Rest: rest})
					}
				}
			}
		}
	}
	return out
}

func dupMonitor(f lib.Flags, res *lib.Result) {
	mon := res.Monitor("converges-lossy-seed-dup-hooked",
		"single writer parked at *.beforeSend after committing a write of id 0 (an ADD or an UPDATE); a LOSSY subscriber takes its snapshot and listens; the publication (a duplicate of the seed) is released, then every sequence over {write, delete} of id 0 up to length 3 runs while the consumer is paused; it then drains to a marker; view vs Get/List")
	ctl := k4.New(ptUpdSend, ptValSend, ptListener)
	defer ctl.Close()
	tie := res.Tie("k4-lossy-seed-dup", "K4",
		"the same scenarios as schedules of the model (commit, subscribe lossy, snapshot, deliver, further writes, consumer drains last): store and drained view vs run(model) — the model reproduces the stale view of the recorded finding; non-trivial = writes follow the duplicate")
	var lines, codes []string
	var inputs []any
	var nontriv []bool
	for _, sc := range dupScenarios() {
		mon.Eval(sc.key(), len(sc.Rest) > 0, nil)
		mon.Count(sc.Res)
		in := map[string]any{"mode": "lossy-seed-dup", "res": sc.Res, "present": sc.Present, "ballast": sc.Ballast, "rest": sc.Rest}
		v, code := runDup(ctl, sc)
		if v != nil {
			mon.Violate(v.sig, v.what, in, v.expected, v.observed)
		}
		if code != "" {
			lines = append(lines, sc.driverLine())
			codes = append(codes, code)
			inputs = append(inputs, in)
			nontriv = append(nontriv, len(sc.Rest) > 0)
		}
	}
	drv, err := lib.StartDriver(f.Driver)
	if err != nil {
		tie.Fail(err)
		return
	}
	answers, err := drv.Batch(lines)
	drv.Close()
	if err != nil {
		tie.Fail(err)
		return
	}
	for i := range lines {
		tie.Record(lines[i], nontriv[i], inputs[i], stripModel(answers[i], func(int) bool { return true }), codes[i])
	}
}
