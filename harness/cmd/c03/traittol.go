// Trait models whose DEFAULT options install a tolerance equivalence on a Value (electricpb demand and fanspeedpb fan
// speed: cmp.FloatValueApprox(0, 0.01); energystoragepb energy level: FloatValueApprox(0, 0.1) + time / duration windows):
// a subscriber of Model.PullDemand / PullFanSpeed / PullEnergyLevel must end within the tolerance of what Demand /
// FanSpeed / GetEnergyLevel return once the writes have stopped, however the value crept there (ramps of steps each within the
// tolerance, sign changes between equal magnitudes, oscillation inside the tolerance).
package main

import (
	"context"
	"encoding/json"
	"fmt"
	"math"
	"math/rand"
	"strconv"
	"strings"
	"sync"
	"time"

	"github.com/smart-core-os/sc-api/go/traits"

	"github.com/smart-core-os/sc-golang/pkg/resource"
	"github.com/smart-core-os/sc-golang/pkg/trait/electricpb"
	"github.com/smart-core-os/sc-golang/pkg/trait/energystoragepb"
	"github.com/smart-core-os/sc-golang/pkg/trait/fanspeedpb"
	"github.com/smart-core-os/sc-golang/verifharness/lib"
)

// TraitTolScenario: values are whole numbers of UNITS of 0.4 x the model's tolerance: two units apart is within the
// tolerance (0.8), three beyond it (1.2) - far enough from the boundary for float32 rounding not to matter. A value is
// never 0 (a Set without update mask does not write a zero scalar).
type TraitTolScenario struct {
	Model string `json:"model"` // "electric" | "energy" | "fan"
	Init  int    `json:"init"`
	Ops   []int  `json:"ops"`
	Lossy bool   `json:"lossy,omitempty"` // WithBackpressure(false)
	Late  int    `json:"late,omitempty"`  // subscribes after this many writes
}

func (sc TraitTolScenario) key() string { b, _ := json.Marshal(sc); return string(b) }

const traitTolMarker = 100000

var traitTolModels = []string{"electric", "energy", "fan"}

type traitTolModel struct {
	unit float64
	set  func(h int)
	get  func() float64
	pull func(ctx context.Context, opts ...resource.ReadOption) <-chan float64
}

func newTraitTolModel(name string, init int) *traitTolModel {
	switch name {
	case "electric":
		const unit = 0.004
		volts := float32(240)
		msg := func(h int) *traits.ElectricDemand {
			return &traits.ElectricDemand{Current: float32(float64(h) * unit), Voltage: &volts, Rating: 13}
		}
		m := electricpb.NewModel(electricpb.WithInitialDemand(msg(init)))
		return &traitTolModel{unit: unit,
			set: func(h int) { m.UpdateDemand(msg(h)) },
			get: func() float64 { return float64(m.Demand().Current) },
			pull: func(ctx context.Context, opts ...resource.ReadOption) <-chan float64 {
				out := make(chan float64)
				in := m.PullDemand(ctx, opts...)
				go func() {
					defer close(out)
					for c := range in {
						out <- float64(c.Value.Current)
					}
				}()
				return out
			}}
	case "energy":
		const unit = 0.04
		msg := func(h int) *traits.EnergyLevel {
			return &traits.EnergyLevel{Quantity: &traits.EnergyLevel_Quantity{Percentage: float32(float64(h) * unit)}}
		}
		m := energystoragepb.NewModel(energystoragepb.WithInitialEnergyLevel(msg(init)))
		return &traitTolModel{unit: unit,
			set: func(h int) { m.UpdateEnergyLevel(msg(h)) },
			get: func() float64 { l, _ := m.GetEnergyLevel(); return float64(l.GetQuantity().GetPercentage()) },
			pull: func(ctx context.Context, opts ...resource.ReadOption) <-chan float64 {
				out := make(chan float64)
				in := m.PullEnergyLevel(ctx, opts...)
				go func() {
					defer close(out)
					for c := range in {
						out <- float64(c.Value.GetQuantity().GetPercentage())
					}
				}()
				return out
			}}
	case "fan":
		// (percentages that are no preset's: DeriveValues then leaves preset "" / index -1 alone, as the initial value has them)
		const unit = 0.004
		msg := func(h int) *traits.FanSpeed {
			return &traits.FanSpeed{Percentage: float32(float64(h) * unit), PresetIndex: -1, Direction: traits.FanSpeed_FORWARD}
		}
		m := fanspeedpb.NewModel(fanspeedpb.WithInitialFanSpeed(msg(init)))
		return &traitTolModel{unit: unit,
			set: func(h int) { m.UpdateFanSpeed(msg(h)) },
			get: func() float64 { return float64(m.FanSpeed().Percentage) },
			pull: func(ctx context.Context, opts ...resource.ReadOption) <-chan float64 {
				out := make(chan float64)
				in := m.PullFanSpeed(ctx, opts...)
				go func() {
					defer close(out)
					for c := range in {
						out <- float64(c.Value.Percentage)
					}
				}()
				return out
			}}
	}
	return nil
}

type traitTolResult struct {
	get    int
	events []int // everything received, the seed first, the marker left out
}

var traitTolFailures int

func runTraitTol(sc TraitTolScenario) (*verdict, *traitTolResult) {
	m := newTraitTolModel(sc.Model, sc.Init)
	if m == nil {
		return nil, nil
	}
	ctx, cancel := context.WithCancel(context.Background())
	defer cancel()
	units := func(x float64) int { return int(math.Round(x / m.unit)) }
	var mu sync.Mutex
	var events []int
	marker := make(chan struct{}, 1)
	subscribed := false
	seeded := make(chan struct{})
	limit := 3 * time.Second
	if traitTolFailures >= 3 {
		limit = 30 * time.Millisecond
	}
	// subscribe returns once the seed has arrived: PullFanSpeed calls Value.Pull from its own goroutine, so the return
	// of the trait method alone does not say that the subscription exists
	subscribe := func() bool {
		subscribed = true
		ch := m.pull(ctx, resource.WithBackpressure(!sc.Lossy))
		go func() {
			first := true
			for x := range ch {
				h := units(x)
				if first {
					first = false
					mu.Lock()
					events = append(events, h)
					mu.Unlock()
					close(seeded)
					continue
				}
				if h >= traitTolMarker/2 {
					select {
					case marker <- struct{}{}:
					default:
					}
					continue
				}
				mu.Lock()
				events = append(events, h)
				mu.Unlock()
			}
		}()
		select {
		case <-seeded:
			return true
		case <-time.After(limit):
			return false
		}
	}
	site := "C03/trait/" + sc.Model + "/tolerance-default"
	noSeed := func() (*verdict, *traitTolResult) {
		traitTolFailures++
		return &verdict{site + "/seed-not-delivered", "the subscriber of a model with an initial value received nothing", "the current value", "none"}, nil
	}
	if sc.Late == 0 && !subscribe() {
		return noSeed()
	}
	for n, h := range sc.Ops {
		m.set(h)
		if !subscribed && sc.Late == n+1 && !subscribe() {
			return noSeed()
		}
	}
	if !subscribed && !subscribe() {
		return noSeed()
	}
	got := units(m.get())
	last := func() (int, bool) {
		mu.Lock()
		defer mu.Unlock()
		if len(events) == 0 {
			return 0, false
		}
		return events[len(events)-1], true
	}
	within := func() bool {
		h, ok := last()
		return ok && absInt(h-got) <= 2
	}
	if !sc.Lossy {
		// every change reaches a backpressured subscriber: a marker far from everything ends the stream of interest
		m.set(traitTolMarker)
		select {
		case <-marker:
		case <-time.After(limit):
			traitTolFailures++
			return &verdict{site + "/marker-not-delivered", "the subscriber never received the last write (far beyond the tolerance of everything before it)", "marker", "none"}, nil
		}
	} else {
		// (a lossy subscriber may lose the final value to a marker: it is polled - bounded, immediate when right)
		deadline := time.Now().Add(limit)
		for !within() && time.Now().Before(deadline) {
			time.Sleep(100 * time.Microsecond)
		}
	}
	mu.Lock()
	evs := append([]int(nil), events...)
	mu.Unlock()
	if !within() {
		traitTolFailures++
		var shown []string
		for _, h := range evs {
			shown = append(shown, strconv.Itoa(h))
		}
		return &verdict{site + "/stale-view",
			fmt.Sprintf("single writer, one subscriber of the model's Pull method, default model options (tolerance equivalence): the value delivered last is farther than the tolerance (2.5 units of %g) from what the model's getter returns after the writes", m.unit),
			fmt.Sprintf("within 2 units of %d", got), "received (units) " + strings.Join(shown, ";")}, nil
	}
	return nil, &traitTolResult{get: got, events: evs}
}

// driverLine: the Value of the model as the driver's single id 0 with messages (h, 0), the comparer `A`
func (sc TraitTolScenario) driverLine() string {
	var ops, sched []string
	if sc.Late == 0 {
		sched = append(sched, "s0")
	}
	done := sc.Late == 0
	for n, h := range sc.Ops {
		ops = append(ops, fmt.Sprintf("u/0/w%d.0", h))
		sched = append(sched, "c0", "n0", "d0", "R")
		if !done && sc.Late == n+1 {
			sched = append(sched, "s0")
			done = true
		}
	}
	if !done {
		sched = append(sched, "s0")
	}
	return fmt.Sprintf("run 0:%d.0 %s 0%snnA %s", sc.Init, strings.Join(ops, ";"), b01(sc.Lossy), strings.Join(sched, ","))
}

func traitTolWitnesses() []TraitTolScenario {
	hist := [][]int{
		{4, 5, 6, 7, 8, 9},             // a ramp of steps within the tolerance, ending on the ramp
		{5, 7, 9, 11, 13},              // steps of two units
		{2, 1, -1, -2, -3, -4, -5},     // down through zero
		{4, 5, 6, 7, 8, 40},            // a ramp, then a jump
		{5, 7, 9, 7, 5, 3},             // up and back
		{7, -7},                        // sign change of equal magnitude as the last write
		{-3},                           // from 3 to -3
		{8, -8, -9, 9, 10, -10, -8, 8}, // sign changes of nearly equal magnitude
		{4, 2, 4, 2, 3, 5, 1},          // oscillation around the tolerance
	}
	var out []TraitTolScenario
	for _, model := range traitTolModels {
		for _, h := range hist {
			for _, lossy := range []bool{false, true} {
				out = append(out, TraitTolScenario{Model: model, Init: 3, Ops: h, Lossy: lossy})
			}
			out = append(out, TraitTolScenario{Model: model, Init: 3, Ops: h, Late: 1 + len(h)/2})
		}
	}
	return out
}

func genTraitTol(rng *rand.Rand) TraitTolScenario {
	sc := TraitTolScenario{Model: traitTolModels[rng.Intn(len(traitTolModels))], Init: 1 + rng.Intn(9), Lossy: rng.Intn(3) == 0}
	cur := sc.Init
	n := 2 + rng.Intn(8)
	dir := 1
	for i := 0; i < n; i++ {
		switch rng.Intn(6) {
		case 0:
			cur = -cur
		case 1:
			cur += (3 + rng.Intn(6)) * (2*rng.Intn(2) - 1)
		case 2:
			dir = -dir
			fallthrough
		default:
			cur += dir * (1 + rng.Intn(2))
		}
		if cur == 0 {
			cur = dir
		}
		sc.Ops = append(sc.Ops, cur)
	}
	if rng.Intn(3) == 0 {
		sc.Late = rng.Intn(n + 1)
	}
	return sc
}

func traitTolMonitor(f lib.Flags, res *lib.Result, rng *rand.Rand) {
	mon := res.Monitor("converges-trait-tolerance-defaults",
		"electricpb Model.PullDemand, fanspeedpb Model.PullFanSpeed and energystoragepb Model.PullEnergyLevel on models created with their DEFAULT options (a tolerance equivalence on the Value: cmp.Equal(cmp.FloatValueApprox(0, 0.01)) / (0, 0.1)), single writer through UpdateDemand / UpdateFanSpeed (percentages that are no preset's) / UpdateEnergyLevel, one subscriber (backpressured: ended by a marker write far beyond everything; lossy: polled), subscribing before, between or after the writes; histories in units of 0.4 tolerances: ramps whose every step is within the tolerance (ending on the ramp or followed by a jump), up and back, down through zero, sign changes between equal or nearly equal magnitudes (as the last write too), oscillation, + random walks; the value delivered last must be within the tolerance of what Demand / FanSpeed / GetEnergyLevel return after the writes; deterministic for backpressured subscribers, so any difference is a violation")
	tie := res.Tie("trait-tolerance-model", "K1",
		"the same scenarios with a backpressured subscriber as schedules of the model (a Value of messages (h, 0), comparer `A` = within two units, a zero field equivalent to a zero field only, applied as Value.Pull does: against the value sent last): the stored value and the whole sequence of values received (seed first) vs run(model); non-trivial = some write was suppressed")
	all := traitTolWitnesses()
	for i := 0; i < f.N(120, 2000); i++ {
		all = append(all, genTraitTol(rng))
	}
	var lines, codes []string
	var inputs []any
	var nontriv []bool
	for _, sc := range all {
		in := map[string]any{"mode": "trait-tolerance", "model": sc.Model, "init": sc.Init, "ops": sc.Ops, "lossy": sc.Lossy, "late": sc.Late}
		mon.Eval(sc.key(), len(sc.Ops) > 1, nil)
		mon.Count(sc.Model)
		v, r := runTraitTol(sc)
		if v != nil {
			mon.Violate(v.sig, v.what, in, v.expected, v.observed)
		}
		if r == nil || sc.Lossy || len(r.events) == 0 {
			continue
		}
		var evs []string
		for _, h := range r.events[1:] {
			evs = append(evs, "0="+strconv.Itoa(h))
		}
		lines = append(lines, sc.driverLine())
		codes = append(codes, fmt.Sprintf("store=0=%d|S0=live:0=%d:%s", r.get, r.events[len(r.events)-1], strings.Join(evs, ";")))
		inputs = append(inputs, in)
		nontriv = append(nontriv, len(r.events)-1 < len(sc.Ops)-sc.Late)
	}
	drv, err := lib.StartDriver(f.Driver)
	if err != nil {
		tie.Fail(err)
		return
	}
	answers, err := drv.Batch(lines)
	drv.Close()
	if err != nil {
		tie.Fail(err)
		return
	}
	for i := range lines {
		var keep []string
		for _, p := range strings.Split(answers[i], "|") {
			if strings.HasPrefix(p, "store=") || strings.HasPrefix(p, "S") {
				keep = append(keep, p)
			}
		}
		tie.Record(lines[i], nontriv[i], inputs[i], strings.Join(keep, "|"), codes[i])
	}
}
