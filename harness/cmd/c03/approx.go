package main

import (
	"fmt"
	"time"

	"github.com/smart-core-os/sc-api/go/traits"
	"google.golang.org/protobuf/reflect/protoreflect"
	"google.golang.org/protobuf/types/known/durationpb"
	"google.golang.org/protobuf/types/known/timestamppb"

	"github.com/smart-core-os/sc-golang/pkg/cmp"
	"github.com/smart-core-os/sc-golang/verifharness/lib"
)

// ---------------------------------------------------------------------------------------------
// K2: cmp.FloatValueApprox, the comparer behind the tolerance equivalences (a callee of Value.Pull / Collection.Pull
// through WithMessageEquivalence), enumerated on small integers of BOTH signs with margins and dyadic fractions that
// float64 represents exactly - directly, and as cmp.Equal applies it to a scalar field of a message.

var approxFractions = [][2]int{{0, 1}, {1, 4}, {1, 2}, {1, 1}, {3, 2}}

// approxSpec: |x - y| <= max(margin, fraction * min(|x|, |y|)) in integers (the harness's own arithmetic)
func approxSpec(num, den, margin, x, y int) bool {
	m := absInt(x)
	if absInt(y) < m {
		m = absInt(y)
	}
	bound := den * margin
	if num*m > bound {
		bound = num * m
	}
	return den*absInt(x-y) <= bound
}

func approxTie(f lib.Flags, res *lib.Result) {
	tie := res.Tie("k2-float-approx-table", "K2",
		"cmp.FloatValueApprox(fraction, margin) for fraction in {0, 1/4, 1/2, 1, 3/2} x margin in {0..3} x x, y in {-9..9}: the comparer called directly on a float field, and cmp.Equal(FloatValueApprox(..)) on two messages that differ in that field only (where a zero value is an unpopulated field), vs the model's approxInt / approxField; exhaustive on this domain")
	tie.Exhaustive = true
	mon := res.Monitor("float-approx-is-a-distance-tolerance",
		"spec of the tolerance comparer, independent of the model, on the same table: equal to |x - y| <= max(margin, fraction * min(|x|, |y|)) computed in integers; reflexive; symmetric; with fraction 0 a value and its negation are within tolerance exactly when twice the magnitude is within the margin (the distance is between the values, not between their magnitudes); through cmp.Equal never MORE permissive than the comparer itself")
	fd := (&traits.Brightness{}).ProtoReflect().Descriptor().Fields().ByName("level_percent")
	type acase struct {
		num, den, margin, x, y int
		code                   string
	}
	var lines []string
	var cases []acase
	for _, fr := range approxFractions {
		for margin := 0; margin <= 3; margin++ {
			direct := cmp.FloatValueApprox(float64(fr[0])/float64(fr[1]), float64(margin))
			viaEqual := cmp.Equal(direct)
			for x := -9; x <= 9; x++ {
				for y := -9; y <= 9; y++ {
					code := ""
					if panicked, msg := lib.Catch(func() {
						eq, ok := direct(fd, protoreflect.ValueOfFloat32(float32(x)), protoreflect.ValueOfFloat32(float32(y)))
						if !ok {
							code = "not-handled"
							return
						}
						code = b01(eq) + "/" + b01(viaEqual(bright(x, 1), bright(y, 1)))
					}); panicked {
						code = "panic:" + msg
					}
					lines = append(lines, fmt.Sprintf("approx %d %d %d %d %d", fr[0], fr[1], margin, x, y))
					cases = append(cases, acase{fr[0], fr[1], margin, x, y, code})
				}
			}
		}
	}
	byKey := map[string]string{}
	for _, c := range cases {
		byKey[fmt.Sprintf("%d/%d/%d/%d/%d", c.num, c.den, c.margin, c.x, c.y)] = c.code
	}
	for _, c := range cases {
		in := map[string]any{"mode": "approx-table", "fraction": fmt.Sprintf("%d/%d", c.num, c.den), "margin": c.margin, "x": c.x, "y": c.y}
		key := fmt.Sprintf("%d/%d/%d/%d/%d", c.num, c.den, c.margin, c.x, c.y)
		mon.Eval(key, c.x != c.y, nil)
		site := "C03/cmp/float-approx/"
		want := approxSpec(c.num, c.den, c.margin, c.x, c.y)
		if len(c.code) != 3 {
			mon.Violate(site+"not-a-verdict", "the comparer did not answer for two float values", in, b01(want), c.code)
			continue
		}
		direct, via := c.code[:1] == "1", c.code[2:] == "1"
		switch {
		case direct != want && c.x == -c.y && c.x != 0:
			mon.Violate(site+"sign-change-misjudged", "a value and its negation: the distance between them is twice the magnitude", in, b01(want), c.code[:1])
		case direct != want:
			mon.Violate(site+"not-the-distance-tolerance", "the comparer differs from |x - y| <= max(margin, fraction * min(|x|, |y|))", in, b01(want), c.code[:1])
		case c.x == c.y && !direct:
			mon.Violate(site+"not-reflexive", "a value is not within tolerance of itself", in, "1", "0")
		case byKey[fmt.Sprintf("%d/%d/%d/%d/%d", c.num, c.den, c.margin, c.y, c.x)][:1] != c.code[:1]:
			mon.Violate(site+"not-symmetric", "the comparer answers differently for (x, y) and (y, x)", in, c.code[:1], "the opposite for (y, x)")
		case via && !direct:
			mon.Violate(site+"equal-more-permissive", "cmp.Equal with the comparer equates two messages whose only differing field the comparer itself tells apart", in, "0", "1")
		}
	}
	drv, err := lib.StartDriver(f.Driver)
	if err != nil {
		tie.Fail(err)
		return
	}
	answers, err := drv.Batch(lines)
	drv.Close()
	if err != nil {
		tie.Fail(err)
		return
	}
	for i, c := range cases {
		in := map[string]any{"mode": "approx-table", "fraction": fmt.Sprintf("%d/%d", c.num, c.den), "margin": c.margin, "x": c.x, "y": c.y}
		tie.Record(lines[i], c.x != c.y, in, answers[i], c.code)
	}
}

// withinTie: the other tolerance comparers of pkg/cmp (the energy storage model installs the first two by default):
// TimeValueWithin(d), DurationValueWithin(d) and DurationValueWithinP(p) on instants / durations of whole HALF seconds
// of both signs (a negative half second is seconds -1 + nanos 5e8 in a Timestamp, seconds 0 + nanos -5e8 in a Duration).
func withinTie(f lib.Flags, res *lib.Result) {
	tie := res.Tie("k2-time-duration-within-table", "K2",
		"cmp.TimeValueWithin(d) and cmp.DurationValueWithin(d) for d in {0, 0.5s, 1s, 1.5s}, cmp.DurationValueWithinP(p) for p in {0, 25, 50, 100, 150} percent, x, y in {-9..9} half seconds, called directly on a message field: vs the model's approxInt (fraction 0 and margin d / fraction p/100 and margin 0, in half seconds); exhaustive on this domain")
	tie.Exhaustive = true
	mon := res.Monitor("time-duration-within-is-a-distance-tolerance",
		"spec of the time / duration tolerance comparers, independent of the model, on the same table: equal to |x - y| <= d (resp. 100 |x - y| <= p min(|x|, |y|)) computed in integer half seconds; in particular reflexive, symmetric, and an instant / duration and its negation are within d exactly when twice the magnitude is")
	fd := (&traits.ElectricMode{}).ProtoReflect().Descriptor().Fields().ByName("start_time")
	half := 500 * time.Millisecond
	type wcase struct {
		kind                   string
		num, den, margin, x, y int
		code                   string
	}
	var lines []string
	var cases []wcase
	add := func(kind string, num, den, margin int, cmpv cmp.Value) {
		for x := -9; x <= 9; x++ {
			for y := -9; y <= 9; y++ {
				var vx, vy protoreflect.Value
				if kind == "time" {
					vx = protoreflect.ValueOfMessage(timestamppb.New(time.Unix(0, 0).Add(time.Duration(x) * half)).ProtoReflect())
					vy = protoreflect.ValueOfMessage(timestamppb.New(time.Unix(0, 0).Add(time.Duration(y) * half)).ProtoReflect())
				} else {
					vx = protoreflect.ValueOfMessage(durationpb.New(time.Duration(x) * half).ProtoReflect())
					vy = protoreflect.ValueOfMessage(durationpb.New(time.Duration(y) * half).ProtoReflect())
				}
				code := ""
				if panicked, msg := lib.Catch(func() {
					eq, ok := cmpv(fd, vx, vy)
					if !ok {
						code = "not-handled"
						return
					}
					code = b01(eq)
				}); panicked {
					code = "panic:" + msg
				}
				lines = append(lines, fmt.Sprintf("approx %d %d %d %d %d", num, den, margin, x, y))
				cases = append(cases, wcase{kind, num, den, margin, x, y, code})
			}
		}
	}
	for margin := 0; margin <= 3; margin++ {
		add("time", 0, 1, margin, cmp.TimeValueWithin(time.Duration(margin)*half))
		add("duration", 0, 1, margin, cmp.DurationValueWithin(time.Duration(margin)*half))
	}
	for _, p := range []int{0, 25, 50, 100, 150} {
		add("duration-percent", p, 100, 0, cmp.DurationValueWithinP(float32(p)))
	}
	for _, c := range cases {
		in := map[string]any{"mode": "approx-table", "comparer": c.kind, "fraction": fmt.Sprintf("%d/%d", c.num, c.den), "margin_half_seconds": c.margin, "x": c.x, "y": c.y}
		mon.Eval(fmt.Sprintf("%s/%d/%d/%d/%d", c.kind, c.num, c.margin, c.x, c.y), c.x != c.y, nil)
		want := b01(approxSpec(c.num, c.den, c.margin, c.x, c.y))
		if c.code != want {
			class := "not-the-distance-tolerance"
			if c.x == -c.y && c.x != 0 {
				class = "sign-change-misjudged"
			}
			mon.Violate("C03/cmp/"+c.kind+"-within/"+class, "the comparer differs from the distance tolerance computed in integer half seconds", in, want, c.code)
		}
	}
	drv, err := lib.StartDriver(f.Driver)
	if err != nil {
		tie.Fail(err)
		return
	}
	answers, err := drv.Batch(lines)
	drv.Close()
	if err != nil {
		tie.Fail(err)
		return
	}
	for i, c := range cases {
		in := map[string]any{"mode": "approx-table", "comparer": c.kind, "fraction": fmt.Sprintf("%d/%d", c.num, c.den), "margin_half_seconds": c.margin, "x": c.x, "y": c.y}
		model := answers[i]
		if len(model) == 3 {
			model = model[:1]
		}
		tie.Record(c.kind+" "+lines[i], c.x != c.y, in, model, c.code)
	}
}
