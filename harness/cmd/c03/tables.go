package main

import (
	"fmt"

	"github.com/smart-core-os/sc-api/go/types"
	"google.golang.org/protobuf/proto"

	"github.com/smart-core-os/sc-golang/pkg/resource"
	"github.com/smart-core-os/sc-golang/verifharness/lib"
)

// ---------------------------------------------------------------------------------------------
// K2: the two decision tables the model of the stage and of the forwarder rests on, enumerated exhaustively
// through the verif-tagged exports resource.VerifInclude / resource.VerifMergeChanges.

func optPair(p *pair) proto.Message {
	if p == nil {
		return nil
	}
	return bright(p.L, p.T)
}

func showOptPair(m proto.Message) string {
	p, ok := pairOf(m)
	if !ok || m == nil {
		return "-"
	}
	if p.T == 0 {
		return fmt.Sprintf("%d", p.L)
	}
	return fmt.Sprintf("%d.%d", p.L, p.T)
}

func showPairPtr(p *pair) string {
	if p == nil {
		return "-"
	}
	return showOptPair(bright(p.L, p.T))
}

func typeClass(t types.ChangeType) string {
	switch t {
	case types.ChangeType_ADD:
		return "A"
	case types.ChangeType_REMOVE:
		return "R"
	case types.ChangeType_UPDATE, types.ChangeType_REPLACE:
		return "U"
	}
	return "?" + t.String()
}

func showChange(c *resource.CollectionChange) string {
	return fmt.Sprintf("%s:%s:%s", typeClass(c.ChangeType), showOptPair(c.OldValue), showOptPair(c.NewValue))
}

func tablesTie(f lib.Flags, res *lib.Result) {
	drv, err := lib.StartDriver(f.Driver)
	itie := res.Tie("k2-include-table", "K2",
		"(*CollectionChange).include on every change over ids {0,1} x old, new in {absent, 5 two-field values} (not both absent; ADD / UPDATE / REMOVE by which side is absent) x the 5 include functions of the shared family (none, level even, target even, level >= 5, id even and target < 5): forwarded / dropped, resulting change type class (ADD, REMOVE, UPDATE-or-REPLACE), old and new value vs the model's fwdEv without a mask; exhaustive")
	itie.Exhaustive = true
	imon := res.Monitor("include-keeps-the-filtered-view",
		"spec of include, independent of the model: a view holding the change's old value iff the include function accepts it, after applying what include returns (nothing if dropped), holds the change's new value iff the include function accepts it; a change moving the item into / out of the accepted set is an ADD / REMOVE")
	mtie := res.Tie("k2-merge-table", "K2",
		"mergeChanges(a, b) for every pair of change types {ADD, UPDATE, REPLACE, REMOVE}^2 with opaque distinct payload tokens: cancelled / merged, resulting type class, old and new value vs the model's merge stage holding a and receiving b; exhaustive up to parametricity in the payloads")
	mtie.Exhaustive = true
	mmon := res.Monitor("merge-keeps-the-fold",
		"spec of the merge stage, independent of the model: for every pair of change types where b can follow a (b replaces what a left), a view holding a's old value ends the same whether a and b are applied in turn or only their merge (nothing if cancelled)")
	if err != nil {
		itie.Fail(err)
		mtie.Fail(err)
		return
	}
	defer drv.Close()

	vals := []*pair{nil, {0, 0}, {1, 2}, {2, 1}, {6, 4}, {5, 7}}
	var lines []string
	type icase struct {
		incl     string
		id       int
		old, new *pair
		code     string
	}
	var icases []icase
	for _, incl := range inclChoices {
		for id := 0; id < 2; id++ {
			for _, o := range vals {
				for _, n := range vals {
					if o == nil && n == nil {
						continue
					}
					ch := &resource.CollectionChange{Id: idName(id), OldValue: optPair(o), NewValue: optPair(n), ChangeType: types.ChangeType_UPDATE}
					if o == nil {
						ch.ChangeType = types.ChangeType_ADD
					} else if n == nil {
						ch.ChangeType = types.ChangeType_REMOVE
					}
					var fn resource.FilterFunc
					if incl != "" {
						fn = includeFunc(incl)
					}
					code := ""
					if panicked, msg := lib.Catch(func() {
						r, ok := resource.VerifInclude(ch, fn)
						if !ok {
							code = "drop"
						} else {
							code = showChange(r)
						}
					}); panicked {
						code = "panic:" + msg
					}
					letter := incl
					if letter == "" {
						letter = "n"
					}
					lines = append(lines, fmt.Sprintf("fwd %s n %d %s %s", letter, id, showPairPtr(o), showPairPtr(n)))
					icases = append(icases, icase{incl, id, o, n, code})
				}
			}
		}
	}
	tys := []string{"A", "U", "P", "R"}
	goType := map[string]types.ChangeType{"A": types.ChangeType_ADD, "U": types.ChangeType_UPDATE, "P": types.ChangeType_REPLACE, "R": types.ChangeType_REMOVE}
	mk := func(ty string, oldTok, newTok int) (resource.CollectionChange, string) {
		c := resource.CollectionChange{Id: "i0", ChangeType: goType[ty]}
		o, n := "-", "-"
		if ty != "A" {
			c.OldValue = bright(oldTok, 0)
			o = fmt.Sprint(oldTok)
		}
		if ty != "R" {
			c.NewValue = bright(newTok, 0)
			n = fmt.Sprint(newTok)
		}
		return c, ty + "/" + o + "/" + n
	}
	type mcase struct {
		a, b   string
		ca, cb resource.CollectionChange
		code   string
		send   bool
		merged resource.CollectionChange
	}
	var mcases []mcase
	nInclude := len(lines)
	for _, ta := range tys {
		for _, tb := range tys {
			ca, ea := mk(ta, 1, 2)
			bOld := 2 // b replaces what a left
			if ta == "R" {
				bOld = 7 // nothing is left: an UPDATE / REPLACE / REMOVE here carries a token of its own
			}
			cb, eb := mk(tb, bOld, 3)
			mc := mcase{a: ta, b: tb, ca: ca, cb: cb}
			if panicked, msg := lib.Catch(func() {
				m, send := resource.VerifMergeChanges(ca, cb)
				mc.send, mc.merged = send, m
				if !send {
					mc.code = "cancel"
				} else {
					mc.code = showChange(&m)
				}
			}); panicked {
				mc.code = "panic:" + msg
			}
			lines = append(lines, "merge "+ea+" "+eb)
			mcases = append(mcases, mc)
		}
	}
	answers, err := drv.Batch(lines)
	if err != nil {
		itie.Fail(err)
		mtie.Fail(err)
		return
	}
	apply := func(view map[string]string, typ, newv string) {
		if typ == "R" {
			delete(view, "x")
		} else {
			view["x"] = newv
		}
	}
	for i, c := range icases {
		in := map[string]any{"mode": "include-table", "incl": c.incl, "id": c.id, "old": showPairPtr(c.old), "new": showPairPtr(c.new)}
		moved := (c.old == nil) != (c.new == nil) || (c.old != nil && included(c.incl, c.id, *c.old) != included(c.incl, c.id, *c.new))
		itie.Record(lines[i], moved, in, answers[i], c.code)
		itie.Count("result:" + c.code[:1])
		// the spec on views
		inc := func(p *pair) bool { return p != nil && included(c.incl, c.id, *p) }
		view := map[string]string{}
		if inc(c.old) {
			view["x"] = showPairPtr(c.old)
		}
		want := map[string]string{}
		if inc(c.new) {
			want["x"] = showPairPtr(c.new)
		}
		typ := ""
		if c.code != "drop" && len(c.code) > 2 {
			var o, n string
			parts := splitN3(c.code)
			typ, o, n = parts[0], parts[1], parts[2]
			_ = o
			apply(view, typ, n)
		}
		imon.Eval(lines[i], moved, nil)
		bad := fmt.Sprint(view) != fmt.Sprint(want)
		if !bad && c.code != "drop" {
			if !inc(c.old) && inc(c.new) && typ != "A" {
				bad = true
			}
			if inc(c.old) && !inc(c.new) && typ != "R" {
				bad = true
			}
		}
		if bad {
			imon.Violate("C03/coll/include/filtered-view-not-kept", fmt.Sprintf("include(%q) on the change of id %d old %s new %s returns %s", c.incl, c.id, showPairPtr(c.old), showPairPtr(c.new), c.code), in, fmt.Sprint(want), fmt.Sprint(view)+" after "+c.code)
		}
	}
	for j, c := range mcases {
		i := nInclude + j
		in := map[string]any{"mode": "merge-table", "a": c.a, "b": c.b}
		mtie.Record(lines[i], true, in, answers[i], c.code)
		mtie.Count("result:" + c.code[:1])
		leaves := c.a != "R"
		follows := (leaves && c.b != "A") || (!leaves && c.b == "A")
		if !follows {
			continue
		}
		mmon.Eval(lines[i], true, nil)
		v1 := map[string]string{}
		if c.a != "A" {
			v1["x"] = "1"
		}
		v2 := map[string]string{}
		for k, v := range v1 {
			v2[k] = v
		}
		apply(v1, map[bool]string{true: "R", false: "U"}[c.a == "R"], "2")
		apply(v1, map[bool]string{true: "R", false: "U"}[c.b == "R"], "3")
		if c.send && len(c.code) > 2 {
			parts := splitN3(c.code)
			apply(v2, parts[0], parts[2])
		}
		if fmt.Sprint(v1) != fmt.Sprint(v2) {
			mmon.Violate("C03/coll/mergeChanges/fold-not-kept", fmt.Sprintf("mergeChanges(%s, %s) = %s", c.a, c.b, c.code), in, fmt.Sprint(v1), fmt.Sprint(v2))
		}
	}
}

func splitN3(s string) [3]string {
	var out [3]string
	k := 0
	for _, r := range s {
		if r == ':' && k < 2 {
			k++
			continue
		}
		out[k] += string(r)
	}
	return out
}
