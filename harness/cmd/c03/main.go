// Harness for C03 (a subscriber's folded view converges to the store's state): forces model schedules of
// commits, listener snapshots, deliveries and subscribe steps on the real pkg/resource + minibus code
// through the verifhook yield points (K4), compares stores, views and event sequences with the Lean model
// (driverC03), and evaluates the property itself (fold of received events vs Get/List at quiescence, decided
// by a sentinel write) on hooked schedules and on unhooked multi-core stress runs.
package main

import (
	"context"
	"encoding/json"
	"fmt"
	"io"
	"log"
	"math/rand"
	"os"
	"sort"
	"strconv"
	"strings"
	"sync"
	"sync/atomic"
	"time"

	"github.com/smart-core-os/sc-api/go/types"
	"google.golang.org/protobuf/proto"
	"google.golang.org/protobuf/types/known/wrapperspb"

	"github.com/smart-core-os/sc-golang/pkg/resource"
	"github.com/smart-core-os/sc-golang/verifharness/cmd/c02/k4"
	"github.com/smart-core-os/sc-golang/verifharness/lib"
)

const (
	ptUpdSend   = "coll.update.beforeSend"
	ptValSend   = "value.set.beforeSend"
	ptListener  = "bus.send.beforeListener"
	ptCollLis   = "coll.onUpdate.beforeListen"
	ptValLis    = "value.onUpdate.beforeListen"
	sentinelVal = int64(-999)
)

// WOp: K = "s" set to V | "a" add V | "c" set to V if the value is E | "d" delete
//
// "r" (Collection, consumer-driven scenarios only): create-or-update of ID to V whose InterceptBefore callback — it runs
// between the call's optimistic read and its write lock — performs the operations In (rival writes of any id; K "R" =
// the paused consumer drains there). The call goes through iff what is stored then equals what it read first.
type WOp struct {
	K  string `json:"k"`
	ID int    `json:"id"`
	V  int64  `json:"v,omitempty"`
	E  int64  `json:"e,omitempty"`
	// WT: WithWriteTime (nil = none): 0 = the zero time.Time, k = a fixed base + k hours (negative: in the past;
	// successive writes may carry equal or decreasing times)
	WT *int  `json:"wt,omitempty"`
	In []WOp `json:"in,omitempty"`
	// Sp: the caller's spelling of the id when the collection has an id interceptor (0 = the stored one, 1.. = another
	// spelling the interceptor maps to it)
	Sp int `json:"sp,omitempty"`
}

// id interceptors (Scenario.Icpt): "lower" = strings.ToLower (the case-insensitive collection of the option's
// documentation), "slash" = a trailing "/" is dropped. spell gives the caller's spelling number sp of item id; every
// spelling is mapped to the stored id idName(id) by the interceptor, and only the stored id may ever come back (events, List).
func icptFunc(kind string) func(string) string {
	switch kind {
	case "lower":
		return strings.ToLower
	case "slash":
		return func(s string) string { return strings.TrimSuffix(s, "/") }
	}
	return nil
}

var icptKinds = []string{"lower", "slash"}

func spell(kind string, id, sp int) string {
	if sp%2 == 0 || kind == "" {
		return idName(id)
	}
	switch kind {
	case "lower":
		return "I" + strconv.Itoa(id)
	case "slash":
		return idName(id) + "/"
	}
	return idName(id)
}

// decodeID: the model id of an event's id: the stored spelling "i<k>" gives "<k>"; anything else (a caller's spelling that
// leaked into an event) stays as it is and so names an item no view may hold
func decodeID(s string) string {
	if t := strings.TrimPrefix(s, "i"); t != s {
		if _, err := strconv.Atoi(t); err == nil {
			return t
		}
	}
	return "?" + s
}

// spellAll: the scenario on a collection with an id interceptor: every call of a writer (nested ones too) and every PullID
// names its item in a spelling picked here
func spellOps(rng *rand.Rand, ops []WOp) {
	for i := range ops {
		ops[i].Sp = rng.Intn(2)
		spellOps(rng, ops[i].In)
	}
}

func (sc *Scenario) spellAll(rng *rand.Rand) {
	if sc.Res != "coll" {
		return
	}
	sc.Icpt = icptKinds[rng.Intn(len(icptKinds))]
	for t := range sc.Writers {
		spellOps(rng, sc.Writers[t])
	}
	for i := range sc.Subs {
		sc.Subs[i].Sp = rng.Intn(2)
	}
}

var clockBase = time.Date(2020, 1, 1, 0, 0, 0, 0, time.UTC)

func wtTime(k int) time.Time {
	if k == 0 {
		return time.Time{}
	}
	return clockBase.Add(time.Duration(k) * time.Hour)
}

// scriptClock: the resource's Clock when the scenario names one: "back" strictly decreasing, "fixed" constant,
// "zero" the zero time, "saw" rising and falling ("" = the wall clock)
type scriptClock struct {
	kind string
	n    atomic.Int64
}

func (c *scriptClock) Now() time.Time {
	n := c.n.Add(1)
	switch c.kind {
	case "back":
		return clockBase.Add(-time.Duration(n) * time.Second)
	case "fixed":
		return clockBase
	case "zero":
		return time.Time{}
	case "saw":
		return clockBase.Add(time.Duration((n%3)*7-n) * time.Second)
	}
	return time.Now()
}

var clockKinds = []string{"", "back", "fixed", "zero", "saw"}

// genWT: a write time for about a third of the writes, from a small range (so that equal, decreasing and zero times occur)
func genWT(rng *rand.Rand) *int {
	if rng.Intn(3) != 0 {
		return nil
	}
	k := rng.Intn(7) - 3
	return &k
}

type SubSpec struct {
	UO  bool `json:"uo,omitempty"`  // WithUpdatesOnly
	BP  bool `json:"bp,omitempty"`  // WithBackpressure
	OID *int `json:"oid,omitempty"` // PullID(id) instead of Pull
	Sp  int  `json:"sp,omitempty"`  // the spelling of the PullID id (see WOp.Sp)
}

type Scenario struct {
	Res     string           `json:"res"` // "coll" | "value"
	Init    map[string]int64 `json:"init"`
	Writers [][]WOp          `json:"writers"`
	Subs    []SubSpec        `json:"subs"`
	Sched   []string         `json:"sched,omitempty"`
	// Churn: subscribers may be cancelled during the run (step "x<i>"); single-writer scenarios, judged by the
	// monitor only (the Lean model has no listener removal)
	Churn   bool `json:"churn,omitempty"`
	MaxGone int  `json:"max_gone,omitempty"` // at most this many subscribers are cancelled (0 = one)
	// Clock: the resource's clock (see scriptClock); Eq: "e" = the resource is created WithNoDuplicates
	Clock string `json:"clock,omitempty"`
	Eq    string `json:"eq,omitempty"`
	// Icpt: the collection is created WithIDInterceptor (see icptFunc); callers spell ids as WOp.Sp / SubSpec.Sp say
	Icpt string `json:"icpt,omitempty"`
}

func b01(b bool) string {
	if b {
		return "1"
	}
	return "0"
}

func (o WOp) encode() string { return o.encodeAs(o.ID) }

// icptMod: towards the model an interceptor is `id % icptMod`; the caller's spelling number sp of item id is id + sp*icptMod
const icptMod = 100

// rawID: the id as the model's caller spells it (the stored one when there is no interceptor)
func rawID(icpt string, id, sp int) int {
	if icpt == "" {
		return id
	}
	return id + (sp%2)*icptMod
}

func (o WOp) encodeAs(id int) string {
	switch o.K {
	case "s":
		return fmt.Sprintf("u/%d/s%d", id, o.V)
	case "a":
		return fmt.Sprintf("u/%d/a%d", id, o.V)
	case "c":
		return fmt.Sprintf("u/%d/c%d.%d", id, o.E, o.V)
	case "d":
		return fmt.Sprintf("d/%d", id)
	}
	return "?"
}

func (sc Scenario) initIDs() []int {
	var ids []int
	for k := range sc.Init {
		n, _ := strconv.Atoi(k)
		ids = append(ids, n)
	}
	sort.Ints(ids)
	return ids
}

func (sc Scenario) driverLine(sched []string) string {
	var init []string
	for _, id := range sc.initIDs() {
		init = append(init, fmt.Sprintf("%d:%d", id, sc.Init[strconv.Itoa(id)]))
	}
	is := strings.Join(init, ",")
	if is == "" {
		is = "-"
	}
	var progs []string
	for _, p := range sc.Writers {
		var ops []string
		for _, o := range p {
			ops = append(ops, o.encodeAs(rawID(sc.Icpt, o.ID, o.Sp)))
		}
		s := strings.Join(ops, ";")
		if s == "" {
			s = "-"
		}
		progs = append(progs, s)
	}
	var subs []string
	for _, s := range sc.Subs {
		tok := b01(s.UO) + b01(!s.BP) + "n"
		if sc.Eq != "" {
			eq := sc.Eq
			if sc.Res == "value" {
				eq = strings.ToUpper(eq)
			}
			tok += "n" + eq
		}
		subs = append(subs, tok)
	}
	uo := strings.Join(subs, ",")
	if uo == "" {
		uo = "-"
	}
	var acts []string
	for _, a := range sched {
		if a[0] == 'p' || a[0] == 'b' { // harness-only steps: no move of the model
			continue
		}
		acts = append(acts, a)
		if a[0] == 'd' { // the consumers are free-running: whatever was handed over is taken at once
			acts = append(acts, "R")
		}
	}
	ss := strings.Join(acts, ",")
	if ss == "" {
		ss = "-"
	}
	if sc.Icpt != "" { // the model is given the callers' spellings and canonicalises them itself (initI)
		return fmt.Sprintf("runi %d %s %s %s %s", icptMod, is, strings.Join(progs, "|"), uo, ss)
	}
	return fmt.Sprintf("run %s %s %s %s", is, strings.Join(progs, "|"), uo, ss)
}

// ---------------------------------------------------------------------------------------------
// the real code

type world struct {
	res   string
	coll  *resource.Collection
	val   *resource.Value
	maxID int    // contents() looks at ids 0..maxID-1 (0 = 9)
	drain func() // the nested step "R" of an "r" operation: the paused consumer drains
	icpt  string // the collection's id interceptor ("" = none)
}

// name: how a reader of the harness itself spells item id (with an interceptor: not the stored spelling)
func (w *world) name(id int) string { return spell(w.icpt, id, 1) }

// get is Get of one id (Value: id 0)
func (w *world) get(id int) (int64, bool) {
	if w.res == "value" {
		return msgVal(w.val.Get())
	}
	m, ok := w.coll.Get(w.name(id))
	if !ok {
		return 0, false
	}
	v, _ := msgVal(m)
	return v, true
}

func idName(id int) string { return "i" + strconv.Itoa(id) }

func newWorld(sc Scenario) *world {
	w := &world{res: sc.Res, icpt: sc.Icpt}
	var common []resource.Option
	if sc.Clock != "" {
		common = append(common, resource.WithClock(&scriptClock{kind: sc.Clock}))
	}
	if sc.Eq == "e" {
		common = append(common, resource.WithNoDuplicates())
	}
	if sc.Eq == "a" {
		// a tolerance on the integer bodies (not transitive), the driver's comparer `a` / `A` on (v, 0): within `tol`,
		// an entirely default-valued body equivalent to such a body only; an absent message to an absent one only
		common = append(common, resource.WithEquivalence(resource.ComparerFunc(func(x, y proto.Message) bool {
			vx, okx := msgVal(x)
			vy, oky := msgVal(y)
			if !okx || !oky {
				return okx == oky
			}
			if vx == 0 || vy == 0 {
				return vx == vy
			}
			return vx-vy <= tol && vy-vx <= tol
		})))
	}
	if sc.Res == "value" {
		opts := common
		if v, ok := sc.Init["0"]; ok {
			opts = append(opts, resource.WithInitialValue(wrapperspb.Int64(v)))
		}
		w.val = resource.NewValue(opts...)
		return w
	}
	opts := common
	if f := icptFunc(sc.Icpt); f != nil {
		opts = append(opts, resource.WithIDInterceptor(f))
	}
	for _, id := range sc.initIDs() {
		opts = append(opts, resource.WithInitialRecord(spell(sc.Icpt, id, id), wrapperspb.Int64(sc.Init[strconv.Itoa(id)])))
	}
	w.coll = resource.NewCollection(opts...)
	return w
}

func msgVal(m proto.Message) (int64, bool) {
	if m == nil {
		return 0, false
	}
	x, ok := m.(*wrapperspb.Int64Value)
	if !ok || x == nil {
		return 0, false
	}
	return x.GetValue(), true
}

func (w *world) exec(o WOp) error {
	var opts []resource.WriteOption
	msg := wrapperspb.Int64(o.V)
	if o.WT != nil {
		opts = append(opts, resource.WithWriteTime(wtTime(*o.WT)))
	}
	switch o.K {
	case "r":
		opts = append(opts, resource.WithCreateIfAbsent(), resource.InterceptBefore(func(_, _ proto.Message) {
			for _, in := range o.In {
				if in.K == "R" {
					if w.drain != nil {
						w.drain()
					}
					continue
				}
				w.exec(in)
			}
		}))
	case "s":
		opts = append(opts, resource.WithCreateIfAbsent())
	case "a":
		k := o.V
		msg = wrapperspb.Int64(0)
		opts = append(opts, resource.WithCreateIfAbsent(), resource.InterceptBefore(func(old, new proto.Message) {
			v, _ := msgVal(old)
			new.(*wrapperspb.Int64Value).Value = v + k
		}))
	case "c":
		opts = append(opts, resource.WithExpectedValue(wrapperspb.Int64(o.E)))
	case "d":
		_, err := w.coll.Delete(spell(w.icpt, o.ID, o.Sp), opts...)
		return err
	}
	if w.res == "value" {
		_, err := w.val.Set(msg, opts...)
		return err
	}
	_, err := w.coll.Update(spell(w.icpt, o.ID, o.Sp), msg, opts...)
	return err
}

func (w *world) contents() map[string]int64 {
	res := map[string]int64{}
	if w.res == "value" {
		if v, ok := msgVal(w.val.Get()); ok {
			res["0"] = v
		}
		return res
	}
	n := w.maxID
	if n == 0 {
		n = 9
	}
	for id := 0; id < n; id++ {
		if m, ok := w.coll.Get(w.name(id)); ok {
			v, _ := msgVal(m)
			res[strconv.Itoa(id)] = v
		}
	}
	return res
}

func showView(c map[string]int64) string {
	var ids []string
	for id := range c {
		ids = append(ids, id)
	}
	sort.Strings(ids)
	var parts []string
	for _, id := range ids {
		parts = append(parts, fmt.Sprintf("%s=%d", id, c[id]))
	}
	return strings.Join(parts, ",")
}

// ev is one received event, canonical: id (decimal model id) and value (nil = REMOVE)
type ev struct {
	id   string
	val  int64
	del  bool
	seed bool
}

func (e ev) String() string {
	if e.del {
		return e.id + "=nil"
	}
	return fmt.Sprintf("%s=%d", e.id, e.val)
}

type consumer struct {
	spec     SubSpec
	mu       sync.Mutex
	evs      []ev
	sentinel chan struct{}
	closed   chan struct{}
	cancel   context.CancelFunc
	gone     bool // cancelled during the run: no claim about its view
	skipped  int  // received events not recorded (per-id sentinels)
}

func (c *consumer) add(e ev, isSentinel bool) {
	if isSentinel {
		select {
		case <-c.sentinel:
		default:
			close(c.sentinel)
		}
		return
	}
	c.mu.Lock()
	c.evs = append(c.evs, e)
	c.mu.Unlock()
}

// subscribe performs the Pull call (the subscribe step) and starts the free-running consumer.
func (w *world) subscribe(ctx context.Context, spec SubSpec) *consumer {
	ctx, cancelSub := context.WithCancel(ctx)
	c := &consumer{spec: spec, sentinel: make(chan struct{}), closed: make(chan struct{}), cancel: cancelSub}
	opts := []resource.ReadOption{resource.WithUpdatesOnly(spec.UO), resource.WithBackpressure(spec.BP)}
	switch {
	case w.res == "value":
		ch := w.val.Pull(ctx, opts...)
		go func() {
			defer close(c.closed)
			for e := range ch {
				v, ok := msgVal(e.Value)
				c.add(ev{id: "0", val: v, del: !ok, seed: e.SeedValue}, ok && v == sentinelVal)
			}
		}()
	case spec.OID != nil:
		id := *spec.OID
		ch := w.coll.PullID(ctx, spell(w.icpt, id, spec.Sp), opts...)
		go func() {
			defer close(c.closed)
			for e := range ch {
				v, ok := msgVal(e.Value)
				c.add(ev{id: strconv.Itoa(id), val: v, del: !ok, seed: e.SeedValue}, ok && v == sentinelVal)
			}
		}()
	default:
		ch := w.coll.Pull(ctx, opts...)
		go func() {
			defer close(c.closed)
			for e := range ch {
				if e.Id == "zz" {
					c.add(ev{}, true)
					continue
				}
				id := decodeID(e.Id)
				if e.ChangeType == types.ChangeType_REMOVE {
					c.add(ev{id: id, del: true}, false)
				} else {
					v, _ := msgVal(e.NewValue)
					if v == sentinelVal { // the sentinel written for a PullID subscriber of this id
						continue
					}
					c.add(ev{id: id, val: v, seed: e.SeedValue}, false)
				}
			}
		}()
	}
	return c
}

func nil2sentinel() proto.Message { return wrapperspb.Int64(sentinelVal) }

func (w *world) sentinels(sc Scenario) {
	if w.res == "value" {
		w.val.Set(wrapperspb.Int64(sentinelVal))
		return
	}
	for _, s := range sc.Subs {
		if s.OID != nil {
			w.coll.Update(spell(w.icpt, *s.OID, s.Sp+1), wrapperspb.Int64(sentinelVal), resource.WithCreateIfAbsent())
		}
	}
	w.coll.Update("zz", wrapperspb.Int64(sentinelVal), resource.WithCreateIfAbsent())
}

// ---------------------------------------------------------------------------------------------
// one execution (hooked or not): what every subscriber received and what the store holds

type Outcome struct {
	Sched      []string
	Contents   map[string]int64 // Get/List after the writers returned, before the sentinel write
	Subs       []*consumer
	NoSentinel []int
	Concurrent bool // a commit happened while an earlier commit's publication was still in flight
	MayBeStale bool // unhooked run with several writers
	DupAtSub   bool // a lossy seeded subscriber registered while a committed change was still to be published
	// a write committed while a Delete had committed but not yet handed its REMOVE to every listener: Delete
	// publishes while holding the write lock, so this must be impossible (the lock probe must report "blocked")
	InDeleteWindow bool
	// Copies: per publication (in the order their Bus.Send took its listener copy) the subscribers registered at that
	// moment, from the harness's own mirror of the schedule: each of them that stays alive is owed this event
	Copies [][]int
}

func (o *Outcome) finish(w *world, sc Scenario, cancel context.CancelFunc) {
	o.Contents = w.contents()
	if sc.Res == "value" {
		// a lossy Value subscriber has a single pending slot: the sentinel would replace a final value that
		// is still pending, so first let the free-running consumer take it (bounded wait; immediate when the
		// view is right)
		want, wok := o.Contents["0"]
		limit := 2 * time.Second
		if o.Concurrent || o.MayBeStale {
			limit = 60 * time.Millisecond
		}
		for _, c := range o.Subs {
			if c == nil || c.gone || c.spec.BP || !wok {
				continue
			}
			deadline := time.Now().Add(limit)
			for time.Now().Before(deadline) {
				c.mu.Lock()
				n := len(c.evs)
				ok := n > 0 && !c.evs[n-1].del && c.evs[n-1].val == want
				c.mu.Unlock()
				if ok {
					break
				}
				time.Sleep(200 * time.Microsecond)
			}
		}
	}
	w.sentinels(sc)
	for i, c := range o.Subs {
		if c == nil || c.gone {
			continue
		}
		wait := 5 * time.Second
		if sentinelFailures.Load() >= 3 { // already established: do not spend the budget waiting again
			wait = 20 * time.Millisecond
		}
		select {
		case <-c.sentinel:
		case <-time.After(wait):
			sentinelFailures.Add(1)
			o.NoSentinel = append(o.NoSentinel, i)
		}
	}
	cancel()
	for _, c := range o.Subs {
		if c != nil {
			select {
			case <-c.closed:
			case <-time.After(2 * time.Second):
			}
		}
	}
}

var sentinelFailures, takenFailures atomic.Int64

type chooser func(enabled []string, sofar []string) string

// runHooked drives the scenario through the yield points. Steps follow prefix while it lasts (entries that
// are not enabled are skipped), then choose (or the first enabled step).
func runHooked(ctl *k4.Controller, sc Scenario, prefix []string, choose chooser) *Outcome {
	w := newWorld(sc)
	ctx, cancel := context.WithCancel(context.Background())
	out := &Outcome{Subs: make([]*consumer, len(sc.Subs))}
	nw, ns := len(sc.Writers), len(sc.Subs)
	wth := make([]*k4.Thread, nw)
	sth := make([]*k4.Thread, ns)
	curOp := make([]int, nw)
	lastErr := make([]error, nw)
	split := make([]bool, ns) // this subscriber parks at *.beforeListen
	for t := 0; t < nw; t++ {
		t := t
		wth[t] = ctl.Spawn(t, func(yield func(string)) {
			for i, op := range sc.Writers[t] {
				curOp[t] = i
				yield("start")
				lastErr[t] = w.exec(op)
			}
		})
	}
	for i := 0; i < ns; i++ {
		i := i
		sth[i] = ctl.Spawn(100+i, func(yield func(string)) {
			yield("start")
			out.Subs[i] = w.subscribe(ctx, sc.Subs[i])
		})
	}
	ctl.SplitListen = func(id int) bool { return id >= 100 && split[id-100] }
	// mirror of Bus.listeners and of each Send's listener copy: after a delivery to a LOSSY subscriber the
	// harness waits until its free-running consumer has taken the event, so that the stage is drained before the
	// next step whatever the machine load (this is what the model's `R` after every delivery says)
	var regOrder []int
	snapshot := make([][]int, nw)
	pubGc := make([]bool, nw)
	delivered := make([]int, ns)
	awaitTaken := func(t int) {
		if len(snapshot[t]) == 0 {
			return
		}
		target := snapshot[t][0]
		snapshot[t] = snapshot[t][1:]
		c := out.Subs[target]
		if c == nil {
			return
		}
		if c.gone {
			pubGc[t] = true
			return
		}
		delivered[target]++
		if c.spec.BP {
			return
		}
		limit := 5 * time.Second
		if takenFailures.Load() >= 3 { // the mirror is off (a broken tree): do not spend the budget waiting again
			limit = 20 * time.Millisecond
		}
		deadline := time.Now().Add(limit)
		for time.Now().Before(deadline) {
			c.mu.Lock()
			n := 0
			for _, e := range c.evs {
				if !e.seed {
					n++
				}
			}
			n += c.skipped
			c.mu.Unlock()
			if n >= delivered[target] {
				return
			}
			time.Sleep(50 * time.Microsecond)
		}
		takenFailures.Add(1)
	}
	var flight []int // writers with a publication in flight, commit order
	lockHeld := -1   // writer whose Delete publishes under the lock
	blocked := -1    // writer blocked on mu.Lock behind a subscriber parked inside RLock
	atListen := -1   // seeded subscriber parked at *.beforeListen (holding RLock)
	idx := func(t int) int {
		for k, x := range flight {
			if x == t {
				return k
			}
		}
		return -1
	}
	afterWriterStep := func(t int, wasStart bool) {
		th := wth[t]
		inFlight := th.Status == k4.Parked && (th.Point == ptUpdSend || th.Point == ptValSend || th.Point == ptListener)
		if wasStart {
			if len(flight) > 0 && (inFlight || lastErr[t] == nil) {
				out.Concurrent = true // this commit overlaps an unfinished publication
				for _, x := range flight {
					if sc.Writers[x][curOp[x]].K == "d" {
						out.InDeleteWindow = true
					}
				}
			}
			if inFlight && th.Point == ptListener {
				snapshot[t] = append([]int{}, regOrder...) // Delete: the listener copy is taken in the commit step
				out.Copies = append(out.Copies, append([]int{}, regOrder...))
			}
			if inFlight {
				flight = append(flight, t)
				if th.Point == ptListener && sc.Writers[t][curOp[t]].K == "d" {
					lockHeld = t
				}
			}
		} else if !inFlight {
			k := idx(t)
			flight = append(flight[:k], flight[k+1:]...)
			if lockHeld == t {
				lockHeld = -1
			}
		}
	}
	pi := 0
	for {
		var enabled []string
		for t := 0; t < nw; t++ {
			th := wth[t]
			if th.Status != k4.Parked {
				continue
			}
			switch th.Point {
			case "start":
				if blocked < 0 {
					if lockHeld < 0 && atListen < 0 {
						enabled = append(enabled, "c"+strconv.Itoa(t))
					} else {
						// a commit attempted while a subscriber sits between snapshot and Listen, or while a
						// Delete is publishing: the lock must make it wait
						enabled = append(enabled, "b"+strconv.Itoa(t))
					}
				}
			case ptUpdSend, ptValSend:
				enabled = append(enabled, "n"+strconv.Itoa(idx(t)))
			case ptListener:
				enabled = append(enabled, "d"+strconv.Itoa(idx(t)))
			}
		}
		for i := 0; i < ns; i++ {
			th := sth[i]
			if th.Status != k4.Parked {
				continue
			}
			if th.Point == "start" {
				seeded := !sc.Subs[i].UO
				if seeded && (lockHeld >= 0 || blocked >= 0 || atListen >= 0) {
					continue
				}
				enabled = append(enabled, "s"+strconv.Itoa(i), "p"+strconv.Itoa(i))
			} else {
				enabled = append(enabled, "s"+strconv.Itoa(i))
			}
		}
		if sc.Churn {
			gone, maxGone := 0, sc.MaxGone
			if maxGone == 0 {
				maxGone = 1
			}
			for i := 0; i < ns; i++ {
				if out.Subs[i] != nil && out.Subs[i].gone {
					gone++
				}
			}
			for i := 0; i < ns && gone < maxGone; i++ {
				if sth[i].Status == k4.Done && out.Subs[i] != nil && !out.Subs[i].gone {
					enabled = append(enabled, "x"+strconv.Itoa(i))
				}
			}
			// the run ends when only cancellations are left
			only := true
			for _, e := range enabled {
				if e[0] != 'x' {
					only = false
				}
			}
			if only {
				enabled = nil
			}
		}
		if len(enabled) == 0 {
			break
		}
		pick := ""
		for pi < len(prefix) && pick == "" {
			c := prefix[pi]
			pi++
			for _, e := range enabled {
				if e == c {
					pick = c
				}
			}
			// a recorded commit at a point where the lock should make it wait is re-executed as the lock probe it came from
			if pick == "" && c[0] == 'c' {
				for _, e := range enabled {
					if e == "b"+c[1:] {
						pick = e
					}
				}
			}
		}
		if pick == "" {
			if choose != nil {
				pick = choose(enabled, out.Sched)
			} else {
				pick = enabled[0]
				if pick[0] == 'b' && len(enabled) > 1 { // default policy never probes
					pick = enabled[len(enabled)-1]
				}
			}
		}
		n, _ := strconv.Atoi(pick[1:])
		switch pick[0] {
		case 'c':
			ctl.StepWait(wth[n])
			afterWriterStep(n, true)
			out.Sched = append(out.Sched, pick)
		case 'b':
			// a commit attempted while a seeded subscriber sits between its snapshot and Listen: must block
			if st := ctl.Step(wth[n]); st == k4.Blocked {
				blocked = n
				out.Sched = append(out.Sched, pick)
			} else {
				afterWriterStep(n, true)
				out.Sched = append(out.Sched, "c"+strconv.Itoa(n))
			}
		case 'n', 'd':
			t := flight[n]
			if pick[0] == 'n' {
				snapshot[t] = append([]int{}, regOrder...)
				out.Copies = append(out.Copies, append([]int{}, regOrder...))
			}
			ctl.StepWait(wth[t])
			if pick[0] == 'd' {
				awaitTaken(t)
			}
			if wth[t].Status != k4.Parked || (wth[t].Point != ptListener && wth[t].Point != ptUpdSend && wth[t].Point != ptValSend) {
				if pubGc[t] { // this Send met a dead listener: Bus.collect has run
					var keep []int
					for _, i := range regOrder {
						if out.Subs[i] == nil || !out.Subs[i].gone {
							keep = append(keep, i)
						}
					}
					regOrder = keep
				}
				pubGc[t] = false
			}
			afterWriterStep(t, false)
			out.Sched = append(out.Sched, pick)
			if blocked >= 0 && lockHeld < 0 && atListen < 0 { // the Delete released the lock: the waiting writer commits
				ctl.PollWait(wth[blocked])
				afterWriterStep(blocked, true)
				out.Sched = append(out.Sched, "c"+strconv.Itoa(blocked))
				blocked = -1
			}
		case 'x':
			// the subscriber goes away: cancel its context and wait until its stream is closed, so that the bus
			// deterministically finds it dead (listener.stop has run) at the next send
			c := out.Subs[n]
			c.gone = true
			c.cancel()
			select {
			case <-c.closed:
			case <-time.After(5 * time.Second):
				out.NoSentinel = append(out.NoSentinel, n)
			}
			out.Sched = append(out.Sched, pick)
		case 'p':
			split[n] = true
			ctl.StepWait(sth[n])
			if sth[n].Status == k4.Parked && !sc.Subs[n].UO {
				atListen = n
			}
			out.Sched = append(out.Sched, pick)
		case 's':
			if len(flight) > 0 && !sc.Subs[n].BP && !sc.Subs[n].UO {
				out.DupAtSub = true
			}
			ctl.StepWait(sth[n])
			regOrder = append(regOrder, n)
			out.Sched = append(out.Sched, pick)
			if atListen == n {
				atListen = -1
				if blocked >= 0 && lockHeld < 0 { // the writer behind the read lock now commits
					ctl.PollWait(wth[blocked])
					afterWriterStep(blocked, true)
					out.Sched = append(out.Sched, "c"+strconv.Itoa(blocked))
					blocked = -1
				}
			}
		}
	}
	ctl.SplitListen = nil
	out.finish(w, sc, cancel)
	return out
}

// ---------------------------------------------------------------------------------------------
// the property on one outcome

type verdict struct{ sig, what, expected, observed string }

func (c *consumer) fold() (view map[string]int64, touched map[string]bool, hist []ev) {
	c.mu.Lock()
	defer c.mu.Unlock()
	view = map[string]int64{}
	touched = map[string]bool{}
	for _, e := range c.evs {
		touched[e.id] = true
		if e.del {
			delete(view, e.id)
		} else {
			view[e.id] = e.val
		}
	}
	return view, touched, append([]ev{}, c.evs...)
}

func judge(sc Scenario, o *Outcome, mode string) *verdict {
	for _, i := range o.NoSentinel {
		return &verdict{fmt.Sprintf("C03/%s/%s/sentinel-not-delivered", sc.Res, mode), fmt.Sprintf("subscriber %d never received the sentinel written after all writers returned", i), "sentinel event", "none within 5s"}
	}
	// no miss (holds on EVERY schedule, also with overlapping writers): a backpressured subscriber that stays alive
	// receives one event per publication whose Bus.Send took its listener copy while it was registered
	if sc.Eq == "" && mode != "stress" {
		for i, c := range o.Subs {
			if c == nil || c.gone || !c.spec.BP || c.spec.OID != nil {
				continue
			}
			owed := 0
			for _, cp := range o.Copies {
				for _, x := range cp {
					if x == i {
						owed++
					}
				}
			}
			_, _, hist := c.fold()
			got := 0
			var hs []string
			for _, e := range hist {
				if !e.seed {
					got++
				}
				hs = append(hs, e.String())
			}
			if got != owed {
				class := "missed-publication"
				if got > owed {
					class = "unowed-publication"
				}
				return &verdict{fmt.Sprintf("C03/%s/%s/%s", sc.Res, mode, class),
					fmt.Sprintf("subscriber %d (%+v, alive throughout) was registered when %d publications took their listener copy but received %d events after its seed", i, c.spec, owed, got),
					fmt.Sprintf("%d events", owed), fmt.Sprintf("%d events: %s", got, strings.Join(hs, ";"))}
			}
		}
	}
	for i, c := range o.Subs {
		if c == nil || c.gone {
			continue
		}
		view, touched, hist := c.fold()
		// the ids judged: first whatever an event named that is not a stored id (a caller's spelling), then 0..8
		var keys []string
		for k := range touched {
			if strings.HasPrefix(k, "?") {
				keys = append(keys, k)
			}
		}
		sort.Strings(keys)
		for id := 0; id < 9; id++ {
			keys = append(keys, strconv.Itoa(id))
		}
		for _, k := range keys {
			if c.spec.OID != nil && strconv.Itoa(*c.spec.OID) != k {
				continue
			}
			if c.spec.UO && !touched[k] {
				continue // an updates-only subscriber knows nothing about ids it got no event for
			}
			if strings.HasPrefix(k, "?") {
				var hs []string
				for _, e := range hist {
					hs = append(hs, e.String())
				}
				return &verdict{fmt.Sprintf("C03/%s/%s/event-id-not-stored", sc.Res, mode),
					fmt.Sprintf("subscriber %d (%+v) of a collection with the id interceptor %q received an event for item %q, which is not an id the collection stores anything under (a caller's spelling)", i, c.spec, sc.Icpt, k[1:]),
					"view = " + showView(o.Contents), "view = " + showView(view) + " from events " + strings.Join(hs, ";")}
			}
			want, wok := o.Contents[k]
			got, gok := view[k]
			if c.spec.OID != nil && !wok {
				continue // PullID ends on REMOVE
			}
			if wok == gok && want == got {
				continue
			}
			if sc.Eq == "a" && wok && gok && want-got <= tol && got-want <= tol {
				continue // a tolerance equivalence: the view is within the tolerance of the store
			}
			var hs []string
			for _, e := range hist {
				hs = append(hs, e.String())
			}
			class := "serial-publications"
			if mode == "stress" {
				class = "stale-view"
			} else if o.InDeleteWindow {
				class = "write-committed-during-delete-publication"
			} else if o.Concurrent {
				class = "overlapping-writes-reordered"
			} else if o.DupAtSub && !c.spec.BP && gok && !wok {
				class = "lossy-seed-dup-cancelled"
			}
			sig := fmt.Sprintf("C03/%s/%s/stale-view/%s", sc.Res, mode, class)
			if mode != "k4" {
				sig = fmt.Sprintf("C03/%s/%s/stale-view", sc.Res, mode)
				if mode == "churn-disjoint-writers" && class == "lossy-seed-dup-cancelled" { // the recorded single-writer finding
					sig = fmt.Sprintf("C03/%s/k4/stale-view/%s", sc.Res, class)
				}
			}
			return &verdict{sig,
				fmt.Sprintf("subscriber %d (%+v) ends with id %s = %v(present %v) but the store holds %v(present %v)", i, c.spec, k, got, gok, want, wok),
				"view = " + showView(o.Contents), "view = " + showView(view) + " from events " + strings.Join(hs, ";")}
		}
	}
	return nil
}

// ---------------------------------------------------------------------------------------------
// generation

func genScenario(rng *rand.Rand, maxWriters int) Scenario {
	sc := Scenario{Res: "coll", Init: map[string]int64{}}
	if rng.Intn(3) == 0 {
		sc.Res = "value"
	}
	ids := []int{0}
	if sc.Res == "coll" && rng.Intn(2) == 0 {
		ids = append(ids, 1)
	}
	for _, id := range ids {
		if rng.Intn(2) == 0 {
			sc.Init[strconv.Itoa(id)] = int64(rng.Intn(3))
		}
	}
	hasDelete := false
	nw := 1 + rng.Intn(maxWriters)
	for t := 0; t < nw; t++ {
		var prog []WOp
		no := 1 + rng.Intn(2)
		for i := 0; i < no; i++ {
			id := ids[rng.Intn(len(ids))]
			switch k := rng.Intn(8); {
			case k < 3:
				prog = append(prog, WOp{K: "s", ID: id, V: int64(rng.Intn(6))}) // 0 = an entirely default-valued body
			case k < 5:
				prog = append(prog, WOp{K: "a", ID: id, V: int64(1 + rng.Intn(2))})
			case k < 6:
				prog = append(prog, WOp{K: "c", ID: id, E: int64(rng.Intn(3)), V: int64(5 + rng.Intn(3))})
			default:
				if sc.Res == "coll" {
					prog = append(prog, WOp{K: "d", ID: id})
					hasDelete = true
				} else {
					prog = append(prog, WOp{K: "s", ID: id, V: int64(1 + rng.Intn(5))})
				}
			}
		}
		sc.Writers = append(sc.Writers, prog)
	}
	if sc.Res == "value" {
		// every write of a Value scenario stores a value never seen before, so that "the last received event
		// carries the final value" identifies a drained lossy subscriber (see finish)
		next := int64(10)
		for t := range sc.Writers {
			for i := range sc.Writers[t] {
				if sc.Writers[t][i].K == "a" {
					sc.Writers[t][i].K = "s"
				}
				sc.Writers[t][i].V = next
				next++
			}
		}
	}
	// write times and clocks that do not follow the commit order: equal, decreasing, zero
	if rng.Intn(2) == 0 {
		sc.Clock = clockKinds[rng.Intn(len(clockKinds))]
		for t := range sc.Writers {
			for i := range sc.Writers[t] {
				sc.Writers[t][i].WT = genWT(rng)
			}
		}
	}
	nsub := 1 + rng.Intn(2)
	for i := 0; i < nsub; i++ {
		s := SubSpec{UO: rng.Intn(4) == 0, BP: rng.Intn(2) == 0}
		if sc.Res == "value" && s.UO {
			// an updates-only lossy Value subscriber has no seed and one pending slot: neither a sentinel nor
			// "last event = final value" can tell when it is drained, so this combination is driven with backpressure
			s.BP = true
		}
		if sc.Res == "coll" && !hasDelete && rng.Intn(4) == 0 {
			id := ids[rng.Intn(len(ids))]
			s.OID = &id
			s.BP = true
		}
		sc.Subs = append(sc.Subs, s)
	}
	for _, s := range sc.Subs {
		if s.OID != nil { // the per-id sentinel must not be merged into a lossy subscriber's pending change
			for i := range sc.Subs {
				sc.Subs[i].BP = true
			}
		}
	}
	// a resource that emits no duplicates, when every subscriber is backpressured (the harness counts the events a lossy
	// consumer has taken after each delivery, which a skipped change would leave short)
	allBP := true
	for _, s := range sc.Subs {
		allBP = allBP && s.BP
	}
	if allBP && rng.Intn(3) == 0 {
		sc.Eq = "e"
		if sc.Res == "value" && rng.Intn(2) == 0 {
			// a TOLERANCE (not transitive) on a Value, whose writes store 10, 11, 12, ...: each within the tolerance of the
			// one before (a Collection's drift under a tolerance is C16's recorded finding: not driven)
			sc.Eq = "a"
		}
	}
	// a collection with an id interceptor, every caller spelling the ids its own way
	if sc.Res == "coll" && rng.Intn(3) == 0 {
		sc.spellAll(rng)
	}
	return sc
}

// the witness of the known finding: two writers of one id, one subscriber; W1's publication overtakes W0's
func witnessStale(res string, bp bool) Scenario {
	return Scenario{Res: res, Init: map[string]int64{}, Writers: [][]WOp{{{K: "s", ID: 0, V: 1}}, {{K: "s", ID: 0, V: 2}}},
		Subs: []SubSpec{{BP: bp}}, Sched: []string{"s0", "c0", "c1", "n1", "d1", "n0", "d0"}}
}

// deleteWindowWitnesses: a subscriber registered first; writer 0 deletes id 0 and is parked inside its publication
// (REMOVE not yet handed to the listener); writer 1 attempts a write of the same id there (lock probe `b1`): it must
// wait for the REMOVE to be out. Every subscriber option, the second write creating / compare-and-creating, one or
// two subscribers. If the probe does not block the rest of the prefix publishes the later write first.
func deleteWindowWitnesses() []Scenario {
	var out []Scenario
	for _, sub := range []SubSpec{{BP: true}, {BP: false}, {BP: true, UO: true}, {BP: false, UO: true}} {
		for _, second := range [][]WOp{{{K: "s", ID: 0, V: 4}}, {{K: "a", ID: 0, V: 2}}, {{K: "s", ID: 0, V: 4}, {K: "a", ID: 0, V: 1}}} {
			out = append(out,
				Scenario{Res: "coll", Init: map[string]int64{"0": 1}, Writers: [][]WOp{{{K: "d", ID: 0}}, second},
					Subs: []SubSpec{sub}, Sched: []string{"s0", "c0", "b1", "n1", "d1", "d0"}},
				Scenario{Res: "coll", Init: map[string]int64{"0": 1, "1": 2}, Writers: [][]WOp{{{K: "s", ID: 1, V: 3}, {K: "d", ID: 0}}, second},
					Subs: []SubSpec{sub, {BP: true}}, Sched: []string{"s0", "s1", "c0", "n0", "d0", "d0", "c0", "d0", "b1", "n1", "d1", "d1", "d0"}},
			)
		}
	}
	return out
}

// exploreAll enumerates every schedule of sc (including split subscribes and blocked-commit probes).
func exploreAll(ctl *k4.Controller, sc Scenario, limit int, visit func(*Outcome)) int {
	// stateless DFS over "first enabled" defaults, as in C02, but on step names: re-execution with a prefix
	type node struct{ prefix []string }
	stack := []node{{}}
	count := 0
	seen := map[string]bool{}
	for len(stack) > 0 && (limit <= 0 || count < limit) {
		nd := stack[len(stack)-1]
		stack = stack[:len(stack)-1]
		type choice struct {
			at int
			en []string
		}
		var choices []choice
		o := runHooked(ctl, sc, nd.prefix, func(en []string, sofar []string) string {
			choices = append(choices, choice{len(sofar), append([]string{}, en...)})
			return en[0]
		})
		key := strings.Join(o.Sched, ",")
		if seen[key] {
			continue
		}
		seen[key] = true
		count++
		visit(o)
		for _, ch := range choices {
			for _, alt := range ch.en[1:] {
				p := append(append([]string{}, o.Sched[:ch.at]...), alt)
				stack = append(stack, node{p})
			}
		}
	}
	return count
}

// ---------------------------------------------------------------------------------------------

func maskModel(ans string, sc Scenario) string {
	// keep from the model answer what the real execution can observe deterministically
	parts := strings.Split(ans, "|")
	var outp []string
	for _, p := range parts {
		switch {
		case strings.HasPrefix(p, "store="):
			outp = append(outp, p)
		case strings.HasPrefix(p, "S"):
			eq := strings.IndexByte(p, '=')
			i, _ := strconv.Atoi(p[1:eq])
			f := strings.SplitN(p[eq+1:], ":", 3)
			if len(f) != 3 {
				return ans
			}
			if f[0] == "gone" {
				outp = append(outp, fmt.Sprintf("S%d=gone", i))
				continue
			}
			outp = append(outp, subCanon(i, sc.Subs[i], f[0] == "live", parseView(f[1]), strings.Split(f[2], ";")))
		case strings.HasPrefix(p, "pubs="), strings.HasPrefix(p, "lock="):
			outp = append(outp, p)
		}
	}
	return strings.Join(outp, "|")
}

func parseView(s string) map[string]int64 {
	m := map[string]int64{}
	if s == "" {
		return m
	}
	for _, kv := range strings.Split(s, ",") {
		f := strings.SplitN(kv, "=", 2)
		v, _ := strconv.ParseInt(f[1], 10, 64)
		m[f[0]] = v
	}
	return m
}

// subCanon: what is compared per subscriber. Seeded: the folded view (restricted to the PullID id);
// backpressured: also the exact event sequence after the seed; updates-only + lossy: registration only.
func subCanon(i int, spec SubSpec, registered bool, view map[string]int64, evs []string) string {
	v := "?"
	if !spec.UO {
		if spec.OID != nil {
			k := strconv.Itoa(*spec.OID)
			vv := map[string]int64{}
			if x, ok := view[k]; ok {
				vv[k] = x
			}
			view = vv
		}
		v = showView(view)
	}
	e := "*"
	if spec.BP {
		var keep []string
		for _, x := range evs {
			if x == "" {
				continue
			}
			if spec.OID != nil && !strings.HasPrefix(x, strconv.Itoa(*spec.OID)+"=") {
				continue
			}
			keep = append(keep, x)
		}
		e = strings.Join(keep, ";")
	}
	return fmt.Sprintf("S%d=%v:%s:%s", i, registered, v, e)
}

func codeCanon(sc Scenario, o *Outcome) string {
	parts := []string{"store=" + showView(o.Contents)}
	for i, c := range o.Subs {
		if c.gone {
			parts = append(parts, fmt.Sprintf("S%d=gone", i))
			continue
		}
		view, _, hist := c.fold()
		var evs []string
		for _, e := range hist {
			if !e.seed {
				evs = append(evs, e.String())
			}
		}
		parts = append(parts, subCanon(i, sc.Subs[i], true, view, evs))
	}
	parts = append(parts, "pubs=0", "lock=0")
	return strings.Join(parts, "|")
}

type pending struct {
	sc Scenario
	o  *Outcome
}

func main() {
	f := lib.ParseFlags()
	log.SetOutput(io.Discard)
	if f.Replay != "" {
		os.Exit(replay(f))
	}
	res := lib.NewResult("C03", f)
	tStart := time.Now()
	rng := lib.NewRand(f.Seed)
	ctl := k4.New(ptUpdSend, ptValSend, ptListener, ptCollLis, ptValLis)
	tie := res.Tie("k4-pubsub-schedules", "K4",
		"each case = one scenario (Value or Collection, 1-3 writers x 1-2 writes from {set, add, compare-and-set, delete}, 1-2 subscribers with updates-only / backpressure / PullID options) under one schedule of commit, listener-snapshot, per-listener delivery and subscribe steps forced through the yield points *.beforeSend, bus.send.beforeListener, *.onUpdate.beforeListen (a subscribe may be split at beforeListen, where a commit attempt must block on the lock; a commit is also attempted as a lock probe inside the publication of a Delete, scripted for every subscriber option and at random); on half of the random scenarios the writes carry WithWriteTime stamps that are equal, decreasing or zero and the resource a scripted clock (running backwards, fixed, zero, rising and falling), and a third of the scenarios whose subscribers are all backpressured run on a resource WithNoDuplicates or (Value) with a TOLERANCE equivalence that is not transitive, the writes storing 10, 11, 12, ... (the model applies the equivalence check of Collection.Pull / Value.Pull; under the tolerance the monitor accepts a view within the tolerance of Get); all schedules of a four-step ramp on such a Value; store, views and (backpressured) event sequences at quiescence compared with run(model) on the same schedule; non-trivial = a subscriber registered before the last commit; distinct = distinct (scenario, schedule)")
	mon := res.Monitor("converges-hooked",
		"the property on every hooked execution: fold of each subscriber's received events (seed first) up to the sentinel vs Get/List taken after the writers returned; independent of the model; a stale view is classified by what the schedule did (write committed inside a Delete's publication / overlapping publications / lossy seed duplicate / serial)")
	var cases []pending
	record := func(sc Scenario, o *Outcome) { cases = append(cases, pending{sc, o}) }

	// known-finding witnesses first (smallest inputs)
	for _, resn := range []string{"value", "coll"} {
		for _, bp := range []bool{true, false} {
			sc := witnessStale(resn, bp)
			record(sc, runHooked(ctl, sc, sc.Sched, nil))
		}
	}
	// a write attempted inside the publication of a Delete (smallest inputs of that family)
	for _, sc := range deleteWindowWitnesses() {
		record(sc, runHooked(ctl, sc, sc.Sched, nil))
	}
	// all schedules of small scenarios
	small := []Scenario{
		{Res: "coll", Init: map[string]int64{}, Writers: [][]WOp{{{K: "s", ID: 0, V: 1}, {K: "s", ID: 0, V: 2}}}, Subs: []SubSpec{{BP: true}}},
		{Res: "coll", Init: map[string]int64{"0": 1}, Writers: [][]WOp{{{K: "d", ID: 0}, {K: "s", ID: 0, V: 3}}}, Subs: []SubSpec{{BP: false}}},
		{Res: "value", Init: map[string]int64{"0": 1}, Writers: [][]WOp{{{K: "a", ID: 0, V: 1}, {K: "a", ID: 0, V: 1}}}, Subs: []SubSpec{{BP: true}, {UO: true, BP: true}}},
		// no duplicates: an equal rewrite, a delete and a re-creation with the same body, the subscriber registering anywhere
		{Res: "coll", Init: map[string]int64{"0": 1}, Writers: [][]WOp{{{K: "s", ID: 0, V: 1}, {K: "d", ID: 0}, {K: "s", ID: 0, V: 1}}}, Subs: []SubSpec{{BP: true}}, Eq: "e"},
		// a tolerance equivalence on a Value: a ramp of steps within the tolerance, the subscriber registering anywhere
		{Res: "value", Init: map[string]int64{"0": 10}, Writers: [][]WOp{{{K: "s", ID: 0, V: 11}, {K: "s", ID: 0, V: 12}, {K: "s", ID: 0, V: 13}, {K: "s", ID: 0, V: 14}}}, Subs: []SubSpec{{BP: true}}, Eq: "a"},
		// id interceptors: the item is created, changed and deleted under spellings that are not the stored one
		{Res: "coll", Init: map[string]int64{"1": 1}, Writers: [][]WOp{{{K: "s", ID: 0, V: 2, Sp: 1}, {K: "d", ID: 1, Sp: 1}}}, Subs: []SubSpec{{BP: true}}, Icpt: "lower"},
		{Res: "coll", Init: map[string]int64{"0": 1}, Writers: [][]WOp{{{K: "d", ID: 0, Sp: 1}, {K: "a", ID: 0, V: 3, Sp: 1}}}, Subs: []SubSpec{{BP: false}}, Icpt: "slash"},
	}
	nAll := 0
	for _, sc := range small {
		nAll += exploreAll(ctl, sc, f.N(400, 4000), func(o *Outcome) { record(sc, o) })
	}
	if f.Thorough() {
		two := []Scenario{
			{Res: "coll", Init: map[string]int64{}, Writers: [][]WOp{{{K: "s", ID: 0, V: 1}}, {{K: "s", ID: 0, V: 2}}}, Subs: []SubSpec{{BP: true}}},
			{Res: "value", Init: map[string]int64{"0": 0}, Writers: [][]WOp{{{K: "s", ID: 0, V: 1}}, {{K: "s", ID: 0, V: 2}}}, Subs: []SubSpec{{BP: false}}},
			{Res: "coll", Init: map[string]int64{"0": 0}, Writers: [][]WOp{{{K: "d", ID: 0}}, {{K: "s", ID: 0, V: 2}}}, Subs: []SubSpec{{BP: true}}},
			{Res: "coll", Init: map[string]int64{}, Writers: [][]WOp{{{K: "s", ID: 0, V: 1}, {K: "d", ID: 0}}, {{K: "a", ID: 0, V: 2}}}, Subs: []SubSpec{{BP: true}}},
		}
		for _, sc := range two {
			nAll += exploreAll(ctl, sc, 6000, func(o *Outcome) { record(sc, o) })
		}
	}
	res.Extra["scenarios_all_schedules"] = nAll
	nrand := f.N(500, 8000)
	for i := 0; i < nrand; i++ {
		sc := genScenario(rng, 3)
		record(sc, runHooked(ctl, sc, nil, func(en []string, _ []string) string { return en[rng.Intn(len(en))] }))
	}
	ctl.Close()

	drv, err := lib.StartDriver(f.Driver)
	if err != nil {
		tie.Fail(err)
	} else {
		lines := make([]string, len(cases))
		for i, c := range cases {
			lines[i] = c.sc.driverLine(c.o.Sched)
		}
		answers, err := drv.Batch(lines)
		drv.Close()
		if err != nil {
			tie.Fail(err)
		} else {
			for i, c := range cases {
				in := map[string]any{"res": c.sc.Res, "init": c.sc.Init, "writers": c.sc.Writers, "subs": c.sc.Subs, "sched": c.o.Sched, "clock": c.sc.Clock, "eq": c.sc.Eq, "icpt": c.sc.Icpt}
				model := maskModel(answers[i], c.sc)
				code := codeCanon(c.sc, c.o)
				tie.Record(lines[i]+strings.Join(c.o.Sched, ","), nontrivial(c.o.Sched), in, model, code)
				if strings.HasSuffix(answers[i], "ord=1") {
					tie.Count("ordered-schedule")
				} else {
					tie.Count("unordered-schedule")
				}
				for _, a := range c.o.Sched {
					tie.Count("step:" + a[:1])
				}
			}
		}
	}
	for _, c := range cases {
		in := map[string]any{"mode": "k4", "res": c.sc.Res, "init": c.sc.Init, "writers": c.sc.Writers, "subs": c.sc.Subs, "sched": c.o.Sched, "clock": c.sc.Clock, "eq": c.sc.Eq, "icpt": c.sc.Icpt}
		mon.Eval(c.sc.driverLine(c.o.Sched)+strings.Join(c.o.Sched, ","), nontrivial(c.o.Sched), nil)
		if c.o.Concurrent {
			mon.Count("two-publications-in-flight")
		} else {
			mon.Count("serial-publications")
		}
		if v := judge(c.sc, c.o, "k4"); v != nil {
			mon.Violate(v.sig, v.what, in, v.expected, v.observed)
		}
	}

	res.Extra["wall_k4"] = time.Since(tStart).Seconds()
	// subscriber churn (the model follows cancel / dead listener / collect)
	churnFamily(f, res, rng, "converges-churn-hooked", "k4-churn-schedules",
		"single writer, three subscribers of which any may be cancelled at any step (its stream is awaited closed), hooked at the same yield points: scripted witnesses (subscriber registers after the listener copy of a Send that then finds a dead listener and garbage-collects, before / between deliveries) + random schedules; every subscriber still alive must converge at sentinel quiescence and every backpressured one must have received exactly one event per publication that took its listener copy while it was registered; deterministic, so any stale view is a violation",
		"single writer, three subscribers, any of which may be cancelled at any step (step x<i>: context cancelled and stream awaited closed, so the next Send meets a dead listener and runs Bus.collect), scripted witnesses + random schedules through the same yield points; store, surviving subscribers' views and backpressured event sequences compared with run(model) incl. the model's cancel / dead-listener / collect steps; non-trivial = a subscriber registered after a cancellation",
		churnWitnesses(), genChurn, f.N(250, 4000), func(Scenario) string { return "churn-single-writer" })
	// churn under CONCURRENT publications: a Send parked at a listener while another Send meets a dead listener and
	// runs Bus.collect (the parked Send must go on with the listeners it copied, whatever happens to Bus.listeners)
	churnFamily(f, res, rng, "converges-churn-concurrent-hooked", "k4-churn-concurrent-schedules",
		"two writers (Collection: of DISJOINT ids, so that every schedule is ordered and any stale view is a violation; Value: of the one value, where a stale view under overlapping publications is the recorded finding but a MISSED publication is not), three or four subscribers of which up to two are cancelled at any step, hooked at the same yield points: scripted witnesses (a cancelled, not yet collected listener ahead of the listener at which one publication is parked while the other publication finishes, finds the dead listener and runs Bus.collect; dead listener first / in the middle; parked subscriber backpressured or lossy) + random schedules; every subscriber still alive converges at sentinel quiescence and every backpressured one has received exactly one event per publication that took its listener copy while it was registered",
		"the same scenarios: store, surviving subscribers' views and backpressured event sequences compared with run(model) (each publication of the model owns its listener copy; collect replaces Bus.listeners only); non-trivial = a publication was delivered after another publication's collect",
		churn2Witnesses(), genChurn2, f.N(250, 3000), func(sc Scenario) string {
			if sc.Res == "coll" {
				return "churn-disjoint-writers"
			}
			return "k4"
		})
	tm := func(name string, t0 time.Time) { res.Extra["wall_"+name] = time.Since(t0).Seconds() }
	t0 := time.Now()
	slowMonitor(f, res, rng)
	tm("slow", t0)
	t0 = time.Now()
	masksMonitor(f, res, rng)
	tm("masks", t0)
	t0 = time.Now()
	adaptersMonitor(f, res, rng)
	tm("adapters", t0)
	t0 = time.Now()
	traitTolMonitor(f, res, rng)
	tm("trait_tolerance", t0)
	t0 = time.Now()
	dupMonitor(f, res)
	tm("dup", t0)
	tablesTie(f, res)
	approxTie(f, res)
	withinTie(f, res)
	t0 = time.Now()
	pullidMonitor(f, res, rng)
	tm("pullid", t0)
	t0 = time.Now()
	stress(f, res, rng)
	tm("stress", t0)
	if err := res.Write(f.Out); err != nil {
		lib.Fatal(err)
	}
}

// churnFamily: hooked runs with subscriber cancellations: a tie with the model and the property itself
func churnFamily(f lib.Flags, res *lib.Result, rng *rand.Rand, monName, tieName, monRule, tieRule string, witnesses []Scenario, gen func(*rand.Rand) Scenario, n int, modeOf func(Scenario) string) {
	ctl := k4.New(ptUpdSend, ptValSend, ptListener, ptCollLis, ptValLis)
	cm := res.Monitor(monName, monRule)
	var runs []pending
	for _, sc := range witnesses {
		runs = append(runs, pending{sc, runHooked(ctl, sc, sc.Sched, nil)})
	}
	for i := 0; i < n; i++ {
		sc := gen(rng)
		runs = append(runs, pending{sc, runHooked(ctl, sc, nil, func(en []string, _ []string) string { return en[rng.Intn(len(en))] })})
	}
	ctl.Close()
	ctie := res.Tie(tieName, "K4", tieRule)
	input := func(c pending) map[string]any {
		return map[string]any{"mode": "k4", "churn": true, "max_gone": c.sc.MaxGone, "res": c.sc.Res, "init": c.sc.Init, "writers": c.sc.Writers, "subs": c.sc.Subs, "sched": c.o.Sched, "clock": c.sc.Clock, "eq": c.sc.Eq, "icpt": c.sc.Icpt}
	}
	// non-trivial: a subscriber registered after a cancellation, or (several writers) a delivery after a collect
	// that happened while another publication was in flight
	interesting := func(c pending) bool {
		seenX := false
		for _, a := range c.o.Sched {
			if a[0] == 'x' {
				seenX = true
			}
			if (a[0] == 's' || (len(c.sc.Writers) > 1 && a[0] == 'd')) && seenX {
				return true
			}
		}
		return false
	}
	if drv, err := lib.StartDriver(f.Driver); err != nil {
		ctie.Fail(err)
	} else {
		lines := make([]string, len(runs))
		for i, c := range runs {
			lines[i] = c.sc.driverLine(c.o.Sched)
		}
		answers, err := drv.Batch(lines)
		drv.Close()
		if err != nil {
			ctie.Fail(err)
		} else {
			for i, c := range runs {
				ctie.Record(lines[i], interesting(c), input(c), maskModel(answers[i], c.sc), codeCanon(c.sc, c.o))
				if strings.HasSuffix(answers[i], "ord=1") {
					ctie.Count("ordered-schedule")
				} else {
					ctie.Count("unordered-schedule")
				}
			}
		}
	}
	for _, c := range runs {
		cancelled := 0
		for _, a := range c.o.Sched {
			if a[0] == 'x' {
				cancelled++
			}
		}
		cm.Eval(c.sc.driverLine(nil)+strings.Join(c.o.Sched, ","), cancelled > 0 && interesting(c), nil)
		cm.Count(fmt.Sprintf("cancelled=%d", cancelled))
		if c.o.Concurrent {
			cm.Count("two-publications-in-flight")
		}
		if v := judge(c.sc, c.o, modeOf(c.sc)); v != nil {
			cm.Violate(v.sig, v.what, input(c), v.expected, v.observed)
		}
	}
}

func nontrivial(sched []string) bool {
	sub := false
	for _, a := range sched {
		if a[0] == 's' {
			sub = true
		}
		if a[0] == 'c' && sub {
			return true
		}
	}
	return false
}

// ---------------------------------------------------------------------------------------------
// unhooked stress

func stressOnce(sc Scenario, rng *rand.Rand) *Outcome {
	w := newWorld(sc)
	ctx, cancel := context.WithCancel(context.Background())
	out := &Outcome{Subs: make([]*consumer, len(sc.Subs))}
	var wg sync.WaitGroup
	start := make(chan struct{})
	for t := range sc.Writers {
		wg.Add(1)
		go func(prog []WOp) {
			defer wg.Done()
			<-start
			for _, op := range prog {
				w.exec(op)
			}
		}(sc.Writers[t])
	}
	for i := range sc.Subs {
		wg.Add(1)
		spin := rng.Intn(300)
		go func(i, spin int) {
			defer wg.Done()
			<-start
			x := 0
			for k := 0; k < spin*20; k++ {
				x += k
			}
			_ = x
			out.Subs[i] = w.subscribe(ctx, sc.Subs[i])
		}(i, spin)
	}
	close(start)
	wg.Wait()
	out.MayBeStale = len(sc.Writers) > 1
	out.finish(w, sc, cancel)
	return out
}

func stress(f lib.Flags, res *lib.Result, rng *rand.Rand) {
	mon := res.Monitor("converges-stress",
		"the property on unhooked executions: writers and subscribers are goroutines released together; single-writer scenarios (any stale view is a violation) and two/three-writer scenarios (where the recorded publish-after-unlock defect may show); quiescence by sentinel write")
	rounds := f.N(60, 600)
	reps := f.N(60, 150)
	deadline := time.Now().Add(time.Duration(f.N(15, 200)) * time.Second)
	for r := 0; r < rounds && time.Now().Before(deadline); r++ {
		maxW := 1
		if r%2 == 1 {
			maxW = 3
		}
		sc := genScenario(rng, maxW)
		mode := "stress/single-writer"
		if len(sc.Writers) > 1 {
			mode = "stress/multi-writer"
		}
		for i := 0; i < reps; i++ {
			o := stressOnce(sc, rng)
			mon.Eval(sc.driverLine(nil), true, nil)
			mon.Count(mode)
			if v := judge(sc, o, "stress"); v != nil {
				sig := strings.Replace(v.sig, "/stress/", "/"+mode+"/", 1)
				in := map[string]any{"mode": "stress", "res": sc.Res, "init": sc.Init, "writers": sc.Writers, "subs": sc.Subs, "clock": sc.Clock, "eq": sc.Eq, "icpt": sc.Icpt}
				mon.Violate(sig, v.what, in, v.expected, v.observed)
				break
			}
		}
	}
}

// ---------------------------------------------------------------------------------------------

func replay(f lib.Flags) int {
	rp, err := lib.ReadReplay(f.Replay)
	if err != nil {
		lib.Fatal(err)
	}
	raw, _ := json.Marshal(rp.Input)
	var in struct {
		Mode string `json:"mode"`
		Scenario
	}
	if err := json.Unmarshal(raw, &in); err != nil || (len(in.Writers) == 0 && in.Mode != "lossy-slow" && in.Mode != "masks" && in.Mode != "lossy-seed-dup" && in.Mode != "include-table" && in.Mode != "merge-table" && in.Mode != "approx-table" && in.Mode != "adapter-openclose" && in.Mode != "pullid" && in.Mode != "trait-tolerance") {
		fmt.Println("replay: no concrete input in file (", rp.Kind, ")")
		return 2
	}
	if in.Mode == "include-table" || in.Mode == "merge-table" || in.Mode == "approx-table" {
		// the tables are small: the whole enumeration is re-run
		r := lib.NewResult("C03", f)
		if in.Mode == "approx-table" {
			approxTie(f, r)
			withinTie(f, r)
		} else {
			tablesTie(f, r)
		}
		for _, m := range r.Monitors {
			for _, v := range m.Violations {
				fmt.Printf("STILL FAILS %s: %s (expected %s, observed %s)\n", v.Signature, v.What, v.Expected, v.Observed)
				return 1
			}
		}
		fmt.Println("replay: the include / merge / float-approx tables satisfy their specifications now")
		return 0
	}
	if in.Mode == "adapter-openclose" {
		var as AdScenario
		if err := json.Unmarshal(raw, &as); err != nil {
			lib.Fatal(err)
		}
		for i := 0; i < 20; i++ {
			v, r := runAdapter(as)
			if v != nil {
				fmt.Printf("STILL FAILS %s: %s (expected %s, observed %s)\n", v.sig, v.what, v.expected, v.observed)
				return 1
			}
			if i == 0 && r != nil {
				fmt.Printf("replay composed stream %s -> messages %s, GetPositions %s\n", as.key(), strings.Join(r.msgs, ";"), r.get)
			}
		}
		fmt.Println("replay: property holds on this input now (20 repetitions)")
		return 0
	}
	if in.Mode == "lossy-slow" {
		var ss SlowScenario
		if err := json.Unmarshal(raw, &ss); err != nil {
			lib.Fatal(err)
		}
		ss = ss.expand()
		r := runSlow(ss)
		fmt.Printf("replay lossy slow consumer %s -> view %s, store %s, events %s\n", ss.key(), clip(showView(r.view)), clip(showView(r.contents)), clip(strings.Join(r.events, ";")))
		if v := judgeSlow(ss, r); v != nil {
			fmt.Printf("STILL FAILS %s: %s (expected %s, observed %s)\n", v.sig, v.what, v.expected, v.observed)
			return 1
		}
		fmt.Println("replay: property holds on this input now")
		return 0
	}
	if in.Mode == "masks" {
		var ms MaskScenario
		if err := json.Unmarshal(raw, &ms); err != nil {
			lib.Fatal(err)
		}
		if ms.Init == nil {
			ms.Init = map[string]int{}
		}
		for i := 0; i < 50; i++ {
			if v, _ := runMasks(ms); v != nil {
				fmt.Printf("STILL FAILS %s: %s (expected %s, observed %s)\n", v.sig, v.what, v.expected, v.observed)
				return 1
			}
		}
		fmt.Println("replay: property holds on this input now (50 repetitions)")
		return 0
	}
	if in.Mode == "trait-tolerance" {
		var ts TraitTolScenario
		if err := json.Unmarshal(raw, &ts); err != nil {
			lib.Fatal(err)
		}
		for i := 0; i < 20; i++ {
			v, r := runTraitTol(ts)
			if v != nil {
				fmt.Printf("STILL FAILS %s: %s (expected %s, observed %s)\n", v.sig, v.what, v.expected, v.observed)
				return 1
			}
			if i == 0 && r != nil {
				fmt.Printf("replay trait tolerance %s -> received (units) %v, getter %d\n", ts.key(), r.events, r.get)
			}
		}
		fmt.Println("replay: property holds on this input now (20 repetitions)")
		return 0
	}
	if in.Mode == "pullid" {
		var ps PidScenario
		if err := json.Unmarshal(raw, &ps); err != nil {
			lib.Fatal(err)
		}
		if ps.Init == nil {
			ps.Init = map[string]int64{}
		}
		for i := 0; i < 20; i++ {
			r := runPid(ps)
			if i == 0 {
				fmt.Printf("replay PullID stream %s -> values %v, closed %v, store %s\n", ps.key(), r.vals, r.closed, showView(r.contents))
			}
			if v := judgePid(ps, r); v != nil {
				fmt.Printf("STILL FAILS %s: %s (expected %s, observed %s)\n", v.sig, v.what, v.expected, v.observed)
				return 1
			}
		}
		fmt.Println("replay: property holds on this input now (20 repetitions)")
		return 0
	}
	if in.Mode == "lossy-seed-dup" {
		var ds DupScenario
		if err := json.Unmarshal(raw, &ds); err != nil {
			lib.Fatal(err)
		}
		ctl := k4.New(ptUpdSend, ptValSend, ptListener)
		defer ctl.Close()
		if v, _ := runDup(ctl, ds); v != nil {
			fmt.Printf("STILL FAILS %s: %s (expected %s, observed %s)\n", v.sig, v.what, v.expected, v.observed)
			return 1
		}
		fmt.Println("replay: property holds on this input now")
		return 0
	}
	sc := in.Scenario
	if sc.Init == nil {
		sc.Init = map[string]int64{}
	}
	if in.Mode == "stress" || len(sc.Sched) == 0 {
		rng := lib.NewRand(1)
		for i := 0; i < 5000; i++ {
			if v := judge(sc, stressOnce(sc, rng), "stress"); v != nil {
				fmt.Printf("STILL FAILS %s: %s (expected %s, observed %s) after %d stress repetitions\n", v.sig, v.what, v.expected, v.observed, i+1)
				return 1
			}
		}
		fmt.Println("replay: 5000 stress repetitions of the scenario satisfied the property")
		return 0
	}
	ctl := k4.New(ptUpdSend, ptValSend, ptListener, ptCollLis, ptValLis)
	defer ctl.Close()
	o := runHooked(ctl, sc, sc.Sched, nil)
	fmt.Printf("replay schedule %v -> %s\n", o.Sched, codeCanon(sc, o))
	if f.Driver != "" {
		if ans, err := lib.RunOnce(f.Driver, []string{sc.driverLine(o.Sched)}); err == nil {
			fmt.Println("model:", ans[0])
		}
	}
	jm := "k4"
	if sc.Churn {
		jm = "churn-single-writer"
		if len(sc.Writers) > 1 {
			jm = "k4"
			if sc.Res == "coll" {
				jm = "churn-disjoint-writers"
			}
		}
	}
	if v := judge(sc, o, jm); v != nil {
		fmt.Printf("STILL FAILS %s: %s (expected %s, observed %s)\n", v.sig, v.what, v.expected, v.observed)
		return 1
	}
	fmt.Println("replay: property holds on this input now")
	return 0
}
