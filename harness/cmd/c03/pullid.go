package main

import (
	"context"
	"fmt"
	"math/rand"
	"strconv"
	"strings"
	"sync"
	"time"

	"google.golang.org/protobuf/types/known/wrapperspb"

	"github.com/smart-core-os/sc-golang/pkg/resource"
	"github.com/smart-core-os/sc-golang/verifharness/lib"
)

// PidScenario: ONE writer and one backpressured Collection.PullID subscriber of item OID, deletes of that item included:
// the stream is the item's seed (if it exists at the subscribe step and the subscriber is not updates-only), then the
// value of every committed change of the item, up to its first REMOVE, which ENDS the stream (the channel is closed);
// changes of other items never show. Optionally the collection has an id interceptor and every call (PullID too)
// spells the item its own way. Deterministic: single writer, backpressure.
type PidScenario struct {
	Init map[string]int64 `json:"init"`
	Ops  []WOp            `json:"ops"`
	OID  int              `json:"oid"`
	Sp   int              `json:"sp,omitempty"`   // the spelling PullID is called with
	UO   bool             `json:"uo,omitempty"`   // WithUpdatesOnly
	Late int              `json:"late,omitempty"` // subscribe after this many writes
	Icpt string           `json:"icpt,omitempty"`
}

func (sc PidScenario) key() string {
	var ops []string
	for _, o := range sc.Ops {
		ops = append(ops, opKey(o))
	}
	return fmt.Sprintf("pullid|%v|%s|%d~%d|%v|%d|%s", sc.Init, strings.Join(ops, ";"), sc.OID, sc.Sp, sc.UO, sc.Late, sc.Icpt)
}

type pidResult struct {
	vals     []int64
	closed   bool
	contents map[string]int64
	problem  string // "" | what was awaited in vain
	class    string
}

var pidFailures int

func runPid(sc PidScenario) *pidResult {
	w := newWorld(Scenario{Res: "coll", Init: sc.Init, Icpt: sc.Icpt})
	ctx, cancel := context.WithCancel(context.Background())
	defer cancel()
	res := &pidResult{}
	var mu sync.Mutex
	var got []int64
	closed := make(chan struct{})
	sentinel := make(chan struct{}, 1)
	subscribe := func() {
		ch := w.coll.PullID(ctx, spell(sc.Icpt, sc.OID, sc.Sp), resource.WithUpdatesOnly(sc.UO), resource.WithBackpressure(true))
		go func() {
			defer close(closed)
			for e := range ch {
				v, ok := msgVal(e.Value)
				if ok && v == sentinelVal {
					select {
					case sentinel <- struct{}{}:
					default:
					}
					continue
				}
				mu.Lock()
				got = append(got, v)
				mu.Unlock()
			}
		}()
	}
	// the oracle: a plain map and the rule of the doc comment
	store := map[int]int64{}
	for k, v := range sc.Init {
		id, _ := strconv.Atoi(k)
		store[id] = v
	}
	var want []int64
	ended, subscribed := false, false
	sub := func() {
		subscribe()
		subscribed = true
		if v, ok := store[sc.OID]; ok && !sc.UO {
			want = append(want, v)
		}
	}
	if sc.Late == 0 {
		sub()
	}
	for n, op := range sc.Ops {
		w.exec(op)
		if simApply(store, op) && subscribed && !ended && op.ID == sc.OID {
			if op.K == "d" {
				ended = true
			} else {
				want = append(want, store[sc.OID])
			}
		}
		if !subscribed && sc.Late == n+1 {
			sub()
		}
	}
	if !subscribed {
		sub()
	}
	res.contents = w.contents()
	limit := 3 * time.Second
	if pidFailures >= 3 {
		limit = 30 * time.Millisecond
	}
	if ended {
		select {
		case <-closed:
			res.closed = true
		case <-time.After(limit):
			pidFailures++
			res.problem = "the item was deleted but the stream was not closed within 3s"
			res.class = "stream-not-ended-after-remove"
		}
		// the item created again: nothing may follow on the stream of the deleted one
		w.coll.Update(spell(sc.Icpt, sc.OID, sc.Sp+1), wrapperspb.Int64(77), resource.WithCreateIfAbsent())
	} else {
		w.coll.Update(spell(sc.Icpt, sc.OID, sc.Sp+1), wrapperspb.Int64(sentinelVal), resource.WithCreateIfAbsent())
		select {
		case <-sentinel:
		case <-closed:
			res.closed = true
			res.problem = "the stream was closed although the item was never deleted while it was open"
			res.class = "stream-ended-without-remove"
		case <-time.After(limit):
			pidFailures++
			res.problem = "a write of the item made after all others was never delivered within 3s"
			res.class = "not-delivered"
		}
	}
	mu.Lock()
	res.vals = append([]int64{}, got...)
	mu.Unlock()
	if res.problem == "" && fmt.Sprint(res.vals) != fmt.Sprint(want) {
		res.problem = fmt.Sprintf("the stream delivered %v, the changes of the item while it was open are %v", res.vals, want)
		res.class = "wrong-values"
	}
	return res
}

func judgePid(sc PidScenario, r *pidResult) *verdict {
	if r.problem == "" {
		return nil
	}
	return &verdict{"C03/coll/pullid-single-writer/" + r.class,
		fmt.Sprintf("single writer, backpressured PullID(%q) (updates-only %v, id interceptor %q) opened after %d of %d writes: %s", spell(sc.Icpt, sc.OID, sc.Sp), sc.UO, sc.Icpt, sc.Late, len(sc.Ops), r.problem),
		"seed, then every change of the item up to its first REMOVE, which closes the stream", fmt.Sprintf("values %v, closed %v, store %s", r.vals, r.closed, showView(r.contents))}
}

func (sc PidScenario) driverLine() string {
	var toks, sched []string
	if sc.Late == 0 {
		sched = append(sched, "s0")
	}
	for n, op := range sc.Ops {
		toks = append(toks, op.encodeAs(rawID(sc.Icpt, op.ID, op.Sp)))
		sched = append(sched, "c0", "n0", "d0", "R")
		if sc.Late == n+1 {
			sched = append(sched, "s0")
		}
	}
	if sc.Late > len(sc.Ops) {
		sched = append(sched, "s0")
	}
	base := Scenario{Res: "coll", Init: sc.Init}
	f := strings.Fields(base.driverLine(nil))
	progs := strings.Join(toks, ";")
	if progs == "" {
		progs = "-"
	}
	if sc.Icpt != "" {
		return fmt.Sprintf("pullidi %d %d %s %s %s0n %s", icptMod, rawID(sc.Icpt, sc.OID, sc.Sp), f[1], progs, b01(sc.UO), strings.Join(sched, ","))
	}
	return fmt.Sprintf("pullid %d %s %s %s0n %s", sc.OID, f[1], progs, b01(sc.UO), strings.Join(sched, ","))
}

func pidExhaustive(maxLen int) []PidScenario {
	var out []PidScenario
	alphabet := func(i int) []WOp {
		return []WOp{{K: "s", ID: 0, V: int64(10 + i)}, {K: "d", ID: 0}, {K: "s", ID: 1, V: int64(20 + i)}}
	}
	var seqs [][]WOp
	var build func(prefix []WOp, n int)
	build = func(prefix []WOp, n int) {
		if len(prefix) > 0 {
			seqs = append(seqs, append([]WOp{}, prefix...))
		}
		if n == 0 {
			return
		}
		for _, o := range alphabet(len(prefix)) {
			build(append(prefix, o), n-1)
		}
	}
	build(nil, maxLen)
	k := 0
	for _, ops := range seqs {
		for _, present := range []bool{false, true} {
			init := map[string]int64{"1": 5}
			if present {
				init["0"] = 1
			}
			for late := 0; late <= len(ops); late++ {
				for _, uo := range []bool{false, true} {
					// without an interceptor, and with each one under spellings that vary from call to call
					out = append(out, PidScenario{Init: init, Ops: ops, OID: 0, UO: uo, Late: late})
					k++
					kind := icptKinds[k%len(icptKinds)]
					sp := make([]WOp, len(ops))
					for i := range ops {
						sp[i] = ops[i]
						sp[i].Sp = (i + k/2) % 2
					}
					out = append(out, PidScenario{Init: init, Ops: sp, OID: 0, Sp: (k / 4) % 2, UO: uo, Late: late, Icpt: kind})
				}
			}
		}
	}
	return out
}

func genPid(rng *rand.Rand) PidScenario {
	sc := PidScenario{Init: map[string]int64{}, OID: rng.Intn(2)}
	for id := 0; id < 2; id++ {
		if rng.Intn(2) == 0 {
			sc.Init[strconv.Itoa(id)] = int64(1 + rng.Intn(3))
		}
	}
	n := 2 + rng.Intn(5)
	for i := 0; i < n; i++ {
		id := rng.Intn(2)
		switch k := rng.Intn(8); {
		case k < 3:
			sc.Ops = append(sc.Ops, WOp{K: "s", ID: id, V: int64(10 + i)})
		case k < 5:
			sc.Ops = append(sc.Ops, WOp{K: "d", ID: id})
		case k < 6:
			sc.Ops = append(sc.Ops, WOp{K: "a", ID: id, V: int64(1 + rng.Intn(2))})
		default:
			sc.Ops = append(sc.Ops, WOp{K: "c", ID: id, E: int64(1 + rng.Intn(3)), V: int64(10 + i)})
		}
	}
	sc.UO = rng.Intn(3) == 0
	sc.Late = rng.Intn(n + 1)
	if rng.Intn(2) == 0 {
		sc.Icpt = icptKinds[rng.Intn(len(icptKinds))]
		spellOps(rng, sc.Ops)
		sc.Sp = rng.Intn(2)
	}
	return sc
}

func pullidMonitor(f lib.Flags, res *lib.Result, rng *rand.Rand) {
	mon := res.Monitor("pullid-stream-single-writer",
		"single writer + one backpressured Collection.PullID subscriber, DELETES of its item included: every sequence over {write the item, delete the item, write another item} up to length 3 (4 in thorough), item present or absent at the start, the subscription opened before any / between any two / after all writes, seeded and updates-only, each on a plain collection and on one with an id interceptor (lower-casing; dropping a trailing slash) where every call - PullID too - spells the item its own way; plus random sequences with add / compare-and-set on two items; the values received must be the seed (if any) and then every committed change of the item up to its first REMOVE, which must close the stream (bounded wait), and nothing of another item; an open stream must deliver a write made last; oracle = a plain map")
	tie := res.Tie("pullid-model", "K1",
		"the same scenarios as schedules of the model (one subscriber, every delivery received at once), read through Sub.pullID / Sub.pullIDEnded (driver op `pullid`): store, the values the stream delivers and whether it has ended vs the real stream; the model knows stored ids only (the interceptor's images); non-trivial = the item is deleted while the stream is open")
	all := pidExhaustive(f.N(3, 4))
	for i := 0; i < f.N(300, 3000); i++ {
		all = append(all, genPid(rng))
	}
	var lines, codes []string
	var inputs []any
	var nontriv []bool
	for _, sc := range all {
		r := runPid(sc)
		in := map[string]any{"mode": "pullid", "init": sc.Init, "ops": sc.Ops, "oid": sc.OID, "sp": sc.Sp, "uo": sc.UO, "late": sc.Late, "icpt": sc.Icpt}
		ended := r.closed
		mon.Eval(sc.key(), ended, nil)
		if sc.Icpt != "" {
			mon.Count("interceptor:" + sc.Icpt)
		} else {
			mon.Count("no-interceptor")
		}
		if v := judgePid(sc, r); v != nil {
			mon.Violate(v.sig, v.what, in, v.expected, v.observed)
		}
		var vs []string
		for _, v := range r.vals {
			vs = append(vs, strconv.FormatInt(v, 10))
		}
		lines = append(lines, sc.driverLine())
		codes = append(codes, fmt.Sprintf("store=%s|vals=%s|ended=%s", showView(r.contents), strings.Join(vs, ";"), b01(r.closed)))
		inputs = append(inputs, in)
		nontriv = append(nontriv, ended)
	}
	drv, err := lib.StartDriver(f.Driver)
	if err != nil {
		tie.Fail(err)
		return
	}
	answers, err := drv.Batch(lines)
	drv.Close()
	if err != nil {
		tie.Fail(err)
		return
	}
	for i := range lines {
		tie.Record(lines[i], nontriv[i], inputs[i], answers[i], codes[i])
	}
}
