// Trait-level adapters that COMPOSE one message from the stream of a resource.Collection.Pull (openclosepb
// Model.PullPositions: every direction's position folded into a map, the whole map sent after each change): the
// subscriber's view is the LAST message, and it must equal what GetPositions returns under the same read mask once
// the writes have stopped - for every updates-only / backpressure / read-mask setting of the caller.
package main

import (
	"context"
	"encoding/json"
	"fmt"
	"math/rand"
	"sort"
	"strings"
	"sync"
	"sync/atomic"
	"time"

	"github.com/smart-core-os/sc-api/go/traits"
	"google.golang.org/protobuf/types/known/fieldmaskpb"

	"github.com/smart-core-os/sc-golang/internal/verifhook"
	"github.com/smart-core-os/sc-golang/pkg/resource"
	"github.com/smart-core-os/sc-golang/pkg/trait/openclosepb"
	"github.com/smart-core-os/sc-golang/verifharness/lib"
)

// AdOp is ONE call: a single state = UpdatePosition (create if absent), several = UpdatePositions
type AdOp struct {
	St [][2]int `json:"st"` // (direction, open percent)
}

type AdScenario struct {
	Init  [][2]int `json:"init"`
	Pre   []AdOp   `json:"pre,omitempty"` // writes before the subscription
	Ops   []AdOp   `json:"ops"`           // writes after it
	UO    bool     `json:"uo,omitempty"`
	BP    bool     `json:"bp,omitempty"`
	Mask  string   `json:"mask"`            // n none | s states | p preset
	Burst bool     `json:"burst,omitempty"` // no waiting between writes: quiescence by a sentinel write (direction 6)
}

func (sc AdScenario) key() string { b, _ := json.Marshal(sc); return string(b) }

const adSentinelDir, adSentinelVal = 6, 777

func position(dir, pct int) *traits.OpenClosePosition {
	return &traits.OpenClosePosition{Direction: traits.OpenClosePosition_Direction(dir), OpenPercent: float32(pct)}
}

func adMask(m string) resource.ReadOption {
	switch m {
	case "s":
		return resource.WithReadMask(&fieldmaskpb.FieldMask{Paths: []string{"states"}})
	case "p":
		return resource.WithReadMask(&fieldmaskpb.FieldMask{Paths: []string{"preset"}})
	}
	return resource.WithReadMask(nil)
}

// canonPositions: `<dir>=<percent>,...#<preset name>` in the order the message lists the states
func canonPositions(p *traits.OpenClosePositions) string {
	if p == nil {
		return "nil"
	}
	var parts []string
	for _, s := range p.GetStates() {
		parts = append(parts, fmt.Sprintf("%d=%d", int(s.GetDirection()), int(s.GetOpenPercent())))
	}
	return strings.Join(parts, ",") + "#" + p.GetPreset().GetName()
}

type adResult struct {
	msgs       []string // every message received, in order
	get        string   // GetPositions under the caller's mask after the last write
	allChanged bool     // every write call changed what GetPositions returns (the drained pace is then deterministic)
	emp        bool
	chgs       []string // the inner stream as the model reads it
}

var adTimeouts atomic.Int64

func adWait(cond func() bool) bool {
	limit := 5 * time.Second
	if adTimeouts.Load() >= 3 { // already established on this tree: do not spend the budget waiting again
		limit = 20 * time.Millisecond
	}
	deadline := time.Now().Add(limit)
	for {
		if cond() {
			return true
		}
		if time.Now().After(deadline) {
			adTimeouts.Add(1)
			return false
		}
		time.Sleep(50 * time.Microsecond)
	}
}

func runAdapter(sc AdScenario) (*verdict, *adResult) {
	var initial []*traits.OpenClosePosition
	sim := map[int]int{}
	for _, s := range sc.Init {
		initial = append(initial, position(s[0], s[1]))
		sim[s[0]] = s[1]
	}
	m := openclosepb.NewModel(openclosepb.WithInitialPositions(initial...),
		openclosepb.WithPreset(&traits.OpenClosePositions_Preset{Name: "P"}, position(1, 41), position(2, 42)))
	write := func(op AdOp) {
		if len(op.St) == 1 {
			m.UpdatePosition(position(op.St[0][0], op.St[0][1]), resource.WithCreateIfAbsent())
		} else {
			msg := &traits.OpenClosePositions{}
			for _, s := range op.St {
				msg.States = append(msg.States, position(s[0], s[1]))
			}
			m.UpdatePositions(msg)
		}
		for _, s := range op.St {
			sim[s[0]] = s[1]
		}
	}
	for _, op := range sc.Pre {
		write(op)
	}
	r := &adResult{allChanged: true, emp: len(sim) == 0}
	var dirs []int
	for d := range sim {
		dirs = append(dirs, d)
	}
	sort.Ints(dirs)
	for i, d := range dirs {
		fl := "s"
		if i == len(dirs)-1 {
			fl = "S"
		}
		r.chgs = append(r.chgs, fmt.Sprintf("%d=%d/%s", d, sim[d], fl))
	}
	getNow := func() string {
		p, _ := m.GetPositions(adMask(sc.Mask))
		return canonPositions(p)
	}

	// the subscription is made inside the adapter's goroutine: the yield point between the inner Pull's snapshot and
	// its Listen (reached while the read lock is held) tells when a write can no longer come before it
	var listens atomic.Int64
	verifhook.Set(func(point string) {
		if point == ptCollLis {
			listens.Add(1)
		}
	})
	defer verifhook.Set(nil)
	ctx, cancel := context.WithCancel(context.Background())
	defer cancel()
	ch := m.PullPositions(ctx, resource.WithUpdatesOnly(sc.UO), resource.WithBackpressure(sc.BP), adMask(sc.Mask))
	var mu sync.Mutex
	closed := make(chan struct{})
	go func() {
		defer close(closed)
		for c := range ch {
			s := canonPositions(c.Positions)
			mu.Lock()
			r.msgs = append(r.msgs, s)
			mu.Unlock()
		}
	}()
	last := func() (string, int) {
		mu.Lock()
		defer mu.Unlock()
		if len(r.msgs) == 0 {
			return "none", 0
		}
		return r.msgs[len(r.msgs)-1], len(r.msgs)
	}
	sig := "C03/adapter/openclose/PullPositions/"
	if !adWait(func() bool { return listens.Load() >= 1 }) {
		return &verdict{sig + "never-subscribed", "the stream's goroutine did not subscribe to the positions within the bound", "a subscription", "none"}, nil
	}
	if !sc.UO {
		// a caller that wants the current value is sent it first, as one message
		if !adWait(func() bool { _, n := last(); return n >= 1 }) {
			return &verdict{sig + "no-seed-message", "a subscriber that is not updates-only received no initial message", getNow(), "no message"}, nil
		}
	}
	for _, op := range sc.Ops {
		before := getNow()
		// one call of several commits under the preset-only mask: the composed message has two values only and may go
		// through the preset and come BACK within the call (# -> #P -> #), so "the last message equals GetPositions" is
		// already true before anything of this call has been composed. The messages owed are counted instead (drained
		// pace: nothing else is pending; the directions of one call are distinct, so the inner stream merges nothing).
		owed, n0 := 0, 0
		if !sc.Burst && sc.Mask == "p" && len(op.St) > 1 {
			cur := ""
			cur, n0 = last()
			step := map[int]int{}
			for d, v := range sim {
				step[d] = v
			}
			for _, s := range op.St {
				step[s[0]] = s[1]
				msg := "#"
				if len(step) == 2 && step[1] == 41 && step[2] == 42 {
					msg = "#P"
				}
				if n0+owed == 0 || msg != cur { // a caller that was sent nothing yet is sent the first composition whatever it is
					owed++
					cur = msg
				}
			}
		}
		write(op)
		for _, s := range op.St {
			r.chgs = append(r.chgs, fmt.Sprintf("%d=%d/u", s[0], s[1]))
		}
		want := getNow()
		if want == before || len(op.St) > 1 && sc.Mask == "p" {
			r.allChanged = false
		}
		if !sc.Burst {
			adWait(func() bool { l, n := last(); return l == want && n >= n0+owed })
		}
	}
	if sc.Burst {
		write(AdOp{St: [][2]int{{adSentinelDir, adSentinelVal}}})
		r.chgs = append(r.chgs, fmt.Sprintf("%d=%d/u", adSentinelDir, adSentinelVal))
		tok := fmt.Sprintf("%d=%d", adSentinelDir, adSentinelVal)
		if !adWait(func() bool { l, _ := last(); return strings.Contains(l, tok) }) {
			l, _ := last()
			return &verdict{sig + "sentinel-not-delivered", "no message carrying the sentinel position written after all writes returned", "a message containing " + tok, l}, r
		}
	}
	r.get = getNow()
	if len(sc.Ops) > 0 || sc.Burst || !sc.UO {
		adWait(func() bool { l, _ := last(); return l == r.get })
	}
	if sc.Mask == "p" && len(sc.Ops) > 0 {
		// the preset-only message has two values: "equal to GetPositions" may be an OLD message while newer ones are still
		// to be composed (the inner stream is lossy: changes of one direction merged ahead of another direction's can take
		// the map through the preset and back). The stream counts as drained when it has also been silent for a while.
		quietSince, seen := time.Now(), -1
		adWait(func() bool {
			l, n := last()
			if n != seen {
				seen, quietSince = n, time.Now()
			}
			return l == r.get && time.Since(quietSince) >= 25*time.Millisecond
		})
	}
	cancel()
	select {
	case <-closed:
	case <-time.After(2 * time.Second):
	}
	l, n := last()
	if sc.UO && n == 0 && len(sc.Ops) == 0 && !sc.Burst {
		return nil, r // an updates-only subscriber that was told nothing knows nothing
	}
	if l != r.get {
		return &verdict{sig + "stale-view",
			fmt.Sprintf("the last message of the stream (updates-only %v, backpressure %v, mask %s) is not what GetPositions returns after the writes stopped", sc.UO, sc.BP, sc.Mask),
			"last message = " + r.get, "last message = " + l + " of " + strings.Join(r.msgs, ";")}, r
	}
	return nil, r
}

// adCanon: what is compared with the model: the whole sequence when the pace makes it deterministic (drained, every
// call changing the composed message), else the first message (a seeded caller's: the seed) and the last one
func adCanon(sc AdScenario, full bool, msgs []string) string {
	if full {
		return "seq:" + strings.Join(msgs, ";")
	}
	first, last := "*", "none"
	if len(msgs) > 0 {
		last = msgs[len(msgs)-1]
		if !sc.UO {
			first = msgs[0]
		}
	}
	return "first=" + first + "|last=" + last
}

func (sc AdScenario) driverLine(r *adResult) string {
	cs := strings.Join(r.chgs, ",")
	if cs == "" {
		cs = "-"
	}
	return fmt.Sprintf("compose %s %s %s %s", b01(sc.UO), b01(r.emp), sc.Mask, cs)
}

func adapterWitnesses() []AdScenario {
	var out []AdScenario
	for _, uo := range []bool{true, false} {
		for _, bp := range []bool{false, true} {
			for _, mask := range []string{"n", "s", "p"} {
				out = append(out,
					// two stored directions, one of them written after subscribing: the message must still list both
					AdScenario{Init: [][2]int{{1, 10}, {3, 20}}, Ops: []AdOp{{St: [][2]int{{1, 55}}}}, UO: uo, BP: bp, Mask: mask},
					// an empty model; the states written one by one reach the preset
					AdScenario{Ops: []AdOp{{St: [][2]int{{1, 41}}}, {St: [][2]int{{2, 42}}}, {St: [][2]int{{2, 43}}}}, UO: uo, BP: bp, Mask: mask},
					// a direction created before subscribing, a multi-state call leaving the preset
					AdScenario{Init: [][2]int{{1, 41}}, Pre: []AdOp{{St: [][2]int{{2, 42}}}}, Ops: []AdOp{{St: [][2]int{{1, 50}, {4, 51}}}}, UO: uo, BP: bp, Mask: mask},
				)
				if mask != "p" {
					out = append(out, AdScenario{Init: [][2]int{{1, 10}, {2, 11}, {3, 12}}, Ops: []AdOp{{St: [][2]int{{2, 60}}}, {St: [][2]int{{2, 61}}}, {St: [][2]int{{3, 62}}}}, UO: uo, BP: bp, Mask: mask, Burst: true})
				}
			}
		}
	}
	return out
}

func genAdapter(rng *rand.Rand) AdScenario {
	sc := AdScenario{UO: rng.Intn(2) == 0, BP: rng.Intn(2) == 0, Mask: []string{"n", "n", "s", "p"}[rng.Intn(4)], Burst: rng.Intn(3) == 0}
	if sc.Burst && sc.Mask == "p" {
		sc.Mask = "n"
	}
	next := 50
	val := func(dir int) int {
		if dir <= 2 && rng.Intn(4) == 0 {
			return 40 + dir // the preset's value for this direction
		}
		next++
		return next
	}
	for d := 1; d <= 4; d++ {
		if rng.Intn(3) == 0 {
			sc.Init = append(sc.Init, [2]int{d, val(d)})
		}
	}
	op := func() AdOp {
		n := 1
		if rng.Intn(4) == 0 {
			n = 2 + rng.Intn(2)
		}
		var o AdOp
		for _, d := range rng.Perm(4)[:n] {
			o.St = append(o.St, [2]int{d + 1, val(d + 1)})
		}
		return o
	}
	for i, n := 0, rng.Intn(3); i < n; i++ {
		sc.Pre = append(sc.Pre, op())
	}
	for i, n := 0, 1+rng.Intn(5); i < n; i++ {
		sc.Ops = append(sc.Ops, op())
	}
	return sc
}

func adaptersMonitor(f lib.Flags, res *lib.Result, rng *rand.Rand) {
	mon := res.Monitor("converges-composed-adapter",
		"openclosepb Model.PullPositions (the stream COMPOSED from a Collection.Pull of the per-direction items) on a model with a preset: caller options updates-only x backpressure x read mask {none, states, preset}; 0-4 stored directions, writes before and after subscribing through UpdatePosition (one direction) and UpdatePositions (several directions in one call), values reaching / leaving the preset; drained pace (after each call the last message is awaited equal to GetPositions) and burst pace (no waiting; quiescence by a sentinel position written last); the subscription moment is taken from the yield point coll.onUpdate.beforeListen; the view = the LAST message must equal GetPositions under the same mask once the writes stopped; scripted witnesses for every option combination + random; deterministic, so any difference is a violation")
	tie := res.Tie("composed-adapter-model", "K1",
		"the same runs against Compose.runAd (driverC03 `compose`): the inner stream the model reads = the stored directions at the subscribe moment as seed values (the last one flagged) followed by one change per written state; compared: the whole message sequence when the pace is drained and every call changed the composed message, else the first message of a seeded caller and the last message; non-trivial = an updates-only caller with at least two stored directions, or a message sequence of at least three")
	all := adapterWitnesses()
	for i := 0; i < f.N(150, 2500); i++ {
		all = append(all, genAdapter(rng))
	}
	var lines, codes []string
	var inputs []any
	var nontriv, fulls []bool
	var scs []AdScenario
	for _, sc := range all {
		in := map[string]any{"mode": "adapter-openclose", "init": sc.Init, "pre": sc.Pre, "ops": sc.Ops, "uo": sc.UO, "bp": sc.BP, "mask": sc.Mask, "burst": sc.Burst}
		v, r := runAdapter(sc)
		nt := r != nil && (sc.UO && len(r.chgs)-len(sc.Ops) >= 2 || len(r.msgs) >= 3)
		mon.Eval(sc.key(), nt, nil)
		mon.Count(fmt.Sprintf("uo=%v,bp=%v,mask=%s,burst=%v", sc.UO, sc.BP, sc.Mask, sc.Burst))
		if v != nil {
			mon.Violate(v.sig, v.what, in, v.expected, v.observed)
		}
		if r != nil {
			full := !sc.Burst && r.allChanged
			lines = append(lines, sc.driverLine(r))
			codes = append(codes, adCanon(sc, full, r.msgs))
			inputs = append(inputs, in)
			nontriv = append(nontriv, nt)
			fulls = append(fulls, full)
			scs = append(scs, sc)
		}
	}
	drv, err := lib.StartDriver(f.Driver)
	if err != nil {
		tie.Fail(err)
		return
	}
	answers, err := drv.Batch(lines)
	drv.Close()
	if err != nil {
		tie.Fail(err)
		return
	}
	for i := range lines {
		model := answers[i]
		if k := strings.Index(model, "|last="); k >= 0 {
			var msgs []string
			if model[:k] != "" {
				msgs = strings.Split(model[:k], ";")
			}
			model = adCanon(scs[i], fulls[i], msgs)
		}
		if fulls[i] {
			tie.Count("whole-sequence")
		} else {
			tie.Count("first-and-last")
		}
		tie.Record(lines[i]+scs[i].key(), nontriv[i], inputs[i], model, codes[i])
	}
}
