package main

import (
	"fmt"
	"strings"

	"google.golang.org/protobuf/types/known/fieldmaskpb"

	"github.com/smart-core-os/sc-golang/pkg/masks"
	"github.com/smart-core-os/sc-golang/verifharness/lib"
)

// The translation of a composed register's update mask into the items' mask: masks.RemovePrefix (its only caller is
// openclosepb.Model.UpdatePositions). Tie K2: EVERY sequence of up to three distinct paths from two small path
// alphabets (the list's name, fields below it, wildcards, nested paths, other fields, a name that merely starts with
// the prefix) plus the nil and the empty mask, through the Lean definition `removePrefix` (driver op rmprefix) and
// through the real function. Monitor: an own reading of the rule written on path segments; and the function must
// neither change the mask it is given nor hand back memory shared with it.

var rmAlphabets = map[string][]string{
	"states": {"states", "states.a", "states.*", "states.*.a", "states.a.b", "states.*.a.b", "preset", "preset.a", "statesx.a", "a"},
	"a":      {"a", "a.b", "a.*", "a.*.b", "ab.c", "b", "a.b.c"},
}

// rmReference: the rule on path segments
func rmReference(prefix string, paths []string, isNil bool) string {
	if isNil {
		return "nil"
	}
	var out []string
	for _, p := range paths {
		seg := strings.Split(p, ".")
		if seg[0] != prefix || len(seg) == 1 {
			continue
		}
		seg = seg[1:]
		if seg[0] == "*" {
			seg = seg[1:]
			if len(seg) == 0 {
				continue
			}
		}
		out = append(out, strings.Join(seg, "."))
	}
	if len(out) == 0 {
		return "nil"
	}
	return strings.Join(out, ",")
}

func rmReal(prefix string, paths []string, isNil bool) (result string, mutated, aliased bool) {
	var m *fieldmaskpb.FieldMask
	if !isNil {
		// spare capacity: an append to the caller's slice would not reallocate and so be visible below
		ps := make([]string, len(paths), len(paths)+4)
		copy(ps, paths)
		m = &fieldmaskpb.FieldMask{Paths: ps}
	}
	var out *fieldmaskpb.FieldMask
	panicked, pm := lib.Catch(func() { out = masks.RemovePrefix(prefix, m) })
	if panicked {
		return "panic:" + pm, false, false
	}
	if m != nil {
		if len(m.Paths) != len(paths) {
			mutated = true
		}
		for i := range paths {
			if i < len(m.Paths) && m.Paths[i] != paths[i] {
				mutated = true
			}
		}
		if full := m.Paths[:cap(m.Paths)]; len(full) > len(paths) && full[len(paths)] != "" {
			mutated = true // written into the caller's spare capacity
		}
		if out != nil && len(out.Paths) > 0 && len(m.Paths) > 0 && &out.Paths[0] == &m.Paths[0] {
			aliased = true
		}
	}
	switch {
	case out == nil:
		return "nil", mutated, aliased
	case len(out.Paths) == 0:
		return "-", mutated, aliased
	}
	return strings.Join(out.Paths, ","), mutated, aliased
}

func rmLine(prefix string, paths []string, isNil bool) string {
	m := "nil"
	if !isNil {
		m = "-"
		if len(paths) > 0 {
			m = strings.Join(paths, ",")
		}
	}
	return fmt.Sprintf("rmprefix %s %s", prefix, m)
}

const rmTieRule = "masks.RemovePrefix (the update-mask translation of composed registers): every sequence of 0-3 distinct paths from two path alphabets " +
	"(prefixes `states` and `a`: the prefix itself, fields below it, wildcards, nested paths, other fields, a longer name starting with the prefix) plus the nil mask, " +
	"through the Lean definition (driver op rmprefix) and through the real function; exhaustive; non-trivial = a result that is not nil"

const rmMonRule = "RemovePrefix evaluated against an own rule on path segments (prefix alone / prefix.* dropped, prefix.f and prefix.*.f stripped, other paths dropped, nil when nothing remains, never an empty mask); " +
	"the mask passed in is unchanged afterwards (also its spare capacity) and the result shares no memory with it"

func runRemovePrefix(f lib.Flags, res *lib.Result) {
	tie := res.Tie("remove-prefix", "K2", rmTieRule)
	tie.Exhaustive = true
	mon := res.Monitor("update-mask-translation", rmMonRule)
	drv, err := lib.StartDriver(f.Driver)
	if err != nil {
		tie.Fail(err)
		return
	}
	defer drv.Close()
	type tc struct {
		prefix string
		paths  []string
		isNil  bool
	}
	var cases []tc
	for _, prefix := range []string{"states", "a"} {
		alpha := rmAlphabets[prefix]
		cases = append(cases, tc{prefix, nil, true}, tc{prefix, nil, false})
		for i := range alpha {
			cases = append(cases, tc{prefix, []string{alpha[i]}, false})
			for j := range alpha {
				if j == i {
					continue
				}
				cases = append(cases, tc{prefix, []string{alpha[i], alpha[j]}, false})
				for k := range alpha {
					if k == i || k == j {
						continue
					}
					cases = append(cases, tc{prefix, []string{alpha[i], alpha[j], alpha[k]}, false})
				}
			}
		}
	}
	lines := make([]string, len(cases))
	for i, c := range cases {
		lines[i] = rmLine(c.prefix, c.paths, c.isNil)
	}
	model, err := drv.Batch(lines)
	if err != nil {
		tie.Fail(err)
		return
	}
	for i, c := range cases {
		in := map[string]any{"kind": "rmprefix", "prefix": c.prefix, "paths": c.paths, "nil": c.isNil}
		real, mutated, aliased := rmReal(c.prefix, c.paths, c.isNil)
		tie.Record(lines[i], real != "nil", in, model[i], real)
		tie.Count("result:" + map[bool]string{true: "nil", false: "paths"}[real == "nil"])
		mon.Eval(lines[i], real != "nil", nil)
		if want := rmReference(c.prefix, c.paths, c.isNil); real != want {
			mon.Violate("C14/masks.RemovePrefix/result", "RemovePrefix does not return the paths below the prefix with the prefix removed (nil when none remains)", in, want, real)
		}
		if mutated {
			mon.Violate("C14/masks.RemovePrefix/mutates-input", "RemovePrefix changed the mask it was given (or wrote into its spare capacity)", in, "the input unchanged", "input changed")
		}
		if aliased {
			mon.Violate("C14/masks.RemovePrefix/aliases-input", "RemovePrefix returned paths sharing memory with the mask it was given", in, "a slice of its own", "shared backing array")
		}
	}
}

// replayRemovePrefix re-evaluates one case of the tie's monitor.
func replayRemovePrefix(in map[string]any) int {
	prefix, _ := in["prefix"].(string)
	isNil, _ := in["nil"].(bool)
	var paths []string
	if ps, ok := in["paths"].([]any); ok {
		for _, p := range ps {
			paths = append(paths, fmt.Sprint(p))
		}
	}
	real, mutated, aliased := rmReal(prefix, paths, isNil)
	want := rmReference(prefix, paths, isNil)
	fmt.Printf("replay RemovePrefix(%q, %v nil=%v): got %s, want %s, mutated=%v aliased=%v\n", prefix, paths, isNil, real, want, mutated, aliased)
	if real != want || mutated || aliased {
		fmt.Println("STILL FAILS C14/masks.RemovePrefix")
		return 1
	}
	fmt.Println("replay: property holds on this input now")
	return 0
}
