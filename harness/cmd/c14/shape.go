package main

import (
	"fmt"
	"reflect"
	"sort"

	"google.golang.org/protobuf/proto"
	"google.golang.org/protobuf/reflect/protoreflect"
	"google.golang.org/protobuf/types/known/fieldmaskpb"

	"github.com/smart-core-os/sc-golang/verifharness/cmd/c07/pbgen"
	"github.com/smart-core-os/sc-golang/verifharness/lib"
)

// Payload shapes and write classification.
//
// A register whose value is COMPOSED of several stored items (openclosepb: one OpenClosePosition per direction in
// a collection, composed into OpenClosePositions) can carry out one Update as several item writes. Whether it does
// is decided here from the request and the response, not from the server's name:
//
//	multi-item write = the payload carries two or more elements in a repeated message field, or the response
//	                   differs from the previous value in two or more elements of a repeated message field, or the
//	                   payload leaves the resource's item list empty and sets another message field instead (a
//	                   selector the server expands into items, e.g. a preset: how many items it writes is not
//	                   visible to the client - a write that leaves an item as it is still publishes an event).
//
// Every other successful Update is ONE register write and the five statements apply to it at full strength
// (theorem C14_composite_update_on_streams_partial / C14_composite_single_write_is_register_write).
// Half of the sessions (odd sequence numbers) cap every repeated message field of the payloads at one element,
// so that composite registers are driven through long histories of single-item (partial) updates as well.

// capLists truncates every repeated message field of m (recursively) to at most n elements.
func capLists(m protoreflect.Message, n int) {
	m.Range(func(fd protoreflect.FieldDescriptor, v protoreflect.Value) bool {
		if fd.IsMap() || fd.Message() == nil {
			return true
		}
		if fd.IsList() {
			l := v.List()
			if l.Len() > n {
				l.Truncate(n)
			}
			for i := 0; i < l.Len(); i++ {
				capLists(l.Get(i).Message(), n)
			}
			return true
		}
		capLists(v.Message(), n)
		return true
	})
}

// maxListLen is the greatest number of elements any top-level repeated message field of m carries.
func maxListLen(m proto.Message) int {
	n := 0
	if m == nil {
		return 0
	}
	m.ProtoReflect().Range(func(fd protoreflect.FieldDescriptor, v protoreflect.Value) bool {
		if fd.IsList() && fd.Message() != nil && v.List().Len() > n {
			n = v.List().Len()
		}
		return true
	})
	return n
}

// derivedItems: the resource has a top-level repeated message field that the payload leaves empty while it sets some
// other top-level message field.
func derivedItems(payload proto.Message) bool {
	if payload == nil {
		return false
	}
	r := payload.ProtoReflect()
	hasList, listSet, otherSet := false, false, false
	fds := r.Descriptor().Fields()
	for i := 0; i < fds.Len(); i++ {
		fd := fds.Get(i)
		switch {
		case fd.IsList() && fd.Message() != nil:
			hasList = true
			listSet = listSet || r.Get(fd).List().Len() > 0
		case fd.Message() != nil && !fd.IsMap() && !fd.IsList():
			otherSet = otherSet || r.Has(fd)
		}
	}
	return hasList && !listSet && otherSet
}

// changedItems counts, over the top-level repeated message fields, the elements in which a and b differ:
// max(|a \ b|, |b \ a|) as multisets (one element modified, added or removed counts 1).
func changedItems(a, b proto.Message) int {
	if a == nil || b == nil {
		return 0
	}
	ra, rb := a.ProtoReflect(), b.ProtoReflect()
	total := 0
	fds := ra.Descriptor().Fields()
	for i := 0; i < fds.Len(); i++ {
		fd := fds.Get(i)
		if !fd.IsList() || fd.Message() == nil {
			continue
		}
		la, lb := ra.Get(fd).List(), rb.Get(fd).List()
		used := make([]bool, lb.Len())
		onlyA := 0
		for x := 0; x < la.Len(); x++ {
			found := false
			for y := 0; y < lb.Len(); y++ {
				if !used[y] && proto.Equal(la.Get(x).Message().Interface(), lb.Get(y).Message().Interface()) {
					used[y], found = true, true
					break
				}
			}
			if !found {
				onlyA++
			}
		}
		onlyB := 0
		for _, u := range used {
			if !u {
				onlyB++
			}
		}
		if onlyB > onlyA {
			onlyA = onlyB
		}
		total += onlyA
	}
	return total
}

// noteWrite classifies a successful write (request payload, value before, value after) and remembers, for the
// rest of the session, that a multi-item write happened while a stream was open: its intermediate values may
// still be in flight when later requests are made, so every later stream verdict of the session is reported
// under the qualified signature.
func (s *session) noteWrite(payload, prev, cur proto.Message) {
	multi := maxListLen(payload) >= 2 || changedItems(prev, cur) >= 2 || derivedItems(payload)
	if multi {
		s.mon.Count("write:multi-item")
		if s.openCount() > 0 {
			s.multiWrite = true
		}
	} else {
		s.mon.Count("write:single")
	}
}

// sigQual qualifies the signature of a stream verdict.
func (s *session) sigQual(class string) string {
	if s.multiWrite && len(class) > 5 && class[:5] == "Pull/" {
		return class + "/after-multi-item-write"
	}
	return class
}

// --- exhaustive read masks ------------------------------------------------------------------------

// allPaths lists every read-mask path of md down to `depth` levels: through singular and repeated message
// fields; maps, scalars and repeated scalars end a path (a path continuing below them is not a valid mask).
func allPaths(md protoreflect.MessageDescriptor, depth int) []string {
	var out []string
	var walk func(md protoreflect.MessageDescriptor, prefix string, d int, seen map[protoreflect.FullName]bool)
	walk = func(md protoreflect.MessageDescriptor, prefix string, d int, seen map[protoreflect.FullName]bool) {
		fds := md.Fields()
		for i := 0; i < fds.Len(); i++ {
			fd := fds.Get(i)
			p := prefix + string(fd.Name())
			out = append(out, p)
			if fd.Message() == nil || fd.IsMap() || d+1 >= depth || seen[fd.Message().FullName()] {
				continue
			}
			seen[fd.Message().FullName()] = true
			walk(fd.Message(), p+".", d+1, seen)
			delete(seen, fd.Message().FullName())
		}
	}
	walk(md, "", 0, map[protoreflect.FullName]bool{md.FullName(): true})
	sort.Strings(out)
	return out
}

// runMaskSession: the register is filled by a few dense writes, then EVERY single-path read mask of the resource's
// descriptor (3 levels, nested paths through repeated messages included) and a sample of two-path masks is read
// through Get, each followed by nothing but the next read; a full Get after every fourth read and at the end shows
// that reads do not change the register; a Pull opened with each of a sample of the masks must start with the projection.
func runMaskSession(t triple, sid sessionID, mon *lib.Monitor) (lines, verdicts []string) {
	r := seqRand(sid.Seed, sid.Triple+"/masks", sid.Seq)
	s := &session{t: t, r: r, g: pbgen.New(r), ids: map[string]int{}, maskIDs: map[string]int{}, mon: mon, sid: sid}
	s.g.MaxDepth = 3
	cl, model := t.Row.New()
	s.client = reflect.ValueOf(cl)
	s.pokes = pokeMethods(model, t.resource)
	s.singleItem = sid.Seq%2 == 1
	s.dense = 0.9
	s.input = func(n int) any {
		return map[string]any{"kind": "masks", "triple": sid.Triple, "seed": sid.Seed, "seq": sid.Seq, "steps": n, "trace": tailTrace(s.trace, 14)}
	}
	defer func() {
		for _, st := range s.streams {
			st.cancel()
		}
	}()
	s.lines, s.verdict = []string{"reset"}, []string{"ok"}
	s.step = -1
	s.doGet(nil)
	write := func() {
		if s.t.isPair() {
			s.doPoke()
		} else {
			s.doUpdate()
		}
	}
	for i := 0; i < 3 && !s.failed; i++ {
		s.step = i
		write()
	}
	ps := allPaths(t.resource, 3)
	var masks []*fieldmaskpb.FieldMask
	for _, p := range ps {
		masks = append(masks, &fieldmaskpb.FieldMask{Paths: []string{p}})
	}
	for i := 0; i < len(ps) && i < 12 && len(ps) > 1; i++ {
		a, b := ps[s.r.Intn(len(ps))], ps[s.r.Intn(len(ps))]
		if a == b || len(a) > len(b) && a[:len(b)] == b || len(b) > len(a) && b[:len(a)] == a {
			continue
		}
		if a > b {
			a, b = b, a
		}
		masks = append(masks, &fieldmaskpb.FieldMask{Paths: []string{a, b}})
	}
	if len(masks) > sid.Steps {
		// more paths than the budget: a random sample, in path order
		s.r.Shuffle(len(masks), func(i, j int) { masks[i], masks[j] = masks[j], masks[i] })
		masks = masks[:sid.Steps]
		sort.Slice(masks, func(i, j int) bool { return fmt.Sprint(masks[i].Paths) < fmt.Sprint(masks[j].Paths) })
	}
	for i, m := range masks {
		if s.failed {
			break
		}
		s.step = 3 + i
		s.doGet(m)
		if i%4 == 3 && !s.failed {
			s.doGet(nil)
		}
		if i%8 == 5 && !s.failed {
			// the same mask on a new stream: the seed is the projection; then a write must arrive projected
			s.doPullWith(m, false)
			if !s.failed {
				s.doGet(nil)
				write()
			}
			if !s.failed {
				s.doClose()
			}
		}
	}
	if !s.failed {
		s.step = 3 + len(masks)
		s.drain(true)
		s.doGet(nil)
	}
	mon.Count(fmt.Sprintf("mask-paths:%s=%d", t.X, len(ps)))
	mon.Eval(sid.Triple+"/masks"+fmt.Sprint(sid.Seq), len(s.lines) > 6, nil)
	return s.lines, s.verdict
}
