package main

import (
	"fmt"
	"time"

	"google.golang.org/protobuf/proto"

	"github.com/smart-core-os/sc-golang/verifharness/lib"
)

// Scenario family "a reader that stops reading" (kind "stall"): one client opens a Pull stream, receives its seed
// and stops calling Recv (busy, stuck, slow) while Updates keep coming from another client (model-level writes where
// the service has no Update RPC: sensors); a second stream, opened
// after the stalled one, is read promptly. The property only owes stream messages to readers that keep up, but it
// owes everything else to everybody, whatever one reader does:
//
//   - every Update is still one register write: answered OK (or rejected with the register unchanged: an Update
//     answered with an error status must leave Get as it was), response = next Get;
//   - the stream that keeps up still shows every value-changing Update;
//   - nothing is owed to the stalled stream while it is stalled. When its reader resumes it may deliver any
//     subsequence (in order) of the values announced meanwhile - the resource keeps only the latest for a slow
//     subscriber - and it must END on the register's value; from then on it keeps up again.
//
// Between the bus and a client behind WrapApi(router(WrapApi(server))) there are five places where one message can
// wait (resource goroutine, model goroutine, the two wrappers, the reader's own pending Recv), so `stallUpdates`
// Updates are enough to fill them all and make a sixth wait for the stalled reader, should the server make writers
// wait for readers at all. A writer that waits for a reader is bounded by the resource at 5 s: nothing here waits
// longer than that plus slack.
const stallUpdates = 9

func runStallSession(t triple, sid sessionID, mon *lib.Monitor) (lines, verdicts []string) {
	s := newSession(t, sid, mon, "stall")
	defer s.cancelAll()
	s.doGet(nil)
	if s.failed {
		return s.lines, s.verdict
	}
	// the stream whose reader will stall: seeded (so that the subscription is known to exist), any read mask
	s.doPullWith(s.randMask(t.resource, 60, true), false)
	if s.failed {
		return s.lines, s.verdict
	}
	a := len(s.streams) - 1
	if sid.Seq%3 == 2 && !s.failed {
		s.doPull() // a reader that subscribed BEFORE the stalled one's stall began and keeps up
	}
	sa := s.streams[a]
	sa.stall()
	sa.stalled, sa.established = true, false
	s.trace = append(s.trace, stepDesc{s.step, fmt.Sprintf("the reader of stream#%d stops calling Recv", a), ""})
	s.obs(fmt.Sprintf("stall %d", a), "ok")
	if sid.Seq%3 != 1 && !s.failed {
		s.doPullWith(nil, false) // a reader that subscribed AFTER the stalled one and keeps up
	}
	for k := 0; k < stallUpdates+sid.Steps && !s.failed; k++ {
		s.step = k
		t0 := time.Now()
		s.write()
		if d := time.Since(t0); d > time.Second {
			mon.Count("stall-update-waited-for-reader")
			s.trace = append(s.trace, stepDesc{s.step, "(the Update above took " + d.Round(100*time.Millisecond).String() + " while a reader was stalled)", ""})
		}
		if !s.failed && k%3 == 2 {
			s.doGet(nil)
		}
	}
	if s.failed {
		return s.lines, s.verdict
	}
	// the reader resumes and reads what has been waiting for it (any subsequence, in order, of what was announced
	// meanwhile: all optional) until the stream has been silent for 20 ms with the register's value as its last message
	s.step = stallUpdates + sid.Steps
	sa.stalled = false
	sa.resume()
	s.trace = append(s.trace, stepDesc{s.step, fmt.Sprintf("the reader of stream#%d resumes", a), ""})
	s.fact(sa.mask, s.cur)
	want := project(sa.mask, s.cur)
	end := time.Now().Add(time.Second)
	for !s.failed && !sa.closed {
		s.drainOne(a, 20*time.Millisecond)
		if (sa.lastSeen != nil && proto.Equal(sa.lastSeen, want)) || time.Now().After(end) {
			break
		}
	}
	if s.failed {
		return s.lines, s.verdict
	}
	// it has caught up: nothing from the time of the stall is expected any more, the subscription exists (it delivered
	// before the stall), and the stream has to have ended on the register
	sa.queue, sa.established = nil, true
	s.obs(fmt.Sprintf("resume %d", a), "ok")
	if s.failed {
		return s.lines, s.verdict
	}
	s.drain(false)
	v := "ok"
	for i, st := range s.streams {
		if st.closed || !st.established || s.failed {
			continue
		}
		s.fact(st.mask, s.cur)
		if w := project(st.mask, s.cur); st.lastSeen == nil || !proto.Equal(st.lastSeen, w) {
			what := "a Pull stream whose reader had stopped reading for a while and resumed did not end on the register's value (the latest value is kept for a slow subscriber)"
			if i != a {
				what = "a Pull stream that was read promptly while another stream's reader had stopped reading did not end on the register's value"
			}
			v = s.violate("Pull/stream-does-not-end-on-register", what, txt(w), fmt.Sprintf("stream#%d ended on %s", i, txt(st.lastSeen)))
		}
	}
	s.obs("quiesce", v)
	// from here on the resumed reader keeps up like everybody else
	for n := 0; n < 2 && !s.failed; n++ {
		s.write()
	}
	if !s.failed {
		s.drain(true)
		s.doGet(nil)
	}
	mon.Count("stall-sessions")
	mon.Eval(sid.Triple+"/stall"+fmt.Sprint(sid.Seq), len(s.lines) > 6, nil)
	return s.lines, s.verdict
}

// drainOne receives what stream i delivers during the grace period, judged like any other message.
func (s *session) drainOne(i int, grace time.Duration) {
	st := s.streams[i]
	for {
		select {
		case m, ok := <-st.ch:
			if !ok || m.err != nil {
				st.closed = true
				s.obs(fmt.Sprintf("ended %d", i), s.violate("Pull/stream-ended", "a Pull stream ended although it was not cancelled", "open stream", fmt.Sprint(m.err)))
				return
			}
			s.recvOne(i, m)
			if s.failed {
				return
			}
		case <-time.After(grace):
			return
		}
	}
}
