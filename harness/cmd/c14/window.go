package main

import (
	"fmt"

	"sync"
	"sync/atomic"
	"time"

	"google.golang.org/grpc/status"
	"google.golang.org/protobuf/proto"
	"google.golang.org/protobuf/types/known/fieldmaskpb"

	"github.com/smart-core-os/sc-golang/internal/verifhook"
	"github.com/smart-core-os/sc-golang/verifharness/lib"
)

// Scenario family "windows" (kind "window"): the gap / duel / tidy families generalised. One request A (an Update, the
// opening of a Pull, the cancellation of a Pull) is parked at one of the yield points of pkg/resource and
// internal/minibus that it passes; a second request B of another client runs meanwhile (to completion, or until it is
// seen to wait for A: 250 ms); A is released; both finish. Whatever the window, a coherent register owes its clients
// the same END state: Get returns the value of the last store, every open stream whose subscription is known to exist
// has ended on (its projection of) that value, and the next Update appears on every one of them.
//
//   A = Update parked before its store (gau.afterRead / gau.beforeLock), B = Update: B is stored and announced first;
//       A is then either rejected (Aborted: B changed the value A had read; the register stays on B's value) or
//       stored on top of it. Both are judged as ordinary register writes, B first.
//   A = Update parked after its store, inside bus.Send (after the snapshot, before a listener, inside a listener's
//       send, inside collect), B = a Pull being opened / a Pull being cancelled.
//   A = a Pull being opened, parked before its listener is registered (value/coll.onUpdate.beforeListen,
//       bus.listen.beforeRegister), B = Update / another Pull being cancelled.
//   A = a Pull being cancelled, its listener parked in stop (before taking its lock; after closing its channel),
//       B = Update / a Pull being opened.
//
// Except for the first case nothing is asserted about what passes by on the streams in between (the acceptor's
// background mode, as in the gap family); the window where two Updates overlap AFTER a store is the duel family.

type windowCase struct {
	a      string
	points [][]string // alternatives; each a set of equivalent yield points (value / collection flavour)
	b      []string
}

var windowCases = []windowCase{
	{"update", [][]string{{"gau.afterRead"}, {"gau.beforeLock"}}, []string{"update"}},
	// B is TWO requests of two other clients, both complete while A is held before its store: a write that re-sends
	// the state the register is in (a heartbeat: value-equal, so A's re-validation passes and A is stored on top), then a
	// seeded Pull. Three parties: the stream is seeded with a value stored AFTER A entered its write and must still show A
	{"update", [][]string{{"gau.afterRead"}, {"gau.beforeLock"}}, []string{"resend+open"}},
	{"update", [][]string{{"bus.send.afterSnapshot"}, {"bus.send.beforeListener"}, {"listener.send.locked"}, {"bus.collect.scanned"}}, []string{"open", "cancel"}},
	{"open", [][]string{{"value.onUpdate.beforeListen", "coll.onUpdate.beforeListen"}, {"bus.listen.beforeRegister"}}, []string{"update", "cancel"}},
	{"cancel", [][]string{{"listener.stop.enter"}, {"listener.stop.closed"}}, []string{"update", "open"}},
}

// armYield installs a controller that parks the FIRST goroutine reaching one of the yield points until letGo is called
// (5 s at most). disarm makes the controller inert if nothing has parked yet.
func armYield(points ...string) (parked chan struct{}, letGo func(), disarm func()) {
	at := map[string]bool{}
	for _, p := range points {
		at[p] = true
	}
	var armed atomic.Bool
	armed.Store(true)
	parked = make(chan struct{})
	release := make(chan struct{})
	verifhook.Set(func(point string) {
		if !at[point] || !armed.CompareAndSwap(true, false) {
			return
		}
		close(parked)
		select {
		case <-release:
		case <-time.After(5 * time.Second):
		}
	})
	var once sync.Once
	return parked, func() { once.Do(func() { close(release) }) }, func() { armed.Store(false) }
}

type opened struct {
	st   *pullStream
	op   string
	mask *fieldmaskpb.FieldMask
	uo   bool
}

func runWindowSession(t triple, sid sessionID, mon *lib.Monitor) (lines, verdicts []string) {
	s := newSession(t, sid, mon, "window")
	defer s.cancelAll()
	defer verifhook.Set(nil)
	s.doGet(nil)
	if !s.failed {
		s.doPullWith(nil, false) // stream#0 stays open throughout
	}
	if !s.failed && sid.Seq%2 == 1 {
		s.doPull()
	}
	for k := 0; k < sid.Steps && !s.failed; k++ {
		s.step = k
		c := windowCases[(sid.Seq+k)%len(windowCases)]
		s.windowRound(c, c.points[s.r.Intn(len(c.points))], c.b[s.r.Intn(len(c.b))])
		verifhook.Set(nil)
		// the register goes on as one register: the next Update appears on every open stream
		if !s.failed {
			s.doUpdate()
		}
		if !s.failed {
			s.doGet(nil)
		}
		for s.openCount() > 3 && !s.failed {
			s.closeLast()
		}
	}
	if !s.failed {
		s.step = sid.Steps
		s.drain(true)
		s.doGet(nil)
	}
	mon.Eval(sid.Triple+"/window"+fmt.Sprint(sid.Seq), len(s.lines) > 6, nil)
	return s.lines, s.verdict
}

// closeLast cancels the most recently opened stream that is still open, stream#0 excepted.
func (s *session) closeLast() int {
	for i := len(s.streams) - 1; i > 0; i-- {
		if !s.streams[i].closed {
			s.closeStream(i)
			return i
		}
	}
	return -1
}

func (s *session) windowRound(c windowCase, points []string, b string) {
	t := s.t
	at := map[string]bool{}
	for _, p := range points {
		at[p] = true
	}
	label := c.a + "@" + points[0] + "/" + b
	var armed atomic.Bool
	armed.Store(true)
	parked, release := make(chan struct{}), make(chan struct{})
	verifhook.Set(func(point string) {
		if !at[point] || !armed.CompareAndSwap(true, false) {
			return
		}
		close(parked)
		select {
		case <-release:
		case <-time.After(5 * time.Second):
		}
	})
	released := false
	letGo := func() {
		if !released {
			released = true
			close(release)
		}
	}
	defer letGo()

	var (
		reqA, payloadA proto.Message
		opA            string
		doneA          = make(chan callRes, 1)
		openA          *opened
	)
	seededOnly := false
	open := func() *opened {
		mask, uo := s.randMask(t.resource, 50, true), s.r.Intn(4) == 0 && !seededOnly
		st, op, failure := s.openStream(mask, uo, nil)
		if st == nil {
			s.obs("openerr", s.violate("Pull/open-failed", "opening a Pull stream failed", "a stream", failure))
			return nil
		}
		return &opened{st, op, mask, uo}
	}
	// --- A
	isParked := false
	switch c.a {
	case "update":
		reqA, payloadA, opA = s.prepUpdate()
		go func() {
			out, pm := s.call("Update"+t.X, reqA)
			doneA <- callRes{out, pm}
		}()
		select {
		case <-parked:
			isParked = true
		case r := <-doneA:
			armed.Store(false)
			s.mon.Count("window-unreached:" + label)
			s.finishUpdate(payloadA, opA, r.out, r.pm)
			return
		case <-time.After(3 * time.Second):
			s.obs("updpanic", s.violate("Update/hung", "Update did not return within 3 s", "a response", "nothing"))
			return
		}
	case "open":
		if openA = open(); openA == nil {
			return
		}
		select {
		case <-parked:
			isParked = true
		case <-time.After(50 * time.Millisecond):
		}
	case "cancel":
		if s.openCount() < 2 {
			s.doPull()
			if s.failed {
				return
			}
		}
		s.closeLast()
		select {
		case <-parked:
			isParked = true
		case <-time.After(50 * time.Millisecond):
		}
	}
	if !isParked {
		armed.Store(false)
		s.mon.Count("window-unreached:" + label)
		if openA != nil {
			s.adoptStream(openA.st, openA.op, openA.mask, openA.uo)
		}
		return
	}
	// --- B, while A is parked
	var (
		reqB, payloadB proto.Message
		opB            string
		doneB          = make(chan callRes, 1)
		openB          *opened
		bWaited        bool
	)
	switch b {
	case "update":
		reqB, payloadB, opB = s.prepUpdate()
		go func() {
			out, pm := s.call("Update"+t.X, reqB)
			doneB <- callRes{out, pm}
		}()
	case "resend+open":
		resend := newMsg(t.resource).Interface()
		if s.cur != nil && s.r.Intn(3) != 0 {
			resend = proto.Clone(s.cur)
		}
		reqB, payloadB, opB = s.craftUpdate(resend, nil)
		go func() {
			out, pm := s.call("Update"+t.X, reqB)
			doneB <- callRes{out, pm}
		}()
	case "open":
		if openB = open(); openB == nil {
			return
		}
		for t0 := time.Now(); len(openB.st.ch) == 0 && time.Since(t0) < 30*time.Millisecond; {
			time.Sleep(200 * time.Microsecond)
		}
	case "cancel":
		if s.openCount() >= 2 {
			s.closeLast()
			time.Sleep(300 * time.Microsecond)
		}
	}
	var rA, rB callRes
	bUpdates := b == "update" || b == "resend+open"
	if bUpdates {
		select {
		case rB = <-doneB:
		case <-time.After(250 * time.Millisecond):
			bWaited = true // B waits for something A holds
		}
	}
	if b == "resend+open" && !bWaited {
		// the second request of B: a seeded Pull, opened once the re-sent state is stored; A stays held until its seed
		// has arrived (so the seed is the value stored by the write above, whatever A does afterwards)
		seededOnly = true
		if openB = open(); openB == nil {
			return
		}
		for t0 := time.Now(); len(openB.st.ch) == 0 && time.Since(t0) < time.Second; {
			time.Sleep(200 * time.Microsecond)
		}
	}
	letGo()
	if c.a == "update" {
		select {
		case rA = <-doneA:
		case <-time.After(3 * time.Second):
			s.obs("updpanic", s.violate("Update/hung", "Update did not return within 3 s of being released", "a response", "nothing"))
			return
		}
	}
	if bUpdates && bWaited {
		select {
		case rB = <-doneB:
		case <-time.After(3 * time.Second):
			s.obs("updpanic", s.violate("Update/hung", "Update did not return within 3 s", "a response", "nothing"))
			return
		}
	}
	verifhook.Set(nil)
	s.mon.Count("window-forced:" + label)
	note := fmt.Sprintf(" [window %s]", label)

	if c.a == "update" && bUpdates {
		// the stream B opened after its write (resend+open): an ordinary new seeded stream of the register as B's write
		// left it; the held Update, stored afterwards, is owed to it like to any other stream
		adoptB := func() {
			if openB != nil && !s.failed {
				s.mon.Count("window-three-parties:seeded-between-begin-and-store")
				s.adoptStream(openB.st, openB.op+note+" [opened after the write above, while the Update below was still held before its store]", openB.mask, openB.uo)
			}
		}
		// A had not stored anything when B ran: two register writes one after the other, B first (A first when B was
		// seen to wait for A: a model that holds a lock of its own around the write)
		type upd struct {
			payload proto.Message
			op      string
			r       callRes
		}
		first := upd{payloadB, opB + note + " [ran while the Update below was held before its store]", rB}
		second := upd{payloadA, opA + note + " [held before its store while the Update above ran]", rA}
		if bWaited {
			s.mon.Count("window-b-waited:" + label)
			first, second = upd{payloadA, opA + note + " [the other Update waited for it]", rA}, upd{payloadB, opB + note, rB}
		}
		_, ok1 := okResponse(first.r)
		_, ok2 := okResponse(second.r)
		switch {
		case first.r.pm == "" && !ok1:
			// the first one rejected: nothing stored, nothing announced (its rejected frame is not read back: the second
			// one may have stored since)
			err, _ := first.r.out[1].Interface().(error)
			s.trace = append(s.trace, stepDesc{s.step, first.op, "error: " + status.Code(err).String()})
			s.mon.Count("update-error:" + status.Code(err).String())
			s.obs("upderr", "ok")
			adoptB()
			if !s.failed {
				s.finishUpdate(second.payload, second.op, second.r.out, second.r.pm)
			}
		case ok1 && ok2:
			// both stored: both events are on their way by now, so both are expected before anything is read
			s.noDrain = true
			s.finishUpdate(first.payload, first.op, first.r.out, first.r.pm)
			adoptB()
			s.noDrain = false
			if !s.failed {
				s.finishUpdate(second.payload, second.op, second.r.out, second.r.pm)
			}
		default:
			s.finishUpdate(first.payload, first.op, first.r.out, first.r.pm)
			adoptB()
			if !s.failed {
				if err, _ := second.r.out[1].Interface().(error); second.r.pm == "" && err != nil {
					s.mon.Count("window-second-rejected:" + status.Code(err).String())
				}
				s.finishUpdate(second.payload, second.op, second.r.out, second.r.pm)
			}
		}
		return
	}
	if c.a != "update" && b != "update" {
		// no write in this round: a stream opened meanwhile is an ordinary new stream of the register as it is
		for _, o := range []*opened{openA, openB} {
			if o != nil && !s.failed {
				s.adoptStream(o.st, o.op+note, o.mask, o.uo)
			}
		}
		return
	}
	// --- exactly one Update among A and B: the END state is judged
	payload, opU, rU := payloadA, opA, rA
	if b == "update" {
		payload, opU, rU = payloadB, opB, rB
	}
	v, ok := okResponse(rU)
	if !ok {
		// panicked or rejected: an ordinary verdict; a stream opened meanwhile is an ordinary new stream
		s.finishUpdate(payload, opU+note, rU.out, rU.pm)
		for _, o := range []*opened{openA, openB} {
			if o != nil && !s.failed {
				s.adoptStream(o.st, o.op+note, o.mask, o.uo)
			}
		}
		return
	}
	for _, o := range []*opened{openA, openB} {
		if o == nil {
			continue
		}
		s.streams = append(s.streams, o.st)
		s.trace = append(s.trace, stepDesc{s.step, o.op + note, fmt.Sprintf("stream#%d", len(s.streams)-1)})
		uoi := 0
		if o.uo {
			uoi = 1
		}
		if !o.uo && s.cur != nil {
			s.fact(o.mask, s.cur)
			o.st.established = true // a seeded stream: its subscription is known to exist, it has to deliver
		}
		s.obs(fmt.Sprintf("open %d %d", s.maskID(o.mask), uoi), "ok")
	}
	s.trace = append(s.trace, stepDesc{s.step, opU + note, txt(v)})
	s.mon.Count("update-ok")
	prev := s.cur
	s.cur = proto.Clone(v)
	s.noteWrite(payload, prev, s.cur)
	for _, st := range s.streams {
		st.queue = nil
	}
	s.obs(fmt.Sprintf("updokbg %d %d", s.id(v), s.id(v)), "ok")
	settled := func() bool {
		for _, st := range s.streams {
			if !st.closed && st.established && (st.lastSeen == nil || !proto.Equal(st.lastSeen, project(st.mask, s.cur))) {
				return false
			}
		}
		return true
	}
	for end := time.Now().Add(time.Second); !s.failed; {
		for i, st := range s.streams {
			if !st.closed && !s.failed {
				s.takeAll(i, 3*time.Millisecond)
			}
		}
		if settled() || time.Now().After(end) {
			break
		}
	}
	if s.failed {
		return
	}
	verdict := "ok"
	for i, st := range s.streams {
		if st.closed || !st.established {
			continue
		}
		s.fact(st.mask, s.cur)
		if want := project(st.mask, s.cur); verdict == "ok" && (st.lastSeen == nil || !proto.Equal(st.lastSeen, want)) {
			verdict = s.violate("Pull/stream-does-not-end-on-register",
				"a request overlapped another one inside a window of the write / subscribe / cancel path ("+label+"); both have returned, but an open Pull stream has not ended on the register's value",
				fmt.Sprintf("stream#%d ends on %s", i, txt(want)), fmt.Sprintf("stream#%d ended on %s", i, txt(st.lastSeen)))
		}
	}
	s.obs("quiesce", verdict)
	if !s.failed {
		s.doGet(nil)
	}
}


