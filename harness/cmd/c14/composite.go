package main

import (
	"fmt"
	"reflect"
	"sort"
	"strings"
	"time"

	"google.golang.org/protobuf/proto"
	"google.golang.org/protobuf/reflect/protoreflect"
	"google.golang.org/protobuf/types/known/fieldmaskpb"

	"github.com/smart-core-os/sc-golang/verifharness/cmd/c07/pbgen"
	"github.com/smart-core-os/sc-golang/verifharness/lib"
)

// Composed registers (Lean: ScVerif/C14/Composite.lean, run as a simulator by the driver's `c…` ops).
//
// A register is COMPOSED when its resource lists items that the server stores one by one under a key taken from
// the item (openclosepb: OpenClosePositions.states, one OpenClosePosition per direction). The shape is discovered,
// not listed: the resource has exactly one top-level repeated message field, and one enum field of its element
// is the key if, on a fresh server, an Update carrying two items that differ in that field only adds TWO items.
//
// A composite session drives such a register with Updates of 1-3 items under distinct keys (and Updates with an
// update mask the server rejects), seeded and updates-only streams with read masks at and below the item list,
// masked Gets and cancellations. The model predicts, per request, the response's listing and for every open
// stream the exact burst of messages (one per item write, equal neighbours suppressed; an updates-only stream
// composes from ALL items, also those written before it was opened); an independent fold written here predicts
// the same. Both are compared with what the real stack delivered.

type compShape struct {
	list protoreflect.FieldDescriptor // the item list in the resource
	key  protoreflect.FieldDescriptor // the enum field of the item that is its key
}

var compShapeCache = map[string]*compShape{}

// compositeShape discovers whether t's register is composed (nil if not).
func compositeShape(t triple) *compShape {
	if sh, ok := compShapeCache[t.key()]; ok {
		return sh
	}
	var found *compShape
	defer func() { compShapeCache[t.key()] = found }()
	if t.update == nil || t.keyField != "" {
		return nil
	}
	var list protoreflect.FieldDescriptor
	fds := t.resource.Fields()
	for i := 0; i < fds.Len(); i++ {
		if fd := fds.Get(i); fd.IsList() && fd.Message() != nil {
			if list != nil {
				return nil
			}
			list = fd
		}
	}
	if list == nil {
		return nil
	}
	efs := list.Message().Fields()
	for i := 0; i < efs.Len(); i++ {
		e := efs.Get(i)
		if e.Kind() != protoreflect.EnumKind || e.IsList() || e.Enum().Values().Len() < 3 {
			continue
		}
		// behavioural probe on a fresh server: two items differing in e only
		cl, _ := t.Row.New()
		s := &session{t: t, client: reflect.ValueOf(cl)}
		get := func() (proto.Message, bool) {
			req := newMsg(t.get.Input())
			setStr(req, "name", devName)
			out, pm := s.call("Get"+t.X, req.Interface())
			if pm != "" || out[1].Interface() != nil {
				return nil, false
			}
			return out[0].Interface().(proto.Message), true
		}
		before, ok := get()
		if !ok {
			continue
		}
		have := map[protoreflect.EnumNumber]bool{}
		bl := before.ProtoReflect().Get(list).List()
		for j := 0; j < bl.Len(); j++ {
			have[bl.Get(j).Message().Get(e).Enum()] = true
		}
		var fresh []protoreflect.EnumNumber
		for j := 0; j < e.Enum().Values().Len() && len(fresh) < 2; j++ {
			if n := e.Enum().Values().Get(j).Number(); !have[n] && n != 0 {
				fresh = append(fresh, n)
			}
		}
		if len(fresh) < 2 {
			continue
		}
		payload := newMsg(t.resource)
		l := payload.Mutable(list).List()
		for _, n := range fresh {
			it := l.NewElement()
			it.Message().Set(e, protoreflect.ValueOfEnum(n))
			l.Append(it)
		}
		req := newMsg(t.update.Input())
		setStr(req, "name", devName)
		req.Set(payloadField(t.update.Input(), t.resource), protoreflect.ValueOfMessage(payload))
		out, pm := s.call("Update"+t.X, req.Interface())
		if pm != "" || out[1].Interface() != nil {
			continue
		}
		if out[0].Interface().(proto.Message).ProtoReflect().Get(list).List().Len() == bl.Len()+2 {
			found = &compShape{list: list, key: e}
			return found
		}
	}
	return nil
}

type cstream struct {
	ps     *pullStream
	mask   *fieldmaskpb.FieldMask
	maskID int
	uo     bool
	last   proto.Message // the last (projected, list-only) value the fold expects to have been sent
	closed bool
}

type compSession struct {
	*session
	sh      *compShape
	items   map[int]proto.Message // key -> stored item (the fold's collection)
	streams []*cstream
	factsOK map[string]bool
}

func (c *compSession) keyOf(item protoreflect.Message) int { return int(item.Get(c.sh.key).Enum()) }

// compose lists the items in key order (the preset a server may derive from them is left out: see listOnly).
func (c *compSession) compose(items map[int]proto.Message) proto.Message {
	var keys []int
	for k := range items {
		keys = append(keys, k)
	}
	sort.Ints(keys)
	m := newMsg(c.t.resource)
	if len(keys) > 0 {
		l := m.Mutable(c.sh.list).List()
		for _, k := range keys {
			l.Append(protoreflect.ValueOfMessage(proto.Clone(items[k]).ProtoReflect()))
		}
	}
	return m.Interface()
}

// listOnly keeps the item list of a (projected) resource message: everything else (openclosepb: the preset, a
// function of the list) is outside this family's comparison.
func (c *compSession) listOnly(m proto.Message) proto.Message {
	out := proto.Clone(m)
	r := out.ProtoReflect()
	r.Range(func(fd protoreflect.FieldDescriptor, _ protoreflect.Value) bool {
		if fd.Number() != c.sh.list.Number() {
			r.Clear(fd)
		}
		return true
	})
	return out
}

// canon writes a (projected) resource message as the model does: the interned items in order, "e" when there are none.
func (c *compSession) canon(m proto.Message) string {
	l := m.ProtoReflect().Get(c.sh.list).List()
	if l.Len() == 0 {
		return "e"
	}
	ids := make([]string, l.Len())
	for i := 0; i < l.Len(); i++ {
		ids[i] = fmt.Sprint(c.id(l.Get(i).Message().Interface()))
	}
	return strings.Join(ids, ".")
}

func (c *compSession) burstStr(ms []proto.Message) string {
	if len(ms) == 0 {
		return "-"
	}
	parts := make([]string, len(ms))
	for i, m := range ms {
		parts[i] = c.canon(m)
	}
	return strings.Join(parts, "|")
}

// itemFact tells the model what item `it` looks like through mask m.
func (c *compSession) itemFact(m *fieldmaskpb.FieldMask, it proto.Message) {
	if m == nil {
		return
	}
	k := fmt.Sprint(c.maskID(m), "/", c.id(it))
	if c.factsOK[k] {
		return
	}
	c.factsOK[k] = true
	w := newMsg(c.t.resource)
	w.Mutable(c.sh.list).List().Append(protoreflect.ValueOfMessage(proto.Clone(it).ProtoReflect()))
	p := project(m, w.Interface()).ProtoReflect().Get(c.sh.list).List()
	if p.Len() != 1 {
		return // a mask that drops the list is never used in this family
	}
	c.obs(fmt.Sprintf("cfact %d %d %d", c.maskID(m), c.id(it), c.id(p.Get(0).Message().Interface())), "ok")
}

func (c *compSession) factsFor(m *fieldmaskpb.FieldMask, items map[int]proto.Message) {
	var keys []int
	for k := range items {
		keys = append(keys, k)
	}
	sort.Ints(keys)
	for _, k := range keys {
		c.itemFact(m, items[k])
	}
}

// masks of this family: nil, the list, paths below the list (all keep the list, so that messages stay comparable item by item)
func (c *compSession) randMaskC() *fieldmaskpb.FieldMask {
	ln := string(c.sh.list.Name())
	switch c.r.Intn(5) {
	case 0, 1:
		return nil
	case 2:
		return &fieldmaskpb.FieldMask{Paths: []string{ln}}
	}
	efs := c.sh.list.Message().Fields()
	n := 1 + c.r.Intn(2)
	seen := map[string]bool{}
	var ps []string
	for i := 0; i < n; i++ {
		p := ln + "." + string(efs.Get(c.r.Intn(efs.Len())).Name())
		if !seen[p] {
			seen[p] = true
			ps = append(ps, p)
		}
	}
	sort.Strings(ps)
	return &fieldmaskpb.FieldMask{Paths: ps}
}

func (c *compSession) newItem(key int) proto.Message {
	c.g.Density = 0.6
	it := c.g.Message(newMsg(c.sh.list.Message()).Type())
	stripTweens(it.ProtoReflect())
	it.ProtoReflect().Set(c.sh.key, protoreflect.ValueOfEnum(protoreflect.EnumNumber(key)))
	return it
}

func (c *compSession) bad(class, what, expected, observed string) {
	c.violate(class, what, expected, observed)
}

// recvN reads n messages from a stream (1 s each), then whatever else shows up within a short grace period.
func (c *compSession) recvN(st *cstream, n int) []proto.Message {
	var got []proto.Message
	for len(got) < n+3 {
		timeout := 300 * time.Microsecond
		if len(got) < n {
			timeout = time.Second
		}
		select {
		case m, ok := <-st.ps.ch:
			if !ok || m.err != nil {
				st.closed = true
				return got
			}
			if m.name != devName {
				c.bad("Pull/wrong-name", "a change on a Pull stream does not carry the name given in the Pull request", devName, m.name)
			}
			got = append(got, c.listOnly(m.val))
			continue
		case <-time.After(timeout):
		}
		break
	}
	return got
}

// fold: what a stream is expected to send when the collection passes through `composites`
func (c *compSession) fold(st *cstream, composites []proto.Message) []proto.Message {
	var out []proto.Message
	for _, comp := range composites {
		p := c.listOnly(project(st.mask, comp))
		if st.last != nil && proto.Equal(st.last, p) {
			continue
		}
		st.last = p
		out = append(out, p)
	}
	return out
}

type updResult struct {
	facts    []string // cfact lines to send before the cupd line
	line     string   // the cupd line
	head     string   // "resp=<listing>" or "err"
	parts    []string // "s<j>=<burst>" per stream that delivered something (without the stream being synchronised)
	ok       bool
	after    proto.Message // the composition after the update
}

// update makes one Update with the given items (in this order) and checks response and bursts of every open
// stream except `skip` (an updates-only stream that is still being synchronised).
func (c *compSession) update(its []proto.Message, mask *fieldmaskpb.FieldMask, skip *cstream) updResult {
	payload := newMsg(c.t.resource)
	l := payload.Mutable(c.sh.list).List()
	for _, it := range its {
		l.Append(protoreflect.ValueOfMessage(proto.Clone(it).ProtoReflect()))
	}
	req := newMsg(c.t.update.Input())
	setStr(req, "name", devName)
	req.Set(payloadField(c.t.update.Input(), c.t.resource), protoreflect.ValueOfMessage(payload))
	setMask(req, "update_mask", mask)
	op := fmt.Sprintf("Update%s(%s)", c.t.X, txt(req.Interface()))
	reportProgress(progress{Sid: c.sid, Step: c.step, Op: op, Trace: tailTrace(c.trace, 12)})
	out, pm := c.call("Update"+c.t.X, req.Interface())
	var res updResult
	if pm != "" {
		c.trace = append(c.trace, stepDesc{c.step, op, "panic: " + pm})
		c.bad("Update/panic", "Update panicked instead of returning a value or a status", "a response or an error status", "panic: "+pm)
		return res
	}
	var pairs []string
	composites := []proto.Message{}
	if err, _ := out[1].Interface().(error); err != nil {
		c.trace = append(c.trace, stepDesc{c.step, op, "error: " + err.Error()})
		c.mon.Count("composite-update-rejected")
		if _, valid := c.itemFields(mask); valid {
			c.bad("Update/valid-update-mask-rejected", "an Update was rejected although its update mask (none, the item list, or fields of the items) names only fields that exist: the request's mask is not translated into the items' mask",
				"a response", err.Error())
		}
		for _, it := range its {
			pairs = append(pairs, fmt.Sprintf("%d:%d", c.keyOf(it.ProtoReflect()), c.id(it)))
		}
		res.line = "cupd false " + strings.Join(pairs, ",")
		res.head = "err"
	} else {
		resp := out[0].Interface().(proto.Message)
		c.trace = append(c.trace, stepDesc{c.step, op, txt(resp)})
		c.mon.Count(fmt.Sprintf("composite-update-ok:%d-items", len(its)))
		// the items the writes produced, read off the response (listed in key order)
		next := map[int]proto.Message{}
		for k, v := range c.items {
			next[k] = v
		}
		for _, it := range its {
			next[c.keyOf(it.ProtoReflect())] = nil
		}
		var keys []int
		for k := range next {
			keys = append(keys, k)
		}
		sort.Ints(keys)
		rl := resp.ProtoReflect().Get(c.sh.list).List()
		if rl.Len() != len(keys) {
			c.bad("Composite/response", "the Update response does not list one item per key the collection holds", fmt.Sprint(len(keys), " items"), txt(resp))
			return res
		}
		fields, _ := c.itemFields(mask)
		for i, k := range keys {
			got := rl.Get(i).Message().Interface()
			if next[k] == nil {
				next[k] = proto.Clone(got)
				for _, it := range its {
					if c.keyOf(it.ProtoReflect()) != k {
						continue
					}
					if want := c.maskedItem(c.items[k], it, fields); !proto.Equal(want, got) {
						c.bad("Update/update-mask-not-applied", "a successful Update did not write the item as its update mask says: without item fields in the mask the item is the payload's, else exactly the masked fields are taken from the payload and every other field keeps its value",
							txt(want), txt(got))
						return res
					}
				}
			} else if !proto.Equal(next[k], got) {
				c.bad("Composite/response", "an Update changed an item it did not write", txt(next[k]), txt(got))
				return res
			}
		}
		cur := map[int]proto.Message{}
		for k, v := range c.items {
			cur[k] = v
		}
		for _, it := range its {
			k := c.keyOf(it.ProtoReflect())
			cur[k] = next[k]
			composites = append(composites, c.compose(cur))
			pairs = append(pairs, fmt.Sprintf("%d:%d", k, c.id(next[k])))
			sts := c.streams
			if skip != nil {
				sts = append(append([]*cstream{}, sts...), skip)
			}
			for _, st := range sts {
				if !st.closed {
					mark := len(c.lines)
					c.itemFact(st.mask, next[k])
					if len(c.lines) > mark {
						res.facts = append(res.facts, c.lines[mark:]...)
						c.lines, c.verdict = c.lines[:mark], c.verdict[:mark]
					}
				}
			}
		}
		c.items = cur
		res.ok = true
		res.line = "cupd true " + strings.Join(pairs, ",")
		res.head = "resp=" + c.canon(resp)
		if want := c.compose(c.items); !proto.Equal(c.listOnly(resp), want) {
			c.bad("Composite/response", "the Update response is not the composition of the collection after the writes", txt(want), txt(resp))
		}
	}
	res.after = c.compose(c.items)
	// the bursts
	for j, st := range c.streams {
		if st.closed || st == skip {
			continue
		}
		want := c.fold(st, composites)
		got := c.recvN(st, len(want))
		for _, g := range got {
			c.trace = append(c.trace, stepDesc{c.step, fmt.Sprintf("stream#%d recv", j), txt(g)})
		}
		if len(got) > 0 {
			res.parts = append(res.parts, fmt.Sprintf("s%d=%s", j, c.burstStr(got)))
		}
		if c.burstStr(got) != c.burstStr(want) || !equalAll(got, want) {
			c.bad("Composite/stream-burst", "a Pull stream of a composed register did not deliver exactly the compositions the Update passed through (one per item write, equal neighbours suppressed, ending on the response)",
				c.burstStr(want)+" "+txtAll(want), c.burstStr(got)+" "+txtAll(got))
		}
	}
	return res
}

func equalAll(a, b []proto.Message) bool {
	if len(a) != len(b) {
		return false
	}
	for i := range a {
		if !proto.Equal(a[i], b[i]) {
			return false
		}
	}
	return true
}

func txtAll(ms []proto.Message) string {
	var p []string
	for _, m := range ms {
		p = append(p, txt(m))
	}
	return "[" + strings.Join(p, " ") + "]"
}

// emit records an Update: the facts it needs, its line for the model and what the stack delivered, written as the
// model writes its prediction (extra: the part of a stream that was being synchronised).
func (c *compSession) emit(r updResult, extra string) {
	for _, f := range r.facts {
		c.obs(f, "ok")
	}
	if r.line == "" {
		return
	}
	parts := r.parts
	if extra != "" {
		parts = append(append([]string{}, parts...), extra)
	}
	if len(parts) == 0 {
		parts = []string{"quiet"}
	}
	c.obs(r.line, r.head+" "+strings.Join(parts, " "))
}

// randomUpdate: 1-3 items under distinct keys, now and then with an update mask below the list
func (c *compSession) randomUpdate(skip *cstream) updResult {
	vals := c.sh.key.Enum().Values()
	n := []int{1, 1, 1, 2, 2, 3}[c.r.Intn(6)]
	seen := map[int]bool{}
	var its []proto.Message
	for len(its) < n {
		k := int(vals.Get(c.r.Intn(vals.Len())).Number())
		if seen[k] {
			continue
		}
		seen[k] = true
		its = append(its, c.newItem(k))
	}
	return c.update(its, c.randUpdateMask(), skip)
}

// randUpdateMask: none (1/2), the item list itself, one or two fields of the items (paths below the list), and now
// and then a path below the list that does not exist (must be rejected, changes nothing)
func (c *compSession) randUpdateMask() *fieldmaskpb.FieldMask {
	ln := string(c.sh.list.Name())
	efs := c.sh.list.Message().Fields()
	switch x := c.r.Intn(20); {
	case x < 10:
		return nil
	case x < 13:
		return &fieldmaskpb.FieldMask{Paths: []string{ln}}
	case x < 19:
		n := 1 + c.r.Intn(2)
		seen := map[string]bool{}
		var ps []string
		for i := 0; i < n; i++ {
			p := ln + "." + string(efs.Get(c.r.Intn(efs.Len())).Name())
			if !seen[p] {
				seen[p] = true
				ps = append(ps, p)
			}
		}
		sort.Strings(ps)
		return &fieldmaskpb.FieldMask{Paths: ps}
	}
	return &fieldmaskpb.FieldMask{Paths: []string{ln + ".no_such_field"}}
}

// itemFields is what an update mask means for ONE item (this family's own reading of the mask, independent of the
// server's): the paths below the item list with the list's name stripped; the list itself, or no mask, selects whole
// items (nil). ok=false: the mask names something that is not a field of the items.
func (c *compSession) itemFields(mask *fieldmaskpb.FieldMask) (fields []protoreflect.FieldDescriptor, ok bool) {
	if mask == nil {
		return nil, true
	}
	ln := string(c.sh.list.Name())
	for _, p := range mask.Paths {
		if p == ln {
			continue
		}
		if !strings.HasPrefix(p, ln+".") {
			return nil, false
		}
		fd := c.sh.list.Message().Fields().ByName(protoreflect.Name(strings.TrimPrefix(p, ln+".")))
		if fd == nil {
			return nil, false
		}
		fields = append(fields, fd)
	}
	return fields, true
}

// maskedItem: the item a write of `payload` over `old` (nil: no item yet) has to produce: the whole payload item without
// item fields in the mask, else the old item with exactly the masked fields taken from the payload (cleared when it lacks them).
func (c *compSession) maskedItem(old, payload proto.Message, fields []protoreflect.FieldDescriptor) proto.Message {
	if fields == nil {
		return proto.Clone(payload)
	}
	var out proto.Message
	if old != nil {
		out = proto.Clone(old)
	} else {
		out = newMsg(c.sh.list.Message()).Interface()
	}
	o, pr := out.ProtoReflect(), payload.ProtoReflect()
	for _, fd := range fields {
		if pr.Has(fd) {
			o.Set(fd, pr.Get(fd))
		} else {
			o.Clear(fd)
		}
	}
	return out
}

func (c *compSession) open() {
	mask, uo := c.randMaskC(), c.r.Intn(2) == 0
	ps, op, failure := c.openStream(mask, uo, nil)
	if ps == nil {
		c.bad("Pull/open-failed", "opening a Pull stream failed", "a stream", failure)
		return
	}
	st := &cstream{ps: ps, mask: mask, maskID: c.maskID(mask), uo: uo}
	c.session.streams = append(c.session.streams, ps) // cancelled at the end of the session
	idx := len(c.streams)
	c.trace = append(c.trace, stepDesc{c.step, op, fmt.Sprintf("stream#%d", idx)})
	c.factsFor(mask, c.items)
	uos := "false"
	if uo {
		uos = "true"
	}
	openLine := fmt.Sprintf("copen %d %s", c.maskID(mask), uos)
	if !uo {
		c.streams = append(c.streams, st)
		want := c.fold(st, []proto.Message{c.compose(c.items)})
		got := c.recvN(st, 1)
		obs := "quiet"
		if len(got) > 0 {
			obs = fmt.Sprintf("s%d=%s", idx, c.burstStr(got))
		}
		c.obs(openLine, obs)
		if !equalAll(got, want) {
			c.bad("Composite/seed", "a new Pull without updates_only did not start with the (projected) composition of the collection", txtAll(want), txtAll(got))
		}
		return
	}
	// updates_only: the subscription exists once the stream delivers; single-item Updates (each changing what the
	// stream sees) are made until a message shows up; the stream counts as opened just before the Update whose
	// value that message carries
	var rs []updResult
	var seen []proto.Message // the projected compositions after each of those Updates
	synced := -1
	var first proto.Message
	for try := 0; try < 100 && synced < 0 && !c.failed; try++ {
		its := c.changingItem(st)
		if its == nil {
			break
		}
		r := c.update(its, nil, st)
		if !r.ok {
			break
		}
		rs = append(rs, r)
		seen = append(seen, c.listOnly(project(mask, r.after)))
		select {
		case m, ok := <-ps.ch:
			if !ok || m.err != nil {
				c.bad("Pull/stream-ended", "a Pull stream ended although it was not cancelled", "open stream", fmt.Sprint(m.err))
				return
			}
			first = c.listOnly(m.val)
			for j := len(seen) - 1; j >= 0; j-- {
				if proto.Equal(seen[j], first) {
					synced = j
					break
				}
			}
			if synced < 0 {
				c.streams = append(c.streams, st)
				for _, r := range rs {
					c.emit(r, "")
				}
				c.obs(openLine, "quiet")
				c.bad("Composite/updates-only-first-message", "the first message of an updates-only stream of a composed register is not the (projected) composition of the WHOLE collection after one of the Updates made since it was opened",
					txtAll(seen), txt(first))
				return
			}
		case <-time.After(5 * time.Millisecond):
		}
	}
	if c.failed {
		return
	}
	c.streams = append(c.streams, st)
	if synced < 0 {
		for _, r := range rs {
			c.emit(r, "")
		}
		if len(rs) >= 100 {
			c.obs(openLine, "quiet")
			c.bad("Composite/updates-only-stream-silent", "an updates-only stream delivered nothing although 100 value-changing Updates were made after it was opened", "a message", "nothing")
			return
		}
		// nothing that this stream could see changing: opened, never synchronised; closed at once
		c.obs(openLine, "quiet")
		st.closed = true
		ps.cancel()
		c.obs(fmt.Sprintf("cclose %d", idx), "ok")
		return
	}
	// the messages of the Updates after the one that synchronised must follow
	got := []proto.Message{first}
	if more := len(seen) - 1 - synced; more > 0 {
		got = append(got, c.recvN(st, more)...)
	}
	for i, r := range rs {
		if i == synced {
			c.obs(openLine, "quiet")
		}
		extra := ""
		if i >= synced {
			k := i - synced
			if k < len(got) {
				extra = fmt.Sprintf("s%d=%s", idx, c.canon(got[k]))
				c.trace = append(c.trace, stepDesc{c.step, fmt.Sprintf("stream#%d recv", idx), txt(got[k])})
			}
			if k >= len(got) || !proto.Equal(got[k], seen[i]) {
				c.emit(r, extra)
				obs := "nothing"
				if k < len(got) {
					obs = txt(got[k])
				}
				c.bad("Composite/stream-burst", "an updates-only stream of a composed register did not deliver the (projected) composition of the whole collection after an Update", txt(seen[i]), obs)
				return
			}
		}
		c.emit(r, extra)
	}
	st.last = seen[len(seen)-1]
	c.mon.Count(fmt.Sprintf("composite-uo-synced-after:%d", synced))
}

// changingItem: one item whose write changes what the stream sees (nil if 20 draws find none)
func (c *compSession) changingItem(st *cstream) []proto.Message {
	vals := c.sh.key.Enum().Values()
	before := c.listOnly(project(st.mask, c.compose(c.items)))
	for i := 0; i < 20; i++ {
		k := int(vals.Get(c.r.Intn(vals.Len())).Number())
		it := c.newItem(k)
		next := map[int]proto.Message{}
		for kk, v := range c.items {
			next[kk] = v
		}
		next[k] = it
		if !proto.Equal(before, c.listOnly(project(st.mask, c.compose(next)))) {
			return []proto.Message{it}
		}
	}
	return nil
}

func (c *compSession) get(mask *fieldmaskpb.FieldMask) {
	req := newMsg(c.t.get.Input())
	setStr(req, "name", devName)
	setMask(req, "read_mask", mask)
	op := fmt.Sprintf("Get%s(read_mask=%v)", c.t.X, paths(mask))
	out, pm := c.call("Get"+c.t.X, req.Interface())
	if pm != "" || out[1].Interface() != nil {
		c.bad("Get/error", "Get failed", "a response", pm+fmt.Sprint(out))
		return
	}
	got := out[0].Interface().(proto.Message)
	c.trace = append(c.trace, stepDesc{c.step, op, txt(got)})
	c.factsFor(mask, c.items)
	c.obs(fmt.Sprintf("cget %d", c.maskID(mask)), c.canon(got))
	if want := c.listOnly(project(mask, c.compose(c.items))); !proto.Equal(c.listOnly(got), want) {
		class := "Get/differs-from-register"
		if mask != nil {
			class = "Get/masked-get-not-projection"
		}
		c.bad(class, "a Get of a composed register is not the (projected) composition of the collection", txt(want), txt(got))
	}
}

func runCompositeSession(t triple, sid sessionID, mon *lib.Monitor) (lines, verdicts []string) {
	sh := compositeShape(t)
	if sh == nil {
		return nil, nil
	}
	r := seqRand(sid.Seed, sid.Triple+"/composite", sid.Seq)
	s := &session{t: t, r: r, g: pbgen.New(r), ids: map[string]int{}, maskIDs: map[string]int{}, mon: mon, sid: sid}
	s.g.MaxDepth = 2
	cl, _ := t.Row.New()
	s.client = reflect.ValueOf(cl)
	c := &compSession{session: s, sh: sh, items: map[int]proto.Message{}, factsOK: map[string]bool{}}
	s.input = func(n int) any {
		return map[string]any{"kind": "composite", "triple": sid.Triple, "seed": sid.Seed, "seq": sid.Seq, "steps": n, "trace": tailTrace(s.trace, 16)}
	}
	defer func() {
		for _, st := range s.streams {
			st.cancel()
		}
	}()
	// the initial collection
	s.step = -1
	req := newMsg(t.get.Input())
	setStr(req, "name", devName)
	out, pm := s.call("Get"+t.X, req.Interface())
	if pm != "" || out[1].Interface() != nil {
		return nil, nil
	}
	il := out[0].Interface().(proto.Message).ProtoReflect().Get(sh.list).List()
	var init []string
	for i := 0; i < il.Len(); i++ {
		it := proto.Clone(il.Get(i).Message().Interface())
		c.items[c.keyOf(it.ProtoReflect())] = it
		init = append(init, fmt.Sprintf("%d:%d", c.keyOf(it.ProtoReflect()), c.id(it)))
	}
	if len(init) == 0 {
		init = []string{"-"}
	}
	s.lines, s.verdict = []string{"cinit " + strings.Join(init, ",")}, []string{"ok"}
	for i := 0; i < sid.Steps && !s.failed; i++ {
		s.step = i
		reportProgress(progress{Sid: sid, Step: i, Op: "next", Trace: tailTrace(s.trace, 12)})
		live := 0
		for _, st := range c.streams {
			if !st.closed {
				live++
			}
		}
		switch x := s.r.Intn(20); {
		case x < 10:
			c.emit(c.randomUpdate(nil), "")
		case x < 13:
			c.get(c.randMaskC())
		case x < 18:
			if live < 3 {
				c.open()
			}
		default:
			for j, st := range c.streams {
				if !st.closed {
					st.closed = true
					st.ps.cancel()
					s.trace = append(s.trace, stepDesc{s.step, fmt.Sprintf("cancel stream#%d", j), ""})
					s.obs(fmt.Sprintf("cclose %d", j), "ok")
					break
				}
			}
		}
	}
	if !s.failed {
		s.step = sid.Steps
		c.get(nil)
	}
	mon.Eval(sid.Triple+"/composite"+fmt.Sprint(sid.Seq), len(s.lines) > 6, nil)
	return s.lines, s.verdict
}
