package main

import (
	"context"
	"fmt"
	"strings"
	"sync"
	"time"

	"google.golang.org/grpc/status"

	"github.com/smart-core-os/sc-api/go/traits"
	"github.com/smart-core-os/sc-golang/pkg/resource"
	"github.com/smart-core-os/sc-golang/pkg/trait/vendingpb"
	"github.com/smart-core-os/sc-golang/verifharness/lib"
)

// Tie K2 `spelled-ids`: a keyed trait server whose collection has an id interceptor (resource.WithIDInterceptor)
// against the Lean model of Spell.lean run as a SIMULATOR (driver op `spell`): vendingpb GetStock / UpdateStock /
// PullStock (and the model's CreateStock / DeleteStock) through WrapApi(router(WrapApi(server))), every request
// spelling the id of its item its own way. Three interceptors: lower (strings.ToLower), trim (strings.TrimSpace; a
// blank is written `_` in the tokens), lowx (lower case plus a trailing x: not idempotent - the code applies the
// interceptor exactly once per id). A value is the token <consumable>/<remaining.amount>; every write carries a fresh
// amount. Every session ends with a marker Update of every item under one spelling: a stream has delivered everything
// it is owed once it has delivered the marker (or has ended), so surplus and missing messages are both exact.
//
// Monitor (independent of the model): a fold over a plain map keyed by the interceptor's image of the id predicts every
// response and, per stream, exactly the values it carries and whether it has ended.

const spellTieRule = "vendingpb stock behind WrapApi(router(WrapApi(server))) with resource.WithIDInterceptor in {ToLower, TrimSpace, lower+x (not idempotent)}, two initial records (one given under an id outside the interceptor's image): " +
	"every session of up to 2 requests from {Get, Update, Create, Delete, Pull} x 5 spellings (of two existing items, one absent one), and every session of 3 requests (quick tier: those that start with a Pull; a Pull always names an item that exists: its seed tells that the subscription is in place), " +
	"each followed by a marker Update per item; responses and per-stream messages / end of stream against the Lean spelled-server model (driver op spell); exhaustive; " +
	"non-trivial = a session in which a write names an item by another spelling than an open stream of that item or than the stored id; distinct = distinct session"

const spellMonRule = "a fold over a plain map keyed by the interceptor's image of the id: Get / Update / Create / Delete answer as one register per image whatever the spelling; a stream opened under one spelling carries the seed and then exactly " +
	"the values of the successful writes that name the item by any spelling with the same image, under the Pull request's name, and ends when the item is deleted under any spelling"

type spellFamily struct {
	name      string
	icpt      func(string) string
	init      [][2]string // id as configured, amount
	spellings []string
	markers   []string
}

func blanks(s string) string   { return strings.ReplaceAll(s, "_", " ") }
func unblanks(s string) string { return strings.ReplaceAll(strings.ReplaceAll(s, " ", "_"), "\t", "_") }

var spellFamilies = []spellFamily{
	{"lower", strings.ToLower, [][2]string{{"cola", "10"}, {"Tea", "0"}}, []string{"cola", "CoLa", "TEA", "zz", "ZZ"}, []string{"cola", "tea", "zz"}},
	{"trim", strings.TrimSpace, [][2]string{{"cola", "10"}, {"_tea", "0"}}, []string{"cola", "_cola", "tea__", "zz", "_zz_"}, []string{"cola", "tea", "zz"}},
	{"lowx", func(s string) string { return strings.ToLower(s) + "x" }, [][2]string{{"cola", "10"}, {"Tea", "0"}}, []string{"cola", "COLA", "colax", "tea", "zz"}, []string{"cola", "colax", "tea", "zz"}},
}

func spellFamilyOf(name string) *spellFamily {
	for i := range spellFamilies {
		if spellFamilies[i].name == name {
			return &spellFamilies[i]
		}
	}
	return nil
}

func (f *spellFamily) initToken() string {
	var parts []string
	for _, kv := range f.init {
		parts = append(parts, kv[0]+"="+kv[0]+"/"+kv[1])
	}
	return strings.Join(parts, ",")
}

// spellSessions: the op tokens of every session of the family (markers appended).
func spellSessions(f *spellFamily, anyFirst bool) [][]string {
	var alphabet []string
	for _, sp := range f.spellings {
		alphabet = append(alphabet, "g:"+sp, "u:"+sp, "c:"+sp, "d:"+sp, "p:"+sp)
	}
	var out [][]string
	var rec func(cur []string, n int)
	rec = func(cur []string, n int) {
		if len(cur) == n {
			out = append(out, append([]string{}, cur...))
			return
		}
		for _, a := range alphabet {
			if n == 3 && len(cur) == 0 && a[0] != 'p' && !anyFirst {
				continue
			}
			rec(append(cur, a), n)
		}
	}
	rec(nil, 1)
	rec(nil, 2)
	rec(nil, 3)
	// a Pull names an item that exists when it is opened: its seed is what tells the reader that the subscription is in
	// place (the Pull RPC returns before the handler has subscribed); a stream without a seed may miss the next event
	kept := out[:0]
	for _, ops := range out {
		ok := true
		for k, op := range ops {
			if op[0] == 'p' {
				var pre []string
				for j, o := range ops[:k] {
					if o[0] == 'u' || o[0] == 'c' {
						o = fmt.Sprintf("%s:x/%d", o, j)
					}
					pre = append(pre, o)
				}
				resps, _ := spellOracle(f, append(pre, "g:"+op[2:]))
				ok = ok && strings.HasPrefix(resps[len(resps)-1], "v:")
			}
		}
		if ok {
			kept = append(kept, ops)
		}
	}
	out = kept
	for i, ops := range out {
		full := make([]string, 0, len(ops)+len(f.markers))
		for j, op := range ops {
			if op[0] == 'u' || op[0] == 'c' {
				op = fmt.Sprintf("%s:%s/%d", op, op[2:], 100+j)
			}
			full = append(full, op)
		}
		for j, m := range f.markers {
			full = append(full, fmt.Sprintf("u:%s:%s/%d", m, m, 900+j))
		}
		out[i] = full
	}
	return out
}

func stockToken(s *traits.Consumable_Stock) string {
	return fmt.Sprintf("%s/%d", unblanks(s.GetConsumable()), int(s.GetRemaining().GetAmount()))
}

func tokenStock(tok string) *traits.Consumable_Stock {
	i := strings.LastIndex(tok, "/")
	var n int
	fmt.Sscan(tok[i+1:], &n)
	return &traits.Consumable_Stock{Consumable: blanks(tok[:i]), Remaining: &traits.Consumable_Quantity{Amount: float32(n)}}
}

type spellStream struct {
	ch     chan string // values; closed when the stream has ended
	seen   []string    // values taken off ch so far
	ended  bool
	gaveUp bool // a message it was owed did not come within 2 s: no further waiting on this stream
	cancel context.CancelFunc
}

// sync reads until the stream has delivered n values (and has ended, if it is to end), 2 s at most.
func (st *spellStream) sync(n int, end bool) {
	if st.gaveUp || st.ended {
		return
	}
	timeout := time.After(2 * time.Second)
	for len(st.seen) < n || end {
		select {
		case v, ok := <-st.ch:
			if !ok {
				st.ended = true
				return
			}
			st.seen = append(st.seen, v)
		case <-timeout:
			st.gaveUp = true
			return
		}
	}
}

// spellExpect is the independent oracle: responses and per-stream (ended, values).
type spellExpStream struct {
	canon string
	ended bool
	vals  []string
}

func spellOracle(f *spellFamily, ops []string) (resps []string, streams []*spellExpStream) {
	regs := map[string]string{}
	for _, kv := range f.init {
		regs[f.icpt(blanks(kv[0]))] = kv[0] + "/" + kv[1]
	}
	announce := func(canon, v string) {
		for _, st := range streams {
			if st.canon == canon && !st.ended {
				st.vals = append(st.vals, v)
			}
		}
	}
	for _, op := range ops {
		p := strings.SplitN(op, ":", 3)
		canon := f.icpt(blanks(p[1]))
		cur, exists := regs[canon]
		switch p[0] {
		case "g":
			if exists {
				resps = append(resps, "v:"+cur)
			} else {
				resps = append(resps, "e:5")
			}
		case "u":
			if !exists {
				resps = append(resps, "e:5")
				break
			}
			regs[canon] = p[2]
			resps = append(resps, "v:"+p[2])
			announce(canon, p[2])
		case "c":
			if exists {
				resps = append(resps, "e:6")
				break
			}
			regs[canon] = p[2]
			resps = append(resps, "v:"+p[2])
			announce(canon, p[2])
		case "d":
			if !exists {
				resps = append(resps, "e:5")
				break
			}
			delete(regs, canon)
			resps = append(resps, "done")
			for _, st := range streams {
				if st.canon == canon {
					st.ended = true
				}
			}
		case "p", "q":
			st := &spellExpStream{canon: canon}
			if exists && p[0] == "p" {
				st.vals = append(st.vals, cur)
			}
			resps = append(resps, fmt.Sprintf("o%d", len(streams)))
			streams = append(streams, st)
		}
	}
	return
}

func showSpell(resps []string, streams []string) string {
	return strings.Join(resps, " ") + " | " + strings.Join(streams, " ")
}

func (o *spellExpStream) String() string {
	return map[bool]string{true: "-", false: "+"}[o.ended] + strings.Join(o.vals, ",")
}

// spellReal runs the session on the real stack; the oracle's expectation only tells how long to wait for each stream.
func spellReal(f *spellFamily, ops []string) string {
	opts := []resource.Option{resource.WithIDInterceptor(f.icpt)}
	for _, kv := range f.init {
		opts = append(opts, vendingpb.WithInitialStock(tokenStock(kv[0]+"/"+kv[1])))
	}
	var out string
	if p, msg := lib.Catch(func() {
		model := vendingpb.NewModel(opts...)
		r := vendingpb.NewApiRouter()
		r.Add(devName, vendingpb.WrapApi(vendingpb.NewModelServer(model)))
		client := vendingpb.WrapApi(r)
		ctx, cancelAll := context.WithCancel(context.Background())
		defer cancelAll()
		code := func(err error) string { return fmt.Sprintf("e:%d", int(status.Code(err))) }
		var resps []string
		var streams []*spellStream
		for k, op := range ops {
			p := strings.SplitN(op, ":", 3)
			id := blanks(p[1])
			switch p[0] {
			case "g":
				got, err := client.GetStock(ctx, &traits.GetStockRequest{Name: devName, Consumable: id})
				if err != nil {
					resps = append(resps, code(err))
				} else {
					resps = append(resps, "v:"+stockToken(got))
				}
			case "u":
				got, err := client.UpdateStock(ctx, &traits.UpdateStockRequest{Name: devName, Stock: tokenStock(p[2])})
				if err != nil {
					resps = append(resps, code(err))
				} else {
					resps = append(resps, "v:"+stockToken(got))
				}
			case "c":
				got, err := model.CreateStock(tokenStock(p[2]))
				if err != nil {
					resps = append(resps, code(err))
				} else {
					resps = append(resps, "v:"+stockToken(got))
				}
			case "d":
				if _, err := model.DeleteStock(id); err != nil {
					resps = append(resps, code(err))
				} else {
					resps = append(resps, "done")
				}
			case "p":
				sctx, cancel := context.WithCancel(ctx)
				st := &spellStream{ch: make(chan string, 32), cancel: cancel}
				stream, err := client.PullStock(sctx, &traits.PullStockRequest{Name: devName, Consumable: id})
				if err != nil {
					resps = append(resps, code(err))
					close(st.ch)
				} else {
					resps = append(resps, fmt.Sprintf("o%d", len(streams)))
					go func(ch chan string) {
						defer close(ch)
						for {
							m, err := stream.Recv()
							if err != nil {
								return
							}
							for _, c := range m.Changes {
								v := stockToken(c.Stock)
								if c.Name != devName {
									v += "@" + c.Name
								}
								ch <- v
							}
						}
					}(st.ch)
				}
				streams = append(streams, st)
			}
			// the readers keep up: before the next request is made every stream has delivered what it is owed so far
			// (a seed is delivered once the subscription exists; without backpressure a stream whose reader lags may
			// merge events, which is not in question here: stall sessions)
			_, owed := spellOracle(f, ops[:k+1])
			for i, st := range streams {
				if i < len(owed) {
					st.sync(len(owed[i].vals), owed[i].ended)
				}
			}
		}
		var shown []string
		for _, st := range streams {
			// surplus: whatever is there already
			for more := !st.ended; more; {
				select {
				case v, ok := <-st.ch:
					if !ok {
						st.ended, more = true, false
					} else {
						st.seen = append(st.seen, v)
					}
				default:
					more = false
				}
			}
			st.cancel()
			shown = append(shown, map[bool]string{true: "-", false: "+"}[st.ended]+strings.Join(st.seen, ","))
		}
		out = showSpell(resps, shown)
	}); p {
		return "panic:" + msg
	}
	return out
}

func spellLine(f *spellFamily, ops []string) string {
	return "spell " + f.name + " " + f.initToken() + " " + strings.Join(ops, " ")
}

// spellNonTrivial: a write names an item by another spelling than an open stream of it, or than the stored id.
func spellNonTrivial(f *spellFamily, ops []string) bool {
	pulled := map[string]string{}
	for _, op := range ops {
		p := strings.SplitN(op, ":", 3)
		canon := f.icpt(blanks(p[1]))
		switch p[0] {
		case "p", "q":
			pulled[canon] = p[1]
		case "u", "d":
			if sp, ok := pulled[canon]; ok && sp != p[1] {
				return true
			}
			if blanks(p[1]) != canon {
				return true
			}
		}
	}
	return false
}

func spellJudge(f *spellFamily, ops []string, real string) (ok bool, class, want string) {
	resps, streams := spellOracle(f, ops)
	var shown []string
	for _, st := range streams {
		shown = append(shown, st.String())
	}
	want = showSpell(resps, shown)
	if real == want {
		return true, "", want
	}
	rw := strings.SplitN(real, " | ", 2)
	ww := strings.SplitN(want, " | ", 2)
	if rw[0] != ww[0] {
		return false, "response-differs", want
	}
	return false, "stream-differs", want
}

func runSpellTie(fl lib.Flags, res *lib.Result) {
	tie := res.Tie("spelled-ids", "K2", spellTieRule)
	tie.Exhaustive = true
	mon := res.Monitor("one-register-per-item-whatever-the-spelling", spellMonRule)
	drv, err := lib.StartDriver(fl.Driver)
	if err != nil {
		tie.Fail(err)
		return
	}
	defer drv.Close()
	type tc struct {
		f   *spellFamily
		ops []string
	}
	var cases []tc
	for i := range spellFamilies {
		f := &spellFamilies[i]
		for _, ops := range spellSessions(f, fl.Tier != "quick") {
			cases = append(cases, tc{f, ops})
		}
	}
	lines := make([]string, len(cases))
	for i, c := range cases {
		lines[i] = spellLine(c.f, c.ops)
	}
	model, err := drv.Batch(lines)
	if err != nil {
		tie.Fail(err)
		return
	}
	reals := make([]string, len(cases))
	var wg sync.WaitGroup
	var failures sync.Map
	nfail := 0
	var mu sync.Mutex
	sem := make(chan struct{}, 8)
	for i := range cases {
		wg.Add(1)
		sem <- struct{}{}
		go func(i int) {
			defer wg.Done()
			defer func() { <-sem }()
			mu.Lock()
			stop := nfail >= 6
			mu.Unlock()
			if stop {
				// enough failing sessions: each costs seconds of waiting for messages that do not come
				failures.Store(i, true)
				return
			}
			reals[i] = spellReal(cases[i].f, cases[i].ops)
			if ok, _, _ := spellJudge(cases[i].f, cases[i].ops, reals[i]); !ok {
				// self-confirming: the verdict involves time (a message "did not arrive within 2 s")
				again := spellReal(cases[i].f, cases[i].ops)
				if ok2, _, _ := spellJudge(cases[i].f, cases[i].ops, again); ok2 {
					reals[i] = again
					return
				}
				mu.Lock()
				nfail++
				mu.Unlock()
			}
		}(i)
	}
	wg.Wait()
	for i, c := range cases {
		if _, skipped := failures.Load(i); skipped {
			tie.Count("skipped-after-failures")
			continue
		}
		in := map[string]any{"kind": "spell", "line": lines[i]}
		nt := spellNonTrivial(c.f, c.ops)
		tie.Record(lines[i], nt, in, model[i], reals[i])
		tie.Count("icpt:" + c.f.name)
		mon.Eval(lines[i], nt, nil)
		if ok, class, want := spellJudge(c.f, c.ops, reals[i]); !ok {
			mon.Violate("C14/vendingpb.NewModelServer/Stock/spelled-ids/"+class,
				"a keyed server whose collection has an id interceptor did not behave as one register per item under every spelling of its id (responses | per stream: + live / - ended, then the values it carried)",
				in, want, reals[i])
		}
	}
}

func replaySpell(in map[string]any) int {
	line, _ := in["line"].(string)
	toks := strings.Fields(line)
	if len(toks) < 3 || spellFamilyOf(toks[1]) == nil {
		fmt.Println("replay: malformed spell input")
		return 2
	}
	f := spellFamilyOf(toks[1])
	ops := toks[3:]
	real := spellReal(f, ops)
	fmt.Printf("replay %s:\n  %s\n", line, real)
	if ok, class, want := spellJudge(f, ops, real); !ok {
		fmt.Printf("STILL FAILS C14/vendingpb.NewModelServer/Stock/spelled-ids/%s:\n  expected %s\n", class, want)
		return 1
	}
	fmt.Println("replay: property holds on this input now")
	return 0
}
